//go:build verif

package invoices

// C15 correspondence harness: drives the REAL InvoiceRegistry (NotifyExitHopHtlc,
// SettleHodlInvoice, cancelInvoiceImpl, cancelSingleHtlc, AddInvoice) on seeded
// event sequences over a small universe of invoices and HTLCs, on the native
// SQL store (sqlite) and -- through the constructor handed in by the external
// test file verif_registry_kv_test.go -- on the channeldb KV store.  After
// every event it records the direct HtlcResolution, everything delivered on
// the hodl channel, and LookupInvoice of every invoice of the universe.
//
// The Coq model (Invoice/Exec.v) re-runs the same events and must agree;
// props/c15.py additionally evaluates the C15 predicate on this trace alone.

import (
	"context"
	"crypto/sha256"
	"database/sql"
	"encoding/hex"
	"errors"
	"fmt"
	"sort"
	"testing"
	"time"

	"github.com/btcsuite/btcd/chainhash/v2"
	"github.com/lightningnetwork/lnd/amp"
	"github.com/lightningnetwork/lnd/chainntnfs"
	"github.com/lightningnetwork/lnd/clock"
	"github.com/lightningnetwork/lnd/lntypes"
	"github.com/lightningnetwork/lnd/lnwire"
	"github.com/lightningnetwork/lnd/record"
	"github.com/lightningnetwork/lnd/sqldb"
)

var vTestTime = time.Date(2018, time.February, 2, 14, 0, 0, 0, time.UTC)

type vNotifier struct {
	chainntnfs.ChainNotifier
	blockChan chan *chainntnfs.BlockEpoch
}

func (m *vNotifier) RegisterBlockEpochNtfn(*chainntnfs.BlockEpoch) (
	*chainntnfs.BlockEpochEvent, error) {

	return &chainntnfs.BlockEpochEvent{
		Epochs: m.blockChan,
		Cancel: func() {},
	}, nil
}

type vPayload struct {
	mpp     *record.MPP
	amp     *record.AMP
	custom  record.CustomSet
	pathID  *chainhash.Hash
	total   lnwire.MilliSatoshi
}

func (p *vPayload) MultiPath() *record.MPP { return p.mpp }
func (p *vPayload) AMPRecord() *record.AMP { return p.amp }
func (p *vPayload) CustomRecords() record.CustomSet {
	if p.custom == nil {
		return make(record.CustomSet)
	}
	return p.custom
}
func (p *vPayload) Metadata() []byte                    { return nil }
func (p *vPayload) PathID() *chainhash.Hash              { return p.pathID }
func (p *vPayload) TotalAmtMsat() lnwire.MilliSatoshi    { return p.total }

// VMakeDB builds a fresh invoice store + its clock.
type VMakeDB func(t *testing.T) (InvoiceDB, *clock.TestClock)

func vMakeSQL(t *testing.T) (InvoiceDB, *clock.TestClock) {
	db := sqldb.NewTestSqliteDB(t).BaseDB
	executor := sqldb.NewTransactionExecutor(
		db, func(tx *sql.Tx) SQLInvoiceQueries {
			return db.WithTx(tx)
		},
	)
	c := clock.NewTestClock(vTestTime)
	return NewSQLStore(executor, c), c
}

func vFailName(o FailResolutionResult) string {
	switch o {
	case ResultReplayToCanceled:
		return "replay_canceled"
	case ResultInvoiceAlreadyCanceled:
		return "already_canceled"
	case ResultInvoiceAlreadySettled:
		return "already_settled"
	case ResultAmountTooLow:
		return "amount_too_low"
	case ResultExpiryTooSoon:
		return "expiry_too_soon"
	case ResultCanceled:
		return "canceled"
	case ResultInvoiceNotOpen:
		return "not_open"
	case ResultMppTimeout:
		return "mpp_timeout"
	case ResultAddressMismatch:
		return "address_mismatch"
	case ResultHtlcSetTotalMismatch:
		return "set_total_mismatch"
	case ResultHtlcSetTotalTooLow:
		return "set_total_too_low"
	case ResultHtlcSetOverpayment:
		return "set_overpayment"
	case ResultInvoiceNotFound:
		return "not_found"
	case ResultKeySendError:
		return "keysend_error"
	case ResultMppInProgress:
		return "mpp_in_progress"
	case ResultHtlcInvoiceTypeMismatch:
		return "type_mismatch"
	case ResultAmpError:
		return "amp_error"
	case ResultAmpReconstruction:
		return "amp_reconstruction"
	}
	return "unknown_fail"
}

func vSettleName(o SettleResolutionResult) string {
	switch o {
	case ResultSettled:
		return "settled"
	case ResultReplayToSettled:
		return "replay_settled"
	case ResultDuplicateToSettled:
		return "duplicate_settled"
	}
	return "unknown_settle"
}

func vErrName(err error) string {
	switch {
	case err == nil:
		return "ok"
	case errors.Is(err, ErrDuplicateInvoice), errors.Is(err, ErrDuplicatePayAddr):
		return "dup"
	case errors.Is(err, ErrInvoiceNotFound), errors.Is(err, ErrNoInvoicesCreated),
		errors.Is(err, ErrInvRefEquivocation):
		return "not_found"
	case errors.Is(err, ErrInvoiceStillOpen):
		return "still_open"
	case errors.Is(err, ErrInvoiceAlreadyCanceled):
		return "already_canceled"
	case errors.Is(err, ErrInvoiceAlreadySettled):
		return "already_settled"
	}
	return "other"
}

// ---- universe ----

type vInvoice struct {
	Hash    int    `json:"hash"`
	Addr    int    `json:"addr"`
	Value   uint64 `json:"value"`
	Pre     *int   `json:"pre"`
	Delta   int32  `json:"delta"`
	Hodl    bool   `json:"hodl"`
	Amp     bool   `json:"amp"`
	AddrReq bool   `json:"addr_req"`
	Kind    string `json:"kind"`
}

type vHtlc struct {
	Hash    int     `json:"hash"`
	HashHex string  `json:"hash_hex"`
	Key     int     `json:"key"`
	Amt     uint64  `json:"amt"`
	Expiry  uint32  `json:"expiry"`
	Height  int32   `json:"height"`
	Mpp     []int64 `json:"mpp"` // [addr id, total] or nil
	Amp     bool    `json:"amp"`
	Path    *int    `json:"path"`
	Total   uint64  `json:"total"`
	Ks      any     `json:"ks"` // nil | "bad" | preimage id
	// AMP record (ids; meaningful when Amp)
	SetID int    `json:"set_id"`
	Share int    `json:"share"`
	Idx   uint32 `json:"idx"`
	// raw root share (lets the python predicate redo the AMP derivation itself)
	ShareHex string `json:"share_hex,omitempty"`
	// this notification is a link's replay after a registry restart
	AfterRestart bool `json:"after_restart,omitempty"`
	ampRec *record.AMP
}

type vUniverse struct {
	pre      [][32]byte       // preimage id i+1
	hash     [][32]byte       // hash id i+1 ; first len(pre) are sha256(pre[i])
	addr     [][32]byte       // addr id i+1
	preID    map[[32]byte]int
	chanBase uint64
	// AMP id spaces
	hashIDs  map[[32]byte]int // every hash with an id (u.hash ids + derived children)
	shareIDs map[[32]byte]int
	setIDs   map[[32]byte]int
	nextAux  int // ids for derived hashes that are no lookup target
	ampTbl   []vAmpEntry
	ampSeen  map[string]bool
	// circuit keys: key id -> (ChanID, HtlcID) drawn over the full uint64 domain
	kr      *vrng
	keys    map[int]CircuitKey
	keyIDs  map[CircuitKey]int
	chans   []uint64
}

// vAmpEntry is one point of the reconstruction oracle: descs (share id, child
// index) sorted ascending -> (child hash id, child preimage id), computed by
// amp.ReconstructChildren.
type vAmpEntry struct {
	Descs [][2]int `json:"descs"`
	Res   [][2]int `json:"res"`
}

func (u *vUniverse) shareID(s [32]byte) int {
	if id, ok := u.shareIDs[s]; ok {
		return id
	}
	id := len(u.shareIDs) + 1
	u.shareIDs[s] = id
	return id
}

// lookupHashID registers h as a lookup target (an HTLC's payment hash).
func (u *vUniverse) lookupHashID(h [32]byte) int {
	if id, ok := u.hashIDs[h]; ok && id <= len(u.hash) {
		return id
	}
	u.hash = append(u.hash, h)
	u.hashIDs[h] = len(u.hash)
	return len(u.hash)
}

func (u *vUniverse) anyHashID(h [32]byte) int {
	if id, ok := u.hashIDs[h]; ok {
		return id
	}
	u.nextAux++
	u.hashIDs[h] = u.nextAux
	return u.nextAux
}

func (u *vUniverse) anyPreID(p [32]byte) int {
	if id, ok := u.preID[p]; ok {
		return id
	}
	id := 10 + len(u.preID)
	u.preID[p] = id
	return id
}

// ampOracle records the oracle points for every non-empty subset of the AMP
// records in group (all HTLC variants carrying one set id).
func (u *vUniverse) ampOracle(group []*vHtlc) {
	n := len(group)
	for mask := 1; mask < (1 << n); mask++ {
		var sel []*vHtlc
		for i := 0; i < n; i++ {
			if mask&(1<<i) != 0 {
				sel = append(sel, group[i])
			}
		}
		sort.SliceStable(sel, func(i, j int) bool {
			if sel[i].Share != sel[j].Share {
				return sel[i].Share < sel[j].Share
			}
			return sel[i].Idx < sel[j].Idx
		})
		key := ""
		descs := make([]amp.ChildDesc, len(sel))
		e := vAmpEntry{}
		for i, h := range sel {
			descs[i] = amp.ChildDesc{Share: amp.Share(h.ampRec.RootShare()), Index: h.ampRec.ChildIndex()}
			e.Descs = append(e.Descs, [2]int{h.Share, int(h.Idx)})
			key += fmt.Sprintf("%d:%d,", h.Share, h.Idx)
		}
		if u.ampSeen[key] {
			continue
		}
		u.ampSeen[key] = true
		for _, c := range amp.ReconstructChildren(descs...) {
			e.Res = append(e.Res, [2]int{u.anyHashID(c.Hash), u.anyPreID(c.Preimage)})
		}
		u.ampTbl = append(u.ampTbl, e)
	}
}

func (u *vUniverse) hashOf(id int) lntypes.Hash { return lntypes.Hash(u.hash[id-1]) }
func (u *vUniverse) addrOf(id int) [32]byte {
	if id == 0 {
		return [32]byte{}
	}
	return u.addr[id-1]
}
// Boundary classes of a uint64 key component as the stores see it: the SQL
// store binds HtlcID as int64 and renders ChanID as decimal text, the KV store
// writes 8 big-endian bytes each.  vAliasBase is aliasmgr.StartingAlias (the
// scid of every zero-conf / alias channel: block height 16,000,000, > 2^63).
var vAliasBase = lnwire.ShortChannelID{BlockHeight: 16_000_000}.ToUint64()

var vU64Classes = []uint64{0, 1, 2, 1000, 1<<31 - 1, 1 << 31, 1<<31 + 1, 1<<32 - 1, 1 << 32,
	1<<32 + 1, 1 << 62, 1<<63 - 1, 1 << 63, 1<<63 + 1, vAliasBase, vAliasBase + 1,
	vAliasBase + 7<<16 + 3, 1<<64 - 2, 1<<64 - 1}

func (u *vUniverse) u64Class(r *vrng) uint64 {
	v := vPick(r, vU64Classes)
	if r.intn(4) == 0 {
		v += uint64(r.intn(3)) // wraps at 2^64-1: also a class
	}
	return v
}

// HtlcID is the per-channel counter of update_add_htlc: lnwallet.ReceiveHTLC
// only accepts the next sequential id, so ids >= 2^63 cannot occur (and the SQL
// store, which keeps the id in a signed 64-bit column, refuses to read such a
// row back: "invalid HTLC ID value").  The domain is therefore [0, 2^63).
func (u *vUniverse) htlcIDClass(r *vrng) uint64 {
	v := u.u64Class(r)
	if v >= 1<<63 {
		v = 1<<63 - 1 - v%5
	}
	return v
}

// key maps a key id of the trace / model to the circuit key used on the wire.
// ChanID comes from a small per-case pool of channels (a normal one, an alias
// one, random boundary classes) so that htlcs of one invoice arrive over
// different kinds of channels and several htlcs share a channel; HtlcID is a
// boundary class or a small counter.  The mapping is injective and depends on
// (case rng, k) only, hence is the same on both stores.
func (u *vUniverse) key(k int) CircuitKey {
	if ck, ok := u.keys[k]; ok {
		return ck
	}
	r := u.kr.fork(uint64(k))
	if u.chans == nil {
		pr := u.kr.fork(1 << 40)
		u.chans = []uint64{u.chanBase, vAliasBase + uint64(pr.intn(1000)), u.u64Class(pr),
			u.u64Class(pr)}
	}
	ck := CircuitKey{ChanID: lnwire.NewShortChanIDFromInt(vPick(r, u.chans))}
	if r.bool() {
		ck.HtlcID = u.htlcIDClass(r)
	} else {
		ck.HtlcID = uint64(k)
	}
	for {
		if _, used := u.keyIDs[ck]; !used {
			break
		}
		ck.HtlcID = (ck.HtlcID + 1<<33) % (1 << 63)
	}
	u.keys[k] = ck
	u.keyIDs[ck] = k
	return ck
}
func (u *vUniverse) keyID(k CircuitKey) int {
	if id, ok := u.keyIDs[k]; ok {
		return id
	}
	return 999999 // a circuit key the harness never sent
}

func vFeatures(bits ...lnwire.FeatureBit) *lnwire.FeatureVector {
	return lnwire.NewFeatureVector(lnwire.NewRawFeatureVector(bits...), lnwire.Features)
}

func (u *vUniverse) mkInvoice(v *vInvoice, now time.Time) *Invoice {
	bits := []lnwire.FeatureBit{lnwire.TLVOnionPayloadRequired}
	switch {
	case v.Amp:
		bits = append(bits, lnwire.PaymentAddrOptional, lnwire.AMPRequired)
	case v.AddrReq:
		bits = append(bits, lnwire.PaymentAddrRequired)
	case v.Addr != 0:
		bits = append(bits, lnwire.PaymentAddrOptional)
	}
	inv := &Invoice{
		CreationDate: now,
		Terms: ContractTerm{
			Value:          lnwire.MilliSatoshi(v.Value),
			Expiry:         time.Hour,
			FinalCltvDelta: v.Delta,
			PaymentAddr:    u.addrOf(v.Addr),
			Features:       vFeatures(bits...),
		},
		HodlInvoice:    v.Hodl,
		PaymentRequest: []byte(fmt.Sprintf("lnverif-%d-%x", v.Hash, u.hash[v.Hash-1][:6])),
	}
	if v.Pre != nil {
		p := lntypes.Preimage(u.pre[*v.Pre-1])
		inv.Terms.PaymentPreimage = &p
	}
	return inv
}

func (u *vUniverse) payload(h *vHtlc) *vPayload {
	p := &vPayload{total: lnwire.MilliSatoshi(h.Total)}
	if h.Mpp != nil {
		p.mpp = record.NewMPP(lnwire.MilliSatoshi(uint64(h.Mpp[1])), u.addrOf(int(h.Mpp[0])))
	}
	if h.ampRec != nil {
		p.amp = h.ampRec
	} else if h.Amp {
		var share, set [32]byte
		share[0], set[0] = 7, 9
		p.amp = record.NewAMP(share, set, 1)
		h.SetID, h.Share, h.Idx = 9, 7, 1
	}
	if h.Path != nil {
		ph := chainhash.Hash(u.addrOf(*h.Path))
		p.pathID = &ph
	}
	switch ks := h.Ks.(type) {
	case string:
		p.custom = record.CustomSet{record.KeySendType: []byte{1, 2, 3}}
	case int:
		pre := u.pre[ks-1]
		p.custom = record.CustomSet{record.KeySendType: pre[:]}
	}
	return p
}

// ---- one case ----

type vOp struct {
	Ev    []any   `json:"ev"`
	Reply []any   `json:"reply"`
	Ntf   [][]any `json:"ntf"`
	Snap  []vSnap `json:"snap"`
}

type vSnapHtlc struct {
	Key    int    `json:"key"`
	Amt    uint64 `json:"amt"`
	Total  uint64 `json:"total"`
	Expiry uint32 `json:"expiry"`
	Height uint32 `json:"height"`
	State  string `json:"state"`
	// ResolveTime is set (non-zero) in the stored record
	Resolved bool `json:"resolved"`
	// the circuit key as stored
	Chan uint64 `json:"chan"`
	Htlc uint64 `json:"htlc"`
	// AMP only (ids; amp_pre -1 = none)
	Amp     bool   `json:"amp"`
	SetID   int    `json:"set_id"`
	AmpHash int    `json:"amp_hash"`
	AmpPre  int    `json:"amp_pre"`
	AmpPreHex string `json:"amp_pre_hex,omitempty"`
	AmpHashHex string `json:"amp_hash_hex,omitempty"`
}

type vSnap struct {
	Hash  int         `json:"hash"`
	State string      `json:"state"`
	Paid  uint64      `json:"paid"`
	Pre   *int        `json:"pre"`
	PreHex string     `json:"pre_hex,omitempty"`
	Htlcs []vSnapHtlc `json:"htlcs"`
	// AMPState: [set id, state (0 accepted,1 canceled,2 settled), amt paid], sorted
	AmpState [][3]uint64 `json:"amp_state"`
	// AMPState[set].InvoiceKeys: [set id, key, key, ...] (keys ascending), sorted by set id
	AmpKeys [][]int `json:"amp_keys"`
}

type vCase struct {
	Kind    string         `json:"kind"`
	Scn     string         `json:"scenario,omitempty"`
	Restarts int           `json:"restarts,omitempty"`
	Backend string         `json:"backend"`
	Case    int            `json:"case"`
	Cfg     map[string]any `json:"cfg"`
	Tbl     [][2]int       `json:"tbl"`
	AmpTbl  []vAmpEntry    `json:"amp_tbl"`
	HashHex []string       `json:"hash_hex"`
	Ops     []vOp          `json:"ops"`
}

type vRun struct {
	t    *testing.T
	u    *vUniverse
	reg  *InvoiceRegistry
	hodl chan interface{}
	ops  []vOp
	// for restarts (AMP set stream)
	idb  InvoiceDB
	clk  *clock.TestClock
	cfg  RegistryConfig
	// every htlc ever notified, in order of first arrival (what the links hold)
	arrived    map[int]*vHtlc
	arrivedOrd []int
}

func vCState(s ContractState) string {
	switch s {
	case ContractOpen:
		return "open"
	case ContractSettled:
		return "settled"
	case ContractCanceled:
		return "canceled"
	case ContractAccepted:
		return "accepted"
	}
	return "?"
}

func vHState(s HtlcState) string {
	switch s {
	case HtlcStateAccepted:
		return "accepted"
	case HtlcStateCanceled:
		return "canceled"
	case HtlcStateSettled:
		return "settled"
	}
	return "?"
}

func (r *vRun) resArr(res HtlcResolution) []any {
	switch x := res.(type) {
	case *HtlcSettleResolution:
		pid := 999
		if id, ok := r.u.preID[x.Preimage]; ok {
			pid = id
		}
		return []any{"settle", r.u.keyID(x.CircuitKey()), pid, x.AcceptHeight,
			vSettleName(x.Outcome), hex.EncodeToString(x.Preimage[:])}
	case *HtlcFailResolution:
		return []any{"fail", r.u.keyID(x.CircuitKey()), x.AcceptHeight, vFailName(x.Outcome)}
	}
	return []any{"unknown"}
}

func (r *vRun) drain() [][]any {
	out := [][]any{}
	for {
		select {
		case m := <-r.hodl:
			res, ok := m.(HtlcResolution)
			if !ok {
				out = append(out, []any{"unknown"})
				continue
			}
			out = append(out, r.resArr(res))
		default:
			sort.Slice(out, func(i, j int) bool {
				a, b := out[i], out[j]
				if a[1].(int) != b[1].(int) {
					return a[1].(int) < b[1].(int)
				}
				return a[0].(string) < b[0].(string)
			})
			return out
		}
	}
}

func (r *vRun) snapshot() []vSnap {
	out := []vSnap{}
	one := func(id int, hash lntypes.Hash) bool {
		inv, err := r.reg.LookupInvoice(context.Background(), hash)
		if err != nil {
			return false
		}
		s := vSnap{Hash: id, State: vCState(inv.State), Paid: uint64(inv.AmtPaid),
			Htlcs: []vSnapHtlc{}}
		if inv.Terms.PaymentPreimage != nil {
			pid := 999
			if x, ok := r.u.preID[*inv.Terms.PaymentPreimage]; ok {
				pid = x
			}
			s.Pre = &pid
			s.PreHex = hex.EncodeToString(inv.Terms.PaymentPreimage[:])
		}
		for k, h := range inv.Htlcs {
			sh := vSnapHtlc{Key: r.u.keyID(k), Amt: uint64(h.Amt),
				Total: uint64(h.MppTotalAmt), Expiry: h.Expiry, Height: h.AcceptHeight,
				State: vHState(h.State), Resolved: !h.ResolveTime.IsZero(),
				Chan: k.ChanID.ToUint64(), Htlc: k.HtlcID}
			sh.AmpPre = -1
			if h.AMP != nil {
				sh.Amp = true
				sid, ok := r.u.setIDs[h.AMP.Record.SetID()]
				if !ok {
					sid = 997
				}
				sh.SetID = sid
				sh.AmpHash = 998
				if id, ok := r.u.hashIDs[h.AMP.Hash]; ok {
					sh.AmpHash = id
				}
				sh.AmpHashHex = hex.EncodeToString(h.AMP.Hash[:])
				if h.AMP.Preimage != nil {
					sh.AmpPre = 999
					if id, ok := r.u.preID[*h.AMP.Preimage]; ok {
						sh.AmpPre = id
					}
					sh.AmpPreHex = hex.EncodeToString(h.AMP.Preimage[:])
				}
			}
			s.Htlcs = append(s.Htlcs, sh)
		}
		sort.Slice(s.Htlcs, func(i, j int) bool { return s.Htlcs[i].Key < s.Htlcs[j].Key })
		s.AmpState = [][3]uint64{}
		s.AmpKeys = [][]int{}
		for sid, st := range inv.AMPState {
			id, ok := r.u.setIDs[sid]
			if !ok {
				id = 997
			}
			s.AmpState = append(s.AmpState, [3]uint64{uint64(id), uint64(st.State), uint64(st.AmtPaid)})
			ks := []int{}
			for k := range st.InvoiceKeys {
				ks = append(ks, r.u.keyID(k))
			}
			sort.Ints(ks)
			s.AmpKeys = append(s.AmpKeys, append([]int{id}, ks...))
		}
		sort.Slice(s.AmpState, func(i, j int) bool { return s.AmpState[i][0] < s.AmpState[j][0] })
		sort.Slice(s.AmpKeys, func(i, j int) bool { return s.AmpKeys[i][0] < s.AmpKeys[j][0] })
		out = append(out, s)
		return true
	}
	for id := 1; id <= len(r.u.hash); id++ {
		one(id, r.u.hashOf(id))
	}
	return out
}

func (r *vRun) record(ev []any, reply []any) {
	r.ops = append(r.ops, vOp{Ev: ev, Reply: reply, Ntf: r.drain(), Snap: r.snapshot()})
}

func (r *vRun) add(v *vInvoice) {
	inv := r.u.mkInvoice(v, vTestTime)
	_, err := r.reg.AddInvoice(context.Background(), inv, r.u.hashOf(v.Hash))
	name := vErrName(err)
	if name == "other" {
		name = "invalid"
	}
	r.record([]any{"add", v}, []any{"api", name})
}

func (r *vRun) notify(h *vHtlc, height int32) {
	if r.arrived == nil {
		r.arrived = map[int]*vHtlc{}
	}
	if _, ok := r.arrived[h.Key]; !ok {
		r.arrived[h.Key] = h
		r.arrivedOrd = append(r.arrivedOrd, h.Key)
	}
	pl := r.u.payload(h)
	hh := *h
	hh.Height = height
	hash := r.u.hashOf(h.Hash)
	hh.HashHex = hex.EncodeToString(hash[:])
	res, err := r.reg.NotifyExitHopHtlc(
		hash, lnwire.MilliSatoshi(h.Amt), h.Expiry, height, r.u.key(h.Key),
		r.hodl, nil, pl,
	)
	var reply []any
	switch {
	case err != nil:
		reply = []any{"err", err.Error()}
	case res == nil:
		reply = []any{"nil"}
	default:
		reply = r.resArr(res)
	}
	r.record([]any{"notify", &hh}, reply)
}

func (r *vRun) settle(pid int) {
	p := lntypes.Preimage(r.u.pre[pid-1])
	err := r.reg.SettleHodlInvoice(context.Background(), p)
	r.record([]any{"settle", pid, hex.EncodeToString(p[:])}, []any{"api", vErrName(err)})
}

func (r *vRun) cancel(hash int, force bool) {
	err := r.reg.cancelInvoiceImpl(context.Background(), r.u.hashOf(hash), force)
	r.record([]any{"cancel", hash, force}, []any{"api", vErrName(err)})
}

func (r *vRun) timeout(h *vHtlc) {
	if h.Amp && h.ampRec == nil {
		// AMP-record HTLCs of the model stream are never accepted, so no
		// release timer is ever started for them.
		return
	}
	var ref InvoiceRef
	var addr any
	hash := r.u.hashOf(h.Hash)
	switch {
	case h.ampRec != nil:
		// the registry's release timer of an AMP htlc refers to it by set id
		ref = InvoiceRefBySetID(h.ampRec.SetID())
		err := r.reg.cancelSingleHtlc(ref, r.u.key(h.Key), ResultMppTimeout)
		r.record([]any{"timeout_set", h.SetID, h.Key}, []any{"api", vErrName(err)})
		return
	case h.Path != nil:
		ref = InvoiceRefByHashAndAddr(hash, r.u.addrOf(*h.Path))
		addr = *h.Path
	case h.Mpp != nil && h.Amp:
		ref = InvoiceRefByAddr(r.u.addrOf(int(h.Mpp[0])))
		addr = h.Mpp[0]
	case h.Mpp != nil:
		ref = InvoiceRefByHashAndAddr(hash, r.u.addrOf(int(h.Mpp[0])))
		addr = h.Mpp[0]
	default:
		ref = InvoiceRefByHash(hash)
	}
	err := r.reg.cancelSingleHtlc(ref, r.u.key(h.Key), ResultMppTimeout)
	r.record([]any{"timeout", h.Hash, addr, h.Key}, []any{"api", vErrName(err)})
}

func vNewUniverse(r *vrng, npre, nextra, naddr int, ci int) *vUniverse {
	u := &vUniverse{preID: map[[32]byte]int{}, chanBase: uint64(1000 + 4*ci),
		hashIDs: map[[32]byte]int{}, shareIDs: map[[32]byte]int{}, setIDs: map[[32]byte]int{},
		nextAux: 500, ampSeen: map[string]bool{}, kr: r.fork(0xc1c1),
		keys: map[int]CircuitKey{}, keyIDs: map[CircuitKey]int{}}
	for i := 0; i < npre; i++ {
		var p [32]byte
		copy(p[:], r.bytes(32))
		p[0] |= 1 // never the all-zero preimage
		u.pre = append(u.pre, p)
		u.preID[p] = i + 1
		u.hash = append(u.hash, sha256.Sum256(p[:]))
	}
	for i := 0; i < nextra; i++ {
		var h [32]byte
		copy(h[:], r.bytes(32))
		u.hash = append(u.hash, h)
	}
	for i := 0; i < naddr; i++ {
		var a [32]byte
		copy(a[:], r.bytes(32))
		a[0] |= 1
		u.addr = append(u.addr, a)
	}
	for i, h := range u.hash {
		u.hashIDs[h] = i + 1
	}
	// the fixed AMP record of the model stream: share id 7, set id 9, index 1
	var share, set [32]byte
	share[0], set[0] = 7, 9
	u.shareIDs[share] = 7
	u.setIDs[set] = 9
	u.setIDs[[32]byte{}] = 0
	return u
}

func vNewRegistry(t *testing.T, mk VMakeDB, cfg RegistryConfig) *InvoiceRegistry {
	idb, clk := mk(t)
	return vNewRegistryOn(t, idb, clk, cfg)
}

// vNewRegistryOn starts a registry on an existing store (also used to restart).
func vNewRegistryOn(t *testing.T, idb InvoiceDB, clk *clock.TestClock,
	cfg RegistryConfig) *InvoiceRegistry {

	notifier := &vNotifier{blockChan: make(chan *chainntnfs.BlockEpoch)}
	// Start height 0 and no block epochs: the expiry watcher (an asynchronous
	// caller of cancelInvoiceImpl when an accepted hold htlc reaches its
	// expiry height) stays inert; its cancels are driven explicitly as
	// "cancel" events instead.  Every accepted htlc has expiry >= 1 here.
	ew := NewInvoiceExpiryWatcher(clk, 0, 0, nil, notifier)
	cfg.Clock = clk
	cfg.HtlcInterceptor = &MockHtlcModifier{}
	cfg.HtlcHoldDuration = 30 * time.Second
	reg := NewRegistry(idb, ew, &cfg)
	if err := reg.Start(); err != nil {
		t.Fatalf("registry start: %v", err)
	}
	t.Cleanup(func() { _ = reg.Stop() })
	return reg
}

func vPick[T any](r *vrng, xs []T) T { return xs[r.intn(len(xs))] }

// vModelCase generates and runs one model-tied case.
func vModelCase(t *testing.T, r *vrng, ci int, backend string, mk VMakeDB) *vCase {
	const npre, nextra, naddr = 5, 1, 3
	u := vNewUniverse(r, npre, nextra, naddr, ci)
	rd := int32(vPick(r, []int{4, 4, 10, 0}))
	keysend := r.intn(3) == 0
	kshold := keysend && r.intn(3) == 0
	cfg := RegistryConfig{FinalCltvRejectDelta: rd, AcceptKeySend: keysend}
	if kshold {
		cfg.KeysendHoldTime = time.Minute
	}
	reg := vNewRegistry(t, mk, cfg)
	run := &vRun{t: t, u: u, reg: reg, hodl: make(chan interface{}, 256)}
	c := &vCase{Kind: "model", Backend: backend, Case: ci,
		Cfg: map[string]any{"rd": rd, "keysend": keysend, "kshold": kshold, "amp": false,
			"kv": backend == "kv"}}
	for i := 0; i < npre; i++ {
		c.Tbl = append(c.Tbl, [2]int{i + 1, i + 1})
	}
	for _, h := range u.hash {
		c.HashHex = append(c.HashHex, hex.EncodeToString(h[:]))
	}

	// --- invoices ---
	// heights: small, realistic, and just below the int32 limit (expiries then
	// cross 2^31: the SQL store keeps them in int32 columns)
	baseHeight := int32(vPick(r, []int{1, 100, 700000, 700000, 1<<31 - 61}))
	// amounts: boundary-small, ordinary, and large (< 2^63: int64 columns)
	values := []uint64{0, 1, 1000, 100000, 100000, 2500, 1 << 60}
	var invs []*vInvoice
	ninv := 2 + r.intn(2)
	for i := 0; i < ninv; i++ {
		v := &vInvoice{Hash: i + 1, Value: vPick(r, values), Delta: int32(vPick(r, []int{4, 9, 40, 3}))}
		pre := i + 1
		switch k := r.intn(12); {
		case k < 3:
			v.Kind = "regular"
			v.Pre = &pre
			if r.bool() {
				v.Addr = 1 + r.intn(naddr)
			}
		case k < 6:
			v.Kind = "mpp"
			v.Pre = &pre
			v.Addr = 1 + r.intn(naddr)
			v.AddrReq = true
		case k < 8:
			v.Kind = "hodl"
			v.Hodl = true
			if r.bool() {
				v.Addr = 1 + r.intn(naddr)
				v.AddrReq = r.bool()
			}
		case k < 9:
			v.Kind = "hodl_mpp"
			v.Hodl = true
			v.Addr = 1 + r.intn(naddr)
			v.AddrReq = true
		case k < 10:
			v.Kind = "amp_invoice"
			v.Amp = true
			v.Addr = 1 + r.intn(naddr)
		case k < 11:
			// malformed: preimage of another hash
			v.Kind = "wrong_preimage"
			wp := 1 + (i+1)%npre
			v.Pre = &wp
			if r.bool() {
				v.Addr = 1 + r.intn(naddr)
			}
		default:
			// malformed: no preimage on a non-hodl invoice
			v.Kind = "no_preimage"
		}
		invs = append(invs, v)
	}

	// --- htlc universe: built around the invoices ---
	var htlcs []*vHtlc
	nextKey := 1
	mk1 := func(h *vHtlc) *vHtlc {
		h.Key = nextKey
		nextKey++
		htlcs = append(htlcs, h)
		return h
	}
	expiryFor := func(v *vInvoice) uint32 {
		d := v.Delta
		if rd > d {
			d = rd
		}
		// boundary: exactly enough, one short, one more; sometimes plenty
		off := vPick(r, []int32{0, 0, 0, 1, -1, 30})
		if r.intn(25) == 0 {
			return 1<<32 - 1 // the largest expiry
		}
		if r.intn(8) == 0 {
			// between the two deltas
			lo := v.Delta
			if rd < lo {
				lo = rd
			}
			return uint32(baseHeight + lo)
		}
		return uint32(baseHeight + d + off)
	}
	amtAround := func(v uint64) uint64 {
		switch r.intn(6) {
		case 0:
			if v > 0 {
				return v - 1
			}
			return 0
		case 1:
			return v + 1
		case 2:
			return v * 2
		default:
			return v
		}
	}
	ampAddr := func(a int) bool {
		for _, v := range invs {
			if v.Amp && v.Addr == a {
				return true
			}
		}
		return false
	}
	for _, v := range invs {
		n := 2 + r.intn(3)
		for j := 0; j < n; j++ {
			switch k := r.intn(14); {
			case k < 3: // legacy
				mk1(&vHtlc{Hash: v.Hash, Amt: amtAround(v.Value), Expiry: expiryFor(v)})
			case k < 9: // mpp set of 1..3 shards
				total := amtAround(v.Value)
				if total == 0 && r.intn(3) > 0 {
					total = 1 + uint64(r.intn(5000))
				}
				addr := v.Addr
				if r.intn(7) == 0 {
					addr = 1 + r.intn(naddr)
				}
				if r.intn(15) == 0 {
					addr = 0
				}
				shards := 1 + r.intn(3)
				rem := total
				for s := 0; s < shards; s++ {
					var a uint64
					if s == shards-1 {
						a = rem
						switch r.intn(6) {
						case 0:
							if a > 0 {
								a--
							}
						case 1:
							a++
						}
					} else if rem > 0 {
						a = uint64(r.rng(0, int64(rem)))
					}
					rem -= minU64(a, rem)
					t2 := total
					if r.intn(10) == 0 {
						t2 = total + 1 // mismatching set total
					}
					a2 := addr
					if s > 0 && r.intn(6) == 0 {
						// a later shard of an otherwise consistent set
						// carries another payment address
						a2 = 1 + r.intn(naddr)
					}
					h := &vHtlc{Hash: v.Hash, Amt: a, Expiry: expiryFor(v),
						Mpp: []int64{int64(a2), int64(t2)}}
					if r.intn(12) == 0 {
						// blinded path instead of MPP record
						h.Mpp = nil
						pa := a2
						h.Path = &pa
						h.Total = t2
					}
					if r.intn(25) == 0 && !ampAddr(addr) {
						h.Amp = true // AMP record towards a (mostly) non-AMP invoice
					}
					mk1(h)
				}
			case k < 10: // AMP record without MPP record
				mk1(&vHtlc{Hash: v.Hash, Amt: v.Value, Expiry: expiryFor(v), Amp: true})
			case k < 12: // keysend record towards an existing invoice
				var ks any = v.Hash
				if v.Hash > npre || r.intn(4) == 0 {
					ks = 1 + r.intn(npre)
				}
				if r.intn(6) == 0 {
					ks = "bad"
				}
				h := &vHtlc{Hash: v.Hash, Amt: amtAround(v.Value), Expiry: expiryFor(v), Ks: ks}
				if r.intn(6) == 0 {
					h.Mpp = []int64{int64(v.Addr), int64(h.Amt)}
				}
				mk1(h)
			default: // unknown invoice
				mk1(&vHtlc{Hash: npre + 1, Amt: v.Value, Expiry: expiryFor(v)})
			}
		}
	}
	// spontaneous keysends to hashes without invoice
	for j := 0; j < 1+r.intn(2); j++ {
		hid := ninv + 1 + r.intn(npre-ninv)
		var ks any = hid
		if r.intn(5) == 0 {
			ks = 1 + r.intn(npre)
		}
		fake := &vInvoice{Delta: rd}
		mk1(&vHtlc{Hash: hid, Amt: uint64(1 + r.intn(3000)), Expiry: expiryFor(fake), Ks: ks})
	}

	// --- events ---
	added := 0
	addNext := func() {
		if added < len(invs) {
			run.add(invs[added])
			added++
		}
	}
	addNext()
	for added < len(invs) && r.intn(5) > 0 {
		addNext()
	}
	isAdded := func(h *vHtlc) bool { return h.Hash <= added || h.Ks != nil }
	var hodlIDs []int
	for _, v := range invs {
		if v.Hodl {
			hodlIDs = append(hodlIDs, v.Hash)
		}
	}
	nev := 12 + r.intn(12)
	var sent []*vHtlc
	next := 0 // next unsent htlc in creation order (shards of one set are adjacent)
	send := func(h *vHtlc, ht int32) {
		run.notify(h, ht)
		sent = append(sent, h)
	}
	for e := 0; e < nev; e++ {
		switch k := r.intn(40); {
		case k < 16 && next < len(htlcs):
			// walk through the universe in order so that sets complete
			h := htlcs[next]
			next++
			if !isAdded(h) && r.intn(4) > 0 {
				continue
			}
			ht := baseHeight
			if r.intn(8) == 0 {
				ht += int32(r.intn(3)) - 1
			}
			send(h, ht)
		case k < 21:
			h := vPick(r, htlcs)
			if !isAdded(h) && r.intn(3) > 0 {
				continue
			}
			send(h, baseHeight)
		case k < 26 && len(sent) > 0: // replay
			h := vPick(r, sent)
			ht := baseHeight
			if r.intn(3) == 0 {
				ht += int32(r.intn(50))
			}
			run.notify(h, ht)
		case k < 30:
			if len(hodlIDs) > 0 && r.intn(4) > 0 {
				run.settle(vPick(r, hodlIDs))
			} else {
				run.settle(1 + r.intn(npre))
			}
		case k < 33:
			if r.intn(5) > 0 {
				run.cancel(1+r.intn(added), r.intn(3) > 0)
			} else {
				run.cancel(1+r.intn(npre+nextra), r.intn(3) > 0)
			}
		case k < 37 && len(sent) > 0:
			run.timeout(vPick(r, sent))
		default:
			if added < len(invs) {
				addNext()
			} else if r.intn(3) == 0 {
				// duplicate add
				run.add(vPick(r, invs))
			} else if r.bool() {
				run.timeout(vPick(r, htlcs))
			}
		}
	}
	c.Ops = run.ops
	return c
}

func minU64(a, b uint64) uint64 {
	if a < b {
		return a
	}
	return b
}

// vAmpCase: AMP invoices / spontaneous AMP with real share derivation
// (amp.SeedSharer); the reconstruction oracle of the model is tabulated with
// amp.ReconstructChildren for every subset of the AMP records of one set id.
func vAmpCase(t *testing.T, r *vrng, ci int, backend string, mk VMakeDB) *vCase {
	u := vNewUniverse(r, 2, 3, 2, ci) // hashes 1,2 have preimages; 3,4,5 do not
	rd := int32(vPick(r, []int{4, 4, 0, 10}))
	spont := r.intn(3) == 0
	cfg := RegistryConfig{FinalCltvRejectDelta: rd, AcceptAMP: spont}
	reg := vNewRegistry(t, mk, cfg)
	run := &vRun{t: t, u: u, reg: reg, hodl: make(chan interface{}, 256)}
	c := &vCase{Kind: "amp", Backend: backend, Case: ci,
		Cfg: map[string]any{"rd": rd, "keysend": false, "kshold": false, "amp": spont,
			"kv": backend == "kv"}}
	baseHeight := int32(vPick(r, []int{100, 100, 700000, 1<<31 - 61}))
	value := vPick(r, []uint64{0, 1000, 1000, 90000, 1 << 60})
	invA := &vInvoice{Hash: 3, Value: value, Delta: int32(vPick(r, []int{4, 4, 9, 3})),
		Amp: true, Addr: 1, Kind: "amp_invoice"}
	one := 1
	switch r.intn(14) {
	case 0:
		invA.Pre = &one // AMP invoice carrying an invoice-level preimage
		invA.Kind = "amp_with_preimage"
	case 1:
		invA.Hodl = true
		invA.Kind = "amp_hodl"
	}
	// second invoice behind payment address 2
	var invB *vInvoice
	switch r.intn(4) {
	case 0:
		invB = &vInvoice{Hash: 4, Value: uint64(vPick(r, []int{0, 500})), Delta: 4, Amp: true,
			Addr: 2, Kind: "amp_invoice"}
	case 1:
		invB = &vInvoice{Hash: 1, Value: value, Delta: 4, Pre: &one, Addr: 2, AddrReq: true,
			Kind: "mpp"}
	}
	var htlcs []*vHtlc
	groups := map[int][]*vHtlc{}
	key := 1
	margin := func(delta int32) int32 {
		if rd > delta {
			return rd
		}
		return delta
	}
	mkAmp := func(set int, setID [32]byte, child *amp.Child, idx uint32, amt uint64,
		addr int, total uint64, expiry uint32) *vHtlc {

		h := &vHtlc{Hash: u.lookupHashID(child.Hash), Key: key, Amt: amt, Expiry: expiry,
			Mpp: []int64{int64(addr), int64(total)}, Amp: true, SetID: set,
			Share: u.shareID(child.Share), Idx: idx,
			ShareHex: hex.EncodeToString(child.Share[:]),
			ampRec: record.NewAMP([32]byte(child.Share), setID, idx)}
		key++
		htlcs = append(htlcs, h)
		groups[set] = append(groups[set], h)
		return h
	}
	newRoot := func() *amp.SeedSharer {
		var root amp.Share
		copy(root[:], r.bytes(32))
		root[0] |= 1
		return amp.SeedSharerFromRoot(&root)
	}
	expFor := func(delta int32) uint32 {
		off := vPick(r, []int32{0, 0, 0, 1, -1, 20})
		return uint32(baseHeight + margin(delta) + off)
	}
	// payment attempts (set ids) of 1..3 shards each towards invoice A
	nsets := 2 + r.intn(2)
	setBytes := map[int][32]byte{}
	setTotal := map[int]uint64{}
	for set := 1; set <= nsets; set++ {
		total := value
		switch r.intn(5) {
		case 0:
			total = value + 1
		case 1:
			if value > 0 {
				total = value - 1
			}
		}
		if total == 0 {
			total = uint64(1 + r.intn(1000))
		}
		n := 1 + r.intn(3)
		var setID [32]byte
		sid := set
		if set == nsets && r.intn(10) == 0 {
			sid = 0 // the blank set id
		} else {
			copy(setID[:], r.bytes(32))
			setID[0] |= 1
			u.setIDs[setID] = sid
		}
		setBytes[sid] = setID
		setTotal[sid] = total
		var sharer amp.Sharer = newRoot()
		rem := total
		// one shard of the set declares the child index of another shard (its hash
		// unchanged): only the per-child hash check of reconstructAMPPreimages sees it
		swapAt := -1
		if n > 1 && r.intn(6) == 0 {
			swapAt = r.intn(n)
		}
		for s := 0; s < n; s++ {
			var left amp.Sharer
			var err error
			if s < n-1 {
				left, sharer, err = sharer.Split()
				if err != nil {
					t.Fatal(err)
				}
			} else {
				left = sharer
			}
			child := left.Child(uint32(s))
			a := rem
			if s < n-1 && rem > 0 {
				a = uint64(r.rng(0, int64(rem)))
			}
			rem -= a
			if s == n-1 {
				switch r.intn(6) {
				case 0:
					if a > 0 {
						a--
					}
				case 1:
					a++
				}
			}
			if r.intn(14) == 0 {
				child.Share[3] ^= 0x40 // corrupted share: reconstruction must fail
			}
			idx := uint32(s)
			if s == swapAt {
				idx = uint32((s + 1) % n) // child index of another shard reused
			}
			t2 := total
			if r.intn(12) == 0 {
				t2++
			}
			addr := 1
			if r.intn(20) == 0 {
				addr = 2
			}
			mkAmp(sid, setID, child, idx, a, addr, t2, expFor(invA.Delta))
		}
	}
	// a later, self-contained payment re-using the set id of set 1
	if r.intn(2) == 0 {
		total := setTotal[1]
		if r.intn(3) == 0 {
			total++
		}
		amt := total
		if r.intn(4) == 0 && amt > 0 {
			amt-- // short: joins the (possibly settled) set as a partial htlc
		}
		mkAmp(1, setBytes[1], newRoot().Child(0), 0, amt, 1, total, expFor(invA.Delta))
	}
	// set id of set 1 presented to the invoice behind address 2, and a set of its own
	if invB != nil || spont || r.intn(4) == 0 {
		if r.intn(2) == 0 {
			total := setTotal[1]
			mkAmp(1, setBytes[1], newRoot().Child(0), 0, total, 2, total, expFor(4))
		}
		var setID [32]byte
		copy(setID[:], r.bytes(32))
		setID[0] |= 1
		sid := nsets + 1
		u.setIDs[setID] = sid
		total := uint64(500 + r.intn(3))
		sh := newRoot()
		l, rr, err := sh.Split()
		if err != nil {
			t.Fatal(err)
		}
		a := uint64(r.rng(0, int64(total)))
		mkAmp(sid, setID, l.Child(0), 0, a, 2, total, expFor(4))
		mkAmp(sid, setID, rr.Child(1), 1, total-a, 2, total, expFor(4))
	}
	// directed suffix: a clean two-shard set delivered in order at the end of the
	// case; in half of the cases its FIRST shard declares the child index of the
	// second one (hash unchanged), which only the per-child hash check of
	// reconstructAMPPreimages (older shards) can see
	var directed []*vHtlc
	if r.intn(3) == 0 {
		var setID [32]byte
		copy(setID[:], r.bytes(32))
		setID[0] |= 1
		sid := nsets + 2
		u.setIDs[setID] = sid
		total := value
		if total == 0 {
			total = 1000
		}
		l, rr, err := newRoot().Split()
		if err != nil {
			t.Fatal(err)
		}
		a := uint64(r.rng(1, int64(total)))
		idx0 := uint32(0)
		if r.bool() {
			idx0 = 1
		}
		exp := uint32(baseHeight + margin(invA.Delta) + 20)
		directed = append(directed, mkAmp(sid, setID, l.Child(0), idx0, a, 1, total, exp))
		directed = append(directed, mkAmp(sid, setID, rr.Child(1), 1, total-a, 1, total, exp))
		htlcs = htlcs[:len(htlcs)-2] // not part of the random walk
	}
	for set := 0; set <= nsets+2; set++ {
		if g := groups[set]; len(g) > 0 {
			if len(g) > 6 {
				t.Fatalf("amp group too large: %d", len(g))
			}
			u.ampOracle(g)
		}
	}
	for i := 0; i < 2; i++ {
		c.Tbl = append(c.Tbl, [2]int{i + 1, i + 1})
	}
	for p, id := range u.preID {
		if id >= 10 {
			c.Tbl = append(c.Tbl, [2]int{id, u.anyHashID(sha256.Sum256(p[:]))})
		}
	}
	sort.Slice(c.Tbl, func(i, j int) bool { return c.Tbl[i][0] < c.Tbl[j][0] })
	c.AmpTbl = u.ampTbl

	// --- events ---
	addedA, addedB := false, invB == nil
	if !spont || r.intn(3) > 0 {
		run.add(invA)
		addedA = true
	}
	if invB != nil && r.intn(4) > 0 {
		run.add(invB)
		addedB = true
	}
	nev := 9 + r.intn(12)
	var sent []*vHtlc
	next := 0
	for e := 0; e < nev; e++ {
		switch k := r.intn(30); {
		case k < 15 && next < len(htlcs):
			h := htlcs[next]
			next++
			ht := baseHeight
			if r.intn(10) == 0 {
				ht += int32(r.intn(3)) - 1
			}
			run.notify(h, ht)
			sent = append(sent, h)
		case k < 18:
			h := vPick(r, htlcs)
			run.notify(h, baseHeight)
			sent = append(sent, h)
		case k < 22 && len(sent) > 0:
			ht := baseHeight
			if r.intn(3) == 0 {
				ht += int32(r.intn(30))
			}
			run.notify(vPick(r, sent), ht)
		case k < 25 && len(sent) > 0:
			run.timeout(vPick(r, sent))
		case k < 26:
			run.timeout(vPick(r, htlcs))
		case k < 27:
			if r.intn(3) == 0 && invB != nil {
				run.cancel(invB.Hash, r.bool())
			} else {
				run.cancel(3, r.intn(3) > 0)
			}
		case k < 28:
			run.settle(1 + r.intn(2))
		default:
			switch {
			case !addedA:
				run.add(invA)
				addedA = true
			case !addedB:
				run.add(invB)
				addedB = true
			case r.intn(3) == 0:
				run.add(invA)
			}
		}
	}
	if len(directed) > 0 && !addedA {
		run.add(invA)
	}
	for _, h := range directed {
		run.notify(h, baseHeight)
	}
	c.Ops = run.ops
	for _, h := range u.hash {
		c.HashHex = append(c.HashHex, hex.EncodeToString(h[:]))
	}
	return c
}

// ---- AMP set stream: directed interleavings of well-formed payment attempts ----

type vSet struct {
	sid    int
	id     [32]byte
	total  uint64
	shards []*vHtlc
}

// restart stops the registry and starts a fresh one on the same store (hodl
// subscriptions are volatile); like the links after a restart of lnd, the
// harness then replays every htlc that is still held (recorded accepted).
func (r *vRun) restart(sent []*vHtlc, height int32) {
	_ = r.reg.Stop()
	r.reg = vNewRegistryOn(r.t, r.idb, r.clk, r.cfg)
	held := map[int]bool{}
	if len(r.ops) > 0 {
		for _, s := range r.ops[len(r.ops)-1].Snap {
			for _, h := range s.Htlcs {
				if h.State == "accepted" {
					held[h.Key] = true
				}
			}
		}
	}
	// every held htlc that ever arrived (however it was first delivered: `sent`
	// only lists the scripted first deliveries, a random "replay" pick may have
	// been the first arrival of an htlc)
	_ = sent
	for _, k := range append([]int{}, r.arrivedOrd...) {
		if held[k] {
			hh := *r.arrived[k]
			hh.AfterRestart = true
			r.notify(&hh, height)
		}
	}
}

var vAmpSetScenarios = []string{"interleave_complete_timeout", "cancel_then_settle", "borrow",
	"invoice_cancel", "restart_replay", "total_mismatch_fixed", "short_foreign_topup", "random_sets"}

func vAmpSetsCase(t *testing.T, r *vrng, ci int, backend string, mk VMakeDB) *vCase {
	u := vNewUniverse(r, 2, 3, 2, ci)
	rd := int32(vPick(r, []int{4, 4, 0, 10}))
	cfg := RegistryConfig{FinalCltvRejectDelta: rd}
	idb, clk := mk(t)
	run := &vRun{t: t, u: u, hodl: make(chan interface{}, 256), idb: idb, clk: clk, cfg: cfg}
	run.reg = vNewRegistryOn(t, idb, clk, cfg)
	scn := r.intn(len(vAmpSetScenarios))
	c := &vCase{Kind: "ampsets", Scn: vAmpSetScenarios[scn], Backend: backend, Case: ci,
		Cfg: map[string]any{"rd": rd, "keysend": false, "kshold": false, "amp": false,
			"kv": backend == "kv"}}
	baseHeight := int32(vPick(r, []int{100, 700000, 1<<31 - 61}))
	value := vPick(r, []uint64{0, 1000, 3000, 90000, 1 << 60})
	if scn == 2 && value == 0 {
		value = 1000
	}
	delta := int32(vPick(r, []int{4, 4, 9, 3}))
	invA := &vInvoice{Hash: 3, Value: value, Delta: delta, Amp: true, Addr: 1, Kind: "amp_invoice"}
	margin := delta
	if rd > margin {
		margin = rd
	}
	key := 1
	nextSid := 1
	groups := map[int][]*vHtlc{}
	newRoot := func() *amp.SeedSharer {
		var root amp.Share
		copy(root[:], r.bytes(32))
		root[0] |= 1
		return amp.SeedSharerFromRoot(&root)
	}
	mkShard := func(set *vSet, child *amp.Child, idx uint32, amt, total uint64) *vHtlc {
		exp := uint32(baseHeight + margin + vPick(r, []int32{0, 0, 1, 20}))
		h := &vHtlc{Hash: u.lookupHashID(child.Hash), Key: key, Amt: amt, Expiry: exp,
			Mpp: []int64{1, int64(total)}, Amp: true, SetID: set.sid,
			Share: u.shareID(child.Share), Idx: idx,
			ShareHex: hex.EncodeToString(child.Share[:]),
			ampRec: record.NewAMP([32]byte(child.Share), set.id, idx)}
		key++
		groups[set.sid] = append(groups[set.sid], h)
		return h
	}
	// the same child (share, index, hash) sent again under a new circuit key
	resend := func(set *vSet, h *vHtlc, total uint64) *vHtlc {
		hh := *h
		hh.Key = key
		hh.Mpp = []int64{1, int64(total)}
		key++
		groups[set.sid] = append(groups[set.sid], &hh)
		return &hh
	}
	// a well-formed set: n shards of one root, amounts (all but the last drawn at
	// random unless given) summing exactly to total
	mkSet := func(n int, total uint64, amts []uint64) *vSet {
		set := &vSet{sid: nextSid, total: total}
		nextSid++
		copy(set.id[:], r.bytes(32))
		set.id[0] |= 1
		u.setIDs[set.id] = set.sid
		var sharer amp.Sharer = newRoot()
		rem := total
		for s := 0; s < n; s++ {
			var left amp.Sharer
			var err error
			if s < n-1 {
				left, sharer, err = sharer.Split()
				if err != nil {
					t.Fatal(err)
				}
			} else {
				left = sharer
			}
			a := rem
			if amts != nil {
				a = amts[s]
			} else if s < n-1 && rem > 0 {
				a = uint64(r.rng(0, int64(rem)))
			}
			if a > rem {
				rem = 0
			} else {
				rem -= a
			}
			set.shards = append(set.shards, mkShard(set, left.Child(uint32(s)), uint32(s), a, total))
		}
		return set
	}
	totalFor := func() uint64 {
		tt := value
		if r.intn(4) == 0 {
			tt = value + 1 + uint64(r.intn(50))
		}
		if tt == 0 {
			tt = uint64(1 + r.intn(1000))
		}
		return tt
	}

	// --- the script: a list of closures run after the oracle is tabulated ---
	var script []func()
	var sent []*vHtlc
	send := func(h *vHtlc) {
		script = append(script, func() { run.notify(h, baseHeight); sent = append(sent, h) })
	}
	replay := func(h *vHtlc) {
		script = append(script, func() { run.notify(h, baseHeight) })
	}
	timeout := func(h *vHtlc) { script = append(script, func() { run.timeout(h) }) }
	cancelInv := func(force bool) { script = append(script, func() { run.cancel(3, force) }) }
	restart := func() {
		script = append(script, func() { run.restart(sent, baseHeight); c.Restarts++ })
	}
	shuffle := func(hs []*vHtlc) []*vHtlc {
		out := append([]*vHtlc{}, hs...)
		for i := len(out) - 1; i > 0; i-- {
			j := r.intn(i + 1)
			out[i], out[j] = out[j], out[i]
		}
		return out
	}
	half := func(tt uint64) []uint64 { return []uint64{tt - tt/2, tt / 2} }

	switch scn {
	case 0: // two sets interleaved: X completes, Y lacks its last shard and times out
		x := mkSet(2+r.intn(2), totalFor(), nil)
		y := mkSet(2+r.intn(2), totalFor(), nil)
		ny := len(y.shards)
		for _, h := range shuffle(append(append([]*vHtlc{}, x.shards...), y.shards[:ny-1]...)) {
			send(h)
		}
		for _, h := range y.shards[:ny-1] {
			timeout(h)
		}
		send(y.shards[ny-1])
		replay(vPick(r, x.shards))
		replay(y.shards[0])
	case 1: // a shard times out (AMPState Canceled), is sent again under a new key, the set settles
		x := mkSet(2+r.intn(2), totalFor(), nil)
		x0b := resend(x, x.shards[0], x.total)
		send(x.shards[0])
		timeout(x.shards[0])
		send(x0b)
		for _, h := range x.shards[1:] {
			send(h)
		}
		replay(x.shards[0])
		replay(x0b)
	case 2: // two half-paid sets together reach the invoice value: nothing may settle
		tt := value
		x := mkSet(2, tt, half(tt))
		y := mkSet(2, tt, half(tt))
		send(x.shards[0])
		send(y.shards[0])
		if r.bool() {
			z := mkSet(2, tt, half(tt))
			send(z.shards[1])
		}
		send(x.shards[1])
		timeout(y.shards[0])
		send(y.shards[1])
		replay(y.shards[0])
	case 3: // CancelInvoice while two sets are held
		x := mkSet(2+r.intn(2), totalFor(), nil)
		y := mkSet(2, totalFor(), nil)
		nx := len(x.shards)
		for _, h := range shuffle(append(append([]*vHtlc{}, x.shards[:nx-1]...), y.shards[0])) {
			send(h)
		}
		if r.intn(3) == 0 {
			// a third set settles first: the cancel then errors (settled htlc present)
			z := mkSet(1, totalFor(), nil)
			send(z.shards[0])
		}
		cancelInv(r.intn(3) > 0)
		send(x.shards[nx-1])
		replay(x.shards[0])
		send(y.shards[1])
	case 4: // restarts: held htlcs are replayed, the set completes, settled htlcs are replayed
		x := mkSet(2+r.intn(2), totalFor(), nil)
		nx := len(x.shards)
		for _, h := range x.shards[:nx-1] {
			send(h)
		}
		restart()
		if r.bool() {
			y := mkSet(2, totalFor(), nil)
			send(y.shards[0])
			restart()
		}
		send(x.shards[nx-1])
		restart()
		for _, h := range shuffle(x.shards) {
			replay(h)
		}
	case 5: // one shard declares another total: refused; sent again with the right total
		x := mkSet(3, totalFor(), nil)
		y := mkSet(1+r.intn(2), totalFor(), nil)
		bad := resend(x, x.shards[1], x.total+1)
		send(x.shards[0])
		send(bad)
		for _, h := range y.shards {
			send(h)
		}
		send(x.shards[2])
		send(x.shards[1])
		replay(bad)
	case 6: // X overpays by one; Y is one short and is topped up by a shard of a foreign root
		tx := totalFor()
		x := mkSet(2, tx, []uint64{tx / 2, tx - tx/2 + 1})
		ty := totalFor() + 1
		y := mkSet(2, ty, []uint64{ty / 2, ty - ty/2 - 1})
		for _, h := range shuffle(append(append([]*vHtlc{}, x.shards...), y.shards...)) {
			send(h)
		}
		foreign := mkShard(y, newRoot().Child(7), 7, 1, ty)
		z := mkSet(2, totalFor(), nil)
		send(z.shards[0])
		send(foreign)
		send(z.shards[1])
		replay(y.shards[0])
	default: // three well-formed sets, everything shuffled, timeouts / replays / restarts in between
		var all []*vHtlc
		for i := 0; i < 3; i++ {
			all = append(all, mkSet(1+r.intn(3), totalFor(), nil).shards...)
		}
		for _, h := range shuffle(all) {
			send(h)
			switch r.intn(8) {
			case 0:
				timeout(vPick(r, all))
			case 1:
				replay(vPick(r, all))
			case 2:
				restart()
			}
		}
	}
	// random tail
	var allH []*vHtlc
	for sid := 1; sid < nextSid; sid++ {
		allH = append(allH, groups[sid]...)
	}
	for i := r.intn(4); i > 0; i-- {
		switch r.intn(5) {
		case 0:
			timeout(vPick(r, allH))
		case 1:
			cancelInv(r.bool())
		case 2:
			restart()
		default:
			replay(vPick(r, allH))
		}
	}

	for sid := 1; sid < nextSid; sid++ {
		if g := groups[sid]; len(g) > 0 {
			if len(g) > 6 {
				t.Fatalf("amp group too large: %d", len(g))
			}
			u.ampOracle(g)
		}
	}
	for i := 0; i < 2; i++ {
		c.Tbl = append(c.Tbl, [2]int{i + 1, i + 1})
	}
	for p, id := range u.preID {
		if id >= 10 {
			c.Tbl = append(c.Tbl, [2]int{id, u.anyHashID(sha256.Sum256(p[:]))})
		}
	}
	sort.Slice(c.Tbl, func(i, j int) bool { return c.Tbl[i][0] < c.Tbl[j][0] })
	c.AmpTbl = u.ampTbl

	run.add(invA)
	for _, f := range script {
		f()
	}
	c.Ops = run.ops
	for _, h := range u.hash {
		c.HashHex = append(c.HashHex, hex.EncodeToString(h[:]))
	}
	return c
}

// ---- mixed-state stream: every entry point on htlc maps holding all legal states ----
//
// For every invoice kind a scripted prefix brings the invoice's htlc map into a
// state that holds records in as many different states as the kind allows
// (canceled + accepted, canceled + settled, AMP: canceled + settled + accepted).
// Then ONE entry point X of the registry is invoked, and a fixed suffix invokes
// all of them again (replays of every htlc, SettleHodlInvoice, set timers,
// fresh htlcs, CancelInvoice).  The prefixes x entry points are ENUMERATED, not
// sampled; the seed only varies amounts, heights, deltas and circuit keys.

var vMixedPrefixes = []string{"hodl_mpp_accepted", "hodl_mpp_open", "hodl_legacy_accepted",
	"mpp_settled", "mpp_open", "legacy_settled", "keysend_settled", "keysend_hold_accepted",
	"amp_three_states", "amp_three_states_two_canceled"}

var vMixedEntries = []string{"none", "notify_fresh_complete", "notify_fresh_partial",
	"replay_canceled", "settle_hodl", "cancel_force", "cancel_noforce", "timers_all", "restart"}

func vMixedCase(t *testing.T, r *vrng, ci int, backend string, mk VMakeDB, pi, xi int) *vCase {
	const npre, nextra, naddr = 5, 1, 3
	u := vNewUniverse(r, npre, nextra, naddr, ci)
	rd := int32(vPick(r, []int{4, 4, 10, 0}))
	pname := vMixedPrefixes[pi]
	keysend := pname == "keysend_settled" || pname == "keysend_hold_accepted"
	kshold := pname == "keysend_hold_accepted"
	cfg := RegistryConfig{FinalCltvRejectDelta: rd, AcceptKeySend: keysend}
	if kshold {
		cfg.KeysendHoldTime = time.Minute
	}
	idb, clk := mk(t)
	run := &vRun{t: t, u: u, hodl: make(chan interface{}, 256), idb: idb, clk: clk, cfg: cfg}
	run.reg = vNewRegistryOn(t, idb, clk, cfg)
	c := &vCase{Kind: "mixed", Scn: pname + "/" + vMixedEntries[xi], Backend: backend, Case: ci,
		Cfg: map[string]any{"rd": rd, "keysend": keysend, "kshold": kshold, "amp": false,
			"kv": backend == "kv"}}
	baseHeight := int32(vPick(r, []int{100, 700000, 1<<31 - 61}))
	value := vPick(r, []uint64{1000, 1000, 2501, 100000, 1 << 60})
	delta := int32(vPick(r, []int{4, 9, 40, 3}))
	margin := delta
	if rd > margin {
		margin = rd
	}
	exp := func() uint32 { return uint32(baseHeight + margin + vPick(r, []int32{0, 1, 20})) }
	key := 1
	isAmp := pi >= 8
	one := 1
	var inv *vInvoice
	invHash := 1
	switch pname {
	case "hodl_mpp_accepted", "hodl_mpp_open":
		inv = &vInvoice{Hash: 1, Value: value, Delta: delta, Hodl: true, Addr: 1, AddrReq: true, Kind: "hodl_mpp"}
	case "hodl_legacy_accepted":
		inv = &vInvoice{Hash: 1, Value: value, Delta: delta, Hodl: true, Addr: 1, Kind: "hodl"}
	case "mpp_settled", "mpp_open":
		inv = &vInvoice{Hash: 1, Value: value, Delta: delta, Pre: &one, Addr: 1, AddrReq: true, Kind: "mpp"}
	case "legacy_settled", "keysend_settled":
		inv = &vInvoice{Hash: 1, Value: value, Delta: delta, Pre: &one, Addr: 1, Kind: "regular"}
	case "keysend_hold_accepted":
		invHash = 2 // just-in-time hold invoice for hash 2
	default:
		invHash = 3
		inv = &vInvoice{Hash: 3, Value: value, Delta: delta, Amp: true, Addr: 1, Kind: "amp_invoice"}
	}
	mkH := func(h *vHtlc) *vHtlc {
		h.Key = key
		key++
		if h.Expiry == 0 {
			h.Expiry = exp()
		}
		return h
	}
	mpp := func(amt, total uint64) *vHtlc {
		return mkH(&vHtlc{Hash: invHash, Amt: amt, Mpp: []int64{1, int64(total)}})
	}
	legacy := func(amt uint64) *vHtlc { return mkH(&vHtlc{Hash: invHash, Amt: amt}) }
	ks := func(amt uint64) *vHtlc { return mkH(&vHtlc{Hash: invHash, Amt: amt, Ks: invHash}) }

	// AMP helpers
	groups := map[int][]*vHtlc{}
	nextSid := 1
	newRoot := func() *amp.SeedSharer {
		var root amp.Share
		copy(root[:], r.bytes(32))
		root[0] |= 1
		return amp.SeedSharerFromRoot(&root)
	}
	type aset struct {
		sid int
		id  [32]byte
	}
	newSet := func() *aset {
		st := &aset{sid: nextSid}
		nextSid++
		copy(st.id[:], r.bytes(32))
		st.id[0] |= 1
		u.setIDs[st.id] = st.sid
		return st
	}
	shard := func(st *aset, child *amp.Child, idx uint32, amt, total uint64) *vHtlc {
		h := mkH(&vHtlc{Hash: u.lookupHashID(child.Hash), Amt: amt,
			Mpp: []int64{1, int64(total)}, Amp: true, SetID: st.sid,
			Share: u.shareID(child.Share), Idx: idx,
			ShareHex: hex.EncodeToString(child.Share[:]),
			ampRec: record.NewAMP([32]byte(child.Share), st.id, idx)})
		groups[st.sid] = append(groups[st.sid], h)
		return h
	}
	two := func(st *aset, total uint64) (*vHtlc, *vHtlc) {
		l, rr, err := newRoot().Split()
		if err != nil {
			t.Fatal(err)
		}
		return shard(st, l.Child(0), 0, total-total/2, total), shard(st, rr.Child(1), 1, total/2, total)
	}
	again := func(st *aset, h *vHtlc) *vHtlc {
		hh := *h
		hh.Key = key
		key++
		groups[st.sid] = append(groups[st.sid], &hh)
		return &hh
	}

	var script []func()
	var sent, fresh []*vHtlc
	var canceled *vHtlc
	send := func(h *vHtlc) {
		script = append(script, func() { run.notify(h, baseHeight); sent = append(sent, h) })
	}
	replayAll := func() {
		script = append(script, func() {
			for _, h := range sent {
				run.notify(h, baseHeight)
			}
		})
	}
	timeout := func(h *vHtlc) { script = append(script, func() { run.timeout(h) }) }
	timersAll := func() {
		script = append(script, func() {
			for _, h := range sent {
				run.timeout(h)
			}
		})
	}
	settle := func() {
		pid := invHash
		if isAmp {
			pid = 1
		}
		script = append(script, func() { run.settle(pid) })
	}
	cancelInv := func(force bool) { script = append(script, func() { run.cancel(invHash, force) }) }
	half, rest := value/2, value-value/2

	// --- prefix ---
	if inv != nil {
		script = append(script, func() { run.add(inv) })
	}
	switch pname {
	case "hodl_mpp_accepted", "mpp_settled":
		a, b, cc := mpp(half, value), mpp(half, value), mpp(rest, value)
		send(a)
		timeout(a)
		send(b)
		send(cc)
		canceled = a
		fresh = []*vHtlc{mpp(value, value), mpp(half, value), mpp(rest, value)}
	case "hodl_mpp_open", "mpp_open":
		a, b := mpp(half, value), mpp(half, value)
		send(a)
		timeout(a)
		send(b)
		canceled = a
		fresh = []*vHtlc{mpp(rest, value), mpp(half, value), mpp(rest, value)}
	case "hodl_legacy_accepted", "legacy_settled":
		a, l := mpp(half, value), legacy(value)
		send(a)
		timeout(a)
		send(l)
		canceled = a
		fresh = []*vHtlc{legacy(value + 1), mpp(half, value), legacy(value)}
	case "keysend_settled":
		a, k := mpp(half, value), ks(value)
		send(a)
		timeout(a)
		send(k)
		canceled = a
		fresh = []*vHtlc{ks(value + 1), mpp(half, value), ks(value)}
	case "keysend_hold_accepted":
		send(ks(value))
		send(ks(value + 1))
		fresh = []*vHtlc{ks(value), legacy(value), ks(value + 2)}
	default:
		s1, s2 := newSet(), newSet()
		a, b := two(s1, value)
		a2 := again(s1, a)
		cA, cB := two(s2, value)
		send(a)
		timeout(a)
		send(a2)
		send(b)  // set 1 settles: a canceled, a2 + b settled
		send(cA) // set 2 held
		canceled = a
		if pname == "amp_three_states_two_canceled" {
			s3 := newSet()
			d, _ := two(s3, value)
			send(d)
			timeout(d)
		}
		s4 := newSet()
		f1, f2 := two(s4, value)
		fresh = []*vHtlc{cB, f1, f2}
	}
	// --- the entry point under test ---
	switch vMixedEntries[xi] {
	case "notify_fresh_complete":
		send(fresh[0])
	case "notify_fresh_partial":
		send(fresh[1])
	case "replay_canceled":
		if canceled != nil {
			h := canceled
			script = append(script, func() { run.notify(h, baseHeight+int32(r.intn(3))) })
		}
	case "settle_hodl":
		settle()
	case "cancel_force":
		cancelInv(true)
	case "cancel_noforce":
		cancelInv(false)
	case "timers_all":
		timersAll()
	case "restart":
		script = append(script, func() { run.restart(sent, baseHeight); c.Restarts++ })
	}
	// --- suffix: every entry point once more on the resulting state ---
	replayAll()
	settle()
	replayAll()
	timersAll()
	send(fresh[2])
	send(fresh[1])
	cancelInv(true)
	replayAll()

	for sid := 1; sid < nextSid; sid++ {
		if g := groups[sid]; len(g) > 0 {
			u.ampOracle(g)
		}
	}
	for i := 0; i < npre; i++ {
		c.Tbl = append(c.Tbl, [2]int{i + 1, i + 1})
	}
	for p, id := range u.preID {
		if id >= 10 {
			c.Tbl = append(c.Tbl, [2]int{id, u.anyHashID(sha256.Sum256(p[:]))})
		}
	}
	sort.Slice(c.Tbl, func(i, j int) bool { return c.Tbl[i][0] < c.Tbl[j][0] })
	c.AmpTbl = u.ampTbl
	for _, f := range script {
		f()
	}
	c.Ops = run.ops
	for _, h := range u.hash {
		c.HashHex = append(c.HashHex, hex.EncodeToString(h[:]))
	}
	return c
}

// VerifRunRegistry is the driver; makeKV comes from the external test file
// (package invoices_test) because channeldb imports this package.
func VerifRunRegistry(t *testing.T, makeKV VMakeDB) {
	out := vOpenOut()
	defer out.close()
	master := vNewRng(vSeed())
	ncases := vCases(70, 1500)
	namp := vCases(24, 600)
	if v := vEnvInt("VERIF_AMP_CASES", -1); v >= 0 {
		namp = int(v)
	}
	nsets := vCases(24, 600)
	if v := vEnvInt("VERIF_AMPSET_CASES", -1); v >= 0 {
		nsets = int(v)
	}
	backends := []struct {
		name string
		mk   VMakeDB
	}{{"kv", makeKV}, {"sql", vMakeSQL}}
	only := ""
	if v := vEnvInt("VERIF_BACKEND", 0); v == 1 {
		only = "kv"
	} else if v == 2 {
		only = "sql"
	}
	for ci := 0; ci < ncases; ci++ {
		for bi, b := range backends {
			if only != "" && only != b.name {
				continue
			}
			// the same seeded case runs on both stores
			r := master.fork(uint64(ci))
			t.Run("", func(t *testing.T) {
				out.emit(vModelCase(t, r, 2*ci+bi, b.name, b.mk))
			})
		}
	}
	for ci := 0; ci < namp; ci++ {
		for bi, b := range backends {
			if only != "" && only != b.name {
				continue
			}
			// same seeded case on both stores (share bytes differ between
			// the two runs: amp.Split draws from crypto/rand)
			r := master.fork(uint64(1000000 + ci))
			t.Run("", func(t *testing.T) {
				out.emit(vAmpCase(t, r, 2*ncases+2*ci+bi, b.name, b.mk))
			})
		}
	}
	// mixed-state stream: prefixes x entry points enumerated (quick: every prefix
	// with every entry point; thorough: 6 seeded variations of each)
	nvar := vCases(1, 6)
	if v := vEnvInt("VERIF_MIXED_VARS", -1); v >= 0 {
		nvar = int(v)
	}
	mi := 0
	for v := 0; v < nvar; v++ {
		for pi := range vMixedPrefixes {
			for xi := range vMixedEntries {
				// quick tier: on prefixes that end in a settled non-AMP invoice (most
				// entry points are no-ops there) only three entry points
				terminal := pi == 3 || pi == 5 || pi == 6
				if vTier() != "thorough" && terminal && xi != 0 && xi != 1 && xi != 8 {
					continue
				}
				for bi, b := range backends {
					if only != "" && only != b.name {
						continue
					}
					r := master.fork(uint64(3000000 + mi))
					pi, xi := pi, xi
					t.Run("", func(t *testing.T) {
						out.emit(vMixedCase(t, r, 2*ncases+2*namp+2*nsets+2*mi+bi, b.name,
							b.mk, pi, xi))
					})
				}
				mi++
			}
		}
	}
	for ci := 0; ci < nsets; ci++ {
		for bi, b := range backends {
			if only != "" && only != b.name {
				continue
			}
			r := master.fork(uint64(2000000 + ci))
			t.Run("", func(t *testing.T) {
				out.emit(vAmpSetsCase(t, r, 2*ncases+2*namp+2*ci+bi, b.name, b.mk))
			})
		}
	}
}

// VTestTime exposes the fixed clock start to the external test file.
func VTestTime() time.Time { return vTestTime }
