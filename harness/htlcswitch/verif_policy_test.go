//go:build verif

package htlcswitch

// C09 correspondence harness: drives the REAL channelLink.CheckHtlcForward /
// CheckHtlcTransit (and through them canSendHtlc, validateHtlcAmount,
// ExpectedFee, InboundFee.CalcFee, createFailureWithUpdate) on seeded and
// boundary-placed inputs and writes inputs + the observed failure (nil or
// wire failure type, failure detail, the amount/expiry carried by the
// failure) to VERIF_OUT as JSONL.  The Coq model (Policy/Exec.v) evaluates
// the same inputs with machine arithmetic and must agree; the python side
// (props/c09.py) additionally evaluates the property clauses with unbounded
// integers directly on these observed results.

import (
	"encoding/json"
	"errors"
	"fmt"
	"math"
	"math/big"
	"os"
	"testing"
	"time"

	"github.com/btcsuite/btcd/btcutil/v2"
	"github.com/btcsuite/btclog/v2"
	"github.com/lightningnetwork/lnd/fn/v2"
	"github.com/lightningnetwork/lnd/graph/db/models"
	"github.com/lightningnetwork/lnd/lnwallet"
	"github.com/lightningnetwork/lnd/lnwire"
	"github.com/lightningnetwork/lnd/routing/route"
	"github.com/lightningnetwork/lnd/tlv"
)

// vShaper is a stub AuxTrafficShaper whose answers the harness controls.
type vShaper struct {
	AuxTrafficShaper

	custom bool
	handle bool
	fail   bool
	bw     lnwire.MilliSatoshi
}

func (a *vShaper) ShouldHandleTraffic(lnwire.ShortChannelID,
	fn.Option[tlv.Blob], fn.Option[tlv.Blob]) (bool, error) {

	if a.fail {
		return false, errors.New("verif: shaper failure")
	}

	return a.handle, nil
}

func (a *vShaper) PaymentBandwidth(_, _, _ fn.Option[tlv.Blob],
	_, _ lnwire.MilliSatoshi, _ lnwallet.AuxHtlcView,
	_ route.Vertex) (lnwire.MilliSatoshi, error) {

	return a.bw, nil
}

func (a *vShaper) IsCustomHTLC(lnwire.CustomRecords) bool { return a.custom }

type vPolCase struct {
	Case int    `json:"case"`
	Kind string `json:"kind"` // fwd | transit
	Cls  string `json:"cls"`  // generator class (histograms only)

	// policy + link configuration
	Min     uint64 `json:"min"`
	Max     uint64 `json:"max"`
	Base    uint64 `json:"base"`
	Rate    uint64 `json:"rate"`
	Delta   uint32 `json:"delta"`
	Rej     uint32 `json:"rej"`
	MaxCltv uint32 `json:"maxcltv"`

	// environment
	ChanBw uint64 `json:"chanbw"` // link.Bandwidth() of the real channel
	Aux    int    `json:"aux"`    // 0 none 1 declines 2 handles 3 error
	AuxBw  uint64 `json:"auxbw"`
	Custom bool   `json:"custom"`
	UpdOk  bool   `json:"updok"` // FetchLastChannelUpdate succeeds

	// htlc
	In     uint64 `json:"in"`
	Out    uint64 `json:"out"`
	InExp  uint32 `json:"inexp"`
	OutExp uint32 `json:"outexp"`
	IBase  int32  `json:"ibase"`
	IRate  int32  `json:"irate"`
	Height uint32 `json:"height"`

	// observed
	Code   int    `json:"code"`
	Detail int    `json:"detail"`
	Name   string `json:"name"`
	Arg  uint64 `json:"arg"`
}

const (
	vOk = iota
	vFeeInsufficient
	vAmountBelowMinimum
	vTemporaryChannelFailure
	vExpiryTooSoon
	vExpiryTooFar
	vIncorrectCltvExpiry
	vTemporaryNodeFailure
	vOther
)

// vClassify maps a *LinkError to the small enums compared with the model:
// wire failure type, failure detail (0 none, 1 HTLCExceedsMax,
// 2 InsufficientBalance, 9 anything else) and the amount / expiry carried
// inside the wire failure (0 if none).
func vClassify(le *LinkError) (int, int, string, uint64) {
	if le == nil {
		return vOk, 0, "nil", 0
	}
	msg := le.WireMessage()
	name := fmt.Sprintf("%T", msg)
	detail := 9
	switch le.FailureDetail {
	case nil:
		detail = 0
	case OutgoingFailureHTLCExceedsMax:
		detail = 1
	case OutgoingFailureInsufficientBalance:
		detail = 2
	}
	switch detail {
	case 1:
		name += "/ExceedsMax"
	case 2:
		name += "/InsufficientBalance"
	case 9:
		name += fmt.Sprintf("/%v", le.FailureDetail)
	}
	switch m := msg.(type) {
	case *lnwire.FailFeeInsufficient:
		return vFeeInsufficient, detail, name, uint64(m.HtlcMsat)

	case *lnwire.FailAmountBelowMinimum:
		return vAmountBelowMinimum, detail, name, uint64(m.HtlcMsat)

	case *lnwire.FailTemporaryChannelFailure:
		return vTemporaryChannelFailure, detail, name, 0

	case *lnwire.FailExpiryTooSoon:
		return vExpiryTooSoon, detail, name, 0

	case *lnwire.FailExpiryTooFar:
		return vExpiryTooFar, detail, name, 0

	case *lnwire.FailIncorrectCltvExpiry:
		return vIncorrectCltvExpiry, detail, name, uint64(m.CltvExpiry)

	case *lnwire.FailTemporaryNodeFailure:
		return vTemporaryNodeFailure, detail, name, 0
	}

	return vOther, detail, name, 0
}

var (
	vTwo64   = new(big.Int).Lsh(big.NewInt(1), 64)
	vMillion = big.NewInt(1000000)
)

// vSpecFee is the unbounded-integer total fee (outbound + inbound) the
// property text asks for; only used by the GENERATOR to place `in` at the
// accept/reject boundary.
func vSpecFee(c *vPolCase) *big.Int {
	out := new(big.Int).SetUint64(c.Out)
	f := new(big.Int).Mul(out, new(big.Int).SetUint64(c.Rate))
	f.Div(f, vMillion)
	f.Add(f, new(big.Int).SetUint64(c.Base))
	r := int64(c.IRate)
	if r > 10000000 {
		r = 10000000
	}
	if r < -10000000 {
		r = -10000000
	}
	a := new(big.Int).Add(out, f)
	p := new(big.Int).Mul(big.NewInt(r), a)
	p.Quo(p, vMillion) // truncates toward zero
	p.Add(p, big.NewInt(int64(c.IBase)))

	return p.Add(p, f)
}

func vClampU64(b *big.Int) uint64 {
	if b.Sign() < 0 {
		return 0
	}
	if b.Cmp(vTwo64) >= 0 {
		return math.MaxUint64
	}

	return b.Uint64()
}

// vSetIn places the incoming amount d above (d<0: below) the smallest
// accepted incoming amount.
func vSetIn(c *vPolCase, d int64) {
	t := vSpecFee(c)
	if t.Sign() < 0 {
		t.SetInt64(0)
	}
	t.Add(t, new(big.Int).SetUint64(c.Out))
	t.Add(t, big.NewInt(d))
	c.In = vClampU64(t)
}

func vPick[T any](r *vrng, xs ...T) T { return xs[r.intn(len(xs))] }

func vEffBw(c *vPolCase) uint64 {
	if c.Aux == 2 {
		return c.AuxBw
	}

	return c.ChanBw
}

// vBaseline fills c with a forward that satisfies every clause with slack,
// inside the realistic domain.
func vBaseline(r *vrng, c *vPolCase, chanBws []uint64) int {
	ci := r.intn(len(chanBws))
	c.ChanBw = chanBws[ci]
	c.UpdOk = true
	c.Aux = 0
	switch r.intn(10) {
	case 0:
		c.Aux = 1
	case 1, 2:
		c.Aux = 2
		c.AuxBw = vPick(r, uint64(0), 1, 1000, 50_000_000,
			uint64(r.rng(0, 1<<42)), uint64(r.rng(0, 1<<20)))
	}
	if c.Aux != 0 && r.intn(8) == 0 {
		c.Custom = true
	}
	bw := vEffBw(c)

	c.Height = vPick(r, uint32(0), 1, 100, 800_000, 900_123,
		uint32(r.rng(0, 2_000_000)), uint32(r.rng(0, 1<<31-1)))
	c.Rej = vPick(r, uint32(0), 1, 3, 3, 3, 10, uint32(r.rng(0, 100)))
	c.MaxCltv = vPick(r, uint32(2016), 2016, 2016, 144, 1,
		uint32(r.rng(1, 5000)), uint32(r.rng(1, 1<<16)))
	if c.MaxCltv <= c.Rej {
		c.MaxCltv = c.Rej + 1 + uint32(r.intn(50))
	}
	c.Delta = vPick(r, uint32(0), 1, 18, 40, 80, 144,
		uint32(r.rng(0, 300)))
	if c.Delta > c.MaxCltv {
		c.Delta = c.MaxCltv
	}
	c.OutExp = c.Height + c.Rej + 1 +
		uint32(r.intn(int(c.MaxCltv-c.Rej)))
	room := c.MaxCltv - c.Delta
	c.InExp = c.OutExp + c.Delta + uint32(r.intn(int(room)+1))

	c.Min = vPick(r, uint64(0), 1, 1000, 1000, uint64(r.rng(0, 100_000)))
	if c.Min > bw {
		c.Min = bw
	}
	c.Max = vPick(r, uint64(0), bw, bw+uint64(r.intn(1000)),
		c.Min+uint64(r.rng(0, 1<<30)), uint64(r.rng(int64(c.Min), 1<<42)))
	hi := bw
	if c.Max != 0 && c.Max < hi {
		hi = c.Max
	}
	if hi < c.Min {
		hi = c.Min
	}
	switch r.intn(4) {
	case 0:
		c.Out = uint64(r.rng(int64(c.Min), int64(hi)))
	case 1:
		c.Out = c.Min + uint64(r.rng(0, 5000))
		if c.Out > hi {
			c.Out = hi
		}
	case 2:
		c.Out = hi - uint64(r.rng(0, int64(hi-c.Min)))%5000
	default:
		// fee-rounding-sensitive small amounts
		c.Out = uint64(r.rng(int64(c.Min), int64(c.Min)+2_000_000))
		if c.Out > hi {
			c.Out = hi
		}
	}

	c.Base = vPick(r, uint64(0), 1, 1000, 1000, uint64(r.rng(0, 100_000)),
		uint64(r.rng(0, 1<<32-1)))
	c.Rate = vPick(r, uint64(0), 1, 100, 1000, 2500, 999_999, 1_000_000,
		uint64(r.rng(0, 1_000_000)))
	switch r.intn(3) {
	case 0:
		c.IBase, c.IRate = 0, 0
	case 1:
		// discounts (the default-permitted sign)
		c.IBase = -int32(vPick(r, int64(0), 1, 1000, r.rng(0, 100_000),
			r.rng(0, 1<<31)))
		c.IRate = -int32(vPick(r, int64(0), 1, 100, 1000, 999_999,
			1_000_000, r.rng(0, 1_000_000)))
	default:
		c.IBase = int32(r.rng(-100_000, 100_000))
		c.IRate = int32(vPick(r, r.rng(-1_000_000, 1_000_000),
			r.rng(-5000, 5000), 1_000_000, -1_000_000))
	}
	vSetIn(c, r.rng(0, 3)*r.rng(0, 1000))

	return ci
}

var vPerturbs = []string{
	"fee", "fee", "fee", "inlt", "min", "max", "bw", "soon", "far",
	"delta", "delta", "deltamax", "deltaneg",
}

// vPerturb moves one comparison to its boundary (d in -1,0,+1, sometimes
// further away).
func vPerturb(r *vrng, c *vPolCase, which string) {
	d := r.rng(-1, 1)
	if r.intn(6) == 0 {
		d = r.rng(-3, 3) * r.rng(1, 1000)
	}
	addU := func(x uint64, d int64) uint64 {
		b := new(big.Int).SetUint64(x)
		return vClampU64(b.Add(b, big.NewInt(d)))
	}
	switch which {
	case "fee":
		vSetIn(c, d)

	case "inlt":
		// incoming below outgoing although the (discounted) fee allows
		// it: negative total fee.
		c.IBase = -int32(r.rng(1, 1<<31))
		c.IRate = -int32(r.rng(0, 1_000_000))
		c.In = addU(c.Out, d)

	case "min":
		if c.Min == 0 {
			c.Min = uint64(r.rng(1, 100_000))
		}
		c.Out = addU(c.Min, d)
		vSetIn(c, r.rng(0, 2))

	case "max":
		if c.Max == 0 {
			c.Max = uint64(r.rng(int64(c.Min), int64(c.Min)+1<<30))
		}
		c.Out = addU(c.Max, d)
		vSetIn(c, r.rng(0, 2))

	case "bw":
		bw := vEffBw(c)
		if r.bool() {
			c.Max = 0
		} else if c.Max != 0 && c.Max <= bw+1 {
			c.Max = bw + 1 + uint64(r.intn(3))
		}
		if c.Min > bw {
			c.Min = addU(bw, -1)
		}
		c.Out = addU(bw, d)
		vSetIn(c, r.rng(0, 2))

	case "soon":
		c.OutExp = uint32(int64(c.Height) + int64(c.Rej) + d)
		if r.bool() {
			c.InExp = c.OutExp + c.Delta
		}

	case "far":
		c.OutExp = uint32(int64(c.Height) + int64(c.MaxCltv) + d)
		if r.bool() {
			c.InExp = c.OutExp + c.Delta
		}

	case "delta":
		c.InExp = uint32(int64(c.OutExp) + int64(c.Delta) + d)

	case "deltaneg":
		c.InExp = uint32(int64(c.OutExp) + r.rng(-2, 1))

	case "deltamax":
		if r.bool() && c.Delta > 0 {
			c.Delta = uint32(r.intn(int(c.Delta)))
		}
		c.InExp = uint32(int64(c.OutExp) + int64(c.MaxCltv) + d)
	}
}

func vNear32(r *vrng) uint32 {
	switch r.intn(4) {
	case 0:
		return uint32(r.rng(0, 6))
	case 1:
		return math.MaxUint32 - uint32(r.rng(0, 6))
	case 2:
		return 1<<31 + uint32(r.rng(-3, 3))
	}

	return uint32(r.u64())
}

func vNear64(r *vrng) uint64 {
	switch r.intn(6) {
	case 0:
		return uint64(r.rng(0, 6))
	case 1:
		return math.MaxUint64 - uint64(r.rng(0, 6))
	case 2:
		return 1<<63 + uint64(r.rng(-3, 3))
	case 3:
		return uint64(r.rng(0, 1<<44))
	case 4:
		return 1 << uint(r.intn(64))
	}

	return r.u64()
}

// vWild produces inputs outside the realistic domain: uint32 wrap
// neighbourhoods for heights/expiries, and uint64/int64 overflow
// neighbourhoods for the fee arithmetic.  The model is machine-exact so it
// has to agree here as well.
func vWild(r *vrng, c *vPolCase) {
	switch r.intn(6) {
	case 0:
		// heightNow+rejectDelta crosses 2^32
		c.Height = math.MaxUint32 - c.Rej + uint32(r.rng(-2, 2))
		c.OutExp = vPick(r, c.Height+c.Rej+uint32(r.rng(-1, 2)),
			vNear32(r), c.Height, c.Height+1)
		c.InExp = c.OutExp + c.Delta + uint32(r.rng(-1, 1))

	case 1:
		// maxCltv+heightNow crosses 2^32
		c.Height = math.MaxUint32 - c.MaxCltv + uint32(r.rng(-2, 2))
		c.OutExp = vPick(r, c.Height+c.Rej+1+uint32(r.intn(4)),
			c.Height+c.MaxCltv+uint32(r.rng(-1, 1)), vNear32(r))
		c.InExp = c.OutExp + c.Delta + uint32(r.rng(-1, 1))

	case 2:
		c.Height, c.OutExp, c.InExp = vNear32(r), vNear32(r), vNear32(r)
		c.Rej = vPick(r, c.Rej, vNear32(r))
		c.MaxCltv = vPick(r, c.MaxCltv, vNear32(r), math.MaxUint32)
		c.Delta = vPick(r, c.Delta, vNear32(r))

	case 3:
		// out*rate crosses 2^64
		c.Rate = vPick(r, uint64(1_000_000), 1<<32, uint64(r.rng(1, 1<<40)),
			vNear64(r))
		if c.Rate == 0 {
			c.Rate = 1
		}
		q := new(big.Int).Div(vTwo64, new(big.Int).SetUint64(c.Rate))
		q.Add(q, big.NewInt(r.rng(-2, 2)))
		c.Out = vClampU64(q)
		c.Max, c.Min = 0, 0
		c.Aux, c.AuxBw = 2, math.MaxUint64
		vSetIn(c, r.rng(-1, 1))
		if r.bool() {
			c.In = vNear64(r)
		}

	case 4:
		// inbound rate * amount crosses 2^63 (rate is clamped to
		// +-10^7 by the code)
		c.IRate = vPick(r, int32(10_000_000), -10_000_000, 10_000_001,
			math.MaxInt32, math.MinInt32, 1_000_000, -1_000_000,
			int32(r.rng(-20_000_000, 20_000_000)))
		rr := int64(c.IRate)
		if rr > 10_000_000 {
			rr = 10_000_000
		}
		if rr < -10_000_000 {
			rr = -10_000_000
		}
		if rr == 0 {
			rr = 1
		}
		if rr < 0 {
			rr = -rr
		}
		c.Rate = vPick(r, uint64(0), 0, 1, 1000)
		c.Base = vPick(r, uint64(0), 1000)
		c.Out = uint64(math.MaxInt64/rr + r.rng(-2, 2))
		if r.intn(3) == 0 {
			c.Out = uint64(r.rng(math.MaxInt64/rr-1_000_000, 1<<44))
		}
		c.Max, c.Min = 0, 0
		c.Aux, c.AuxBw = 2, math.MaxUint64
		vSetIn(c, r.rng(-1, 1))

	default:
		c.In, c.Out = vNear64(r), vNear64(r)
		c.Base = vPick(r, c.Base, vNear64(r))
		c.Rate = vPick(r, c.Rate, vNear64(r))
		c.Min = vPick(r, c.Min, 0, vNear64(r))
		c.Max = vPick(r, c.Max, 0, vNear64(r))
		c.IBase = vPick(r, c.IBase, math.MinInt32, math.MaxInt32,
			int32(r.u64()))
		c.IRate = vPick(r, c.IRate, math.MinInt32, math.MaxInt32,
			int32(r.u64()), 10_000_000, -10_000_000, 9_999_999,
			-10_000_001)
		if r.bool() {
			c.Aux, c.AuxBw = 2, vNear64(r)
		}
	}
}

// vFixed are the witnesses of the Coq theorems C09_wrap_refuted_outside and
// C09_fee_wrap_refuted_outside and the boundary pair of Policy/Examples.v;
// they are replayed on the real link at the start of every run (channel 3,
// the 10 BTC one).
func vFixed() []*vPolCase {
	w := func(cls string, in, out uint64, inexp, outexp uint32, ibase,
		irate int32, height uint32) *vPolCase {

		return &vPolCase{
			Kind: "fwd", Cls: cls, Min: 1000, Base: 1000, Rate: 1,
			Delta: 40, Rej: 3, MaxCltv: 2016, UpdOk: true,
			In: in, Out: out, InExp: inexp, OutExp: outexp,
			IBase: ibase, IRate: irate, Height: height,
		}
	}
	a := w("witness:accept-expired", 2002, 1000, 140, 100, 0, 0,
		4294967295)
	b := w("witness:reject-valid", 2002, 1000, 4294966346, 4294966306, 0,
		0, 4294966296)
	f := w("witness:fee-overflow", 930000000000, 930000000000, 1140, 1100,
		0, 10000000, 1000)
	f.Min, f.Base, f.Rate = 0, 0, 0
	x1 := w("example:boundary", 5007987, 5000000, 800200, 800100, -500,
		-1000, 800000)
	x1.Max, x1.Base, x1.Rate, x1.Delta = 4950000000, 1000, 2500, 80
	x2 := *x1
	x2.In--

	return []*vPolCase{a, b, f, x1, &x2}
}

// vGrids enumerates three small universes EXHAUSTIVELY (correspondence
// support, not a proof): the uint32 time-lock logic around 0 and around the
// 2^32 wrap, the fee inequality for tiny amounts with every sign of the
// inbound fee, and the amount window / bandwidth / shaper modes.
func vGrids() []*vPolCase {
	base := func(cls string) *vPolCase {
		return &vPolCase{
			Kind: "fwd", Cls: cls, Min: 0, Max: 0, Base: 0, Rate: 0,
			Delta: 1, Rej: 1, MaxCltv: 3, UpdOk: true, Aux: 2,
			AuxBw: 1 << 40, In: 10, Out: 5, InExp: 4, OutExp: 3,
			Height: 1,
		}
	}
	var cs []*vPolCase
	top := uint32(math.MaxUint32)
	heights := []uint32{0, 1, 2, top - 2, top - 1, top}
	exps := []uint32{0, 1, 2, 3, 4, top - 2, top - 1, top}
	for _, h := range heights {
		for rej := uint32(0); rej < 3; rej++ {
			for mc := uint32(0); mc < 4; mc++ {
				for _, oe := range exps {
					for _, ie := range exps {
						for d := uint32(0); d < 3; d++ {
							c := base("grid:timelock")
							c.Height, c.Rej, c.MaxCltv = h, rej, mc
							c.OutExp, c.InExp, c.Delta = oe, ie, d
							cs = append(cs, c)
						}
					}
				}
			}
		}
	}
	rates := []uint64{0, 500_000, 1_000_000}
	irates := []int32{-1_000_000, -500_000, 0, 500_000, 1_000_000}
	for in := uint64(0); in < 7; in++ {
		for out := uint64(0); out < 5; out++ {
			for b := uint64(0); b < 3; b++ {
				for _, rt := range rates {
					for ib := int32(-2); ib <= 2; ib++ {
						for _, ir := range irates {
							c := base("grid:fee")
							c.In, c.Out, c.Base, c.Rate = in, out, b, rt
							c.IBase, c.IRate = ib, ir
							cs = append(cs, c)
						}
					}
				}
			}
		}
	}
	for mn := uint64(0); mn < 3; mn++ {
		for mx := uint64(0); mx < 4; mx++ {
			for bw := uint64(0); bw < 4; bw++ {
				for out := uint64(0); out < 5; out++ {
					for aux := 0; aux < 4; aux++ {
						for k := 0; k < 8; k++ {
							c := base("grid:amount")
							c.Min, c.Max, c.AuxBw, c.Out = mn, mx, bw, out
							c.Aux = aux
							c.Custom = k&1 == 1
							c.UpdOk = k&2 == 0
							if k&4 != 0 {
								c.Kind = "transit"
							}
							cs = append(cs, c)
						}
					}
				}
			}
		}
	}

	return cs
}

func TestVerifPolicy(t *testing.T) {
	out := vOpenOut()
	defer out.close()
	master := vNewRng(vSeed())
	ncases := vCases(40000, 400000)

	// Real channels with different balances: the link's bandwidth is what
	// the real LightningChannel reports.
	type vChan struct {
		link   *channelLink
		shaper *vShaper
		bw     uint64
	}
	amts := []btcutil.Amount{100_000, 5_000_000, 16_777_215, 1_000_000_000}
	var chans []*vChan
	var bws []uint64
	updOk := true
	fetch := func(lnwire.ShortChannelID) (*lnwire.ChannelUpdate1, error) {
		if !updOk {
			return nil, errors.New("verif: no update")
		}
		return &lnwire.ChannelUpdate1{Signature: wireSig}, nil
	}
	for i, a := range amts {
		tc, _, err := createTestChannel(
			t, alicePrivKey, bobPrivKey, a, a/2, a/100, a/100,
			lnwire.NewShortChanIDFromInt(uint64(1000+i)),
		)
		if err != nil {
			t.Fatal(err)
		}
		l := &channelLink{
			cfg: ChannelLinkConfig{
				FetchLastChannelUpdate: fetch,
				HtlcNotifier:           &mockHTLCNotifier{},
				Peer: &mockPeer{
					sentMsgs: make(chan lnwire.Message, 1),
					quit:     make(chan struct{}),
				},
			},
			log:     btclog.Disabled,
			channel: tc.channel,
		}
		l.attachFailAliasUpdate(func(lnwire.ShortChannelID,
			bool) *lnwire.ChannelUpdate1 {

			return nil
		})
		vc := &vChan{link: l, shaper: &vShaper{}, bw: uint64(l.Bandwidth())}
		chans = append(chans, vc)
		bws = append(bws, vc.bw)
	}

	var hash [32]byte
	fixed := vFixed()
	if rp := os.Getenv("VERIF_REPLAY_CASE"); rp != "" {
		// --replay: exactly one recorded input, on the channel whose
		// bandwidth is closest to the recorded one.
		rc := &vPolCase{}
		if err := json.Unmarshal([]byte(rp), rc); err != nil {
			t.Fatal(err)
		}
		rc.Cls = "replay"
		fixed = []*vPolCase{rc}
	} else if vEnvInt("VERIF_GRIDS", 1) != 0 {
		fixed = append(fixed, vGrids()...)
	}
	for ci := 0; ci < ncases+len(fixed); ci++ {
		r := master.fork(uint64(ci))
		c := &vPolCase{Case: ci, Kind: "fwd"}
		chi := vBaseline(r, c, bws)
		if ci < len(fixed) {
			c, chi = fixed[ci], len(chans)-1
			c.Case = ci
			for k, b := range bws {
				if c.Cls == "replay" && b == c.ChanBw {
					chi = k
				}
			}
		}

		// class of the case
		sel := r.intn(100)
		switch {
		case ci < len(fixed):

		case sel < 12:
			c.Cls = "valid"

		case sel < 62:
			w := vPick(r, vPerturbs...)
			c.Cls = "b:" + w
			vPerturb(r, c, w)

		case sel < 77:
			w1, w2 := vPick(r, vPerturbs...), vPick(r, vPerturbs...)
			c.Cls = "b2"
			vPerturb(r, c, w1)
			vPerturb(r, c, w2)

		case sel < 80:
			c.Cls = "env"
			switch r.intn(3) {
			case 0:
				c.Aux = 3
			case 1:
				c.UpdOk = false
				vPerturb(r, c, vPick(r, vPerturbs...))
			default:
				c.Aux = vPick(r, 1, 2)
				c.Custom = true
				vPerturb(r, c, vPick(r, "min", "max", "bw"))
			}

		default:
			c.Cls = "wild"
			vWild(r, c)
			if r.intn(3) == 0 {
				vPerturb(r, c, vPick(r, vPerturbs...))
			}
		}
		if ci < len(fixed) {
			// kind is part of the fixed case
		} else if r.intn(8) == 0 {
			c.Kind = "transit"
		}

		// Configure the real link.
		vc := chans[chi]
		l := vc.link
		l.cfg.FwrdingPolicy = models.ForwardingPolicy{
			MinHTLCOut:    lnwire.MilliSatoshi(c.Min),
			MaxHTLC:       lnwire.MilliSatoshi(c.Max),
			BaseFee:       lnwire.MilliSatoshi(c.Base),
			FeeRate:       lnwire.MilliSatoshi(c.Rate),
			TimeLockDelta: c.Delta,
		}
		l.cfg.OutgoingCltvRejectDelta = c.Rej
		l.cfg.MaxOutgoingCltvExpiry = c.MaxCltv
		updOk = c.UpdOk
		if c.Aux == 0 {
			l.cfg.AuxTrafficShaper = fn.None[AuxTrafficShaper]()
		} else {
			*vc.shaper = vShaper{
				custom: c.Custom, handle: c.Aux == 2,
				fail: c.Aux == 3, bw: lnwire.MilliSatoshi(c.AuxBw),
			}
			l.cfg.AuxTrafficShaper = fn.Some[AuxTrafficShaper](
				vc.shaper,
			)
		}
		c.ChanBw = uint64(l.Bandwidth())

		var le *LinkError
		if c.Kind == "fwd" {
			le = l.CheckHtlcForward(
				hash, lnwire.MilliSatoshi(c.In),
				lnwire.MilliSatoshi(c.Out), c.InExp, c.OutExp,
				models.InboundFee{Base: c.IBase, Rate: c.IRate},
				c.Height, lnwire.NewShortChanIDFromInt(77), nil,
			)
		} else {
			le = l.CheckHtlcTransit(
				hash, lnwire.MilliSatoshi(c.Out), c.OutExp,
				c.Height, nil,
			)
		}
		c.Code, c.Detail, c.Name, c.Arg = vClassify(le)
		out.emit(c)
	}

	vSelectPart(t, out, master.fork(1<<40))
}

// vSelCase is one packet pushed through the REAL Switch.handlePacketAdd with
// four mock links to the next peer whose EligibleToForward / CheckHtlcForward
// answers the harness chose.
type vSelCase struct {
	Case   int    `json:"case"`
	Kind   string `json:"kind"` // "select"
	Elig   []bool `json:"elig"`
	Checks []int  `json:"checks"` // per link: 0 nil, else harness wire enum
	Req    int    `json:"req"`    // index of the requested outgoing link
	Chosen int    `json:"chosen"` // link that received the add, -1 = failed
	Reply  int    `json:"reply"`  // wire enum of the failure sent back
	Name   string `json:"name"`
}

const vUnknownNextPeer = 20

func vSelectPart(t *testing.T, out *vWriter, r *vrng) {
	n := vCases(150, 3000)
	if n > 3000 {
		n = 3000
	}
	alicePeer, err := newMockServer(
		t, "alice", testStartingHeight, nil, testDefaultDelta,
	)
	if err != nil {
		t.Fatal(err)
	}
	bobPeer, err := newMockServer(
		t, "bob", testStartingHeight, nil, testDefaultDelta,
	)
	if err != nil {
		t.Fatal(err)
	}
	s, err := initSwitchWithTempDB(t, testStartingHeight)
	if err != nil {
		t.Fatal(err)
	}
	if err := s.Start(); err != nil {
		t.Fatal(err)
	}
	defer s.Stop()

	chanID1, aliceChanID := genID()
	alice := newMockChannelLink(
		s, chanID1, aliceChanID, emptyScid, alicePeer, true, false,
		false, false,
	)
	if err := s.AddLink(alice); err != nil {
		t.Fatal(err)
	}
	var bobs []*mockChannelLink
	for i := 0; i < 4; i++ {
		cid, scid := genID()
		b := newMockChannelLink(
			s, cid, scid, emptyScid, bobPeer, true, false, false,
			false,
		)
		if err := s.AddLink(b); err != nil {
			t.Fatal(err)
		}
		bobs = append(bobs, b)
	}
	mk := func(k int) *LinkError {
		switch k {
		case vFeeInsufficient:
			return NewLinkError(&lnwire.FailFeeInsufficient{})
		case vTemporaryChannelFailure:
			return NewDetailedLinkError(
				lnwire.NewTemporaryChannelFailure(nil),
				OutgoingFailureInsufficientBalance,
			)
		case vExpiryTooSoon:
			return NewLinkError(&lnwire.FailExpiryTooSoon{})
		case vIncorrectCltvExpiry:
			return NewLinkError(&lnwire.FailIncorrectCltvExpiry{})
		case vExpiryTooFar:
			return NewLinkError(&lnwire.FailExpiryTooFar{})
		}

		return nil
	}
	kinds := []int{0, 0, 0, vFeeInsufficient, vTemporaryChannelFailure,
		vExpiryTooSoon, vIncorrectCltvExpiry, vExpiryTooFar}

	for ci := 0; ci < n; ci++ {
		c := &vSelCase{Case: ci, Kind: "select", Chosen: -1}
		// a third of the cases: nobody admits (failure path)
		allFail := r.intn(3) == 0
		for i, b := range bobs {
			e := r.intn(4) != 0
			k := vPick(r, kinds...)
			if allFail && e && k == 0 {
				if r.bool() {
					e = false
				} else {
					k = vPick(r, kinds[3:]...)
				}
			}
			b.eligible = e
			b.checkHtlcForwardResult = mk(k)
			c.Elig = append(c.Elig, e)
			c.Checks = append(c.Checks, k)
			_ = i
		}
		c.Req = r.intn(len(bobs))

		var pre [32]byte
		copy(pre[:], r.bytes(32))
		obfuscator := NewMockObfuscator()
		packet := &htlcPacket{
			incomingChanID: alice.ShortChanID(),
			incomingHTLCID: uint64(ci),
			outgoingChanID: bobs[c.Req].ShortChanID(),
			htlc: &lnwire.UpdateAddHTLC{
				PaymentHash: pre,
				Amount:      1,
			},
			obfuscator: obfuscator,
		}
		if err := s.ForwardPackets(nil, packet); err != nil {
			t.Fatal(err)
		}
		var le *LinkError
		select {
		case p := <-alice.packets:
			le = p.linkFailure
			if le == nil {
				t.Fatalf("select %d: reply without failure", ci)
			}
		case <-bobs[0].packets:
			c.Chosen = 0
		case <-bobs[1].packets:
			c.Chosen = 1
		case <-bobs[2].packets:
			c.Chosen = 2
		case <-bobs[3].packets:
			c.Chosen = 3
		case <-time.After(20 * time.Second):
			t.Fatalf("select %d: no reply from switch", ci)
		}
		if le != nil {
			c.Reply, _, c.Name, _ = vClassify(le)
			if _, ok := le.WireMessage().(*lnwire.FailUnknownNextPeer); ok {
				c.Reply = vUnknownNextPeer
			}
		} else {
			c.Name = "forwarded"
		}
		out.emit(c)
	}
}
