//go:build verif

package htlcswitch

// C09 "argument plumbing" stage: the forwarding DECISION observed on every
// path by which a forwarded ADD reaches the policy check in real operation.
//
// verif_policy_test.go evaluates the decision function (CheckHtlcForward) on
// generated ARGUMENTS.  This file drives the real link + switch of a
// three-hop network (Alice -> Bob -> Carol, lnd's own test fixture: real
// lnwallet channels, real channelLink, real Switch, real circuit map and
// forwarding packages on disk) and observes what decision an HTLC gets, and
// with which arguments the decision function is called, when the ADD arrives
// at the switch
//
//	live              first-time forward, uninterrupted
//	decode/restart    Bob dies after the fwd pkg was written (LockedIn) but
//	                  before SetFwdFilter; restart: first-time branch of
//	                  processRemoteAdds at start-up
//	fwd/restart       Bob dies after SetFwdFilter, before the circuit is
//	                  committed; restart: RE-FORWARD branch (FwdFilter set,
//	                  no circuit) - the only decision this HTLC ever gets
//	committed/restart Bob dies right after CommitCircuits; restart: the
//	                  half-open circuit makes the switch fail the replay
//	                  (no policy decision; soundness only)
//	decode/flap, fwd/flap, committed/flap
//	                  the same three points with a flap of the incoming
//	                  channel (both link ends stopped, channel states
//	                  reloaded, links re-established) while the switch and
//	                  its circuit map stay up
//
// Bob's incoming channel carries a non-zero inbound fee (discount / surcharge
// / base only / rate only / mixed signs / none), Bob's outgoing channel a
// varied outbound policy; the HTLC pays exactly the required total, 1 msat
// less, 1 msat more, or sits on the time-lock-delta / min_htlc boundary.
//
// Observed per scenario: every call of CheckHtlcForward on Bob's outgoing
// link (arguments + answer, through a delegating wrapper registered with the
// switch), and end to end: did the HTLC reach Carol (invoice settled) or which
// wire failure came back to Alice.  The row carries the inputs AS CONFIGURED
// (channel policies, HTLC as sent) so that props/c09.py can compare the
// observed decision with the python oracle and the Coq model on those inputs.

import (
	"bufio"
	"context"
	"encoding/json"
	"errors"
	"fmt"
	"os"
	"sync"
	"sync/atomic"
	"testing"
	"time"

	"github.com/btcsuite/btcd/btcec/v2"
	"github.com/btcsuite/btcd/btcutil/v2"
	"github.com/btcsuite/btcd/wire/v2"
	"github.com/lightningnetwork/lnd/channeldb"
	"github.com/lightningnetwork/lnd/chanstate"
	"github.com/lightningnetwork/lnd/contractcourt"
	"github.com/lightningnetwork/lnd/graph/db/models"
	"github.com/lightningnetwork/lnd/htlcswitch/hop"
	invpkg "github.com/lightningnetwork/lnd/invoices"
	"github.com/lightningnetwork/lnd/lnwallet"
	"github.com/lightningnetwork/lnd/lnwallet/chainfee"
	"github.com/lightningnetwork/lnd/lnwire"
	"github.com/lightningnetwork/lnd/ticker"
)

// vPPSpec is one scenario (the input).
type vPPSpec struct {
	Path string `json:"path"`
	Rule string `json:"rule"` // fee | delta | min : the comparison the HTLC sits on
	D    int64  `json:"d"`    // offset from that boundary

	// Bob's incoming channel
	IBase int32 `json:"ibase"`
	IRate int32 `json:"irate"`
	// Bob's outgoing channel
	Base  uint64 `json:"base"`
	Rate  uint64 `json:"rate"`
	Delta uint32 `json:"delta"`
	Min   uint64 `json:"min"`
	Max   uint64 `json:"max"`
	// the HTLC
	Out    uint64 `json:"out"`
	OutExp uint32 `json:"outexp"`
	// a second HTLC sent right behind the first one (same forwarding
	// package as a rule): its own outgoing amount, on the fee boundary + d2
	Out2 uint64 `json:"out2,omitempty"`
	D2   int64  `json:"d2,omitempty"`
	// the policies reach the links through UpdateForwardingPolicy (as after
	// an updatechanpolicy) instead of the link config
	Upd bool `json:"upd,omitempty"`
}

// vPPCall is one observed call of CheckHtlcForward.
type vPPCall struct {
	In     uint64 `json:"in"`
	Out    uint64 `json:"out"`
	InExp  uint32 `json:"inexp"`
	OutExp uint32 `json:"outexp"`
	IBase  int32  `json:"ibase"`
	IRate  int32  `json:"irate"`
	Height uint32 `json:"height"`
	Scid   uint64 `json:"scid"` // originalScid
	NRec   int    `json:"nrec"` // custom records on the outgoing add
	Phase  int    `json:"phase"`
	Code   int    `json:"code"`
	Detail int    `json:"detail"`
	Name   string `json:"name"`
	Arg    uint64 `json:"arg"`

	hash [32]byte
}

type vPPRow struct {
	vPolCase
	Path      string    `json:"path"`
	Htlc      int       `json:"htlc,omitempty"` // 2: second HTLC of a batch
	Spec      vPPSpec   `json:"spec"`
	Calls     []vPPCall `json:"calls"`
	Forwarded int       `json:"forwarded"` // update_add_htlc of this payment received by Carol
	Settled   bool      `json:"settled"`   // Carol's invoice settled
	AliceOk   bool      `json:"alice_ok"`  // Alice's attempt succeeded
	AliceErr  string    `json:"alice_err"` // %T of the wire failure Alice decoded
	AliceArg  uint64    `json:"alice_arg"`
	OutScid   uint64    `json:"out_scid"`
	Pkgs      []int     `json:"pkgs"`  // #adds of the forwarding packages Bob's incoming link (re)processed
	Fired     bool      `json:"fired"` // the stop point was reached
	Note      string    `json:"note"`  // non-empty: the scenario did not complete
	WallMs    int64     `json:"wall_ms"`
}

var vPPPaths = []string{
	"live", "decode/restart", "fwd/restart", "committed/restart",
	"decode/flap", "fwd/flap", "committed/flap",
}

// inbound fee of the incoming channel: discount, surcharge, base only
// (negative), rate only (positive), mixed signs, none.
var vPPInbound = [][2]int32{
	{-500, -100}, {1000, 100000}, {-2000, 0}, {0, 2500}, {700, -300}, {0, 0},
}

// ---- the network ----------------------------------------------------------------

type vPPNet struct {
	t    *testing.T
	spec *vPPSpec

	mu    sync.Mutex
	calls []vPPCall
	phase int              // 0 before the fault, 1 after
	adds  map[[32]byte]int // update_add_htlc messages that reached Carol
	pkgs  []int            // #adds of every forwarding package (re)processed by Bob's incoming link
	// gate holds back message delivery while both ends of a flapped channel
	// are re-created (the mock server DISCARDS a message whose link is not
	// registered yet, e.g. the peer's channel_reestablish)
	gate sync.RWMutex

	hook  string // decode | fwd | committed | ""
	flap  bool
	fired atomic.Bool
	hit   chan struct{}

	hn                 *hopNetwork
	a2b, b2a, b2c, c2b *testLightningChannel
	alice, bob, carol  *mockServer
	aliceLink, bob1    *channelLink
	bob2, carolLink    *channelLink
	inPolicy           models.ForwardingPolicy
	outPolicy          models.ForwardingPolicy
}

// vPPLink delegates everything to the real link and records the calls of the
// policy decision.
type vPPLink struct {
	ChannelLink
	n *vPPNet
}

func (w *vPPLink) CheckHtlcForward(payHash [32]byte, incomingAmt,
	amtToForward lnwire.MilliSatoshi, incomingTimeout, outgoingTimeout uint32,
	inboundFee models.InboundFee, heightNow uint32,
	originalScid lnwire.ShortChannelID,
	customRecords lnwire.CustomRecords) *LinkError {

	le := w.ChannelLink.CheckHtlcForward(payHash, incomingAmt, amtToForward,
		incomingTimeout, outgoingTimeout, inboundFee, heightNow,
		originalScid, customRecords)
	c := vPPCall{
		In: uint64(incomingAmt), Out: uint64(amtToForward),
		InExp: incomingTimeout, OutExp: outgoingTimeout,
		IBase: inboundFee.Base, IRate: inboundFee.Rate, Height: heightNow,
		Scid: originalScid.ToUint64(), NRec: len(customRecords), hash: payHash,
	}
	c.Code, c.Detail, c.Name, c.Arg = vClassify(le)
	w.n.mu.Lock()
	c.Phase = w.n.phase
	w.n.calls = append(w.n.calls, c)
	w.n.mu.Unlock()

	return le
}

// stop reports whether this hit of hook `place` is the scenario's stop point.
func (n *vPPNet) stop(place string) bool {
	if n.hook != place {
		return false
	}
	if n.fired.CompareAndSwap(false, true) {
		close(n.hit)

		return true
	}
	// Nothing leaves a dead process / a stopping link: until the fault has
	// been applied every later hit of the hook is lost as well.
	n.mu.Lock()
	defer n.mu.Unlock()

	return n.phase == 0
}

type vPPCircuits struct {
	CircuitMap
	n *vPPNet
}

func (c *vPPCircuits) CommitCircuits(cs ...*PaymentCircuit) (
	*CircuitFwdActions, error) {

	a, err := c.CircuitMap.CommitCircuits(cs...)
	n := c.n
	if err != nil || len(a.Adds) == 0 || !n.stop("committed") {
		return a, err
	}
	if !n.flap {
		// The process dies here: the circuit is on disk, the packet
		// never reaches the switch's forwarding loop.
		return &CircuitFwdActions{}, nil
	}
	// A concurrent stop of the incoming link: the handler goes on once the
	// link's quit channel is closed.
	n.mu.Lock()
	l := n.bob1
	n.mu.Unlock()
	select {
	case <-l.cg.Done():
	case <-time.After(10 * time.Second):
	}

	return a, err
}

// mkLink is hopNetwork.createChannelLink with the policy and the observation
// hooks installed before the link exists.  role: 0 Alice/Carol, 1 Bob's
// incoming link, 2 Bob's outgoing link.
func (n *vPPNet) mkLink(server, peer *mockServer, channel *lnwallet.LightningChannel,
	policy models.ForwardingPolicy, role int) (*channelLink, error) {

	const (
		fwdPkgTimeout       = 15 * time.Second
		minFeeUpdateTimeout = 30 * time.Minute
		maxFeeUpdateTimeout = 40 * time.Minute
	)
	notifyUpdateChan := make(chan *contractcourt.ContractUpdate)
	doneChan := make(chan struct{})
	notifyContractUpdate := func(u *contractcourt.ContractUpdate) error {
		select {
		case notifyUpdateChan <- u:
		case <-doneChan:
		}

		return nil
	}
	sw := server.htlcSwitch
	decoder := newMockIteratorDecoder()
	cfgPolicy := policy
	if n.spec.Upd && role != 0 {
		cfgPolicy = n.hn.globalPolicy
	}
	forwardPackets := func(linkQuit <-chan struct{}, _ bool,
		packets ...*htlcPacket) error {

		if role == 1 {
			hasAdd := false
			for _, p := range packets {
				if _, ok := p.htlc.(*lnwire.UpdateAddHTLC); ok {
					hasAdd = true
				}
			}
			if hasAdd && n.stop("fwd") {
				// Process death / link stop between SetFwdFilter
				// and CommitCircuits: the batch is lost.
				return nil
			}
			if hasAdd {
				// Scaffolding: the decision must not be an
				// unrelated "outgoing link not eligible yet"
				// right after a restart.
				dl := time.Now().Add(20 * time.Second)
				for time.Now().Before(dl) {
					n.mu.Lock()
					o := n.bob2
					n.mu.Unlock()
					if o != nil && o.EligibleToForward() {
						break
					}
					time.Sleep(5 * time.Millisecond)
				}
			}
		}

		return sw.ForwardPackets(linkQuit, packets...)
	}
	decode := func(id []byte, reqs []hop.DecodeHopIteratorRequest,
		reforward bool) ([]hop.DecodeHopIteratorResponse, error) {

		if role == 1 && len(reqs) > 0 {
			n.mu.Lock()
			n.pkgs = append(n.pkgs, len(reqs))
			n.mu.Unlock()
		}
		if role == 1 && len(reqs) > 0 && n.stop("decode") {
			// Leaves processRemoteAdds before SetFwdFilter: the
			// forwarding package stays FwdStateLockedIn.
			return nil, errors.New("verif: stop before SetFwdFilter")
		}

		return decoder.DecodeHopIterators(id, reqs, reforward)
	}
	//nolint:ll
	link := NewChannelLink(
		ChannelLinkConfig{
			BestHeight:         sw.BestHeight,
			FwrdingPolicy:      cfgPolicy,
			Peer:               peer,
			Circuits:           sw.CircuitModifier(),
			ForwardPackets:     forwardPackets,
			DecodeHopIterators: decode,
			ExtractErrorEncrypter: func(*btcec.PublicKey) (
				hop.ErrorEncrypter, lnwire.FailCode) {

				return NewMockObfuscator(), lnwire.CodeNone
			},
			FetchLastChannelUpdate: mockGetChanUpdateMessage,
			Registry:               server.registry,
			FeeEstimator:           n.hn.feeEstimator,
			PreimageCache:          server.pCache,
			UpdateContractSignals: func(*contractcourt.ContractSignals) error {
				return nil
			},
			NotifyContractUpdate: notifyContractUpdate,
			ChainEvents:          &contractcourt.ChainEventSubscription{},
			SyncStates:           true,
			BatchSize:            10,
			BatchTicker:          ticker.NewForce(testBatchTimeout),
			FwdPkgGCTicker:       ticker.NewForce(fwdPkgTimeout),
			PendingCommitTicker:  ticker.New(2 * time.Minute),
			MinUpdateTimeout:     minFeeUpdateTimeout,
			MaxUpdateTimeout:     maxFeeUpdateTimeout,
			OnChannelFailure: func(lnwire.ChannelID, lnwire.ShortChannelID,
				LinkFailureError) {
			},
			OutgoingCltvRejectDelta:    3,
			MaxOutgoingCltvExpiry:      DefaultMaxOutgoingCltvExpiry,
			MaxFeeAllocation:           DefaultMaxLinkFeeAllocation,
			MaxAnchorsCommitFeeRate:    chainfee.SatPerKVByte(10 * 1000).FeePerKWeight(),
			NotifyActiveLink:           func(wire.OutPoint) {},
			NotifyActiveChannel:        func(wire.OutPoint) {},
			NotifyInactiveChannel:      func(wire.OutPoint) {},
			NotifyInactiveLinkEvent:    func(wire.OutPoint) {},
			NotifyChannelUpdate:        func(*chanstate.OpenChannel) {},
			HtlcNotifier:               sw.cfg.HtlcNotifier,
			GetAliases:                 func(lnwire.ShortChannelID) []lnwire.ShortChannelID { return nil },
			ShouldFwdExpAccountability: func() bool { return true },
		},
		channel,
	)
	lp := link.(*channelLink)
	go func() {
		for {
			select {
			case <-notifyUpdateChan:
			case <-lp.cg.Done():
				close(doneChan)
				return
			}
		}
	}()
	var reg ChannelLink = link
	if role == 2 {
		reg = &vPPLink{ChannelLink: link, n: n}
	}
	if err := sw.AddLink(reg); err != nil {
		return nil, fmt.Errorf("unable to add channel link: %w", err)
	}

	return lp, nil
}

func (n *vPPNet) servers(carolRegistry *mockInvoiceRegistry) error {
	var err error
	db := func(c *lnwallet.LightningChannel) *channeldb.DB {
		return testChannelStateDB(n.t, c).GetParentDB()
	}
	if n.alice, err = newMockServer(n.t, "alice", testStartingHeight,
		db(n.a2b.channel), n.hn.defaultDelta); err != nil {

		return err
	}
	if n.bob, err = newMockServer(n.t, "bob", testStartingHeight,
		db(n.b2a.channel), n.hn.defaultDelta); err != nil {

		return err
	}
	if n.carol, err = newMockServer(n.t, "carol", testStartingHeight,
		db(n.c2b.channel), n.hn.defaultDelta); err != nil {

		return err
	}
	if carolRegistry != nil {
		// the invoice database survives a restart
		n.carol.registry = carolRegistry
	}
	for _, srv := range []*mockServer{n.alice, n.bob} {
		srv.intersect(func(lnwire.Message) (bool, error) {
			n.gate.RLock()
			n.gate.RUnlock() //nolint:staticcheck

			return false, nil
		})
	}
	n.carol.intersect(func(m lnwire.Message) (bool, error) {
		if add, ok := m.(*lnwire.UpdateAddHTLC); ok {
			n.mu.Lock()
			n.adds[add.PaymentHash]++
			n.mu.Unlock()
		}

		return false, nil
	})
	n.bob.htlcSwitch.circuits = &vPPCircuits{
		CircuitMap: n.bob.htlcSwitch.circuits, n: n,
	}

	return nil
}

// links (re)creates the link ends of channel 1 and/or 2 over the given states.
func (n *vPPNet) links(ch *clusterChannels, one, two bool) error {
	var err error
	if two {
		// outgoing channel first, so that it is registered when the
		// incoming link re-forwards at start-up
		l, err := n.mkLink(n.bob, n.carol, ch.bobToCarol, n.outPolicy, 2)
		if err != nil {
			return err
		}
		n.mu.Lock()
		n.bob2 = l
		n.mu.Unlock()
		n.carolLink, err = n.mkLink(n.carol, n.bob, ch.carolToBob,
			n.hn.globalPolicy, 0)
		if err != nil {
			return err
		}
	}
	if one {
		n.aliceLink, err = n.mkLink(n.alice, n.bob, ch.aliceToBob,
			n.hn.globalPolicy, 0)
		if err != nil {
			return err
		}
		l, err := n.mkLink(n.bob, n.alice, ch.bobToAlice, n.inPolicy, 1)
		if err != nil {
			return err
		}
		n.mu.Lock()
		n.bob1 = l
		n.mu.Unlock()
	}
	if n.spec.Upd {
		// The policies reach Bob's links the way `updatechanpolicy` delivers
		// them: ONE Switch.UpdateForwardingPolicies call with a map keyed by
		// channel point (several channels at once, plus a channel the switch
		// does not know), before any peer message can reach the new links
		// (servers not started yet / delivery gate held).
		n.mu.Lock()
		b1, b2 := n.bob1, n.bob2
		n.mu.Unlock()
		m := map[wire.OutPoint]models.ForwardingPolicy{
			{Index: 4242}: {BaseFee: 1, MinHTLCOut: 999999999},
		}
		if b1 != nil {
			m[b1.channel.ChannelPoint()] = n.inPolicy
		}
		if b2 != nil {
			m[b2.channel.ChannelPoint()] = n.outPolicy
		}
		n.bob.htlcSwitch.UpdateForwardingPolicies(m)
	}

	return err
}

// vPPEligible is waitLinksEligible with a deadline that survives a loaded
// machine.
func vPPEligible(links map[string]*channelLink) error {
	dl := time.Now().Add(30 * time.Second)
	for {
		bad := ""
		for name, l := range links {
			if !l.EligibleToForward() {
				bad = name
			}
		}
		if bad == "" {
			return nil
		}
		if time.Now().After(dl) {
			return fmt.Errorf("%s channel link not eligible", bad)
		}
		time.Sleep(5 * time.Millisecond)
	}
}

func (n *vPPNet) start() error {
	for _, s := range []*mockServer{n.alice, n.bob, n.carol} {
		if err := s.Start(); err != nil {
			return err
		}
	}

	return vPPEligible(map[string]*channelLink{
		"alice": n.aliceLink, "bob first": n.bob1,
		"bob second": n.bob2, "carol": n.carolLink,
	})
}

func (n *vPPNet) stopAll() {
	var wg sync.WaitGroup
	for _, s := range []*mockServer{n.alice, n.bob, n.carol} {
		wg.Add(1)
		go func() { defer wg.Done(); _ = s.Stop() }()
	}
	wg.Wait()
}

func (n *vPPNet) restore(one, two bool) (*clusterChannels, error) {
	var (
		r   clusterChannels
		err error
	)
	if one {
		if r.aliceToBob, err = n.a2b.restore(); err != nil {
			return nil, err
		}
		if r.bobToAlice, err = n.b2a.restore(); err != nil {
			return nil, err
		}
	}
	if two {
		if r.bobToCarol, err = n.b2c.restore(); err != nil {
			return nil, err
		}
		if r.carolToBob, err = n.c2b.restore(); err != nil {
			return nil, err
		}
	}

	return &r, nil
}

// restartAll: all three nodes come up again from their databases (new
// switches: circuit maps reloaded, forwarding packages re-processed).
func (n *vPPNet) restartAll() error {
	reg := n.carol.registry
	n.stopAll()
	n.mu.Lock()
	n.phase = 1
	n.mu.Unlock()
	ch, err := n.restore(true, true)
	if err != nil {
		return err
	}
	if err := n.servers(reg); err != nil {
		return err
	}
	if err := n.links(ch, true, true); err != nil {
		return err
	}

	return n.start()
}

// flapIn: peer disconnect of the incoming channel only.
func (n *vPPNet) flapIn() error {
	time.Sleep(30 * time.Millisecond)
	n.bob.htlcSwitch.RemoveLink(n.bob1.ChanID())
	n.alice.htlcSwitch.RemoveLink(n.aliceLink.ChanID())
	n.mu.Lock()
	n.phase = 1
	n.mu.Unlock()
	n.gate.Lock()
	ch, err := n.restore(true, false)
	if err == nil {
		err = n.links(ch, true, false)
	}
	n.gate.Unlock()
	if err != nil {
		return err
	}

	return vPPEligible(map[string]*channelLink{
		"alice": n.aliceLink, "bob first": n.bob1,
	})
}

// ---- one scenario -----------------------------------------------------------------

// vPPCase fills the configured inputs of one HTLC of the scenario.
func vPPCase(caseNo int, sp *vPPSpec, second bool) *vPPRow {
	row := &vPPRow{Path: sp.Path, Spec: *sp}
	c := &row.vPolCase
	c.Case, c.Kind, c.Cls = caseNo, "fwd", "path:"+sp.Path
	c.Min, c.Max, c.Base, c.Rate, c.Delta = sp.Min, sp.Max, sp.Base, sp.Rate, sp.Delta
	c.Rej, c.MaxCltv = 3, DefaultMaxOutgoingCltvExpiry
	c.UpdOk = true
	c.Out, c.OutExp, c.IBase, c.IRate = sp.Out, sp.OutExp, sp.IBase, sp.IRate
	c.Height = testStartingHeight
	c.InExp = sp.OutExp + sp.Delta
	rule, d := sp.Rule, sp.D
	if second {
		// the second HTLC of a batch: its own amount, on the fee boundary
		row.Htlc, c.Cls = 2, c.Cls+"#2"
		rule, d, c.Out = "fee", sp.D2, sp.Out2
	}
	switch rule {
	case "fee":
		vSetIn(c, d)
	case "delta":
		vSetIn(c, 0)
		c.InExp = uint32(int64(c.InExp) + d)
	case "soon": // outgoing expiry = height + reject delta + d
		c.OutExp = uint32(int64(testStartingHeight) + 3 + d)
		c.InExp = c.OutExp + sp.Delta
		vSetIn(c, 0)
	default: // min: the outgoing amount sits on min_htlc + d
		c.Out = uint64(int64(sp.Min) + d)
		vSetIn(c, 0)
	}
	c.Code, c.Name = -1, "none"

	return row
}

type vPPPay struct {
	row   *vPPRow
	pid   uint64
	rhash [32]byte
}

func vPPRun(t *testing.T, caseNo int, sp vPPSpec) []*vPPRow {
	start := time.Now()
	rows := []*vPPRow{vPPCase(caseNo, &sp, false)}
	if sp.Out2 != 0 {
		rows = append(rows, vPPCase(caseNo+500000, &sp, true))
	}
	fail := func(f string, a ...any) []*vPPRow {
		for _, row := range rows {
			row.Note = fmt.Sprintf(f, a...)
			row.WallMs = time.Since(start).Milliseconds()
		}

		return rows
	}

	n := &vPPNet{t: t, spec: &sp, hit: make(chan struct{}), hn: newHopNetwork(),
		adds: map[[32]byte]int{}}
	if sp.Path != "live" {
		for i := range sp.Path {
			if sp.Path[i] == '/' {
				n.hook, n.flap = sp.Path[:i], sp.Path[i+1:] == "flap"
			}
		}
	}
	n.inPolicy = n.hn.globalPolicy
	n.inPolicy.InboundFee = models.InboundFee{Base: sp.IBase, Rate: sp.IRate}
	n.outPolicy = models.ForwardingPolicy{
		MinHTLCOut: lnwire.MilliSatoshi(sp.Min), MaxHTLC: lnwire.MilliSatoshi(sp.Max),
		BaseFee: lnwire.MilliSatoshi(sp.Base), FeeRate: lnwire.MilliSatoshi(sp.Rate),
		TimeLockDelta: sp.Delta,
		// the inbound fee of the OUTGOING channel must play no role
		InboundFee: models.InboundFee{Base: 31337, Rate: 4242},
	}

	_, _, scid1, scid2 := genIDs()
	var err error
	n.a2b, n.b2a, err = createTestChannel(t, alicePrivKey, bobPrivKey,
		btcutil.SatoshiPerBitcoin*3, btcutil.SatoshiPerBitcoin*3, 0, 0, scid1)
	if err != nil {
		return fail("create channel 1: %v", err)
	}
	n.b2c, n.c2b, err = createTestChannel(t, bobPrivKey, carolPrivKey,
		btcutil.SatoshiPerBitcoin*5, btcutil.SatoshiPerBitcoin*5, 0, 0, scid2)
	if err != nil {
		return fail("create channel 2: %v", err)
	}
	if err := n.servers(nil); err != nil {
		return fail("servers: %v", err)
	}
	ch := &clusterChannels{aliceToBob: n.a2b.channel, bobToAlice: n.b2a.channel,
		bobToCarol: n.b2c.channel, carolToBob: n.c2b.channel}
	if err := n.links(ch, true, true); err != nil {
		return fail("links: %v", err)
	}
	defer func() { n.stopAll() }()
	if err := n.start(); err != nil {
		return fail("start: %v", err)
	}
	registry := n.carol.registry
	var pays []*vPPPay
	for _, row := range rows {
		c := &row.vPolCase
		c.ChanBw = uint64(n.bob2.Bandwidth())
		row.OutScid = n.bob2.ShortChanID().ToUint64()
		hops := []*hop.Payload{
			{FwdInfo: hop.ForwardingInfo{
				NextHop:         hop.NewChannelNextHop(n.carolLink.ShortChanID()),
				AmountToForward: lnwire.MilliSatoshi(c.Out),
				OutgoingCLTV:    c.OutExp,
			}},
			{FwdInfo: hop.ForwardingInfo{
				AmountToForward: lnwire.MilliSatoshi(c.Out),
				OutgoingCLTV:    c.OutExp,
			}},
		}
		blob, err := generateRoute(hops...)
		if err != nil {
			return fail("route: %v", err)
		}
		invoice, htlc, pid, err := generatePayment(lnwire.MilliSatoshi(c.Out),
			lnwire.MilliSatoshi(c.In), c.InExp, blob)
		if err != nil {
			return fail("payment: %v", err)
		}
		rhash := invoice.Terms.PaymentPreimage.Hash()
		if err := registry.AddInvoice(context.Background(), *invoice, rhash); err != nil {
			return fail("invoice: %v", err)
		}
		if err := n.alice.htlcSwitch.SendHTLC(n.bob1.ShortChanID(), pid, htlc); err != nil {
			return fail("send: %v", err)
		}
		pays = append(pays, &vPPPay{row: row, pid: pid, rhash: rhash})
	}
	if n.hook != "" {
		select {
		case <-n.hit:
			for _, row := range rows {
				row.Fired = true
			}
		case <-time.After(30 * time.Second):
			return fail("stop point %s never reached", n.hook)
		}
		if n.flap {
			err = n.flapIn()
		} else {
			err = n.restartAll()
		}
		if err != nil {
			return fail("%s: %v", sp.Path, err)
		}
	}

	for _, p := range pays {
		row, c := p.row, &p.row.vPolCase
		resultChan, err := n.alice.htlcSwitch.GetAttemptResult(p.pid, p.rhash,
			newMockDeobfuscator())
		if err != nil {
			row.Note = fmt.Sprintf("attempt result: %v", err)
			continue
		}
		var result *PaymentResult
		select {
		case res, ok := <-resultChan:
			if !ok {
				row.Note = "alice switch shut down"
				continue
			}
			result = res
		case <-time.After(40 * time.Second):
			row.Note = "no payment result (HTLC neither forwarded nor failed back)"
			continue
		}
		row.AliceOk = result.Error == nil
		if result.Error != nil {
			var ct ClearTextError
			if errors.As(result.Error, &ct) {
				msg := ct.WireMessage()
				row.AliceErr = fmt.Sprintf("%T", msg)
				switch m := msg.(type) {
				case *lnwire.FailFeeInsufficient:
					row.AliceArg = uint64(m.HtlcMsat)
				case *lnwire.FailAmountBelowMinimum:
					row.AliceArg = uint64(m.HtlcMsat)
				case *lnwire.FailIncorrectCltvExpiry:
					row.AliceArg = uint64(m.CltvExpiry)
				}
			} else {
				row.AliceErr = fmt.Sprintf("opaque:%v", result.Error)
			}
		}
		inv, err := registry.LookupInvoice(context.Background(), p.rhash)
		if err != nil {
			row.Note = fmt.Sprintf("lookup invoice: %v", err)
			continue
		}
		row.Settled = inv.State == invpkg.ContractSettled

		n.mu.Lock()
		row.Forwarded = n.adds[p.rhash]
		for _, k := range n.calls {
			if k.hash == p.rhash {
				row.Calls = append(row.Calls, k)
			}
		}
		n.mu.Unlock()
		if len(row.Calls) > 0 {
			k := row.Calls[len(row.Calls)-1]
			c.Code, c.Detail, c.Name, c.Arg = k.Code, k.Detail, k.Name, k.Arg
		} else if row.AliceOk {
			c.Code, c.Name = vOk, "nil"
		} else {
			c.Code, c.Name = vOther, row.AliceErr
			if row.AliceErr == "*lnwire.FailTemporaryChannelFailure" {
				c.Code = vTemporaryChannelFailure
			}
		}
	}
	n.mu.Lock()
	pk := append([]int(nil), n.pkgs...)
	n.mu.Unlock()
	for _, row := range rows {
		row.Pkgs = pk
		row.WallMs = time.Since(start).Milliseconds()
	}

	return rows
}

// ---- the scenario space --------------------------------------------------------------

func vPPOutPolicy(r *vrng, sp *vPPSpec) {
	sp.Base = vPick(r, uint64(0), 1000, 777, 12345)
	sp.Rate = vPick(r, uint64(0), 1, 250, 10000, 999999)
	sp.Delta = vPick(r, uint32(6), 10, 40)
	sp.Min = vPick(r, uint64(5000), 1, 6001)
	sp.Max = vPick(r, uint64(0), 400000000)
	sp.Out = vPick(r, uint64(6001), 1000000, 7777777, 123456789, 399999999)
	// height 100 + reject delta 3 < outexp; Carol (exit hop) wants >= 106
	sp.OutExp = uint32(106 + r.intn(7))
}

// vPPSpecs: quick = every path x every inbound-fee shape x {-1,0,+1} around
// the fee boundary is the full grid; the quick tier takes the two sign
// classes (discount, surcharge) in full and a seeded third of the rest, plus
// the time-lock-delta and min_htlc boundaries on every path.
func vPPSpecs(root *vrng) []vPPSpec {
	var all []vPPSpec
	thorough := vTier() == "thorough"
	i := uint64(0)
	for _, p := range vPPPaths {
		for fi, f := range vPPInbound {
			for _, d := range []int64{-1, 0, 1} {
				i++
				r := root.fork(i)
				if !thorough && fi >= 2 && r.intn(3) != 0 {
					continue
				}
				sp := vPPSpec{Path: p, Rule: "fee", D: d, IBase: f[0], IRate: f[1]}
				vPPOutPolicy(r, &sp)
				sp.Upd = r.intn(4) == 0
				all = append(all, sp)
			}
		}
		for _, rule := range []string{"delta", "min", "soon"} {
			for _, d := range []int64{-1, 0} {
				if rule == "soon" {
					d++ // reject at 0, accept at +1
				}
				i++
				r := root.fork(i)
				f := vPPInbound[r.intn(len(vPPInbound)-1)]
				sp := vPPSpec{Path: p, Rule: rule, D: d, IBase: f[0], IRate: f[1]}
				vPPOutPolicy(r, &sp)
				if rule == "min" {
					// above Alice's own min_htlc of 5000
					sp.Min = vPick(r, uint64(5002), 6001, 250000)
				}
				all = append(all, sp)
			}
		}
		// batches: two HTLCs behind each other with different amounts and
		// different sides of the fee boundary (an index / field mix-up
		// between the adds of one forwarding package shows on either)
		for fi := 0; fi < 2 || (thorough && fi < len(vPPInbound)); fi++ {
			i++
			r := root.fork(i)
			f := vPPInbound[fi]
			dd := vPick(r, [2]int64{-1, 0}, [2]int64{0, -1}, [2]int64{1, -1}, [2]int64{0, 1})
			sp := vPPSpec{Path: p, Rule: "fee", D: dd[0], D2: dd[1], IBase: f[0], IRate: f[1]}
			vPPOutPolicy(r, &sp)
			sp.Out2 = vPick(r, uint64(6002), 1000001, 54321000)
			all = append(all, sp)
		}
	}

	return all
}

// TestVerifPolicyPaths writes one row per scenario to $VERIF_OUT.paths.
func TestVerifPolicyPaths(t *testing.T) {
	p := os.Getenv("VERIF_OUT")
	if p == "" {
		p = os.DevNull
	} else {
		p += ".paths"
	}
	f, err := os.Create(p)
	if err != nil {
		t.Fatal(err)
	}
	out := &vWriter{f: f, w: bufio.NewWriterSize(f, 1<<16)}
	defer out.close()

	var specs []vPPSpec
	if s := os.Getenv("VERIF_PP_SPEC"); s != "" {
		var sp vPPSpec
		if err := json.Unmarshal([]byte(s), &sp); err != nil {
			t.Fatalf("VERIF_PP_SPEC: %v", err)
		}
		specs = []vPPSpec{sp}
	} else if vEnvInt("VERIF_PP", 1) != 0 {
		specs = vPPSpecs(vNewRng(vSeed()).fork(9090))
	}
	t.Run("g", func(t *testing.T) {
		for i, sp := range specs {
			t.Run(fmt.Sprintf("%d", i), func(t *testing.T) {
				t.Parallel()
				for _, row := range vPPRun(t, 2000000+i, sp) {
					out.emit(row)
				}
			})
		}
	})
}
