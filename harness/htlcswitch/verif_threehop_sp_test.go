//go:build verif

package htlcswitch

// C08 / C07 stop-point enumeration on the three-hop fixture (companion of
// verif_threehop_test.go).
//
// For a small fixed set of base scenarios every STOP POINT of the forwarder
// (Bob) is enumerated and the scenario is re-run from scratch with exactly
// that one fault:
//
//	link stop points: every hit of an observation hook in one of Bob's two
//	  links, numbered in the order of a run:
//	    dequeue  an inbound wire message is about to be handed to the link
//	             ("right before the handler runs"; the message is lost)
//	    decode / commit / fwd / nfwd / signed / send
//	             inside the handler path: processRemoteAdds decoded the
//	             onions, CommitCircuits returned, ForwardPackets is about
//	             to be called (adds: link goroutine; settles/fails: the
//	             goroutine the handler spawned), the outgoing AddHTLC
//	             succeeded, a commitment was signed and persisted (before
//	             the commit_sig is sent), a message is about to be sent.
//	             The link's quit channel is closed while the handler is
//	             still running - exactly what a concurrent link.Stop does.
//	  variants: flap        stop that link (peer disconnect of that channel
//	                        only) and re-establish that channel only
//	            restart     restart the whole node at that point
//	            restartflap restart the node, later flap channel 1 and then
//	                        channel 2 while the switch stays up
//	database stop points: Bob's databases are wrapped with a backend that
//	  stops the world right after the n-th committed transaction (nothing
//	  leaves the process afterwards, every later transaction fails); the
//	  node is restarted on the same files and the peers reconnect.
//
// Every faulted run ends with the closing restarts of finish() and is judged
// by the same predicates (and recogniser) as the random batches.

import (
	"context"
	"encoding/hex"
	"errors"
	"fmt"
	"os"
	"reflect"
	"sort"
	"strings"
	"sync"
	"testing"
	"time"
	"unsafe"

	"github.com/lightningnetwork/lnd/channeldb"
	"github.com/lightningnetwork/lnd/invoices"
	"github.com/lightningnetwork/lnd/kvdb"
	"github.com/lightningnetwork/lnd/lntypes"
	"github.com/lightningnetwork/lnd/ticker"
)

// ---- stop points ------------------------------------------------------------

func (v *vC08Net) bobLink(ch int) *channelLink {
	if ch == 1 {
		return v.n.firstBobChannelLink
	}
	return v.n.secondBobChannelLink
}

// spCount numbers the hook hit and tells whether it is the targeted one.
func (v *vC08Net) spCount(ch int, place string) bool {
	v.mu.Lock()
	defer v.mu.Unlock()
	if !v.spOn || v.spFired {
		return false
	}
	key := fmt.Sprintf("%d:%s", ch, place)
	if v.spCnt == nil {
		v.spCnt = map[string]int{}
	}
	v.spCnt[key]++
	if v.spKey == "" {
		v.spHits = append(v.spHits, fmt.Sprintf("%s#%d", key, v.spCnt[key]))
	}
	if key != v.spKey || v.spCnt[key] != v.spTarget {
		return false
	}
	v.spFired = true
	return true
}

// sp is called from hooks that run on behalf of Bob's link of channel ch.
func (v *vC08Net) sp(ch int, place string) {
	if ch != 1 && ch != 2 {
		return
	}
	v.spLink(nil, ch, place)
}

func (v *vC08Net) spLink(l *channelLink, ch int, place string) {
	if !v.spCount(ch, place) {
		return
	}
	if l == nil {
		l = v.bobLink(ch)
	}
	if strings.HasPrefix(place, "sent_") {
		// "the message has left AND arrived": let the peer dequeue it
		time.Sleep(40 * time.Millisecond)
	}
	v.rec.add("x", "stoppoint", v.spKey, v.spTarget, v.spVar)
	go v.spFault(ch)
	// The handler goes on once the link has been told to stop (quit closed),
	// as with a concurrent link.Stop / Switch.Stop.
	select {
	case <-l.cg.Done():
	case <-time.After(10 * time.Second):
	}
}

// spDequeue is the stop point "an inbound message is about to be handed to
// Bob's link"; it runs in Bob's mockServer goroutine.
func (v *vC08Net) spDequeue(ch int, kind string) bool {
	if ch != 1 && ch != 2 {
		return false
	}
	if !v.spCount(ch, "dequeue_"+kind) {
		return false
	}
	v.rec.add("x", "stoppoint", v.spKey, v.spTarget, v.spVar)
	if v.spVar == "flap" {
		v.spFault(ch)
	} else {
		// restartBob waits for this goroutine to exit
		go v.spFault(ch)
	}
	return true
}

func (v *vC08Net) spFault(ch int) {
	var err error
	switch v.spVar {
	case "flap":
		err = v.flap(ch)
	case "restart", "db":
		err = v.restartBob()
	case "restartflap":
		err = v.restartBob()
		if err == nil {
			v.silent(300 * time.Millisecond)
			err = v.flap(1)
		}
		if err == nil {
			v.silent(150 * time.Millisecond)
			err = v.flap(2)
		}
	}
	v.spErr = err
	close(v.spDone)
}

// ---- stop-the-world database backend -----------------------------------------

var errVC08Dead = errors.New("verif: stop the world")

type vC08StopDB struct {
	kvdb.Backend
	v *vC08Net
}

func (d *vC08StopDB) Update(f func(tx kvdb.RwTx) error, reset func()) error {
	v := d.v
	v.dbMu.Lock()
	defer v.dbMu.Unlock()
	if v.bobDead.Load() {
		return errVC08Dead
	}
	err := d.Backend.Update(f, reset)
	if err != nil {
		return err
	}
	v.mu.Lock()
	hit := false
	if v.spOn && !v.spFired {
		v.dbN++
		if v.spVar == "db" && v.dbN == v.dbTarget {
			v.spFired, hit = true, true
		}
	}
	v.mu.Unlock()
	if hit {
		// the stop takes effect right after the n-th commit: nothing leaves
		// the process any more, no later transaction commits
		v.bobDead.Store(true)
		v.rec.add("x", "dbstop", v.dbTarget)
		go v.spFault(0)
	}
	return nil
}

// vC08WrapDB replaces the backend of a channeldb.DB (and of its channel
// state store, an unexported field) in place.
func vC08WrapDB(v *vC08Net, db *channeldb.DB) {
	if _, ok := db.Backend.(*vC08StopDB); ok {
		return
	}
	w := &vC08StopDB{Backend: db.Backend, v: v}
	db.Backend = w
	cs := reflect.ValueOf(db.ChannelStateDB()).Elem()
	f := cs.FieldByName("backend")
	reflect.NewAt(f.Type(), unsafe.Pointer(f.UnsafeAddr())).Elem().
		Set(reflect.ValueOf(kvdb.Backend(w)))
}

// ---- an incoming peer that stays offline, forced ack ticks ------------------------

// linkDown takes both ends of channel ch down and leaves them down (the peer is
// offline); linkUp brings the channel back unless a node restart already did.
func (v *vC08Net) linkDown(ch int) {
	v.gate.Lock()
	defer v.gate.Unlock()
	n := v.n
	if ch == 1 {
		n.bobServer.htlcSwitch.RemoveLink(n.firstBobChannelLink.ChanID())
		v.rec.add("x", "linkrestart", 1)
		n.aliceServer.htlcSwitch.RemoveLink(n.aliceChannelLink.ChanID())
	} else {
		n.bobServer.htlcSwitch.RemoveLink(n.secondBobChannelLink.ChanID())
		v.rec.add("x", "linkrestart", 2)
		n.carolServer.htlcSwitch.RemoveLink(n.carolChannelLink.ChanID())
	}
	v.mu.Lock()
	v.epoch[ch]++
	v.dropping[ch] = false
	v.mu.Unlock()
}

func (v *vC08Net) linkUp(ch int) error {
	v.gate.Lock()
	defer v.gate.Unlock()
	if _, err := v.n.bobServer.htlcSwitch.GetLink(v.bobLink(ch).ChanID()); err == nil {
		return nil
	}
	chans, err := v.restore(ch == 1, ch == 2)
	if err != nil {
		return err
	}
	return v.links(chans, ch == 1, ch == 2)
}

// forceAck makes the switch's AckEventTicker fire now (default period 15 s).
func (v *vC08Net) forceAck() {
	f, ok := v.n.bobServer.htlcSwitch.cfg.AckEventTicker.(*ticker.Force)
	if !ok {
		return
	}
	select {
	case f.Force <- time.Now():
	case <-time.After(50 * time.Millisecond):
	}
}

func vC08HoldCtl(v *vC08Net, p *vC08Pay) (accepted func(), settle func()) {
	reg := v.n.carolServer.registry
	if p.Dir == "CA" {
		reg = v.n.aliceServer.registry
	}
	var h lntypes.Hash
	var pre lntypes.Preimage
	hb, _ := hex.DecodeString(p.Hash)
	copy(h[:], hb)
	pb, _ := hex.DecodeString(p.Pre)
	copy(pre[:], pb)
	accepted = func() {
		for deadline := time.Now().Add(8 * time.Second); time.Now().Before(deadline); {
			inv, err := reg.LookupInvoice(context.Background(), h)
			if err == nil && inv.State == invoices.ContractAccepted {
				return
			}
			time.Sleep(10 * time.Millisecond)
		}
	}
	settle = func() { _ = reg.SettleHodlInvoice(context.Background(), pre) }
	return
}

// vC08DirectedPair is the directed TWO-FAULT family: one held payment in
// direction dir ("AC" / "CA").
//  1. the incoming peer goes offline (both ends of the incoming channel down);
//  2. the receiver settles: the preimage reaches Bob's outgoing link, the switch
//     closes the circuit and puts the settle into the incoming link's mailbox
//     (nothing can be committed, the circuit stays "closing"); the settle is
//     locked into the outgoing channel's forwarding package and re-forwarded;
//  3. the OUTGOING link flaps (its forwarding packages are replayed: the same
//     settle reaches the switch once more);
//  4. the switch's ack ticker fires;
//  5. the NODE restarts (circuit map reloaded, mailboxes gone) and the incoming
//     peer comes back.
//
// The preimage must still be delivered upstream: settled both hops, forwarder
// whole, nothing dangling.
func vC08DirectedPair(t *testing.T, dir string, caseNo int) *vC08Case {
	start := time.Now()
	rg := vNewRng(81)
	in, outc := 1, 2
	if dir == "CA" {
		in, outc = 2, 1
	}
	sp := vC08SP{Scenario: "pair_" + strings.ToLower(dir), Variant: "pair", Key: "directed"}
	c := &vC08Case{Case: caseNo, Fault: "sp/" + sp.Scenario + "/pair/directed#0",
		Extra: map[string]any{"sp": sp, "fired": true}}
	v := vC08Setup(t, rg.fork(501))
	defer func() { v.n.stop() }()
	c.Init = vC08Ends(v.n, v.rec)
	p := &vC08Pay{Kind: "hold_manual", Dir: dir, InChan: in, OutChan: outc, Amt: 2200000}
	c.Pays = []*vC08Pay{p}
	run, err := vC08Launch(v, p, rg.fork(1000))
	if err != nil {
		t.Fatal(err)
	}
	var wg sync.WaitGroup
	wg.Add(1)
	go func() { defer wg.Done(); run() }()
	accepted, settle := vC08HoldCtl(v, p)
	accepted()
	v.silent(300 * time.Millisecond)
	v.linkDown(in) // 1.
	settle()       // 2.
	v.silent(400 * time.Millisecond)
	if err := v.flap(outc); err != nil { // 3.
		t.Fatal(err)
	}
	v.silent(300 * time.Millisecond)
	v.forceAck() // 4.
	time.Sleep(100 * time.Millisecond)
	v.forceAck()
	time.Sleep(100 * time.Millisecond)
	if err := v.restartBob(); err != nil { // 5. (brings every link up again)
		t.Fatal(err)
	}
	wg.Wait()
	c.Faults = []*vC08Fault{{Kind: "linkdown", Chan: in, Fired: "directed"},
		{Kind: "flap", Chan: outc, Fired: "directed"}, {Kind: "restart", Fired: "directed"}}
	v.finish(c, start, true)
	return c
}

// ---- base scenarios --------------------------------------------------------------

var vC08Scenarios = []string{"ok_ac", "ok_ca", "unknown_ac", "unknown_ca", "hold_ac", "two_ac",
	// "_off": the INCOMING peer is offline from the moment the receiver holds
	// the HTLC until after it has settled (the response exists only in the
	// incoming link's mailbox while the outgoing side resolves), the ack
	// ticker of the switch is forced every 20 ms, and the off period ends
	// with a NODE restart; thorough tier only
	"hold_ca_off", "hold_ac_off"}

func vC08ScenarioPays(name string) []*vC08Pay {
	switch name {
	case "ok_ac":
		return []*vC08Pay{{Kind: "ok", Dir: "AC", InChan: 1, OutChan: 2, Amt: 1000000}}
	case "ok_ca":
		return []*vC08Pay{{Kind: "ok", Dir: "CA", InChan: 2, OutChan: 1, Amt: 1500000}}
	case "unknown_ac":
		return []*vC08Pay{{Kind: "unknown", Dir: "AC", InChan: 1, OutChan: 2, Amt: 1200000}}
	case "unknown_ca":
		return []*vC08Pay{{Kind: "unknown", Dir: "CA", InChan: 2, OutChan: 1, Amt: 1300000}}
	case "hold_ca_off":
		return []*vC08Pay{{Kind: "hold_manual", Dir: "CA", InChan: 2, OutChan: 1, Amt: 2100000}}
	case "hold_ac_off":
		return []*vC08Pay{{Kind: "hold_manual", Dir: "AC", InChan: 1, OutChan: 2, Amt: 2300000}}
	case "hold_ac":
		return []*vC08Pay{{Kind: "hold_settle", Dir: "AC", InChan: 1, OutChan: 2, Amt: 2500000}}
	default:
		return []*vC08Pay{
			{Kind: "ok", Dir: "AC", InChan: 1, OutChan: 2, Amt: 1000000},
			{Idx: 1, Kind: "ok", Dir: "AC", InChan: 1, OutChan: 2, Amt: 3000000, Delay: 3},
		}
	}
}

// vC08SP identifies one stop point: the K-th hit of hook Key ("<channel>:<place>")
// of scenario Scenario, or (Variant "db") the K-th committed transaction.
type vC08SP struct {
	Scenario string `json:"scenario"`
	Variant  string `json:"variant"` // "" = baseline
	Key      string `json:"key"`
	K        int    `json:"k"`
	OutFirst bool   `json:"out_first"`
}

// vC08RunSP runs one scenario with one stop point (k = 0: none, the hook hits
// and the committed transactions are counted instead).
func vC08RunSP(t *testing.T, sp vC08SP, caseNo int, closing bool) (*vC08Case, []string, int) {
	start := time.Now()
	rg := vNewRng(1000003 + uint64(len(sp.Scenario)))
	c := &vC08Case{Case: caseNo, Extra: map[string]any{"sp": sp},
		Fault: fmt.Sprintf("sp/%s/%s/%s#%d", sp.Scenario, sp.Variant, sp.Key, sp.K)}
	v := vC08Setup(t, rg.fork(501))
	defer func() { v.n.stop() }()
	c.Init = vC08Ends(v.n, v.rec)
	v.mu.Lock()
	// outFirst of the net = channel 2 first; the scenario's outgoing channel is 2 for A->C, 1 for C->A
	v.spOn, v.spVar, v.outFirst = true, sp.Variant, sp.OutFirst != strings.HasSuffix(sp.Scenario, "_ca")
	v.spDone = make(chan struct{})
	if sp.Variant == "db" {
		v.dbTarget, v.spKey = sp.K, "db"
	} else {
		v.spTarget, v.spKey = sp.K, sp.Key
	}
	v.mu.Unlock()

	c.Pays = vC08ScenarioPays(sp.Scenario)
	var wg sync.WaitGroup
	for i, p := range c.Pays {
		run, err := vC08Launch(v, p, rg.fork(uint64(1000+i)))
		if err != nil {
			t.Fatal(err)
		}
		wg.Add(1)
		go func() { defer wg.Done(); run() }()
	}
	var offFired, offSet bool
	if strings.HasSuffix(sp.Scenario, "_off") {
		p := c.Pays[0]
		accepted, settle := vC08HoldCtl(v, p)
		accepted()
		v.silent(200 * time.Millisecond)
		v.linkDown(p.InChan)
		stopAck := make(chan struct{})
		go func() {
			for {
				select {
				case <-stopAck:
					return
				case <-time.After(20 * time.Millisecond):
					v.forceAck()
				}
			}
		}()
		settle()
		v.silent(500 * time.Millisecond)
		v.mu.Lock()
		firedNow := v.spFired
		v.mu.Unlock()
		if firedNow {
			select {
			case <-v.spDone:
			case <-time.After(30 * time.Second):
			}
		}
		close(stopAck)
		v.forceAck()
		time.Sleep(60 * time.Millisecond)
		// the second fault of the history: the NODE restarts while the
		// response is still only in the incoming mailbox (this also brings
		// the incoming peer back); linkUp is a no-op afterwards
		v.mu.Lock()
		offFired, offSet = v.spFired, true
		v.spFired = true
		v.mu.Unlock()
		if offFired && !firedNow {
			select {
			case <-v.spDone:
			case <-time.After(30 * time.Second):
			}
		}
		if err := v.restartBob(); err != nil {
			t.Fatal(err)
		}
		if err := v.linkUp(p.InChan); err != nil {
			t.Fatal(err)
		}
	}
	wg.Wait()
	v.mu.Lock()
	fired := v.spFired
	if offSet {
		fired = offFired
	}
	v.spFired = true // nothing fires from here on
	hits, ntx := v.spHits, v.dbN
	v.mu.Unlock()
	if fired {
		select {
		case <-v.spDone:
		case <-time.After(30 * time.Second):
			t.Fatalf("stop point %v: fault never completed", sp)
		}
		if v.spErr != nil {
			t.Fatalf("stop point %v: %v", sp, v.spErr)
		}
	}
	c.Extra["fired"] = fired
	c.Faults = []*vC08Fault{{Kind: sp.Variant, Chan: 0, Nth: sp.K, Fired: fmt.Sprint(fired)}}
	v.finish(c, start, closing)
	return c, hits, ntx
}

// vC08StopPoints: the enumeration.  VERIF_C08_SP = number of sampled stop
// points (0: stage off, -1: all); the sample always contains the families
// node-restart-then-flap and database stop.
func vC08StopPoints(t *testing.T, out *vWriter, root *vrng) {
	def := int64(14)
	if vTier() == "thorough" {
		def = -1
	}
	want := vEnvInt("VERIF_C08_SP", def)
	if want == 0 {
		return
	}
	pt, qt := vC08PayTimeout, vC08QuietTimeout
	vC08PayTimeout, vC08QuietTimeout = 20*time.Second, 10*time.Second
	defer func() { vC08PayTimeout, vC08QuietTimeout = pt, qt }()

	type base struct {
		hits []string
		ntx  int
	}
	bases := map[string]base{}
	scen := vC08Scenarios
	if s := vEnvInt("VERIF_C08_SP_SCEN", -1); s >= 0 {
		scen = scen[s : s+1]
	}
	if want > 0 {
		// quick: the "_off" cross product is left to the thorough tier
		var f []string
		for _, sc := range scen {
			if !strings.HasSuffix(sc, "_off") {
				f = append(f, sc)
			}
		}
		scen = f
	}
	for i, sc := range scen {
		var b base
		t.Run("sp_base_"+sc, func(t *testing.T) {
			c, hits, ntx := vC08RunSP(t, vC08SP{Scenario: sc}, 2000+i, false)
			b = base{hits, ntx}
			c.Extra["hook_hits"] = hits
			c.Extra["transactions"] = ntx
			out.emit(c)
		})
		bases[sc] = b
	}
	var all []vC08SP
	for _, sc := range scen {
		b := bases[sc]
		for _, va := range []string{"flap", "restart", "restartflap"} {
			for i, h := range b.hits {
				var key string
				var k int
				if j := strings.LastIndex(h, "#"); j > 0 {
					key = h[:j]
					fmt.Sscanf(h[j+1:], "%d", &k)
				}
				if strings.HasSuffix(sc, "_off") {
					// stop points of the OUTGOING channel, flap / node restart
					outc := "2:"
					if strings.HasSuffix(sc, "_ca_off") {
						outc = "1:"
					}
					if !strings.HasPrefix(key, outc) || va == "restartflap" {
						continue
					}
				}
				// After a node restart the link of the OUTGOING channel comes up
				// first in the restart-then-flap family (responses replayed
				// for an incoming link that is not registered yet are parked
				// as unclaimed), alternately in the plain restart family.
				all = append(all, vC08SP{Scenario: sc, Variant: va, Key: key, K: k,
					OutFirst: va == "restartflap" || i%2 == 0})
			}
		}
		for k := 1; k <= b.ntx && !strings.HasSuffix(sc, "_off"); k++ {
			all = append(all, vC08SP{Scenario: sc, Variant: "db", Key: "db", K: k, OutFirst: k%2 == 0})
		}
	}
	if only := os.Getenv("VERIF_C08_SP_VAR"); only != "" {
		var f []vC08SP
		for _, sp := range all {
			if sp.Variant == only {
				f = append(f, sp)
			}
		}
		all = f
	}
	if only := os.Getenv("VERIF_C08_SP_ONLY"); only != "" {
		var f []vC08SP
		for _, sp := range all {
			if fmt.Sprintf("%s/%s/%s#%d", sp.Scenario, sp.Variant, sp.Key, sp.K) == only {
				f = append(f, sp)
			}
		}
		all = f
	}
	pick := all
	if want > 0 && int(want) < len(all) {
		// seeded sample, stratified by variant so that every family is in it
		rg := root.fork(424242)
		by := map[string][]vC08SP{}
		for _, sp := range all {
			by[sp.Variant] = append(by[sp.Variant], sp)
		}
		vars := []string{"restartflap", "db", "flap", "restart"}
		pick = nil
		// The core that is in every sample: the moment a LOCKED-IN response
		// (here: a fail) is handed to the switch by the outgoing link, for
		// both directions, with a flap of that link and with a node restart
		// followed by flaps.  (The switch replays the responses of channel
		// 1's packages at start, before any link is registered; the outgoing
		// link replays its own on start.)
		for _, sp := range all {
			id := fmt.Sprintf("%s/%s/%s#%d", sp.Scenario, sp.Variant, sp.Key, sp.K)
			switch id {
			case "unknown_ac/flap/2:fwd#1", "unknown_ac/restartflap/2:fwd#1",
				"unknown_ca/flap/1:fwd#1", "unknown_ca/restartflap/1:fwd#1",
				// the revoke_and_ack has been delivered, the commit_sig owed
				// in return has not been sent yet (C08-F3)
				"ok_ac/flap/1:sent_rev#1":

				pick = append(pick, sp)
			}
		}
		for i := 0; len(pick) < int(want); i++ {
			l := by[vars[i%len(vars)]]
			if len(l) == 0 {
				continue
			}
			j := rg.intn(len(l))
			pick = append(pick, l[j])
			by[vars[i%len(vars)]] = append(l[:j:j], l[j+1:]...)
		}
		sort.Slice(pick, func(a, b int) bool {
			return fmt.Sprint(pick[a]) < fmt.Sprint(pick[b])
		})
	}
	for i, sp := range pick {
		sp := sp
		t.Run(fmt.Sprintf("sp_%s_%s_%s_%d", sp.Scenario, sp.Variant,
			strings.ReplaceAll(sp.Key, ":", "-"), sp.K), func(t *testing.T) {

			c, _, _ := vC08RunSP(t, sp, 3000+i, true)
			c.Extra["baseline_hook"] = sp.Key
			out.emit(c)
		})
	}
}
