//go:build verif

package htlcswitch

// C08 harness: seeded batches of concurrent payments Alice->Bob->Carol and
// Carol->Bob->Alice on the REAL three-hop fixture (real channelLinks, Switch,
// circuitMap, lnwallet channels over bbolt).  Everything the forwarder (Bob)
// does is recorded in ONE globally ordered event list:
//
//	"w"  wire messages as they are dequeued by a node (all three mockServers)
//	"n"  Bob's HtlcNotifier callbacks
//	"c"  calls on Bob's CircuitMap (commit/open/close/fail/delete + result)
//	"p"  packets Bob's links hand to the switch (ForwardPackets), with a
//	     snapshot whether the outgoing HTLC is still active on a commitment
//	"s"  messages Bob's links SEND (recorded in the sending link's goroutine)
//	"g"  Bob's link on channel ch has SIGNED a new remote commitment (CommitDiff
//	     persisted, downstream packets acked); the commit_sig itself follows as "s"
//	"x"  injected faults: ["x","linkrestart",ch] Bob's link on channel ch was
//	     stopped (both ends of the channel are stopped and restarted over the
//	     channel state reloaded from disk = peer disconnect/reconnect);
//	     ["x","restart"] Bob's whole switch was stopped and re-created on the
//	     same database (circuit map reloaded, all four links restarted);
//	     ["x","dropping",ch] from here on every message on channel ch is lost
//	     until the channel is re-established
//
// and, once the network is quiescent, the end state: balances of all four
// channel ends, active HTLCs, circuit-map sizes, payment results, invoice
// states.  /verif/props/c08.py evaluates the property predicate on that and
// feeds the event list to the Coq model (Forward/Exec.v) as a recogniser.

import (
	"context"
	"crypto/sha256"
	"encoding/binary"
	"encoding/hex"
	"fmt"
	"os"
	"strings"
	"sync"
	"sync/atomic"
	"testing"
	"time"

	"github.com/btcsuite/btcd/btcec/v2"
	"github.com/btcsuite/btcd/btcutil/v2"
	"github.com/btcsuite/btcd/wire/v2"
	"github.com/btcsuite/btclog/v2"
	sphinx "github.com/lightningnetwork/lightning-onion"
	"github.com/lightningnetwork/lnd/channeldb"
	"github.com/lightningnetwork/lnd/chanstate"
	"github.com/lightningnetwork/lnd/contractcourt"
	"github.com/lightningnetwork/lnd/graph/db/models"
	"github.com/lightningnetwork/lnd/htlcswitch/hop"
	"github.com/lightningnetwork/lnd/invoices"
	"github.com/lightningnetwork/lnd/lnpeer"
	"github.com/lightningnetwork/lnd/lntypes"
	"github.com/lightningnetwork/lnd/lnwallet"
	"github.com/lightningnetwork/lnd/lnwallet/chainfee"
	"github.com/lightningnetwork/lnd/lnwire"
	"github.com/lightningnetwork/lnd/ticker"
)

// ---- global recorder --------------------------------------------------------

type vC08Rec struct {
	mu    sync.Mutex
	ev    [][]any
	chans map[lnwire.ChannelID]int
	scids map[lnwire.ShortChannelID]int

	// directed scenarios only: onAdds runs once inside CommitCircuits right
	// after circuits were added; CloseCircuit of the HTLC id holdID parks the
	// calling goroutine (the switch's htlcForwarder) and NotifyForwardingEvent
	// parks the calling goroutine (an outgoing link) while parkFwd > 0.  A
	// parked goroutine hands its release channel to `parked`.
	v       *vC08Net
	onAdds  func()
	holdID  uint64
	parkFwd int
	parked  chan chan struct{}
}

// park blocks the calling goroutine until the test closes the channel it
// receives from r.parked.
func (r *vC08Rec) park() {
	rel := make(chan struct{})
	r.parked <- rel
	<-rel
}

func (r *vC08Rec) add(e ...any) {
	r.mu.Lock()
	r.ev = append(r.ev, e)
	r.mu.Unlock()
}

func (r *vC08Rec) count() int {
	r.mu.Lock()
	defer r.mu.Unlock()
	return len(r.ev)
}

func (r *vC08Rec) sc(s lnwire.ShortChannelID) int {
	if v, ok := r.scids[s]; ok {
		return v
	}
	if s == hop.Source {
		return 0
	}
	return 99
}

// ---- wire interceptor -------------------------------------------------------

func (r *vC08Rec) classify(m lnwire.Message) (string, int, uint64, uint64, string) {
	var (
		kind string
		cid  lnwire.ChannelID
		id   uint64
		amt  uint64
		hx   string
	)
	switch msg := m.(type) {
	case *lnwire.UpdateAddHTLC:
		kind, cid, id, amt = "add", msg.ChanID, msg.ID, uint64(msg.Amount)
		hx = hex.EncodeToString(msg.PaymentHash[:])
	case *lnwire.UpdateFulfillHTLC:
		kind, cid, id = "ful", msg.ChanID, msg.ID
		hx = hex.EncodeToString(msg.PaymentPreimage[:])
	case *lnwire.UpdateFailHTLC:
		kind, cid, id = "fail", msg.ChanID, msg.ID
	case *lnwire.UpdateFailMalformedHTLC:
		kind, cid, id = "mal", msg.ChanID, msg.ID
	case *lnwire.CommitSig:
		kind, cid = "sig", msg.ChanID
	case *lnwire.RevokeAndAck:
		kind, cid = "rev", msg.ChanID
	case *lnwire.ChannelReestablish:
		kind, cid = "reest", msg.ChanID
	default:
		return "", 0, 0, 0, ""
	}
	return kind, r.chans[cid], id, amt, hx
}

// wire is the interceptor of one node's mockServer.  It records every message
// at the moment the node dequeues it, applies the seeded delay, drops it when
// it is stale (sent over a connection that has since been torn down) or when
// the channel is currently losing messages, and otherwise hands it to the
// link itself (what mockServer.readHandler does) while holding the read side
// of the fault gate, so that a link restart never interleaves with a dispatch.
func (v *vC08Net) wire(node string, srv *mockServer, rg *vrng) messageInterceptor {
	return func(m lnwire.Message) (bool, error) {
		r := v.rec
		var (
			ep     uint64
			tagged bool
		)
		if env, ok := m.(*vC08Env); ok {
			m, ep, tagged = env.Message, env.epoch, true
		}
		kind, ch, id, amt, hx := r.classify(m)
		if kind == "" {
			return false, nil
		}
		if v.delays && rg.intn(4) == 0 {
			time.Sleep(time.Duration(rg.intn(6000)) * time.Microsecond)
		}
		if node == "b" && v.spDequeue(ch, kind) {
			// stop point "right before the handler runs": the link (or
			// the node) was stopped, the message is lost with the
			// connection
			r.add("w", node, ch, kind, id, amt, hx, true, "stoppoint")
			return true, nil
		}
		for !v.gate.TryRLock() {
			select {
			case <-srv.quit:
				return true, nil
			case <-time.After(500 * time.Microsecond):
			}
		}
		defer v.gate.RUnlock()

		v.mu.Lock()
		why := ""
		switch {
		case !tagged || ep != v.epoch[ch]:
			why = "stale"
		case v.dropping[ch]:
			why = "lost"
		default:
			if v.armed != nil && v.armed.match(ch, kind) {
				f := v.armed
				v.armed = nil
				if f.Drop {
					v.dropping[f.Chan] = true
					r.add("x", "dropping", f.Chan)
					if f.Chan == ch {
						why = "lost"
					}
				}
				close(f.fire)
			}
		}
		if why != "" {
			v.dropped++
		}
		v.mu.Unlock()

		r.add("w", node, ch, kind, id, amt, hx, why != "", why)
		if why != "" {
			return true, nil
		}
		var cid lnwire.ChannelID
		switch msg := m.(type) {
		case *lnwire.UpdateAddHTLC:
			cid = msg.ChanID
		case *lnwire.UpdateFulfillHTLC:
			cid = msg.ChanID
		case *lnwire.UpdateFailHTLC:
			cid = msg.ChanID
		case *lnwire.UpdateFailMalformedHTLC:
			cid = msg.ChanID
		case *lnwire.CommitSig:
			cid = msg.ChanID
		case *lnwire.RevokeAndAck:
			cid = msg.ChanID
		case *lnwire.ChannelReestablish:
			cid = msg.ChanID
		}
		if link, err := srv.htlcSwitch.GetLink(cid); err == nil {
			link.HandleChannelUpdate(m)
		}
		return true, nil
	}
}

// vC08Peer wraps the Peer of a link.  Every message is tagged with the
// connection epoch of the sending link, so that messages of a torn-down
// connection still sitting in the peer's queue are not delivered to the
// restarted link.  Messages Bob SENDS are recorded synchronously in the
// sending link's goroutine, so their order relative to that link's notifier /
// circuit-map events is exact.
type vC08Peer struct {
	lnpeer.Peer
	v     *vC08Net
	ch    int
	epoch uint64
	bob   bool
}

// vC08Env carries a message together with the connection epoch of the link
// that sent it.  (The tag must belong to the SEND, not to the message object:
// a link re-sends the very same *lnwire.UpdateAddHTLC of a mailbox packet
// after a reconnect while the copy of the old connection may still be queued.)
type vC08Env struct {
	lnwire.Message
	epoch uint64
}

func (p *vC08Peer) SendMessage(sync bool, msgs ...lnwire.Message) error {
	out := make([]lnwire.Message, len(msgs))
	for i, m := range msgs {
		out[i] = m
		if kind, _, _, _, _ := p.v.rec.classify(m); kind != "" {
			out[i] = &vC08Env{Message: m, epoch: p.epoch}
		}
	}
	if p.bob {
		if p.v.bobDead.Load() {
			// database stop point reached: the process is dead, nothing
			// leaves it any more
			return nil
		}
		p.v.sp(p.ch, "send")
		for _, m := range msgs {
			kind, ch, id, amt, hx := p.v.rec.classify(m)
			if kind != "" {
				p.v.rec.add("s", ch, kind, id, amt, hx)
			}
		}
	}
	err := p.Peer.SendMessage(sync, out...)
	if p.bob {
		// stop point "the message has left": e.g. right after the
		// revoke_and_ack, before the commit_sig that is owed in return
		for _, m := range msgs {
			if kind, _, _, _, _ := p.v.rec.classify(m); kind == "rev" || kind == "sig" {
				p.v.sp(p.ch, "sent_"+kind)
			}
		}
	}
	return err
}

// ---- HtlcNotifier at Bob ------------------------------------------------------

type vC08Notifier struct{ r *vC08Rec }

func (h *vC08Notifier) key(k HtlcKey) (int, uint64, int, uint64) {
	return h.r.sc(k.IncomingCircuit.ChanID), k.IncomingCircuit.HtlcID,
		h.r.sc(k.OutgoingCircuit.ChanID), k.OutgoingCircuit.HtlcID
}

func (h *vC08Notifier) NotifyForwardingEvent(key HtlcKey, info HtlcInfo,
	et HtlcEventType) {

	ic, ii, oc, oi := h.key(key)
	h.r.add("n", "fwd", int(et), ic, ii, oc, oi, uint64(info.IncomingAmt),
		uint64(info.OutgoingAmt))
	if et == HtlcEventTypeForward {
		h.r.v.sp(oc, "nfwd")
	}
	h.r.mu.Lock()
	park := h.r.parkFwd > 0
	if park {
		h.r.parkFwd--
	}
	h.r.mu.Unlock()
	if park {
		h.r.park()
	}
}

func (h *vC08Notifier) NotifyLinkFailEvent(key HtlcKey, info HtlcInfo,
	et HtlcEventType, linkErr *LinkError, incoming bool) {

	ic, ii, oc, oi := h.key(key)
	detail, code := "", 0
	if linkErr != nil {
		if linkErr.FailureDetail != nil {
			detail = linkErr.FailureDetail.FailureString()
		}
		if d, ok := linkErr.FailureDetail.(OutgoingFailure); ok {
			detail = fmt.Sprintf("out:%d", int(d))
		}
		code = int(linkErr.WireMessage().Code())
	}
	h.r.add("n", "linkfail", int(et), ic, ii, oc, oi, incoming, detail, code)
}

func (h *vC08Notifier) NotifyForwardingFailEvent(key HtlcKey, et HtlcEventType) {
	ic, ii, oc, oi := h.key(key)
	h.r.add("n", "fwdfail", int(et), ic, ii, oc, oi)
}

func (h *vC08Notifier) NotifySettleEvent(key HtlcKey, pre lntypes.Preimage,
	et HtlcEventType) {

	ic, ii, oc, oi := h.key(key)
	h.r.add("n", "settle", int(et), ic, ii, oc, oi, hex.EncodeToString(pre[:]))
}

func (h *vC08Notifier) NotifyFinalHtlcEvent(key models.CircuitKey,
	info channeldb.FinalHtlcInfo) {

	h.r.add("n", "final", h.r.sc(key.ChanID), key.HtlcID, info.Settled, info.Offchain)
}

// ---- CircuitMap proxy at Bob ---------------------------------------------------

type vC08Circuits struct {
	CircuitMap
	r *vC08Rec
}

func (c *vC08Circuits) k(k CircuitKey) []any { return []any{c.r.sc(k.ChanID), k.HtlcID} }

func (c *vC08Circuits) CommitCircuits(circuits ...*PaymentCircuit) (
	*CircuitFwdActions, error) {

	// The returned slices are consumed by the caller: copy the keys first.
	acts, err := c.CircuitMap.CommitCircuits(circuits...)
	conv := func(l []*PaymentCircuit) [][]any {
		o := make([][]any, 0, len(l))
		for _, x := range l {
			o = append(o, c.k(x.Incoming))
		}
		return o
	}
	if acts != nil {
		c.r.add("c", "commit", conv(acts.Adds), conv(acts.Drops), conv(acts.Fails), err != nil)
		if len(circuits) > 0 {
			if ch := c.r.sc(circuits[0].Incoming.ChanID); ch == 1 || ch == 2 {
				c.r.v.sp(ch, "commit")
			}
		}
		c.r.mu.Lock()
		hook := c.r.onAdds
		if len(acts.Adds) > 0 {
			c.r.onAdds = nil
		} else {
			hook = nil
		}
		c.r.mu.Unlock()
		if hook != nil {
			hook()
		}
	}
	return acts, err
}

func (c *vC08Circuits) OpenCircuits(ks ...Keystone) error {
	err := c.CircuitMap.OpenCircuits(ks...)
	if len(ks) > 0 {
		o := make([][]any, 0, len(ks))
		for _, k := range ks {
			o = append(o, append(c.k(k.InKey), c.k(k.OutKey)...))
		}
		c.r.add("c", "open", o, err != nil)
	}
	return err
}

func (c *vC08Circuits) CloseCircuit(outKey CircuitKey) (*PaymentCircuit, error) {
	c.r.mu.Lock()
	park := c.r.holdID != 0 && outKey.HtlcID == c.r.holdID
	c.r.mu.Unlock()
	if park {
		c.r.park()
	}
	pc, err := c.CircuitMap.CloseCircuit(outKey)
	es := ""
	var in []any
	if err != nil {
		es = err.Error()
	} else {
		in = c.k(pc.Incoming)
	}
	c.r.add("c", "close", c.k(outKey), in, es)
	return pc, err
}

func (c *vC08Circuits) FailCircuit(inKey CircuitKey) (*PaymentCircuit, error) {
	pc, err := c.CircuitMap.FailCircuit(inKey)
	es := ""
	if err != nil {
		es = err.Error()
	}
	c.r.add("c", "fail", c.k(inKey), es)
	return pc, err
}

func (c *vC08Circuits) DeleteCircuits(inKeys ...CircuitKey) error {
	err := c.CircuitMap.DeleteCircuits(inKeys...)
	if len(inKeys) > 0 {
		o := make([][]any, 0, len(inKeys))
		for _, k := range inKeys {
			o = append(o, c.k(k))
		}
		c.r.add("c", "delete", o, err != nil)
	}
	return err
}

// ---- ForwardPackets wrapper on Bob's links --------------------------------------

func vC08WrapForward(r *vC08Rec, lp **channelLink, name int,
	inner func(<-chan struct{}, bool, ...*htlcPacket) error) func(<-chan struct{},
	bool, ...*htlcPacket) error {

	return func(q <-chan struct{}, replay bool, pkts ...*htlcPacket) error {
		l := *lp
		if len(pkts) > 0 {
			r.v.spLink(l, name, "fwd")
			var active map[uint64]bool
			for _, p := range pkts {
				kind := ""
				switch p.htlc.(type) {
				case *lnwire.UpdateAddHTLC:
					kind = "add"
				case *lnwire.UpdateFulfillHTLC:
					kind = "settle"
				case *lnwire.UpdateFailHTLC:
					kind = "fail"
				}
				if kind == "add" {
					var srcH, srcI uint64
					if p.sourceRef != nil {
						srcH, srcI = p.sourceRef.Height, uint64(p.sourceRef.Index)
					}
					r.add("p", name, kind, r.sc(p.incomingChanID),
						p.incomingHTLCID, uint64(p.incomingAmount),
						uint64(p.amount), replay, srcH, srcI)
					continue
				}
				if active == nil {
					active = make(map[uint64]bool)
					for _, h := range l.channel.ActiveHtlcs() {
						if !h.Incoming {
							active[h.HtlcIndex] = true
						}
					}
				}
				r.add("p", name, kind, r.sc(p.outgoingChanID),
					p.outgoingHTLCID, p.destRef != nil,
					active[p.outgoingHTLCID])
			}
		}
		return inner(q, replay, pkts...)
	}
}

// ---- the network, built link by link so that every link is wrapped from birth ----

type vC08Fault struct {
	Kind  string `json:"kind"` // flap restart
	Chan  int    `json:"chan"` // channel flapped (0 for restart = both)
	Drop  bool   `json:"drop"` // lose all messages on Chan from the trigger until the restart
	TKind string `json:"tkind"`
	TChan int    `json:"tchan"`
	Nth   int    `json:"nth"`
	Wait  int    `json:"wait_ms"`
	Fired string `json:"fired"` // trigger timer none
	seen  int
	fire  chan struct{}
}

func (f *vC08Fault) match(ch int, kind string) bool {
	if (f.TChan != 0 && f.TChan != ch) || f.TKind != kind {
		return false
	}
	f.seen++
	return f.seen >= f.Nth
}

type vC08Net struct {
	t       *testing.T
	rec     *vC08Rec
	n       *threeHopNetwork
	restore func(one, two bool) (*clusterChannels, error)
	opt     serverOption
	rg      *vrng
	nsrv    uint64
	bobDB   *channeldb.DB

	// gate: dispatching a message to a link holds the read side, a fault
	// holds the write side for its whole duration.
	gate sync.RWMutex

	mu       sync.Mutex
	epoch    [3]uint64
	dropping [3]bool
	armed    *vC08Fault
	dropped  int
	delays   bool
	failures int32

	// stop-point enumeration (verif_threehop_sp_test.go)
	bobDead  atomic.Bool
	outFirst bool // restartBob brings up channel 2 before channel 1
	spOn     bool
	spCnt    map[string]int
	spKey    string
	spTarget int
	spVar    string
	spHits   []string
	spFired  bool
	spDone   chan struct{}
	spErr    error
	dbMu     sync.Mutex
	dbN      int
	dbTarget int
}

// mkLink is hopNetwork.createChannelLink with the Peer and ForwardPackets
// wrappers installed before the link starts (AddLink starts its goroutines).
func (v *vC08Net) mkLink(server, peer *mockServer, channel *lnwallet.LightningChannel,
	decoder *mockIteratorDecoder, bobName int) (*channelLink, error) {

	const (
		fwdPkgTimeout       = 15 * time.Second
		minFeeUpdateTimeout = 30 * time.Minute
		maxFeeUpdateTimeout = 40 * time.Minute
	)
	h := &v.n.hopNetwork
	ch := v.rec.chans[lnwire.NewChanIDFromOutPoint(channel.ChannelPoint())]
	v.mu.Lock()
	ep := v.epoch[ch]
	v.mu.Unlock()

	var lp *channelLink
	notifyUpdateChan := make(chan *contractcourt.ContractUpdate)
	doneChan := make(chan struct{})
	notifyContractUpdate := func(u *contractcourt.ContractUpdate) error {
		// updateCommitTx reports the new remote pending commitment right
		// after SignNextCommitment persisted the CommitDiff and
		// ackDownStreamPackets ran, BEFORE the commit_sig is sent (which
		// does not happen at all if the link is stopping): this is the
		// exact point of the model's ESig.
		if bobName != 0 && u.HtlcKey == contractcourt.RemotePendingHtlcSet {
			v.rec.add("g", bobName, len(u.Htlcs))
			v.spLink(lp, bobName, "signed")
		}
		select {
		case notifyUpdateChan <- u:
		case <-doneChan:
		}
		return nil
	}
	sw := server.htlcSwitch
	forwardPackets := func(linkQuit <-chan struct{}, _ bool,
		packets ...*htlcPacket) error {

		return sw.ForwardPackets(linkQuit, packets...)
	}
	if bobName != 0 {
		forwardPackets = vC08WrapForward(v.rec, &lp, bobName, forwardPackets)
	}
	//nolint:ll
	link := NewChannelLink(
		ChannelLinkConfig{
			BestHeight:     sw.BestHeight,
			FwrdingPolicy:  h.globalPolicy,
			Peer:           &vC08Peer{Peer: peer, v: v, ch: ch, epoch: ep, bob: bobName != 0},
			Circuits:       sw.CircuitModifier(),
			ForwardPackets: forwardPackets,
			DecodeHopIterators: func(id []byte, reqs []hop.DecodeHopIteratorRequest,
				reforward bool) ([]hop.DecodeHopIteratorResponse, error) {

				// which adds of forwarding package id are (re)processed
				hs := make([]string, 0, len(reqs))
				for _, q := range reqs {
					hs = append(hs, hex.EncodeToString(q.RHash))
				}
				v.rec.add("d", server.name, ch, hex.EncodeToString(id), hs, reforward)
				if bobName != 0 && len(reqs) > 0 {
					v.spLink(lp, bobName, "decode")
				}
				return decoder.DecodeHopIterators(id, reqs, reforward)
			},
			ExtractErrorEncrypter: func(*btcec.PublicKey) (
				hop.ErrorEncrypter, lnwire.FailCode) {

				// One obfuscator per HTLC (the fixture shares one
				// between all links, which is a data race in the
				// fixture whenever two links fail HTLCs at once).
				return NewMockObfuscator(), lnwire.CodeNone
			},
			FetchLastChannelUpdate: mockGetChanUpdateMessage,
			Registry:               server.registry,
			FeeEstimator:           h.feeEstimator,
			PreimageCache:          server.pCache,
			UpdateContractSignals: func(*contractcourt.ContractSignals) error {
				return nil
			},
			NotifyContractUpdate: notifyContractUpdate,
			ChainEvents:          &contractcourt.ChainEventSubscription{},
			SyncStates:           true,
			BatchSize:            10,
			BatchTicker:          ticker.NewForce(testBatchTimeout),
			FwdPkgGCTicker:       ticker.NewForce(fwdPkgTimeout),
			PendingCommitTicker:  ticker.New(2 * time.Minute),
			MinUpdateTimeout:     minFeeUpdateTimeout,
			MaxUpdateTimeout:     maxFeeUpdateTimeout,
			OnChannelFailure: func(lnwire.ChannelID, lnwire.ShortChannelID,
				LinkFailureError) {

				atomic.AddInt32(&v.failures, 1)
			},
			OutgoingCltvRejectDelta:    3,
			MaxOutgoingCltvExpiry:      DefaultMaxOutgoingCltvExpiry,
			MaxFeeAllocation:           DefaultMaxLinkFeeAllocation,
			MaxAnchorsCommitFeeRate:    chainfee.SatPerKVByte(10 * 1000).FeePerKWeight(),
			NotifyActiveLink:           func(wire.OutPoint) {},
			NotifyActiveChannel:        func(wire.OutPoint) {},
			NotifyInactiveChannel:      func(wire.OutPoint) {},
			NotifyInactiveLinkEvent:    func(wire.OutPoint) {},
			NotifyChannelUpdate:        func(*chanstate.OpenChannel) {},
			HtlcNotifier:               sw.cfg.HtlcNotifier,
			GetAliases:                 func(lnwire.ShortChannelID) []lnwire.ShortChannelID { return nil },
			ShouldFwdExpAccountability: func() bool { return true },
		},
		channel,
	)
	lp = link.(*channelLink)
	go func() {
		for {
			select {
			case <-notifyUpdateChan:
			case <-lp.cg.Done():
				close(doneChan)
				return
			}
		}
	}()
	if err := sw.AddLink(link); err != nil {
		return nil, fmt.Errorf("unable to add channel link: %w", err)
	}
	return lp, nil
}

func (v *vC08Net) newServer(name string, db *channeldb.DB) *mockServer {
	s, err := newMockServer(v.t, name, testStartingHeight, db, v.n.defaultDelta)
	if err != nil {
		v.t.Fatalf("unable to create %s server: %v", name, err)
	}
	return s
}

func (v *vC08Net) intersect(node string, s *mockServer) {
	v.nsrv++
	s.intersect(v.wire(node, s, v.rg.fork(7000+v.nsrv)))
}

// vC08NewNet is newThreeHopNetwork built with mkLink.
func vC08NewNet(v *vC08Net, t *testing.T, rec *vC08Rec, rg *vrng, ch *clusterChannels,
	restore func(one, two bool) (*clusterChannels, error), opt serverOption) *vC08Net {

	v.t, v.rec, v.rg, v.restore, v.opt = t, rec, rg, restore, opt
	rec.v = v
	v.n = &threeHopNetwork{hopNetwork: *newHopNetwork()}
	n := v.n
	n.aliceServer = v.newServer("alice", testChannelStateDB(t, ch.aliceToBob).GetParentDB())
	v.bobDB = testChannelStateDB(t, ch.bobToAlice).GetParentDB()
	n.bobServer = v.newServer("bob", v.bobDB)
	n.carolServer = v.newServer("carol", testChannelStateDB(t, ch.carolToBob).GetParentDB())
	opt(n.aliceServer, n.bobServer, n.carolServer)
	v.intersect("a", n.aliceServer)
	v.intersect("b", n.bobServer)
	v.intersect("c", n.carolServer)
	if err := v.links(ch, true, true); err != nil {
		t.Fatal(err)
	}
	return v
}

// links (re)creates both ends of channel 1 and/or channel 2 over the given
// channel states, with fresh onion decoders (the mock decoder caches stateful
// hop iterators per forwarding package, which cannot be replayed).
func (v *vC08Net) links(ch *clusterChannels, one, two bool) error {
	n := v.n
	var err error
	if one {
		n.aliceOnionDecoder = newMockIteratorDecoder()
		n.aliceChannelLink, err = v.mkLink(n.aliceServer, n.bobServer,
			ch.aliceToBob, n.aliceOnionDecoder, 0)
		if err != nil {
			return err
		}
		n.firstBobChannelLink, err = v.mkLink(n.bobServer, n.aliceServer,
			ch.bobToAlice, newMockIteratorDecoder(), 1)
		if err != nil {
			return err
		}
	}
	if two {
		n.secondBobChannelLink, err = v.mkLink(n.bobServer, n.carolServer,
			ch.bobToCarol, newMockIteratorDecoder(), 2)
		if err != nil {
			return err
		}
		n.carolOnionDecoder = newMockIteratorDecoder()
		n.carolChannelLink, err = v.mkLink(n.carolServer, n.bobServer,
			ch.carolToBob, n.carolOnionDecoder, 0)
		if err != nil {
			return err
		}
	}
	return nil
}

// flap tears down both ends of channel ch (a peer disconnect), reloads the
// channel states from disk and restarts both links, which then re-establish.
// Switches, circuit maps and mailboxes survive.
func (v *vC08Net) flap(ch int) error {
	return v.flapDown(ch, 0, nil)
}

// flapDown keeps the channel down for a while (the rest of the network keeps
// running, packets for the channel queue up in its mailboxes) and runs mid()
// in the middle of the downtime.
func (v *vC08Net) flapDown(ch int, down time.Duration, mid func() error) error {
	v.gate.Lock()
	n := v.n
	if ch == 1 {
		n.bobServer.htlcSwitch.RemoveLink(n.firstBobChannelLink.ChanID())
		v.rec.add("x", "linkrestart", 1)
		n.aliceServer.htlcSwitch.RemoveLink(n.aliceChannelLink.ChanID())
	} else {
		n.bobServer.htlcSwitch.RemoveLink(n.secondBobChannelLink.ChanID())
		v.rec.add("x", "linkrestart", 2)
		n.carolServer.htlcSwitch.RemoveLink(n.carolChannelLink.ChanID())
	}
	v.mu.Lock()
	v.epoch[ch]++
	v.dropping[ch] = false
	v.mu.Unlock()
	if down > 0 {
		v.gate.Unlock()
		time.Sleep(down / 2)
		if mid != nil {
			if err := mid(); err != nil {
				return err
			}
		}
		time.Sleep(down / 2)
		v.gate.Lock()
	}
	defer v.gate.Unlock()
	chans, err := v.restore(ch == 1, ch == 2)
	if err != nil {
		return err
	}
	return v.links(chans, ch == 1, ch == 2)
}

// restartBob stops Bob's switch with both of its links (and the peers' ends
// of both channels), then brings up a NEW switch on the same database:
// circuit map reloaded from disk, forwarding packages re-forwarded, all four
// links restarted over the reloaded channel states.  The preimage cache is
// persistent in lnd (witness beacon), so the mock cache object is kept.
func (v *vC08Net) restartBob() error {
	v.gate.Lock()
	defer v.gate.Unlock()
	n := v.n
	old := n.bobServer
	_ = old.Stop() // message loop, then the switch with both of its links
	v.bobDead.Store(false)
	v.rec.add("x", "restart")
	n.aliceServer.htlcSwitch.RemoveLink(n.aliceChannelLink.ChanID())
	n.carolServer.htlcSwitch.RemoveLink(n.carolChannelLink.ChanID())
	v.mu.Lock()
	v.epoch[1]++
	v.epoch[2]++
	v.dropping[1], v.dropping[2] = false, false
	v.mu.Unlock()

	nb := v.newServer("bob", v.bobDB)
	nb.pCache = old.pCache
	v.opt(nil, nb, nil)
	v.intersect("b", nb)
	n.bobServer = nb
	if err := nb.Start(); err != nil {
		return err
	}
	chans, err := v.restore(true, true)
	if err != nil {
		return err
	}
	if v.outFirst {
		// channel 2 first: responses replayed by its link for circuits
		// whose incoming link (channel 1) is not registered yet are parked
		// by the mail orchestrator as unclaimed
		if err := v.links(chans, false, true); err != nil {
			return err
		}
		return v.links(chans, true, false)
	}
	return v.links(chans, true, true)
}

// ---- payments ---------------------------------------------------------------------

type vC08Pay struct {
	Idx          int    `json:"idx"`
	Dir          string `json:"dir"`  // "AC" or "CA"
	Kind         string `json:"kind"` // ok unknown wrongamt hold_settle hold_cancel lowfee belowmin big badroute
	Amt          uint64 `json:"amt"`  // amount the forwarder is asked to forward (msat)
	HtlcAmt      uint64 `json:"htlc_amt"`
	InChan       int    `json:"in_chan"`
	OutChan      int    `json:"out_chan"`
	Hash         string `json:"hash"`
	Pre          string `json:"pre"`
	Result       string `json:"result"` // settled failed send_err timeout
	Err          string `json:"err"`
	Invoice      string `json:"invoice"`
	InvoiceFinal string `json:"invoice_final"` // after the closing restarts
	lookup       func() string
	Delay        int  `json:"delay_ms"`
	Pair         bool `json:"pair,omitempty"`
}

type vC08End struct {
	Name   string   `json:"name"`
	Chan   int      `json:"chan"`
	Local  uint64   `json:"local"`
	Remote uint64   `json:"remote"`
	Fee    int64    `json:"fee"`
	Active int      `json:"active"`
	Clean  bool     `json:"clean"`
	Htlcs  []uint64 `json:"htlcs"`
}

type vC08Case struct {
	Case         int            `json:"case"`
	Fault        string         `json:"fault"`
	Pays         []*vC08Pay     `json:"pays"`
	Init         []vC08End      `json:"init"`
	End          []vC08End      `json:"end"`
	Events       [][]any        `json:"events"`
	Quiescent    bool           `json:"quiescent"`
	Why          string         `json:"why"`
	Circuits     [][]int        `json:"circuits"` // per node [pending, open]
	Dropped      int            `json:"dropped"`
	Faults       []*vC08Fault   `json:"faults"`
	End1         []vC08End      `json:"end1,omitempty"`
	Circuits1    [][]int        `json:"circuits1,omitempty"`
	LinkFailures int            `json:"link_failures"`
	WallMs       int64          `json:"wall_ms"`
	Extra        map[string]any `json:"extra,omitempty"`
}

var vC08Amounts = []uint64{
	4999, 5000, 5001, 5999, 6000, 7777, 199999, 200000, 200001, 799999, 800000,
	800001, 1000000, 4777999, 4778000, 4778001, 2722999, 2723000, 3000001,
}

func vC08PickAmt(r *vrng) uint64 {
	switch r.intn(10) {
	case 0, 1, 2, 3:
		return vC08Amounts[r.intn(len(vC08Amounts))]
	case 4, 5:
		return uint64(r.rng(5000, 3000000))
	case 6, 7:
		return uint64(r.rng(3000000, 200000000))
	default:
		return uint64(r.rng(1, 100000)) * 1000
	}
}

var vC08Kinds = []string{
	"ok", "ok", "ok", "ok", "ok", "ok", "unknown", "wrongamt", "hold_settle",
	"hold_settle", "hold_cancel", "lowfee", "belowmin", "big", "big", "badroute",
}

func vC08Ends(n *threeHopNetwork, r *vC08Rec) []vC08End {
	mk := func(name string, l *channelLink) vC08End {
		s := l.channel.StateSnapshot()
		act := l.channel.ActiveHtlcs()
		e := vC08End{Name: name, Chan: r.chans[l.ChanID()],
			Local: uint64(s.LocalBalance), Remote: uint64(s.RemoteBalance),
			Fee: int64(s.CommitFee), Active: len(act) + len(s.Htlcs),
			Clean: l.channel.IsChannelClean()}
		for _, h := range act {
			e.Htlcs = append(e.Htlcs, h.HtlcIndex)
		}
		return e
	}
	return []vC08End{
		mk("alice", n.aliceChannelLink), mk("bob1", n.firstBobChannelLink),
		mk("bob2", n.secondBobChannelLink), mk("carol", n.carolChannelLink),
	}
}

// vC08Launch prepares one payment (invoice at the receiver as the kind demands)
// and returns a function that sends it and waits for the result.
func vC08Launch(v *vC08Net, p *vC08Pay, rg *vrng) (func(), error) {
	n := v.n
	var (
		sender, receiver *mockServer
		path             []*channelLink
		firstHop         lnwire.ShortChannelID
	)
	if p.Dir == "AC" {
		sender, receiver = n.aliceServer, n.carolServer
		path = []*channelLink{n.firstBobChannelLink, n.carolChannelLink}
		firstHop = n.firstBobChannelLink.ShortChanID()
	} else {
		sender, receiver = n.carolServer, n.aliceServer
		path = []*channelLink{n.secondBobChannelLink, n.aliceChannelLink}
		firstHop = n.secondBobChannelLink.ShortChanID()
	}
	amt := lnwire.MilliSatoshi(p.Amt)
	htlcAmt, timelock, hops := generateHops(amt, testStartingHeight, path...)
	switch p.Kind {
	case "lowfee":
		htlcAmt -= lnwire.MilliSatoshi(1 + rg.intn(2)*999)
	case "badroute":
		var nh [8]byte
		binary.BigEndian.PutUint64(nh[:], 0x0000630000010000)
		fi := hops[0].ForwardingInfo()
		hops[0] = hop.NewLegacyPayload(&sphinx.HopData{
			NextAddress:   nh,
			ForwardAmount: uint64(fi.AmountToForward),
			OutgoingCltv:  fi.OutgoingCLTV,
		})
	}
	p.HtlcAmt = uint64(htlcAmt)

	blob, err := generateRoute(hops...)
	if err != nil {
		return nil, err
	}
	var pre lntypes.Preimage
	copy(pre[:], rg.bytes(32))
	rhash := sha256.Sum256(pre[:])
	var payAddr [32]byte
	copy(payAddr[:], rg.bytes(32))
	p.Pre = hex.EncodeToString(pre[:])
	p.Hash = hex.EncodeToString(rhash[:])

	invAmt := amt
	if p.Kind == "wrongamt" {
		invAmt = amt + lnwire.MilliSatoshi(1+rg.intn(5000))
	}
	hold := p.Kind == "hold_settle" || p.Kind == "hold_cancel"
	var prePtr *lntypes.Preimage
	if !hold && p.Kind != "hold_manual" {
		prePtr = &pre
	}
	invoice, htlc, pid, err := generatePaymentWithPreimage(
		invAmt, htlcAmt, timelock, blob, prePtr, rhash, payAddr,
	)
	if err != nil {
		return nil, err
	}
	if p.Kind != "unknown" {
		err := receiver.registry.AddInvoice(context.Background(), *invoice, rhash)
		if err != nil {
			return nil, err
		}
	}

	if p.Kind != "unknown" {
		p.lookup = func() string {
			inv, err := receiver.registry.LookupInvoice(context.Background(), rhash)
			if err != nil {
				return ""
			}
			return inv.State.String()
		}
	}
	return func() {
		time.Sleep(time.Duration(p.Delay) * time.Millisecond)
		if err := sender.htlcSwitch.SendHTLC(firstHop, pid, htlc); err != nil {
			p.Result, p.Err = "send_err", err.Error()
			if hold {
				_ = receiver.registry.CancelInvoice(context.Background(), rhash)
			}
			return
		}
		resC, err := sender.htlcSwitch.GetAttemptResult(
			pid, rhash, newMockDeobfuscator(),
		)
		if err != nil {
			p.Result, p.Err = "send_err", err.Error()
			return
		}
		if hold {
			// Resolve the hold invoice once the HTLC has been accepted
			// (or after a while if it never arrives).
			go func() {
				deadline := time.Now().Add(8 * time.Second)
				for time.Now().Before(deadline) {
					inv, err := receiver.registry.LookupInvoice(
						context.Background(), rhash)
					if err == nil && inv.State == invoices.ContractAccepted {
						break
					}
					time.Sleep(20 * time.Millisecond)
				}
				time.Sleep(time.Duration(rg.intn(150)) * time.Millisecond)
				if p.Kind == "hold_settle" {
					err := receiver.registry.SettleHodlInvoice(
						context.Background(), pre)
					if err != nil {
						_ = receiver.registry.CancelInvoice(
							context.Background(), rhash)
					}
				} else {
					_ = receiver.registry.CancelInvoice(
						context.Background(), rhash)
				}
			}()
		}
		select {
		case res, ok := <-resC:
			switch {
			case !ok:
				p.Result, p.Err = "timeout", "switch shutting down"
			case res.Error != nil:
				p.Result, p.Err = "failed", res.Error.Error()
			default:
				p.Result = "settled"
				if res.Preimage != pre {
					p.Result = "settled_wrong_preimage"
				}
			}
		case <-time.After(vC08PayTimeout):
			p.Result, p.Err = "timeout", "no result in time"
		}
		if p.Kind != "unknown" {
			inv, err := receiver.registry.LookupInvoice(context.Background(), rhash)
			if err == nil {
				p.Invoice = inv.State.String()
			}
		}
	}, nil
}

var (
	vC08PayTimeout   = 25 * time.Second
	vC08QuietTimeout = 20 * time.Second
)

func vC08Quiet(n *threeHopNetwork, r *vC08Rec) (bool, string) {
	deadline := time.Now().Add(vC08QuietTimeout)
	last, since := -1, time.Now()
	why := ""
	for time.Now().Before(deadline) {
		cnt := r.count()
		if cnt != last {
			last, since = cnt, time.Now()
		}
		why = ""
		for _, e := range vC08Ends(n, r) {
			if e.Active != 0 || !e.Clean {
				why = fmt.Sprintf("%s active=%d clean=%v", e.Name, e.Active, e.Clean)
			}
		}
		// Circuits are deleted synchronously with the signature that
		// commits the response, so once the channels are clean and the
		// network silent they must be gone: give them a grace period only.
		pend := 0
		for _, s := range []*mockServer{n.aliceServer, n.bobServer, n.carolServer} {
			pend += s.htlcSwitch.circuits.NumPending()
		}
		quiet := time.Since(since)
		if why == "" && ((pend == 0 && quiet > 400*time.Millisecond) ||
			quiet > 2500*time.Millisecond) {

			return true, ""
		}
		time.Sleep(40 * time.Millisecond)
	}
	// how long nothing at all has happened (a long silence with HTLCs still
	// active is "dangling", recent activity is merely "slow")
	return false, fmt.Sprintf("%s silent_ms=%d", why, time.Since(since).Milliseconds())
}

// vC08Plan chooses the faults of a batch.  mode cycles through all fault
// kinds so that any six consecutive batches cover every kind.
func vC08Plan(rg *vrng, idx int) (string, bool, []*vC08Fault) {
	modes := []string{"flap", "dropflap", "restart", "droprestart", "flap2", "delay", "crossflap"}
	mode := modes[(idx+int(vSeed()))%len(modes)]
	if vEnvInt("VERIF_C08_NOFAULT", 0) != 0 {
		return "none", false, nil
	}
	if m := os.Getenv("VERIF_C08_MODE"); m != "" {
		mode = m
	}
	tk := []string{"add", "add", "sig", "sig", "sig", "rev", "rev", "ful", "ful", "fail"}
	mk := func(kind string, drop bool) *vC08Fault {
		f := &vC08Fault{Kind: kind, Drop: drop, Chan: 1 + rg.intn(2),
			TKind: tk[rg.intn(len(tk))], Nth: 1 + rg.intn(6),
			Wait: rg.intn(4) * rg.intn(15), fire: make(chan struct{})}
		f.TChan = f.Chan
		if kind == "restart" && !drop {
			f.Chan = 0
			if rg.bool() {
				f.TChan = 0
			}
		}
		return f
	}
	delays := rg.intn(3) != 0
	switch mode {
	case "flap":
		return mode, delays, []*vC08Fault{mk("flap", false)}
	case "dropflap":
		return mode, delays, []*vC08Fault{mk("flap", true)}
	case "restart":
		return mode, delays, []*vC08Fault{mk("restart", false)}
	case "droprestart":
		return mode, delays, []*vC08Fault{mk("restart", true)}
	case "crossflap":
		// channel Chan goes down for Wait*8 ms; in the middle the OTHER channel
		// is re-established (its replayed adds meet half-open circuits whose
		// packets wait in the mailbox of the channel that is down)
		f := mk("crossflap", false)
		f.Wait = 40 + rg.intn(160)
		return mode, delays, []*vC08Fault{f}
	case "flap2":
		fs := []*vC08Fault{mk("flap", rg.bool()), mk("flap", rg.bool())}
		if rg.intn(3) == 0 {
			fs = append(fs, mk("restart", false))
		}
		return mode, delays, fs
	}
	return "delay", true, nil
}

// controller injects the planned faults one after the other: each is armed,
// fires when its trigger message is dequeued somewhere (or after a fallback
// time), and is complete before the next one is armed.
func (v *vC08Net) controller(plan []*vC08Fault, stop <-chan struct{}, done chan<- error) {
	for _, f := range plan {
		v.mu.Lock()
		v.armed = f
		v.mu.Unlock()
		fallback := time.After(time.Duration(150+v.rg.intn(350)) * time.Millisecond)
		select {
		case <-f.fire:
			f.Fired = "trigger"
		case <-fallback:
			f.Fired = "timer"
		case <-stop:
			f.Fired = "none"
		}
		v.mu.Lock()
		if v.armed == f {
			v.armed = nil
		} else if f.Fired != "trigger" {
			// fired concurrently with the timer / stop
			f.Fired = "trigger"
		}
		v.mu.Unlock()
		if f.Fired == "none" {
			break
		}
		if f.Fired == "timer" && f.Drop {
			v.mu.Lock()
			v.dropping[f.Chan] = true
			v.mu.Unlock()
			v.rec.add("x", "dropping", f.Chan)
		}
		var err error
		switch f.Kind {
		case "flap":
			time.Sleep(time.Duration(f.Wait) * time.Millisecond)
			err = v.flap(f.Chan)
		case "crossflap":
			err = v.flapDown(f.Chan, time.Duration(f.Wait)*time.Millisecond,
				func() error { return v.flap(3 - f.Chan) })
		default:
			time.Sleep(time.Duration(f.Wait) * time.Millisecond)
			err = v.restartBob()
		}
		if err != nil {
			done <- err
			return
		}
	}
	done <- nil
}

// vC08Setup builds and starts a fresh three-hop network with the recorder
// installed at Bob.
func vC08Setup(t *testing.T, rg *vrng) *vC08Net {
	// createClusterChannels, keeping the per-channel-end restore functions:
	// only the channel being restarted may be reloaded from disk (the other
	// one is being written to by its running links).
	_, _, scid1, scid2 := genIDs()
	a2b, b2a, err := createTestChannel(t, alicePrivKey, bobPrivKey,
		btcutil.Amount(3000000), btcutil.Amount(3000000), 0, 0, scid1)
	if err != nil {
		t.Fatalf("create channels: %v", err)
	}
	b2c, c2b, err := createTestChannel(t, bobPrivKey, carolPrivKey,
		btcutil.Amount(2000000), btcutil.Amount(2000000), 0, 0, scid2)
	if err != nil {
		t.Fatalf("create channels: %v", err)
	}
	channels := &clusterChannels{aliceToBob: a2b.channel, bobToAlice: b2a.channel,
		bobToCarol: b2c.channel, carolToBob: c2b.channel}
	restore := func(one, two bool) (*clusterChannels, error) {
		var (
			r   clusterChannels
			err error
		)
		if one {
			if r.aliceToBob, err = a2b.restore(); err != nil {
				return nil, err
			}
			if r.bobToAlice, err = b2a.restore(); err != nil {
				return nil, err
			}
		}
		if two {
			if r.bobToCarol, err = b2c.restore(); err != nil {
				return nil, err
			}
			if r.carolToBob, err = c2b.restore(); err != nil {
				return nil, err
			}
		}
		return &r, nil
	}
	rec := &vC08Rec{
		chans:  map[lnwire.ChannelID]int{},
		scids:  map[lnwire.ShortChannelID]int{},
		parked: make(chan chan struct{}, 8),
	}
	circuitsOpt := func(alice, bob, carol *mockServer) {
		bob.htlcSwitch.cfg.HtlcNotifier = &vC08Notifier{r: rec}
		bob.htlcSwitch.circuits = &vC08Circuits{
			CircuitMap: bob.htlcSwitch.circuits, r: rec,
		}
	}
	// The id maps are complete before any link goroutine exists.
	rec.chans[lnwire.NewChanIDFromOutPoint(channels.aliceToBob.ChannelPoint())] = 1
	rec.chans[lnwire.NewChanIDFromOutPoint(channels.bobToCarol.ChannelPoint())] = 2
	rec.scids[channels.bobToAlice.ShortChanID()] = 1
	rec.scids[channels.bobToCarol.ShortChanID()] = 2
	vC08Log.mu.Lock()
	vC08Log.rec = rec
	vC08Log.mu.Unlock()
	// Bob's two databases (one per channel end in this fixture; the switch
	// uses channel 1's) get the stop-the-world backend before anything runs.
	v := &vC08Net{}
	vC08WrapDB(v, testChannelStateDB(t, channels.bobToAlice).GetParentDB())
	vC08WrapDB(v, testChannelStateDB(t, channels.bobToCarol).GetParentDB())
	vC08NewNet(v, t, rec, rg, channels, restore, circuitsOpt)
	n := v.n
	if err := n.start(); err != nil {
		t.Fatalf("start: %v", err)
	}
	if rec.chans[n.aliceChannelLink.ChanID()] != 1 || rec.chans[n.carolChannelLink.ChanID()] != 2 ||
		rec.scids[n.firstBobChannelLink.ShortChanID()] != 1 ||
		rec.scids[n.secondBobChannelLink.ShortChanID()] != 2 {

		t.Fatalf("channel id maps inconsistent")
	}
	return v
}

// finish fills in the end state of a case once the payments are done.
func (v *vC08Net) finish(c *vC08Case, start time.Time, closing bool) {
	n, rec := v.n, v.rec
	circuits := func() [][]int {
		var o [][]int
		for _, s := range []*mockServer{n.aliceServer, n.bobServer, n.carolServer} {
			o = append(o, []int{
				s.htlcSwitch.circuits.NumPending(), s.htlcSwitch.circuits.NumOpen(),
			})
		}
		return o
	}
	c.Quiescent, c.Why = vC08Quiet(n, rec)
	c.End = vC08Ends(n, rec)
	c.Circuits = circuits()

	// Closing step: once everything is resolved, every link is restarted
	// (both channels re-established, then Bob's whole switch restarted on
	// its database) and the end state is taken again: nothing may move any
	// more.  This is what exposes forwarding packages that would be replayed
	// and circuits / mailbox entries that should be gone.
	if closing && c.Quiescent && vEnvInt("VERIF_C08_NOCLOSING", 0) == 0 {
		c.End1, c.Circuits1 = c.End, c.Circuits
		rec.add("x", "closing")
		err := v.flap(1)
		if err == nil {
			err = v.flap(2)
		}
		if err == nil {
			v.silent(250 * time.Millisecond)
			err = v.restartBob()
		}
		if err != nil {
			v.t.Fatalf("closing restarts: %v", err)
		}
		v.silent(250 * time.Millisecond)
		c.Quiescent, c.Why = vC08Quiet(n, rec)
		c.End = vC08Ends(n, rec)
		c.Circuits = circuits()
		for _, p := range c.Pays {
			if p.lookup != nil {
				p.InvoiceFinal = p.lookup()
			}
		}
	}
	rec.mu.Lock()
	c.Events = append([][]any(nil), rec.ev...)
	rec.mu.Unlock()
	v.mu.Lock()
	c.Dropped = v.dropped
	v.mu.Unlock()
	c.LinkFailures = int(atomic.LoadInt32(&v.failures))
	c.WallMs = time.Since(start).Milliseconds()
}

// silent waits until no event has been recorded for d.
func (v *vC08Net) silent(d time.Duration) {
	last, since := -1, time.Now()
	for deadline := time.Now().Add(10 * time.Second); time.Now().Before(deadline); {
		if cnt := v.rec.count(); cnt != last {
			last, since = cnt, time.Now()
		}
		if time.Since(since) > d {
			return
		}
		time.Sleep(10 * time.Millisecond)
	}
}

// TestVerifFwdPkgReplay is a DIRECTED scenario (no randomness) for the
// restart paths: two payments Alice->Carol whose adds travel in ONE commitment
// (one forwarding package at Bob and at Carol); the first settles at once, the
// second is held by Carol.  Channel 2 is re-established while the second is
// in flight (replay of a partially acked forwarding package), the hold invoice
// is settled, a third (held) payment is started, and channel 2 is
// re-established once more.  The third payment must still complete.  The same
// predicate and recogniser as for the random batches are applied to the trace.
func TestVerifFwdPkgReplay(t *testing.T) {
	out := vOpenOut()
	defer out.close()
	lg := btclog.NewSLogger(btclog.NewDefaultHandler(vC08Log))
	lg.SetLevel(btclog.LevelError)
	UseLogger(lg)
	vC08Probe(t, out)
}

// parkForwarder makes the switch's htlcForwarder goroutine busy: it is handed a
// fail packet for an unknown circuit and parked inside CircuitMap.CloseCircuit.
// Closing the returned channel lets it go on (the packet is then dropped).
func (v *vC08Net) parkForwarder(t *testing.T) chan struct{} {
	v.rec.mu.Lock()
	v.rec.holdID = 0xdeadbeef
	v.rec.mu.Unlock()
	errs := make(chan error, 1)
	go func() {
		_ = v.n.bobServer.htlcSwitch.routeAsync(&htlcPacket{
			outgoingChanID: v.n.secondBobChannelLink.ShortChanID(),
			outgoingHTLCID: 0xdeadbeef,
			htlc:           &lnwire.UpdateFailHTLC{},
		}, errs, v.n.bobServer.quit)
	}()
	return v.waitParked(t)
}

func (v *vC08Net) waitParked(t *testing.T) chan struct{} {
	select {
	case rel := <-v.rec.parked:
		return rel
	case <-time.After(10 * time.Second):
		t.Fatalf("nothing was parked")
		return nil
	}
}

// vC08DirectedStop is the DIRECTED scenario for a peer disconnect in the
// middle of forwarding (no randomness, no retries): one payment Alice->Carol.
// Schedule at Bob:
//  1. the switch's htlcForwarder goroutine is busy (here: parked inside
//     CircuitMap.CloseCircuit of a response for an unknown circuit);
//  2. the add is locked in on channel 1, the incoming link runs
//     processRemoteAdds -> ForwardPackets -> CommitCircuits (circuit persisted,
//     half-open);
//  3. before ForwardPackets hands the packet to the switch the incoming link is
//     told to stop (Switch.RemoveLink = peer disconnect; link.Stop closes the
//     quit channel first and then waits for the running handler);
//  4. the forwarder becomes free again, channel 1 is re-established.
//
// Afterwards the payment must still end (settled both hops / failed both hops).
func vC08DirectedStop(t *testing.T) *vC08Case {
	start := time.Now()
	rg := vNewRng(78)
	c := &vC08Case{Case: 1001, Fault: "probe_stop", Extra: map[string]any{}}
	v := vC08Setup(t, rg.fork(501))
	defer func() { v.n.stop() }()
	c.Init = vC08Ends(v.n, v.rec)
	rec, n := v.rec, v.n
	bob := n.bobServer.htlcSwitch

	// 1. park the forwarder
	release := v.parkForwarder(t)

	// 3. (armed now, runs inside CommitCircuits of step 2)
	link1 := n.firstBobChannelLink
	stopped := make(chan struct{})
	rec.mu.Lock()
	rec.onAdds = func() {
		go func() {
			bob.RemoveLink(link1.ChanID())
			close(stopped)
		}()
		<-link1.cg.Done()
	}
	rec.mu.Unlock()

	// 2. the payment
	p := &vC08Pay{Idx: 0, Kind: "ok", Dir: "AC", InChan: 1, OutChan: 2, Amt: 1000000}
	c.Pays = []*vC08Pay{p}
	run, err := vC08Launch(v, p, rg.fork(1000))
	if err != nil {
		t.Fatal(err)
	}
	var wg sync.WaitGroup
	wg.Add(1)
	go func() { defer wg.Done(); run() }()
	select {
	case <-stopped:
	case <-time.After(10 * time.Second):
		t.Fatalf("incoming link was never stopped")
	}

	// 4.
	close(release)
	if err := v.flap(1); err != nil {
		t.Fatal(err)
	}
	wg.Wait()
	c.Faults = []*vC08Fault{{Kind: "flap", Chan: 1, Fired: "directed"}}
	v.finish(c, start, true)

	// What repairs a stuck HTLC?  Restart the whole switch and look again.
	if !c.Quiescent {
		if err := v.restartBob(); err != nil {
			t.Fatal(err)
		}
		q, why := vC08Quiet(v.n, v.rec)
		c.Extra["after_switch_restart_quiescent"] = q
		c.Extra["after_switch_restart_why"] = why
		c.Extra["after_switch_restart_ends"] = vC08Ends(v.n, v.rec)
	}
	return c
}

// vC08DirectedBatchStop (scenario A): a peer disconnect in the middle of a
// BATCH.  Two payments Alice->Carol whose adds reach Bob in one commitment (one
// forwarding package, one ForwardPackets call); the first is held by Carol so
// that its outgoing HTLC stays alive.  Schedule at Bob:
//  1. the forwarder is parked (S1);
//  2. the incoming link commits both circuits and blocks handing packet #0 to
//     the forwarder; a second parking packet S2 queues up behind it;
//  3. S1 is released: the forwarder takes #0 (FIFO), hands it to the outgoing
//     link (outgoing HTLC added), then takes S2 and is parked again, so the
//     incoming link is blocked handing over #1;
//  4. the incoming link is stopped (peer disconnect): #1 is abandoned;
//  5. forwarder released, channel 1 re-established: the package is replayed.
//
// #0 must NOT be handed to the outgoing link a second time; #1 must be
// forwarded (once).  Returns false if the two adds did not share a package.
func vC08DirectedBatchStop(t *testing.T, attempt int) (*vC08Case, bool) {
	start := time.Now()
	rg := vNewRng(79 + uint64(attempt))
	c := &vC08Case{Case: 1002, Fault: "probe_batch_stop", Extra: map[string]any{}}
	v := vC08Setup(t, rg.fork(501))
	defer func() { v.n.stop() }()
	c.Init = vC08Ends(v.n, v.rec)
	rec, n := v.rec, v.n
	bob := n.bobServer.htlcSwitch
	carol := n.carolServer.registry

	rel1 := v.parkForwarder(t) // 1.
	link1 := n.firstBobChannelLink
	committed := make(chan struct{})
	rec.mu.Lock()
	rec.onAdds = func() { close(committed) }
	rec.mu.Unlock()

	pays := []*vC08Pay{
		{Idx: 0, Kind: "hold_manual", Dir: "AC", InChan: 1, OutChan: 2, Amt: 2000000},
		{Idx: 1, Kind: "ok", Dir: "AC", InChan: 1, OutChan: 2, Amt: 1000000},
	}
	c.Pays = pays
	var wg sync.WaitGroup
	for i, p := range pays {
		run, err := vC08Launch(v, p, rg.fork(uint64(1000+i)))
		if err != nil {
			t.Fatal(err)
		}
		wg.Add(1)
		go func() { defer wg.Done(); run() }()
		time.Sleep(4 * time.Millisecond)
	}
	select { // 2.
	case <-committed:
	case <-time.After(10 * time.Second):
		t.Fatalf("no circuits committed")
	}
	time.Sleep(100 * time.Millisecond) // the link now blocks in routeAsync(#0)
	errs := make(chan error, 1)
	go func() {
		_ = bob.routeAsync(&htlcPacket{
			outgoingChanID: n.secondBobChannelLink.ShortChanID(),
			outgoingHTLCID: 0xdeadbeef,
			htlc:           &lnwire.UpdateFailHTLC{},
		}, errs, n.bobServer.quit)
	}()
	time.Sleep(100 * time.Millisecond) // S2 queued behind #0
	close(rel1)                        // 3.
	rel2 := v.waitParked(t)
	v.silent(200 * time.Millisecond) // #0 was added by the outgoing link
	stopped := make(chan struct{})   // 4.
	go func() {
		bob.RemoveLink(link1.ChanID())
		close(stopped)
	}()
	select {
	case <-stopped:
	case <-time.After(10 * time.Second):
		t.Fatalf("incoming link was never stopped")
	}
	rec.mu.Lock()
	rec.holdID = 0
	rec.mu.Unlock()
	close(rel2) // 5.
	if err := v.flap(1); err != nil {
		t.Fatal(err)
	}
	v.silent(500 * time.Millisecond)
	hb, _ := hex.DecodeString(pays[0].Pre)
	var pre lntypes.Preimage
	copy(pre[:], hb)
	if err := carol.SettleHodlInvoice(context.Background(), pre); err != nil {
		t.Logf("settle hold invoice: %v", err)
	}
	wg.Wait()
	c.Faults = []*vC08Fault{{Kind: "flap", Chan: 1, Fired: "directed"}}
	v.finish(c, start, true)
	for _, e := range c.Events {
		if e[0] == "c" && e[1] == "commit" {
			adds := e[2].([][]any)
			return c, len(adds) == 2
		}
	}
	return c, false
}

// vC08DirectedBounce (scenario B): a forward that the switch admitted is
// bounced by the OUTGOING LINK.  A small payment X parks Bob's outgoing link
// (inside NotifyForwardingEvent, right after its AddHTLC); two payments of 60%
// of the channel's capacity each pass the switch's bandwidth check and wait in
// the link's mailbox; the link is released: #1 is added (Carol fails it:
// unknown hash, the capacity is free again), #2 is refused by AddHTLC ->
// mailbox FailAdd -> FailCircuit -> failed back upstream.  After quiescence
// the closing step restarts the incoming link, the other link and the whole
// switch: nothing may move any more (in particular #2, whose invoice is still
// open at Carol, must not be forwarded).
func vC08DirectedBounce(t *testing.T) *vC08Case {
	start := time.Now()
	rg := vNewRng(80)
	c := &vC08Case{Case: 1003, Fault: "probe_bounce", Extra: map[string]any{}}
	v := vC08Setup(t, rg.fork(501))
	defer func() { v.n.stop() }()
	c.Init = vC08Ends(v.n, v.rec)
	rec := v.rec

	pays := []*vC08Pay{
		{Idx: 0, Kind: "ok", Dir: "AC", InChan: 1, OutChan: 2, Amt: 100000},
		{Idx: 1, Kind: "unknown", Dir: "AC", InChan: 1, OutChan: 2, Amt: 1200000000},
		{Idx: 2, Kind: "ok", Dir: "AC", InChan: 1, OutChan: 2, Amt: 1200000000},
	}
	c.Pays = pays
	var wg sync.WaitGroup
	launch := func(p *vC08Pay) {
		run, err := vC08Launch(v, p, rg.fork(uint64(1000+p.Idx)))
		if err != nil {
			t.Fatal(err)
		}
		wg.Add(1)
		go func() { defer wg.Done(); run() }()
	}
	rec.mu.Lock()
	rec.parkFwd = 1
	rec.mu.Unlock()
	launch(pays[0])
	rel := v.waitParked(t) // Bob's outgoing link is parked after adding X
	launch(pays[1])
	time.Sleep(4 * time.Millisecond)
	launch(pays[2])
	// both big adds are locked in on channel 1, admitted by the switch and
	// delivered to the mailbox of the parked link
	for deadline := time.Now().Add(8 * time.Second); time.Now().Before(deadline); {
		rec.mu.Lock()
		k := 0
		for _, e := range rec.ev {
			if e[0] == "c" && e[1] == "commit" {
				k += len(e[2].([][]any))
			}
		}
		rec.mu.Unlock()
		if k >= 3 {
			break
		}
		time.Sleep(10 * time.Millisecond)
	}
	time.Sleep(150 * time.Millisecond)
	close(rel)
	wg.Wait()
	v.finish(c, start, true)
	return c
}

func vC08Probe(t *testing.T, out *vWriter) {
	pt, qt := vC08PayTimeout, vC08QuietTimeout
	vC08PayTimeout, vC08QuietTimeout = 6*time.Second, 4*time.Second
	defer func() { vC08PayTimeout, vC08QuietTimeout = pt, qt }()
	t.Run("directed_stop", func(t *testing.T) {
		vC08PayTimeout, vC08QuietTimeout = 4*time.Second, 2*time.Second
		c := vC08DirectedStop(t)
		vC08PayTimeout, vC08QuietTimeout = 6*time.Second, 4*time.Second
		out.emit(c)
	})
	t.Run("directed_bounce", func(t *testing.T) {
		out.emit(vC08DirectedBounce(t))
	})
	for i, dir := range []string{"CA", "AC"} {
		i, dir := i, dir
		t.Run("directed_pair_"+dir, func(t *testing.T) {
			vC08PayTimeout, vC08QuietTimeout = 20*time.Second, 8*time.Second
			c := vC08DirectedPair(t, dir, 1010+i)
			vC08PayTimeout, vC08QuietTimeout = 6*time.Second, 4*time.Second
			out.emit(c)
		})
	}
	for attempt := 0; attempt < 4; attempt++ {
		var (
			c  *vC08Case
			ok bool
		)
		t.Run(fmt.Sprintf("directed_batch_stop%d", attempt), func(t *testing.T) {
			c, ok = vC08DirectedBatchStop(t, attempt)
		})
		if c != nil && (ok || attempt == 3) {
			out.emit(c)
			break
		}
	}
	for attempt := 0; attempt < 4; attempt++ {
		var (
			c  *vC08Case
			ok bool
		)
		t.Run(fmt.Sprintf("directed%d", attempt), func(t *testing.T) {
			c, ok = vC08Directed(t, attempt)
		})
		if c != nil && (ok || attempt == 3) {
			out.emit(c)
			return
		}
	}
}

// vC08Directed returns the case and whether both adds shared one forwarding
// package with the held one LAST (otherwise the scenario is repeated).
func vC08Directed(t *testing.T, attempt int) (*vC08Case, bool) {
	start := time.Now()
	rg := vNewRng(77 + uint64(attempt))
	c := &vC08Case{Case: 1000, Fault: "probe"}
	v := vC08Setup(t, rg.fork(501))
	defer func() { v.n.stop() }()
	c.Init = vC08Ends(v.n, v.rec)
	carol := v.n.carolServer.registry
	ctx := context.Background()

	pays := []*vC08Pay{
		{Idx: 0, Kind: "ok", Dir: "AC", InChan: 1, OutChan: 2, Amt: 1000000},
		{Idx: 1, Kind: "hold_manual", Dir: "AC", InChan: 1, OutChan: 2, Amt: 2000000},
		{Idx: 2, Kind: "hold_manual", Dir: "AC", InChan: 1, OutChan: 2, Amt: 3000000},
	}
	c.Pays = pays
	var wg sync.WaitGroup
	launch := func(p *vC08Pay) {
		run, err := vC08Launch(v, p, rg.fork(uint64(1000+p.Idx)))
		if err != nil {
			t.Fatal(err)
		}
		wg.Add(1)
		go func() { defer wg.Done(); run() }()
	}
	hashOf := func(p *vC08Pay) (h lntypes.Hash, pre lntypes.Preimage) {
		hb, _ := hex.DecodeString(p.Hash)
		copy(h[:], hb)
		pb, _ := hex.DecodeString(p.Pre)
		copy(pre[:], pb)
		return
	}
	waitAccepted := func(p *vC08Pay) {
		h, _ := hashOf(p)
		for deadline := time.Now().Add(8 * time.Second); time.Now().Before(deadline); {
			inv, err := carol.LookupInvoice(ctx, h)
			if err == nil && inv.State == invoices.ContractAccepted {
				return
			}
			time.Sleep(10 * time.Millisecond)
		}
	}
	settle := func(p *vC08Pay) {
		_, pre := hashOf(p)
		if err := carol.SettleHodlInvoice(ctx, pre); err != nil {
			t.Logf("settle hold invoice %d: %v", p.Idx, err)
		}
	}

	launch(pays[0])
	time.Sleep(4 * time.Millisecond)
	launch(pays[1])
	waitAccepted(pays[1])
	v.silent(400 * time.Millisecond) // payment 0 settled and fully committed on both channels

	// fault 1: channel 2 is re-established with payment 1 held by Carol
	if err := v.flap(2); err != nil {
		t.Fatal(err)
	}
	v.silent(400 * time.Millisecond)
	settle(pays[1])
	v.silent(400 * time.Millisecond)
	launch(pays[2])
	waitAccepted(pays[2])
	v.silent(300 * time.Millisecond)

	// fault 2: channel 2 is re-established again with payment 2 held by Carol
	if err := v.flap(2); err != nil {
		t.Fatal(err)
	}
	v.silent(500 * time.Millisecond)
	settle(pays[2])
	wg.Wait()
	c.Faults = []*vC08Fault{{Kind: "flap", Chan: 2, Fired: "directed"},
		{Kind: "flap", Chan: 2, Fired: "directed"}}
	v.finish(c, start, true)
	for _, e := range c.Events {
		if e[0] == "d" && e[1] == "carol" && e[2] == 2 {
			hs := e[4].([]string)
			if len(hs) > 0 {
				return c, len(hs) == 2 && hs[0] == pays[0].Hash && hs[1] == pays[1].Hash
			}
		}
	}
	return c, false
}

func vC08Batch(t *testing.T, rg *vrng, idx int) *vC08Case {
	start := time.Now()
	c := &vC08Case{Case: idx}
	var plan []*vC08Fault
	var delays bool
	c.Fault, delays, plan = vC08Plan(rg.fork(500), idx)
	v := vC08Setup(t, rg.fork(501))
	v.delays = delays
	n, rec := v.n, v.rec
	defer func() { v.n.stop() }()
	c.Init = vC08Ends(n, rec)

	stop := make(chan struct{})
	done := make(chan error, 1)
	go v.controller(plan, stop, done)

	np := 3 + rg.intn(8)
	if vTier() == "thorough" {
		np = 3 + rg.intn(22)
	}
	var wg sync.WaitGroup
	for i := 0; i < np; i++ {
		p := &vC08Pay{Idx: i, Kind: vC08Kinds[rg.intn(len(vC08Kinds))]}
		if rg.intn(3) == 0 {
			p.Dir, p.InChan, p.OutChan = "CA", 2, 1
		} else {
			p.Dir, p.InChan, p.OutChan = "AC", 1, 2
		}
		p.Amt = vC08PickAmt(rg)
		switch p.Kind {
		case "belowmin":
			p.Amt = uint64(rg.rng(1, 4999))
		case "big":
			p.Amt = uint64(rg.rng(900000, 1990000)) * 1000
		case "badroute":
			p.OutChan = 99
		}
		p.Delay = rg.intn(4) * rg.intn(60)
		run, err := vC08Launch(v, p, rg.fork(uint64(1000+i)))
		if err != nil {
			t.Fatalf("prepare payment: %v", err)
		}
		c.Pays = append(c.Pays, p)
		wg.Add(1)
		go func() {
			defer wg.Done()
			run()
		}()
	}
	// In half of the batches: a PAIR of payments Alice->Carol launched together
	// whose amounts each fit into Bob's side of channel 2 but not both, so that
	// (when both pass the switch's bandwidth check before the outgoing link has
	// added the first) the second is bounced by the OUTGOING LINK itself
	// (AddHTLC error -> mailbox FailAdd -> FailCircuit).
	if rg.intn(2) == 0 {
		kinds := []string{"ok", "ok", "unknown", "hold_cancel", "hold_settle"}
		delay := rg.intn(4) * rg.intn(60)
		for j := 0; j < 2; j++ {
			p := &vC08Pay{Idx: np + j, Kind: kinds[rg.intn(len(kinds))], Dir: "AC",
				InChan: 1, OutChan: 2, Pair: true, Delay: delay,
				Amt: uint64(rg.rng(1020000, 1450000)) * 1000}
			run, err := vC08Launch(v, p, rg.fork(uint64(2000+j)))
			if err != nil {
				t.Fatalf("prepare payment: %v", err)
			}
			c.Pays = append(c.Pays, p)
			wg.Add(1)
			go func() {
				defer wg.Done()
				run()
			}()
		}
	}
	wg.Wait()
	close(stop)
	if err := <-done; err != nil {
		t.Fatalf("fault injection failed: %v", err)
	}
	c.Faults = plan
	_ = rec
	v.finish(c, start, true)
	return c
}

// vC08Sink receives lnd's htlcswitch log: link failures of links that are NOT
// being stopped are recorded as "f" events of the running batch.
type vC08Sink struct {
	mu  sync.Mutex
	rec *vC08Rec
	f   *os.File
}

func (k *vC08Sink) Write(b []byte) (int, error) {
	k.mu.Lock()
	defer k.mu.Unlock()
	if k.f != nil {
		k.f.Write(b)
	}
	line := string(b)
	if k.rec != nil && strings.Contains(line, "failing link") &&
		!strings.Contains(line, "shutting down") && !strings.Contains(line, "quit signal") {

		if i := strings.Index(line, "failing link"); i >= 0 {
			line = strings.TrimSpace(line[i:])
		}
		k.rec.add("f", line)
	}
	// a settle / fail was delivered to an incoming link that cannot apply it
	// (the HTLC is gone or already answered)
	for _, pat := range []string{"unable to settle incoming HTLC", "unable to cancel incoming HTLC"} {
		if i := strings.Index(line, pat); k.rec != nil && i >= 0 {
			k.rec.add("e", "spurious", strings.TrimSpace(line[i:]))
		}
	}
	return len(b), nil
}

var vC08Log = &vC08Sink{}

func TestVerifThreeHop(t *testing.T) {
	lvl := btclog.LevelError
	if p := os.Getenv("VERIF_C08_LOG"); p != "" {
		f, err := os.Create(p)
		if err != nil {
			t.Fatal(err)
		}
		defer f.Close()
		vC08Log.f = f
		lvl = btclog.LevelDebug
	}
	lg := btclog.NewSLogger(btclog.NewDefaultHandler(vC08Log))
	lg.SetLevel(lvl)
	UseLogger(lg)
	out := vOpenOut()
	defer out.close()
	root := vNewRng(vSeed())
	n := vCases(7, 70)
	stuck := 0
	only := vEnvInt("VERIF_C08_ONLY", -1)
	if only < 0 && vEnvInt("VERIF_C08_NOPROBE", 0) == 0 {
		vC08Probe(t, out)
	}
	if only < 0 {
		vC08StopPoints(t, out, root)
	}
	for i := 0; i < n && stuck < 2; i++ {
		i := i
		if only >= 0 && int64(i) != only {
			continue
		}
		t.Run(fmt.Sprintf("b%d", i), func(t *testing.T) {
			c := vC08Batch(t, root.fork(uint64(i)), i)
			if !c.Quiescent {
				stuck++
			}
			out.emit(c)
		})
	}
}
