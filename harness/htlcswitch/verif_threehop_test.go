//go:build verif

package htlcswitch

// C08 harness: seeded batches of concurrent payments Alice->Bob->Carol and
// Carol->Bob->Alice on the REAL three-hop fixture (real channelLinks, Switch,
// circuitMap, lnwallet channels over bbolt).  Everything the forwarder (Bob)
// does is recorded in ONE globally ordered event list:
//
//	"w"  wire messages as they are dequeued by a node (all three mockServers)
//	"n"  Bob's HtlcNotifier callbacks
//	"c"  calls on Bob's CircuitMap (commit/open/close/fail/delete + result)
//	"p"  packets Bob's links hand to the switch (ForwardPackets), with a
//	     snapshot whether the outgoing HTLC is still active on a commitment
//	"s"  messages Bob's links SEND (recorded in the sending link's goroutine)
//	"x"  injected faults: ["x","linkrestart",ch] Bob's link on channel ch was
//	     stopped (both ends of the channel are stopped and restarted over the
//	     channel state reloaded from disk = peer disconnect/reconnect);
//	     ["x","restart"] Bob's whole switch was stopped and re-created on the
//	     same database (circuit map reloaded, all four links restarted);
//	     ["x","dropping",ch] from here on every message on channel ch is lost
//	     until the channel is re-established
//
// and, once the network is quiescent, the end state: balances of all four
// channel ends, active HTLCs, circuit-map sizes, payment results, invoice
// states.  /verif/props/c08.py evaluates the property predicate on that and
// feeds the event list to the Coq model (Forward/Exec.v) as a recogniser.

import (
	"context"
	"crypto/sha256"
	"encoding/binary"
	"encoding/hex"
	"fmt"
	"sync"
	"sync/atomic"
	"testing"
	"time"

	"github.com/btcsuite/btcd/btcec/v2"
	"github.com/btcsuite/btcd/btcutil/v2"
	"github.com/btcsuite/btcd/wire"
	sphinx "github.com/lightningnetwork/lightning-onion"
	"github.com/lightningnetwork/lnd/channeldb"
	"github.com/lightningnetwork/lnd/contractcourt"
	"github.com/lightningnetwork/lnd/graph/db/models"
	"github.com/lightningnetwork/lnd/htlcswitch/hop"
	"github.com/lightningnetwork/lnd/invoices"
	"github.com/lightningnetwork/lnd/lnpeer"
	"github.com/lightningnetwork/lnd/lntypes"
	"github.com/lightningnetwork/lnd/lnwallet"
	"github.com/lightningnetwork/lnd/lnwallet/chainfee"
	"github.com/lightningnetwork/lnd/lnwire"
	"github.com/lightningnetwork/lnd/ticker"
)

// ---- global recorder --------------------------------------------------------

type vC08Rec struct {
	mu    sync.Mutex
	ev    [][]any
	chans map[lnwire.ChannelID]int
	scids map[lnwire.ShortChannelID]int
}

func (r *vC08Rec) add(e ...any) {
	r.mu.Lock()
	r.ev = append(r.ev, e)
	r.mu.Unlock()
}

func (r *vC08Rec) count() int {
	r.mu.Lock()
	defer r.mu.Unlock()
	return len(r.ev)
}

func (r *vC08Rec) sc(s lnwire.ShortChannelID) int {
	if v, ok := r.scids[s]; ok {
		return v
	}
	if s == hop.Source {
		return 0
	}
	return 99
}

// ---- wire interceptor -------------------------------------------------------

func (r *vC08Rec) classify(m lnwire.Message) (string, int, uint64, uint64, string) {
	var (
		kind string
		cid  lnwire.ChannelID
		id   uint64
		amt  uint64
		hx   string
	)
	switch msg := m.(type) {
	case *lnwire.UpdateAddHTLC:
		kind, cid, id, amt = "add", msg.ChanID, msg.ID, uint64(msg.Amount)
		hx = hex.EncodeToString(msg.PaymentHash[:])
	case *lnwire.UpdateFulfillHTLC:
		kind, cid, id = "ful", msg.ChanID, msg.ID
		hx = hex.EncodeToString(msg.PaymentPreimage[:])
	case *lnwire.UpdateFailHTLC:
		kind, cid, id = "fail", msg.ChanID, msg.ID
	case *lnwire.UpdateFailMalformedHTLC:
		kind, cid, id = "mal", msg.ChanID, msg.ID
	case *lnwire.CommitSig:
		kind, cid = "sig", msg.ChanID
	case *lnwire.RevokeAndAck:
		kind, cid = "rev", msg.ChanID
	case *lnwire.ChannelReestablish:
		kind, cid = "reest", msg.ChanID
	default:
		return "", 0, 0, 0, ""
	}
	return kind, r.chans[cid], id, amt, hx
}

// wire records every message at the moment a node's mockServer dequeues it
// (before the link processes it); drop decides whether it is discarded.
func (r *vC08Rec) wire(node string, drop func(node string, ch int, kind string) bool) messageInterceptor {
	return func(m lnwire.Message) (bool, error) {
		kind, ch, id, amt, hx := r.classify(m)
		if kind == "" {
			return false, nil
		}
		d := drop != nil && drop(node, ch, kind)
		r.add("w", node, ch, kind, id, amt, hx, d)
		return d, nil
	}
}

// vC08Peer wraps the Peer of one of Bob's links: messages Bob SENDS are
// recorded synchronously in the sending link's goroutine, so their order
// relative to that link's notifier / circuit-map events is exact.
type vC08Peer struct {
	lnpeer.Peer
	r *vC08Rec
}

func (p *vC08Peer) SendMessage(sync bool, msgs ...lnwire.Message) error {
	for _, m := range msgs {
		kind, ch, id, amt, hx := p.r.classify(m)
		if kind != "" {
			p.r.add("s", ch, kind, id, amt, hx)
		}
	}
	return p.Peer.SendMessage(sync, msgs...)
}

// ---- HtlcNotifier at Bob ------------------------------------------------------

type vC08Notifier struct{ r *vC08Rec }

func (h *vC08Notifier) key(k HtlcKey) (int, uint64, int, uint64) {
	return h.r.sc(k.IncomingCircuit.ChanID), k.IncomingCircuit.HtlcID,
		h.r.sc(k.OutgoingCircuit.ChanID), k.OutgoingCircuit.HtlcID
}

func (h *vC08Notifier) NotifyForwardingEvent(key HtlcKey, info HtlcInfo,
	et HtlcEventType) {

	ic, ii, oc, oi := h.key(key)
	h.r.add("n", "fwd", int(et), ic, ii, oc, oi, uint64(info.IncomingAmt),
		uint64(info.OutgoingAmt))
}

func (h *vC08Notifier) NotifyLinkFailEvent(key HtlcKey, info HtlcInfo,
	et HtlcEventType, linkErr *LinkError, incoming bool) {

	ic, ii, oc, oi := h.key(key)
	detail, code := "", 0
	if linkErr != nil {
		if linkErr.FailureDetail != nil {
			detail = linkErr.FailureDetail.FailureString()
		}
		if d, ok := linkErr.FailureDetail.(OutgoingFailure); ok {
			detail = fmt.Sprintf("out:%d", int(d))
		}
		code = int(linkErr.WireMessage().Code())
	}
	h.r.add("n", "linkfail", int(et), ic, ii, oc, oi, incoming, detail, code)
}

func (h *vC08Notifier) NotifyForwardingFailEvent(key HtlcKey, et HtlcEventType) {
	ic, ii, oc, oi := h.key(key)
	h.r.add("n", "fwdfail", int(et), ic, ii, oc, oi)
}

func (h *vC08Notifier) NotifySettleEvent(key HtlcKey, pre lntypes.Preimage,
	et HtlcEventType) {

	ic, ii, oc, oi := h.key(key)
	h.r.add("n", "settle", int(et), ic, ii, oc, oi, hex.EncodeToString(pre[:]))
}

func (h *vC08Notifier) NotifyFinalHtlcEvent(key models.CircuitKey,
	info channeldb.FinalHtlcInfo) {

	h.r.add("n", "final", h.r.sc(key.ChanID), key.HtlcID, info.Settled, info.Offchain)
}

// ---- CircuitMap proxy at Bob ---------------------------------------------------

type vC08Circuits struct {
	CircuitMap
	r *vC08Rec
}

func (c *vC08Circuits) k(k CircuitKey) []any { return []any{c.r.sc(k.ChanID), k.HtlcID} }

func (c *vC08Circuits) CommitCircuits(circuits ...*PaymentCircuit) (
	*CircuitFwdActions, error) {

	// The returned slices are consumed by the caller: copy the keys first.
	acts, err := c.CircuitMap.CommitCircuits(circuits...)
	conv := func(l []*PaymentCircuit) [][]any {
		o := make([][]any, 0, len(l))
		for _, x := range l {
			o = append(o, c.k(x.Incoming))
		}
		return o
	}
	if acts != nil {
		c.r.add("c", "commit", conv(acts.Adds), conv(acts.Drops), conv(acts.Fails), err != nil)
	}
	return acts, err
}

func (c *vC08Circuits) OpenCircuits(ks ...Keystone) error {
	err := c.CircuitMap.OpenCircuits(ks...)
	if len(ks) > 0 {
		o := make([][]any, 0, len(ks))
		for _, k := range ks {
			o = append(o, append(c.k(k.InKey), c.k(k.OutKey)...))
		}
		c.r.add("c", "open", o, err != nil)
	}
	return err
}

func (c *vC08Circuits) CloseCircuit(outKey CircuitKey) (*PaymentCircuit, error) {
	pc, err := c.CircuitMap.CloseCircuit(outKey)
	es := ""
	var in []any
	if err != nil {
		es = err.Error()
	} else {
		in = c.k(pc.Incoming)
	}
	c.r.add("c", "close", c.k(outKey), in, es)
	return pc, err
}

func (c *vC08Circuits) FailCircuit(inKey CircuitKey) (*PaymentCircuit, error) {
	pc, err := c.CircuitMap.FailCircuit(inKey)
	es := ""
	if err != nil {
		es = err.Error()
	}
	c.r.add("c", "fail", c.k(inKey), es)
	return pc, err
}

func (c *vC08Circuits) DeleteCircuits(inKeys ...CircuitKey) error {
	err := c.CircuitMap.DeleteCircuits(inKeys...)
	if len(inKeys) > 0 {
		o := make([][]any, 0, len(inKeys))
		for _, k := range inKeys {
			o = append(o, c.k(k))
		}
		c.r.add("c", "delete", o, err != nil)
	}
	return err
}

// ---- ForwardPackets wrapper on Bob's links --------------------------------------

func vC08WrapForward(r *vC08Rec, l *channelLink, name int) {
	inner := l.cfg.ForwardPackets
	l.cfg.ForwardPackets = func(q <-chan struct{}, replay bool,
		pkts ...*htlcPacket) error {

		if len(pkts) > 0 {
			var active map[uint64]bool
			for _, p := range pkts {
				kind := ""
				switch p.htlc.(type) {
				case *lnwire.UpdateAddHTLC:
					kind = "add"
				case *lnwire.UpdateFulfillHTLC:
					kind = "settle"
				case *lnwire.UpdateFailHTLC:
					kind = "fail"
				}
				if kind == "add" {
					r.add("p", name, kind, r.sc(p.incomingChanID),
						p.incomingHTLCID, uint64(p.incomingAmount),
						uint64(p.amount), replay)
					continue
				}
				if active == nil {
					active = make(map[uint64]bool)
					for _, h := range l.channel.ActiveHtlcs() {
						if !h.Incoming {
							active[h.HtlcIndex] = true
						}
					}
				}
				r.add("p", name, kind, r.sc(p.outgoingChanID),
					p.outgoingHTLCID, p.destRef != nil,
					active[p.outgoingHTLCID])
			}
		}
		return inner(q, replay, pkts...)
	}
}

// ---- payments ---------------------------------------------------------------------

type vC08Pay struct {
	Idx     int    `json:"idx"`
	Dir     string `json:"dir"`  // "AC" or "CA"
	Kind    string `json:"kind"` // ok unknown wrongamt hold_settle hold_cancel lowfee belowmin big badroute
	Amt     uint64 `json:"amt"`  // amount the forwarder is asked to forward (msat)
	HtlcAmt uint64 `json:"htlc_amt"`
	InChan  int    `json:"in_chan"`
	OutChan int    `json:"out_chan"`
	Hash    string `json:"hash"`
	Pre     string `json:"pre"`
	Result  string `json:"result"` // settled failed send_err timeout
	Err     string `json:"err"`
	Invoice string `json:"invoice"`
	Delay   int    `json:"delay_ms"`
}

type vC08End struct {
	Name   string   `json:"name"`
	Chan   int      `json:"chan"`
	Local  uint64   `json:"local"`
	Remote uint64   `json:"remote"`
	Fee    int64    `json:"fee"`
	Active int      `json:"active"`
	Clean  bool     `json:"clean"`
	Htlcs  []uint64 `json:"htlcs"`
}

type vC08Case struct {
	Case      int        `json:"case"`
	Fault     string     `json:"fault"`
	Pays      []*vC08Pay `json:"pays"`
	Init      []vC08End  `json:"init"`
	End       []vC08End  `json:"end"`
	Events    [][]any    `json:"events"`
	Quiescent bool       `json:"quiescent"`
	Why       string     `json:"why"`
	Circuits  [][]int    `json:"circuits"` // per node [pending, open]
	Dropped   int        `json:"dropped"`
	WallMs    int64      `json:"wall_ms"`
}

var vC08Amounts = []uint64{
	4999, 5000, 5001, 5999, 6000, 7777, 199999, 200000, 200001, 799999, 800000,
	800001, 1000000, 4777999, 4778000, 4778001, 2722999, 2723000, 3000001,
}

func vC08PickAmt(r *vrng) uint64 {
	switch r.intn(10) {
	case 0, 1, 2, 3:
		return vC08Amounts[r.intn(len(vC08Amounts))]
	case 4, 5:
		return uint64(r.rng(5000, 3000000))
	case 6, 7:
		return uint64(r.rng(3000000, 200000000))
	default:
		return uint64(r.rng(1, 100000)) * 1000
	}
}

var vC08Kinds = []string{
	"ok", "ok", "ok", "ok", "ok", "ok", "unknown", "wrongamt", "hold_settle",
	"hold_settle", "hold_cancel", "lowfee", "belowmin", "big", "big", "badroute",
}

func vC08Ends(n *threeHopNetwork, r *vC08Rec) []vC08End {
	mk := func(name string, l *channelLink) vC08End {
		s := l.channel.StateSnapshot()
		act := l.channel.ActiveHtlcs()
		e := vC08End{Name: name, Chan: r.chans[l.ChanID()],
			Local: uint64(s.LocalBalance), Remote: uint64(s.RemoteBalance),
			Fee: int64(s.CommitFee), Active: len(act) + len(s.Htlcs),
			Clean: l.channel.IsChannelClean()}
		for _, h := range act {
			e.Htlcs = append(e.Htlcs, h.HtlcIndex)
		}
		return e
	}
	return []vC08End{
		mk("alice", n.aliceChannelLink), mk("bob1", n.firstBobChannelLink),
		mk("bob2", n.secondBobChannelLink), mk("carol", n.carolChannelLink),
	}
}

// vC08Launch prepares one payment (invoice at the receiver as the kind demands)
// and returns a function that sends it and waits for the result.
func vC08Launch(n *threeHopNetwork, p *vC08Pay, rg *vrng) (func(), error) {
	var (
		sender, receiver *mockServer
		path             []*channelLink
		firstHop         lnwire.ShortChannelID
	)
	if p.Dir == "AC" {
		sender, receiver = n.aliceServer, n.carolServer
		path = []*channelLink{n.firstBobChannelLink, n.carolChannelLink}
		firstHop = n.firstBobChannelLink.ShortChanID()
	} else {
		sender, receiver = n.carolServer, n.aliceServer
		path = []*channelLink{n.secondBobChannelLink, n.aliceChannelLink}
		firstHop = n.secondBobChannelLink.ShortChanID()
	}
	amt := lnwire.MilliSatoshi(p.Amt)
	htlcAmt, timelock, hops := generateHops(amt, testStartingHeight, path...)
	switch p.Kind {
	case "lowfee":
		htlcAmt -= lnwire.MilliSatoshi(1 + rg.intn(2)*999)
	case "badroute":
		var nh [8]byte
		binary.BigEndian.PutUint64(nh[:], 0x0000630000010000)
		fi := hops[0].ForwardingInfo()
		hops[0] = hop.NewLegacyPayload(&sphinx.HopData{
			NextAddress:   nh,
			ForwardAmount: uint64(fi.AmountToForward),
			OutgoingCltv:  fi.OutgoingCLTV,
		})
	}
	p.HtlcAmt = uint64(htlcAmt)

	blob, err := generateRoute(hops...)
	if err != nil {
		return nil, err
	}
	var pre lntypes.Preimage
	copy(pre[:], rg.bytes(32))
	rhash := sha256.Sum256(pre[:])
	var payAddr [32]byte
	copy(payAddr[:], rg.bytes(32))
	p.Pre = hex.EncodeToString(pre[:])
	p.Hash = hex.EncodeToString(rhash[:])

	invAmt := amt
	if p.Kind == "wrongamt" {
		invAmt = amt + lnwire.MilliSatoshi(1+rg.intn(5000))
	}
	hold := p.Kind == "hold_settle" || p.Kind == "hold_cancel"
	var prePtr *lntypes.Preimage
	if !hold {
		prePtr = &pre
	}
	invoice, htlc, pid, err := generatePaymentWithPreimage(
		invAmt, htlcAmt, timelock, blob, prePtr, rhash, payAddr,
	)
	if err != nil {
		return nil, err
	}
	if p.Kind != "unknown" {
		err := receiver.registry.AddInvoice(context.Background(), *invoice, rhash)
		if err != nil {
			return nil, err
		}
	}

	return func() {
		time.Sleep(time.Duration(p.Delay) * time.Millisecond)
		if err := sender.htlcSwitch.SendHTLC(firstHop, pid, htlc); err != nil {
			p.Result, p.Err = "send_err", err.Error()
			if hold {
				_ = receiver.registry.CancelInvoice(context.Background(), rhash)
			}
			return
		}
		resC, err := sender.htlcSwitch.GetAttemptResult(
			pid, rhash, newMockDeobfuscator(),
		)
		if err != nil {
			p.Result, p.Err = "send_err", err.Error()
			return
		}
		if hold {
			// Resolve the hold invoice once the HTLC has been accepted
			// (or after a while if it never arrives).
			go func() {
				deadline := time.Now().Add(8 * time.Second)
				for time.Now().Before(deadline) {
					inv, err := receiver.registry.LookupInvoice(
						context.Background(), rhash)
					if err == nil && inv.State == invoices.ContractAccepted {
						break
					}
					time.Sleep(20 * time.Millisecond)
				}
				time.Sleep(time.Duration(rg.intn(150)) * time.Millisecond)
				if p.Kind == "hold_settle" {
					err := receiver.registry.SettleHodlInvoice(
						context.Background(), pre)
					if err != nil {
						_ = receiver.registry.CancelInvoice(
							context.Background(), rhash)
					}
				} else {
					_ = receiver.registry.CancelInvoice(
						context.Background(), rhash)
				}
			}()
		}
		select {
		case res, ok := <-resC:
			switch {
			case !ok:
				p.Result, p.Err = "timeout", "switch shutting down"
			case res.Error != nil:
				p.Result, p.Err = "failed", res.Error.Error()
			default:
				p.Result = "settled"
				if res.Preimage != pre {
					p.Result = "settled_wrong_preimage"
				}
			}
		case <-time.After(25 * time.Second):
			p.Result, p.Err = "timeout", "no result in 25s"
		}
		if p.Kind != "unknown" {
			inv, err := receiver.registry.LookupInvoice(context.Background(), rhash)
			if err == nil {
				p.Invoice = inv.State.String()
			}
		}
	}, nil
}

func vC08Quiet(n *threeHopNetwork, r *vC08Rec) (bool, string) {
	deadline := time.Now().Add(20 * time.Second)
	last, since := -1, time.Now()
	why := ""
	for time.Now().Before(deadline) {
		cnt := r.count()
		if cnt != last {
			last, since = cnt, time.Now()
		}
		why = ""
		for _, e := range vC08Ends(n, r) {
			if e.Active != 0 || !e.Clean {
				why = fmt.Sprintf("%s active=%d clean=%v", e.Name, e.Active, e.Clean)
			}
		}
		// Circuits are deleted synchronously with the signature that
		// commits the response, so once the channels are clean and the
		// network silent they must be gone: give them a grace period only.
		pend := 0
		for _, s := range []*mockServer{n.aliceServer, n.bobServer, n.carolServer} {
			pend += s.htlcSwitch.circuits.NumPending()
		}
		quiet := time.Since(since)
		if why == "" && ((pend == 0 && quiet > 400*time.Millisecond) ||
			quiet > 2500*time.Millisecond) {

			return true, ""
		}
		time.Sleep(40 * time.Millisecond)
	}
	return false, why
}

func vC08Batch(t *testing.T, rg *vrng, idx int) *vC08Case {
	start := time.Now()
	c := &vC08Case{Case: idx, Fault: "none"}

	channels, _, err := createClusterChannels(
		t, btcutil.Amount(3000000), btcutil.Amount(2000000),
	)
	if err != nil {
		t.Fatalf("create channels: %v", err)
	}
	rec := &vC08Rec{
		chans: map[lnwire.ChannelID]int{},
		scids: map[lnwire.ShortChannelID]int{},
	}
	circuitsOpt := func(alice, bob, carol *mockServer) {
		bob.htlcSwitch.cfg.HtlcNotifier = &vC08Notifier{r: rec}
		bob.htlcSwitch.circuits = &vC08Circuits{
			CircuitMap: bob.htlcSwitch.circuits, r: rec,
		}
	}
	// The id maps are complete before any link goroutine exists.
	rec.chans[lnwire.NewChanIDFromOutPoint(channels.aliceToBob.ChannelPoint())] = 1
	rec.chans[lnwire.NewChanIDFromOutPoint(channels.bobToCarol.ChannelPoint())] = 2
	rec.scids[channels.bobToAlice.ShortChanID()] = 1
	rec.scids[channels.bobToCarol.ShortChanID()] = 2
	n := newThreeHopNetwork(t, channels.aliceToBob, channels.bobToAlice,
		channels.bobToCarol, channels.carolToBob, testStartingHeight,
		circuitsOpt)
	n.aliceServer.intersect(rec.wire("a", nil))
	n.bobServer.intersect(rec.wire("b", nil))
	n.carolServer.intersect(rec.wire("c", nil))
	if err := n.start(); err != nil {
		t.Fatalf("start: %v", err)
	}
	defer n.stop()
	if rec.chans[n.aliceChannelLink.ChanID()] != 1 || rec.chans[n.carolChannelLink.ChanID()] != 2 ||
		rec.scids[n.firstBobChannelLink.ShortChanID()] != 1 ||
		rec.scids[n.secondBobChannelLink.ShortChanID()] != 2 {

		t.Fatalf("channel id maps inconsistent")
	}
	// AddLink already started the link goroutines (they read cfg.Peer while
	// re-establishing), so Bob's links are wrapped only now: n.start() waited
	// until every link is eligible, i.e. idle in its main loop, and every
	// later read of these fields is ordered after a message we cause.
	n.firstBobChannelLink.cfg.Peer = &vC08Peer{Peer: n.firstBobChannelLink.cfg.Peer, r: rec}
	n.secondBobChannelLink.cfg.Peer = &vC08Peer{Peer: n.secondBobChannelLink.cfg.Peer, r: rec}
	vC08WrapForward(rec, n.firstBobChannelLink, 1)
	vC08WrapForward(rec, n.secondBobChannelLink, 2)

	c.Init = vC08Ends(n, rec)

	np := 3 + rg.intn(8)
	if vTier() == "thorough" {
		np = 3 + rg.intn(22)
	}
	var wg sync.WaitGroup
	for i := 0; i < np; i++ {
		p := &vC08Pay{Idx: i, Kind: vC08Kinds[rg.intn(len(vC08Kinds))]}
		if rg.intn(3) == 0 {
			p.Dir, p.InChan, p.OutChan = "CA", 2, 1
		} else {
			p.Dir, p.InChan, p.OutChan = "AC", 1, 2
		}
		p.Amt = vC08PickAmt(rg)
		switch p.Kind {
		case "belowmin":
			p.Amt = uint64(rg.rng(1, 4999))
		case "big":
			p.Amt = uint64(rg.rng(900000, 1990000)) * 1000
		case "badroute":
			p.OutChan = 99
		}
		p.Delay = rg.intn(4) * rg.intn(60)
		run, err := vC08Launch(n, p, rg.fork(uint64(1000+i)))
		if err != nil {
			t.Fatalf("prepare payment: %v", err)
		}
		c.Pays = append(c.Pays, p)
		wg.Add(1)
		go func() {
			defer wg.Done()
			run()
		}()
	}
	wg.Wait()
	c.Quiescent, c.Why = vC08Quiet(n, rec)
	c.End = vC08Ends(n, rec)
	for _, s := range []*mockServer{n.aliceServer, n.bobServer, n.carolServer} {
		c.Circuits = append(c.Circuits, []int{
			s.htlcSwitch.circuits.NumPending(), s.htlcSwitch.circuits.NumOpen(),
		})
	}
	rec.mu.Lock()
	c.Events = append([][]any(nil), rec.ev...)
	rec.mu.Unlock()
	c.WallMs = time.Since(start).Milliseconds()
	return c
}

func TestVerifThreeHop(t *testing.T) {
	out := vOpenOut()
	defer out.close()
	root := vNewRng(vSeed())
	n := vCases(6, 60)
	stuck := 0
	for i := 0; i < n && stuck < 2; i++ {
		i := i
		t.Run(fmt.Sprintf("b%d", i), func(t *testing.T) {
			c := vC08Batch(t, root.fork(uint64(i)), i)
			if !c.Quiescent {
				stuck++
			}
			out.emit(c)
		})
	}
}
