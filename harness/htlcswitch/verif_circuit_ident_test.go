//go:build verif

package htlcswitch

// C07 channel-identity cases.
//
// The restart logic of the circuit map (cleanClosedChannels, restoreMemState,
// trimAllOpenCircuits) takes the set of channels and THEIR IDENTIFIERS from the
// channel database.  The seeded cases of verif_circuit_test.go hand it fabricated
// records that carry exactly one identifier per channel.  A real channel record
// carries several: OpenChannel.ShortChannelID (what the link, the switch and
// every outgoing circuit key use for the whole life of the channel - an ALIAS for
// a zero-conf channel), the confirmed on-chain scid of a zero-conf channel
// (confirmedScid, set and possibly re-set after a reorg by MarkRealScid), the
// channel-type bits (zero-conf, option-scid-alias, scid-alias feature), the
// pending flag, and - once closed - the ShortChanID of the close summary.
//
// Here every case builds REAL channels (lnwallet.CreateTestChannels: real
// LightningChannel state machines over real channeldb databases) of every identity
// kind, forwards HTLCs over them the way the outgoing link does (AddHTLC, keystone
// batch through OpenCircuits keyed by LightningChannel.ShortChanID() = what
// channelLink.ShortChanID() returns, then SignNextCommitment - or a crash before
// it), optionally closes channels (real CloseChannel with the summary the chain
// watcher builds), and restarts the circuit map with the real
// ChannelStateDB.FetchAllOpenChannels / FetchClosedChannels.  The trace has the
// format of the seeded cases, so the Coq model replays it (the restart
// configuration handed to the model is built from the LINK's view: the id the link
// uses and the commit indices read back from the database), and the python
// predicate additionally checks the property sentence directly against the
// harness's own bookkeeping ("truth": which outgoing HTLC reached a commitment).

import (
	"context"
	"errors"
	"testing"

	"github.com/lightningnetwork/lnd/channeldb"
	"github.com/lightningnetwork/lnd/chanstate"
	"github.com/lightningnetwork/lnd/lnwallet"
	"github.com/lightningnetwork/lnd/lnwire"
)

type vC07IdKind struct {
	name     string
	chanType channeldb.ChannelType
	useAlias bool // the channel is opened (MarkAsOpen) under its alias
	confirm  int  // MarkRealScid calls before the HTLCs (2 = confirmed, then re-confirmed after a reorg)
	late     int  // MarkRealScid calls after the keystones were written, before the restart
	pending  bool // never marked open (funding not confirmed): no HTLCs
}

const (
	vC07ZC = channeldb.SingleFunderTweaklessBit | channeldb.ZeroConfBit |
		channeldb.ScidAliasChanBit | channeldb.ScidAliasFeatureBit
)

var vC07IdKinds = []vC07IdKind{
	{name: "regular", chanType: channeldb.SingleFunderTweaklessBit},
	{name: "zeroconf-unconfirmed", chanType: vC07ZC, useAlias: true},
	{name: "zeroconf-confirmed", chanType: vC07ZC, useAlias: true, confirm: 1},
	{name: "zeroconf-confirmed-late", chanType: vC07ZC, useAlias: true, late: 1},
	{name: "zeroconf-reorged", chanType: vC07ZC, useAlias: true, confirm: 1, late: 1},
	{name: "zeroconf-reorged-early", chanType: vC07ZC, useAlias: true, confirm: 2},
	{name: "scidalias-chantype", chanType: channeldb.SingleFunderTweaklessBit |
		channeldb.ScidAliasChanBit | channeldb.ScidAliasFeatureBit},
	{name: "scidalias-feature", chanType: channeldb.SingleFunderTweaklessBit |
		channeldb.ScidAliasFeatureBit},
	{name: "anchors-zeroconf-confirmed", chanType: vC07ZC | channeldb.AnchorOutputsBit,
		useAlias: true, confirm: 1},
	{name: "funding-pending", chanType: channeldb.SingleFunderTweaklessBit, pending: true},
}

// HTLC shape of one outgoing channel: how many outgoing HTLCs were locked in
// (signed and revoked: RemoteCommitment.LocalHtlcIndex), signed only (pending
// remote commitment = RemoteCommitChainTip), and added with a keystone but never
// signed (crash between OpenCircuits and SignNextCommitment / ErrNoWindow).
type vC07IdShape struct{ locked, signed, unsigned int }

var vC07IdShapes = []vC07IdShape{
	{0, 0, 1}, {1, 0, 1}, {0, 1, 1}, {1, 1, 1}, {0, 0, 2}, {1, 0, 2}, {0, 1, 2},
	{1, 0, 0}, {0, 1, 0}, {1, 1, 0}, {2, 0, 1},
}

type vC07IdHtlc struct {
	in        CircuitKey
	out       CircuitKey
	committed bool
	answered  bool // settled and torn down before the restart
}

type vC07IdChan struct {
	kind   vC07IdKind
	shape  vC07IdShape
	alice  *lnwallet.LightningChannel
	bob    *lnwallet.LightningChannel
	cdb    *channeldb.ChannelStateDB
	real   [2]lnwire.ShortChannelID
	alias  lnwire.ShortChannelID
	nreal  int
	htlcs  []*vC07IdHtlc
	closed int // 0 open, 1 close pending (summary.IsPending), 2 fully closed
	sumID  lnwire.ShortChannelID
}

// linkID is the id the channel's link uses for every outgoing circuit key:
// channelLink.ShortChanID() = LightningChannel.ShortChanID() (link.go:2150).
func (c *vC07IdChan) linkID() lnwire.ShortChannelID { return c.alice.ShortChanID() }

func (c *vC07IdChan) markReal(t *testing.T) {
	if err := c.alice.State().MarkRealScid(c.real[c.nreal%2]); err != nil {
		t.Fatalf("MarkRealScid: %v", err)
	}
	c.nreal++
}

func vC07IdNewChan(t *testing.T, kind vC07IdKind, shape vC07IdShape, j int) *vC07IdChan {
	alice, bob, err := lnwallet.CreateTestChannels(t, kind.chanType)
	if err != nil {
		t.Fatalf("CreateTestChannels: %v", err)
	}
	c := &vC07IdChan{kind: kind, shape: shape, alice: alice, bob: bob}
	c.real[0] = lnwire.ShortChannelID{BlockHeight: 700_000 + uint32(j), TxIndex: 5, TxPosition: 0}
	c.real[1] = lnwire.ShortChannelID{BlockHeight: 700_100 + uint32(j), TxIndex: 7, TxPosition: 1}
	c.alias = lnwire.ShortChannelID{BlockHeight: 16_000_000, TxIndex: 0, TxPosition: uint16(j + 1)}
	cdb, ok := alice.State().Db.(*channeldb.ChannelStateDB)
	if !ok {
		t.Fatalf("channel state db is %T", alice.State().Db)
	}
	c.cdb = cdb
	if kind.pending {
		return c
	}
	// The funding manager opens a zero-conf channel under its alias and a
	// confirmed channel under its on-chain location.
	open := c.real[0]
	if kind.useAlias {
		open = c.alias
	}
	if err := alice.State().MarkAsOpen(open); err != nil {
		t.Fatalf("MarkAsOpen: %v", err)
	}
	for i := 0; i < kind.confirm; i++ {
		c.markReal(t)
	}
	return c
}

// chanJ describes a channel for the trace (python histograms + truth predicate).
func (c *vC07IdChan) chanJ() map[string]any {
	hs := []map[string]any{}
	for _, h := range c.htlcs {
		hs = append(hs, map[string]any{"in": vC07KeyJ(h.in), "out": vC07KeyJ(h.out),
			"committed": h.committed, "answered": h.answered})
	}
	return map[string]any{"kind": c.kind.name, "link": c.linkID().ToUint64(),
		"alias": c.alias.ToUint64(), "real": []uint64{c.real[0].ToUint64(), c.real[1].ToUint64()},
		"confirmed": c.alice.State().ZeroConfRealScid().ToUint64(),
		"shape":     []int{c.shape.locked, c.shape.signed, c.shape.unsigned},
		"closed":    c.closed, "htlcs": hs}
}

type vC07IdSys struct {
	*vC07Sys
	t     *testing.T
	th    *vC07Thread
	chans []*vC07IdChan
	steps []vC07Step
	res   map[CircuitKey]bool
}

func (s *vC07IdSys) rec(in []any, o []any) {
	s.steps = append(s.steps, vC07Step{In: in, Out: o, Snap: s.snap()})
}

// full runs one call to completion (memory phase, transaction, memory phase).
func (s *vC07IdSys) full(kind string, args any, in []any) []any {
	o := s.start(s.th, s.callFn(kind, args))
	s.rec(append([]any{"call", 0}, in...), o)
	if s.th.state == "pre" {
		o = s.stepDisk(s.th, true)
		s.rec([]any{"disk", 0, true}, o)
		o = s.stepMem(s.th)
		s.rec([]any{"mem", 0}, o)
	}
	return o
}

func (s *vC07IdSys) commitAll(keys []CircuitKey) []any {
	specs := [][3]uint64{}
	in := [][]uint64{}
	for _, k := range keys {
		sp := [3]uint64{k.ChanID.ToUint64(), k.HtlcID, 3 + k.HtlcID}
		specs = append(specs, sp)
		in = append(in, sp[:])
	}
	return s.full("commit", specs, []any{"commit", in})
}

// addBatch is the outgoing link handling n downstream adds: AddHTLC each, one
// keystone batch keyed by the link's ShortChanID (link.go:1689, :2034).
func (s *vC07IdSys) addBatch(c *vC07IdChan, ins []CircuitKey, committed bool) {
	if len(ins) == 0 {
		return
	}
	var kss []Keystone
	in := [][]uint64{}
	for _, ik := range ins {
		ikc := ik
		htlc := &lnwire.UpdateAddHTLC{
			PaymentHash: [32]byte{byte(ik.ChanID.ToUint64()), byte(ik.HtlcID), 7},
			Amount:      lnwire.NewMSatFromSatoshis(100_000),
			Expiry:      144,
		}
		idx, err := c.alice.AddHTLC(htlc, &ikc)
		if err != nil {
			s.t.Fatalf("AddHTLC: %v", err)
		}
		htlc.ID = idx
		if _, err := c.bob.ReceiveHTLC(htlc); err != nil {
			s.t.Fatalf("ReceiveHTLC: %v", err)
		}
		ok := CircuitKey{ChanID: c.linkID(), HtlcID: idx}
		kss = append(kss, Keystone{InKey: ik, OutKey: ok})
		in = append(in, []uint64{ik.ChanID.ToUint64(), ik.HtlcID, ok.ChanID.ToUint64(), ok.HtlcID})
		c.htlcs = append(c.htlcs, &vC07IdHtlc{in: ik, out: ok, committed: committed})
	}
	o := s.full("open", kss, []any{"open", in})
	if o[0] != "err" || o[1].(int) != 0 {
		s.t.Fatalf("OpenCircuits: %v", o)
	}
}

// activeJ is the LINK's view of an open channel: the id its link uses and the
// two commit indices NextLocalHtlcIndex is computed from, read from a record
// freshly fetched from the channel database.
func (s *vC07IdSys) activeJ(c *vC07IdChan) []any {
	recs, err := c.cdb.FetchAllOpenChannels()
	if err != nil || len(recs) != 1 {
		s.t.Fatalf("FetchAllOpenChannels: %v %d", err, len(recs))
	}
	r := recs[0]
	var tip any
	diff, err := r.RemoteCommitChainTip()
	switch {
	case err == nil:
		tip = diff.Commitment.LocalHtlcIndex
	case errors.Is(err, chanstate.ErrNoPendingCommit):
	default:
		s.t.Fatalf("RemoteCommitChainTip: %v", err)
	}
	id := c.linkID().ToUint64()
	if r.IsPending {
		// a channel whose funding is unconfirmed has no link yet
		id = r.ShortChanID().ToUint64()
	}
	return []any{id, r.IsPending, tip, r.RemoteCommitment.LocalHtlcIndex}
}

// recordJ is the same channel as a model record (Circuit/Identity.v chanrec):
// cr_short := the id the LIVE link uses, the other identifiers as the channel
// database reports them.
func (s *vC07IdSys) recordJ(c *vC07IdChan, act []any) []any {
	st := c.alice.State()
	if act == nil {
		act = []any{c.sumID.ToUint64(), false, nil, uint64(0)}
	}
	return []any{act[0], st.IsZeroConf(), st.IsOptionScidAlias(),
		st.ZeroConfRealScid().ToUint64(), act[1], act[2], act[3]}
}

func (s *vC07IdSys) restart(reopen bool, withChans bool) {
	if reopen {
		if err := s.raw.Close(); err != nil {
			s.t.Fatalf("close: %v", err)
		}
		s.openDB()
	}
	cl := [][]any{}
	ac := [][]any{}
	rm := [][]uint64{}
	rcl := [][]any{}
	rac := [][]any{}
	var chans []*vC07IdChan
	if withChans {
		chans = s.chans
		for _, c := range chans {
			if c.closed != 0 {
				cl = append(cl, []any{c.sumID.ToUint64(), c.closed == 1})
				rcl = append(rcl, []any{s.recordJ(c, nil), c.closed == 1})
				continue
			}
			a := s.activeJ(c)
			ac = append(ac, a)
			rac = append(rac, s.recordJ(c, a))
		}
		for _, c := range chans {
			for _, h := range c.htlcs {
				if s.res[h.out] {
					rm = append(rm, vC07KeyJ(h.out))
				}
			}
		}
	}
	res := map[CircuitKey]bool{}
	if withChans {
		res = s.res
	}
	s.newMapWith(
		func() ([]*chanstate.OpenChannel, error) {
			var all []*chanstate.OpenChannel
			for _, c := range chans {
				r, err := c.cdb.FetchAllOpenChannels()
				if err != nil {
					return nil, err
				}
				all = append(all, r...)
			}
			return all, nil
		},
		func(pendingOnly bool) ([]*chanstate.ChannelCloseSummary, error) {
			var all []*chanstate.ChannelCloseSummary
			for _, c := range chans {
				r, err := c.cdb.FetchClosedChannels(pendingOnly)
				if err != nil {
					return nil, err
				}
				all = append(all, r...)
			}
			return all, nil
		}, res)
	s.rec([]any{"restart", map[string]any{"closed": cl, "resmsg": rm, "active": ac,
		"records": map[string]any{"closed": rcl, "active": rac}}}, []any{"restarted"})
}

// closeChan closes the channel in the channel database the way the chain
// watcher / channel arbitrator do: the summary carries chanState.ShortChanID().
func (s *vC07IdSys) closeChan(c *vC07IdChan, pendingClose bool) {
	st := c.alice.State()
	c.sumID = st.ShortChanID()
	sum := &chanstate.ChannelCloseSummary{
		ChanPoint:   st.FundingOutpoint,
		ShortChanID: c.sumID,
		ChainHash:   st.ChainHash,
		RemotePub:   st.IdentityPub,
		Capacity:    st.Capacity,
		CloseType:   chanstate.RemoteForceClose,
		IsPending:   pendingClose,
	}
	if err := st.CloseChannel(sum); err != nil {
		s.t.Fatalf("CloseChannel: %v", err)
	}
	c.closed = 2
	if pendingClose {
		c.closed = 1
	}
}

func vC07IdentCases(t *testing.T, out *vWriter, master *vrng, only int64) {
	// quick: round 0 enumerates every identity kind with an uncommitted keystone on an
	// open channel, round 1 every kind FULLY CLOSED before the restart (purge rule under
	// the summary's id), round 2 is seeded; thorough: 4 x kinds x shapes
	def := 3 * len(vC07IdKinds)
	if vTier() == "thorough" {
		def = 4 * len(vC07IdKinds) * len(vC07IdShapes)
	}
	n := int(vEnvInt("VERIF_C07_IDENT", int64(def)))
	for i := 0; i < n; i++ {
		ci := 200000 + i
		if only >= 0 && int64(ci) != only {
			continue
		}
		vC07IdentCase(t, out, master.fork(uint64(ci)), ci, i)
	}
}

func vC07IdentCase(t *testing.T, out *vWriter, r *vrng, ci, i int) {
	base := vC07NewSys(t, false)
	defer func() { base.raw.Close() }()
	s := &vC07IdSys{vC07Sys: base, t: t, res: map[CircuitKey]bool{},
		th: &vC07Thread{id: 0, yield: make(chan string), resume: make(chan bool), state: "idle"}}

	// Two outgoing channels per case.  The first channel's kind is ENUMERATED (every
	// identity kind appears in every run), its shape rotates with the seed; the
	// second channel is seeded.
	nk, ns := len(vC07IdKinds), len(vC07IdShapes)
	rot := int(vSeed() % 1000)
	k0 := vC07IdKinds[i%nk]
	s0 := vC07IdShapes[(i/nk*7+i+rot)%ns]
	if i < nk {
		// round 0: every kind with at least one keystone that never reached a commitment
		s0 = vC07IdShapes[(i+rot)%7]
	}
	k1 := vC07IdKinds[r.intn(nk)]
	s1 := vC07IdShapes[r.intn(ns)]
	for k0.pending && k1.pending {
		k1 = vC07IdKinds[r.intn(nk)]
	}
	s.chans = []*vC07IdChan{vC07IdNewChan(t, k0, s0, 0), vC07IdNewChan(t, k1, s1, 1)}

	// key universe: the incoming channel, and EVERY identifier of every outgoing
	// channel (a keystone must never show up under an id the link does not use)
	const inChan = 1
	s.univ = nil
	for h := uint64(0); h <= 7; h++ {
		s.univ = append(s.univ, vC07Key(inChan, h))
	}
	for _, c := range s.chans {
		ids := []lnwire.ShortChannelID{c.alias, c.real[0], c.real[1]}
		if c.kind.pending {
			ids = append(ids, c.alice.ShortChanID())
		}
		for _, id := range ids {
			for h := uint64(0); h <= 3; h++ {
				s.univ = append(s.univ, CircuitKey{ChanID: id, HtlcID: h})
			}
		}
	}
	s.newMapWith(func() ([]*chanstate.OpenChannel, error) { return nil, nil },
		func(bool) ([]*chanstate.ChannelCloseSummary, error) { return nil, nil }, s.res)

	// 1. the switch commits one circuit per forwarded HTLC
	var ins []CircuitKey
	var per [][]CircuitKey
	next := uint64(0)
	for _, c := range s.chans {
		var mine []CircuitKey
		if !c.kind.pending {
			for j := 0; j < c.shape.locked+c.shape.signed+c.shape.unsigned; j++ {
				mine = append(mine, vC07Key(inChan, next))
				next++
			}
		}
		per = append(per, mine)
		ins = append(ins, mine...)
	}
	if r.bool() {
		s.commitAll(ins)
	} else {
		for _, m := range per {
			if len(m) > 0 {
				s.commitAll(m)
			}
		}
	}

	// 2. the outgoing links add, write the keystones, sign (or die before signing)
	order := []int{0, 1}
	if r.bool() {
		order = []int{1, 0}
	}
	for _, oi := range order {
		c, mine := s.chans[oi], per[oi]
		if c.kind.pending {
			continue
		}
		sh := c.shape
		s.addBatch(c, mine[:sh.locked], true)
		if sh.locked > 0 {
			if err := lnwallet.ForceStateTransition(c.alice, c.bob); err != nil {
				t.Fatalf("ForceStateTransition: %v", err)
			}
		}
		s.addBatch(c, mine[sh.locked:sh.locked+sh.signed], true)
		if sh.signed > 0 {
			if _, err := c.alice.SignNextCommitment(context.Background()); err != nil {
				t.Fatalf("SignNextCommitment: %v", err)
			}
		}
		s.addBatch(c, mine[sh.locked+sh.signed:], false)
		if sh.unsigned > 0 && sh.signed > 0 {
			// the revocation window is exhausted: the link cannot sign
			_, err := c.alice.SignNextCommitment(context.Background())
			if !errors.Is(err, lnwallet.ErrNoWindow) {
				t.Fatalf("expected ErrNoWindow, got %v", err)
			}
		}
	}

	// 3. things that happen to the channel RECORDS before the node dies
	for _, c := range s.chans {
		for j := 0; j < c.kind.late; j++ {
			c.markReal(t) // funding tx confirmed / re-confirmed after a reorg
		}
	}
	closeMode := r.intn(4) // 0,1: none; 2: fully closed; 3: close pending
	if i >= nk && i < 2*nk {
		closeMode = 2
	}
	if closeMode >= 2 {
		c := s.chans[r.intn(2)]
		if i < nk {
			c = s.chans[1] // round 0 keeps the enumerated channel open
		} else if i < 2*nk {
			c = s.chans[0] // round 1 closes the enumerated channel
		}
		if !c.kind.pending {
			s.closeChan(c, closeMode == 3)
			for _, h := range c.htlcs {
				if r.intn(3) == 0 {
					s.res[h.out] = true
				}
			}
		}
	}
	// a locked-in HTLC that was settled and torn down before the restart
	if r.intn(3) == 0 {
		for _, c := range s.chans {
			if len(c.htlcs) > 0 && c.shape.locked > 0 && c.closed == 0 {
				h := c.htlcs[0]
				o := s.full("close", h.out, []any{"close", h.out.ChanID.ToUint64(), h.out.HtlcID})
				if o[0] == "circ" {
					s.full("delete", []CircuitKey{h.in}, []any{"delete", [][]uint64{vC07KeyJ(h.in)}})
					h.answered = true
				}
				break
			}
		}
	}

	// 4. node restart: NewCircuitMap over the real channel databases, before any link
	cj := []map[string]any{}
	for _, c := range s.chans {
		cj = append(cj, c.chanJ())
	}
	s.restart(true, true)
	restartStep := len(s.steps) - 1

	// 5. the incoming link replays its forwarding package
	if len(ins) > 0 {
		s.commitAll(ins)
	}
	replayStep := len(s.steps) - 1

	// 6. the outgoing links come up (link.go:603): trim at NextLocalHtlcIndex under
	// the link's id; a second replay of the incoming link (it flapped)
	for _, c := range s.chans {
		if c.closed != 0 || c.kind.pending {
			continue
		}
		recs, err := c.cdb.FetchAllOpenChannels()
		if err != nil || len(recs) != 1 {
			t.Fatalf("FetchAllOpenChannels: %v", err)
		}
		start, err := recs[0].NextLocalHtlcIndex()
		if err != nil {
			t.Fatalf("NextLocalHtlcIndex: %v", err)
		}
		id := c.linkID().ToUint64()
		s.full("trim", [2]uint64{id, start}, []any{"trim", id, start})
	}
	if len(ins) > 0 {
		s.commitAll(ins)
	}
	// the switch answers what can be answered
	for _, c := range s.chans {
		for _, h := range c.htlcs {
			if h.answered {
				continue
			}
			var o []any
			if h.committed && r.intn(3) > 0 {
				o = s.full("close", h.out, []any{"close", h.out.ChanID.ToUint64(), h.out.HtlcID})
			} else if !h.committed {
				o = s.full("fail", h.in, []any{"fail", h.in.ChanID.ToUint64(), h.in.HtlcID})
			}
			if o != nil && o[0] == "circ" && r.intn(3) > 0 {
				s.full("delete", []CircuitKey{h.in}, []any{"delete", [][]uint64{vC07KeyJ(h.in)}})
			}
		}
	}

	// 7. a pending close completes; restart again; and once more with nothing to do
	for _, c := range s.chans {
		if c.closed == 1 && r.bool() {
			op := c.alice.State().FundingOutpoint
			if err := c.cdb.MarkChanFullyClosed(&op); err != nil {
				t.Fatalf("MarkChanFullyClosed: %v", err)
			}
			c.closed = 2
		}
	}
	s.restart(r.bool(), true)
	s.restart(false, false)

	out.emit(map[string]any{"case": ci, "mode": "ident", "threads": 1,
		"univ": s.univJ(), "steps": s.steps, "chans": cj,
		"restart_step": restartStep, "replay_step": replayStep})
}
