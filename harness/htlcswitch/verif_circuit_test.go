//go:build verif

package htlcswitch

// C07 correspondence harness: drives the REAL circuitMap over a real bbolt
// database on seeded operation sequences and writes, after every phase step,
// the returned value and the full observable state (NumPending, NumOpen,
// LookupCircuit / LookupOpenCircuit over a small key universe) to VERIF_OUT.
//
// Every API call runs in its own goroutine.  The kvdb.Backend handed to the
// circuit map is a wrapper that parks the calling goroutine immediately
// before and immediately after its kvdb.Update/Batch transaction, so the
// harness decides deterministically (a) whether the transaction commits or
// fails and (b) how the memory/disk/memory phases of 1-3 concurrent callers
// interleave.  Exactly one goroutine runs at any time, so the trace is the
// linearisation itself; the Coq model (Circuit/Exec.v) replays the same
// inputs step by step.

import (
	"errors"
	"fmt"
	"path/filepath"
	"sort"
	"testing"
	"time"

	"github.com/btcsuite/btcd/btcec/v2"
	"github.com/lightningnetwork/lnd/chanstate"
	"github.com/lightningnetwork/lnd/htlcswitch/hop"
	"github.com/lightningnetwork/lnd/kvdb"
	"github.com/lightningnetwork/lnd/lnwire"
)

var vC07ErrInjected = errors.New("verif: injected kvdb failure")

// ---- gated kvdb backend ----------------------------------------------------

type vC07Thread struct {
	id     int
	yield  chan string
	resume chan bool
	state  string // "idle", "pre", "post"
	result []any
	what   string // kind of the call in flight
}

type vC07Sched struct {
	cur *vC07Thread
}

type vC07DB struct {
	kvdb.Backend
	sched     *vC07Sched
	realBatch bool
}

func (d *vC07DB) gated(run func(wrap func(func(kvdb.RwTx) error) func(kvdb.RwTx) error) error) error {
	th := d.sched.cur
	if th == nil {
		// Start-up transactions of NewCircuitMap: not gated.
		return run(func(f func(kvdb.RwTx) error) func(kvdb.RwTx) error { return f })
	}
	th.yield <- "pre"
	ok := <-th.resume
	err := run(func(f func(kvdb.RwTx) error) func(kvdb.RwTx) error {
		if ok {
			return f
		}
		// Execute the closure, then abort the transaction: bbolt rolls
		// everything back and the caller sees a write error.
		return func(tx kvdb.RwTx) error {
			if e := f(tx); e != nil {
				return e
			}
			return vC07ErrInjected
		}
	})
	th.yield <- "post"
	<-th.resume
	return err
}

func (d *vC07DB) Update(f func(tx kvdb.RwTx) error, reset func()) error {
	return d.gated(func(wrap func(func(kvdb.RwTx) error) func(kvdb.RwTx) error) error {
		return d.Backend.Update(wrap(f), reset)
	})
}

// Batch makes the wrapper a walletdb.BatchDB so that kvdb.Batch reaches it.
func (d *vC07DB) Batch(f func(tx kvdb.RwTx) error) error {
	return d.gated(func(wrap func(func(kvdb.RwTx) error) func(kvdb.RwTx) error) error {
		if d.realBatch {
			return kvdb.Batch(d.Backend, wrap(f))
		}
		return d.Backend.Update(wrap(f), func() {})
	})
}

// ---- channel-state stubs used by trimAllOpenCircuits -----------------------

type vC07Store struct {
	chanstate.Store
	tips map[uint64]uint64
}

func (s *vC07Store) RemoteCommitChainTip(c *chanstate.OpenChannel) (*chanstate.CommitDiff, error) {
	if v, ok := s.tips[c.ShortChannelID.ToUint64()]; ok {
		return &chanstate.CommitDiff{
			Commitment: chanstate.ChannelCommitment{LocalHtlcIndex: v},
		}, nil
	}
	return nil, chanstate.ErrNoPendingCommit
}

type vC07Active struct {
	scid    uint64
	pending bool
	tip     *uint64
	ridx    uint64
}

type vC07Restart struct {
	closed [][2]uint64 // scid, isPending(0/1)
	resmsg []CircuitKey
	active []vC07Active
}

// ---- the system under test --------------------------------------------------

type vC07Sys struct {
	t     *testing.T
	dir   string
	raw   kvdb.Backend
	db    *vC07DB
	sched *vC07Sched
	cm    *circuitMap
	univ  []CircuitKey
}

func vC07Key(c, h uint64) CircuitKey {
	return CircuitKey{ChanID: lnwire.NewShortChanIDFromInt(c), HtlcID: h}
}

func vC07KeyJ(k CircuitKey) []uint64 { return []uint64{k.ChanID.ToUint64(), k.HtlcID} }

func (s *vC07Sys) openDB() {
	raw, err := kvdb.GetBoltBackend(&kvdb.BoltBackendConfig{
		DBPath:         s.dir,
		DBFileName:     "circuit.db",
		NoFreelistSync: true,
		DBTimeout:      10 * time.Second,
	})
	if err != nil {
		s.t.Fatalf("open bolt: %v", err)
	}
	s.raw = raw
	s.db = &vC07DB{Backend: raw, sched: s.sched, realBatch: s.db != nil && s.db.realBatch}
}

func (s *vC07Sys) newMap(rc *vC07Restart) {
	closedSet := rc.closed
	res := map[CircuitKey]bool{}
	for _, k := range rc.resmsg {
		res[k] = true
	}
	store := &vC07Store{tips: map[uint64]uint64{}}
	var act []*chanstate.OpenChannel
	for _, a := range rc.active {
		oc := &chanstate.OpenChannel{
			ShortChannelID: lnwire.NewShortChanIDFromInt(a.scid),
			IsPending:      a.pending,
			Db:             store,
		}
		oc.RemoteCommitment.LocalHtlcIndex = a.ridx
		if a.tip != nil {
			store.tips[a.scid] = *a.tip
		}
		act = append(act, oc)
	}
	s.newMapWith(
		func() ([]*chanstate.OpenChannel, error) {
			return act, nil
		},
		func(pendingOnly bool) ([]*chanstate.ChannelCloseSummary, error) {
			var out []*chanstate.ChannelCloseSummary
			for _, c := range closedSet {
				if pendingOnly && c[1] == 0 {
					continue
				}
				out = append(out, &chanstate.ChannelCloseSummary{
					ShortChanID: lnwire.NewShortChanIDFromInt(c[0]),
					IsPending:   c[1] == 1,
				})
			}
			return out, nil
		}, res)
}

// newMapWith builds a new circuit map on the same database with the given
// channel-database views (fabricated records in the seeded cases, REAL channeldb
// records in the channel-identity cases of verif_circuit_ident_test.go).
func (s *vC07Sys) newMapWith(fetchOpen func() ([]*chanstate.OpenChannel, error),
	fetchClosed func(bool) ([]*chanstate.ChannelCloseSummary, error), res map[CircuitKey]bool) {

	cfg := &CircuitMapConfig{
		DB:                   s.db,
		FetchAllOpenChannels: fetchOpen,
		FetchClosedChannels:  fetchClosed,
		ExtractErrorEncrypter: func(*btcec.PublicKey) (hop.ErrorEncrypter, lnwire.FailCode) {
			return NewMockObfuscator(), lnwire.CodeNone
		},
		CheckResolutionMsg: func(outKey *CircuitKey) error {
			if res[*outKey] {
				return nil
			}
			return fmt.Errorf("not found")
		},
	}
	s.sched.cur = nil
	cmi, err := NewCircuitMap(cfg)
	if err != nil {
		s.t.Fatalf("NewCircuitMap: %v", err)
	}
	s.cm = cmi.(*circuitMap)
}

func vC07View(c *PaymentCircuit) []any {
	var out any
	if c.Outgoing != nil {
		out = vC07KeyJ(*c.Outgoing)
	}
	return []any{c.Incoming.ChanID.ToUint64(), c.Incoming.HtlcID, out,
		c.LoadedFromDisk, uint64(c.IncomingAmount)}
}

func (s *vC07Sys) snap() map[string]any {
	p := [][]any{}
	o := [][]any{}
	for _, k := range s.univ {
		if c := s.cm.LookupCircuit(k); c != nil {
			p = append(p, []any{vC07KeyJ(k), vC07View(c)})
		}
		if c := s.cm.LookupOpenCircuit(k); c != nil {
			o = append(o, []any{vC07KeyJ(k), vC07View(c)})
		}
	}
	return map[string]any{"np": s.cm.NumPending(), "no": s.cm.NumOpen(), "p": p, "o": o}
}

// openNow / halfNow only bias the generator towards the interesting calls.
func (s *vC07Sys) openNow() []CircuitKey {
	var r []CircuitKey
	for _, k := range s.univ {
		if s.cm.LookupOpenCircuit(k) != nil {
			r = append(r, k)
		}
	}
	return r
}

func (s *vC07Sys) halfNow() []CircuitKey {
	var r []CircuitKey
	for _, k := range s.univ {
		if c := s.cm.LookupCircuit(k); c != nil && c.Outgoing == nil {
			r = append(r, k)
		}
	}
	return r
}

func vC07Err(err error) int {
	switch {
	case err == nil:
		return 0
	case errors.Is(err, ErrUnknownCircuit):
		return 1
	case errors.Is(err, ErrDuplicateKeystone):
		return 2
	case errors.Is(err, ErrCircuitClosing):
		return 3
	case errors.Is(err, vC07ErrInjected):
		return 4
	}
	return 5
}

func vC07Keys(cs []*PaymentCircuit) [][]uint64 {
	r := [][]uint64{}
	for _, c := range cs {
		r = append(r, vC07KeyJ(c.Incoming))
	}
	return r
}

// start launches fn on thread th and runs it until it parks or returns.
func (s *vC07Sys) start(th *vC07Thread, fn func() []any) []any {
	s.sched.cur = th
	go func() {
		th.result = fn()
		th.yield <- "done"
	}()
	return s.wait(th)
}

func (s *vC07Sys) wait(th *vC07Thread) []any {
	st := <-th.yield
	if st == "done" {
		th.state = "idle"
		return th.result
	}
	th.state = st
	return []any{"yield"}
}

func (s *vC07Sys) stepDisk(th *vC07Thread, ok bool) []any {
	if th.state != "pre" {
		s.t.Fatalf("thread %d not before its transaction", th.id)
	}
	s.sched.cur = th
	th.resume <- ok
	r := s.wait(th)
	if th.state != "post" {
		s.t.Fatalf("thread %d: expected to park after its transaction, got %q", th.id, th.state)
	}
	return r
}

func (s *vC07Sys) stepMem(th *vC07Thread) []any {
	if th.state != "post" {
		s.t.Fatalf("thread %d not after its transaction", th.id)
	}
	s.sched.cur = th
	th.resume <- true
	r := s.wait(th)
	if th.state != "idle" {
		s.t.Fatalf("thread %d: second transaction in one call (%q): model granularity is wrong",
			th.id, th.state)
	}
	return r
}

// ---- generator ----------------------------------------------------------------

type vC07Gen struct {
	r       *vrng
	inChans []uint64
	outChan []uint64
	nextOut map[uint64]uint64 // per outgoing channel: next htlc index the "link" would use
	known   []CircuitKey      // incoming keys seen in Adds
	opens   []CircuitKey      // outgoing keys opened successfully
	maxH    uint64
}

func (g *vC07Gen) inKey() CircuitKey {
	if len(g.known) > 0 && g.r.intn(10) < 7 {
		return g.known[g.r.intn(len(g.known))]
	}
	c := g.inChans[g.r.intn(len(g.inChans))]
	return vC07Key(c, uint64(g.r.intn(int(g.maxH))))
}

func (g *vC07Gen) outKey(fresh bool) CircuitKey {
	if !fresh && len(g.opens) > 0 && g.r.intn(10) < 7 {
		return g.opens[g.r.intn(len(g.opens))]
	}
	c := g.outChan[g.r.intn(len(g.outChan))]
	if fresh && g.r.intn(10) < 8 {
		h := g.nextOut[c]
		g.nextOut[c]++
		if g.nextOut[c] > g.maxH+1 {
			g.nextOut[c] = g.maxH + 1
		}
		return vC07Key(c, h)
	}
	return vC07Key(c, uint64(g.r.intn(int(g.maxH)+1)))
}

func TestVerifCircuit(t *testing.T) {
	out := vOpenOut()
	defer out.close()
	master := vNewRng(vSeed())
	ncases := vCases(160, 6000)
	exhaustive := vEnvInt("VERIF_C07_EXH", 0)
	if exhaustive > 0 {
		vC07Exhaustive(t, out, int(exhaustive))
		return
	}
	only := vEnvInt("VERIF_C07_ONLY", -1)
	// Scripted witness histories (Circuit/Examples.v, RestartProofs.v): replayed on
	// the real circuitMap in every run; case ids 100000+.
	// Channel-identity cases (verif_circuit_ident_test.go): REAL channeldb records of
	// every identity kind behind FetchAllOpenChannels/FetchClosedChannels; ids 200000+.
	vC07IdentCases(t, out, master, only)
	for wi, w := range vC07Witnesses() {
		ci := 100000 + wi
		if only >= 0 && int64(ci) != only {
			continue
		}
		vC07Scripted(t, out, w, ci)
	}
	for ci := 0; ci < ncases; ci++ {
		if only >= 0 && int64(ci) != only {
			continue
		}
		vC07Case(t, out, master.fork(uint64(ci)), ci)
	}
}

func vC07NewSys(t *testing.T, realBatch bool) *vC07Sys {
	s := &vC07Sys{t: t, dir: t.TempDir(), sched: &vC07Sched{}}
	s.openDB()
	s.db.realBatch = realBatch
	for c := uint64(0); c <= 3; c++ {
		for h := uint64(0); h <= 5; h++ {
			s.univ = append(s.univ, vC07Key(c, h))
		}
	}
	return s
}

func (s *vC07Sys) univJ() [][]uint64 {
	r := [][]uint64{}
	for _, k := range s.univ {
		r = append(r, vC07KeyJ(k))
	}
	return r
}

func vC07RestartJ(rc *vC07Restart) map[string]any {
	cl := [][]any{}
	for _, c := range rc.closed {
		cl = append(cl, []any{c[0], c[1] == 1})
	}
	rm := [][]uint64{}
	for _, k := range rc.resmsg {
		rm = append(rm, vC07KeyJ(k))
	}
	ac := [][]any{}
	for _, a := range rc.active {
		var tip any
		if a.tip != nil {
			tip = *a.tip
		}
		ac = append(ac, []any{a.scid, a.pending, tip, a.ridx})
	}
	return map[string]any{"closed": cl, "resmsg": rm, "active": ac}
}

// doRestart abandons in-flight calls (a call parked before its transaction is
// made to fail so that it can no longer touch the disk; everything it still
// does only affects the discarded in-memory map) and builds a new circuit map
// on the same database.
func (s *vC07Sys) doRestart(ths []*vC07Thread, rc *vC07Restart, reopen bool) {
	for _, th := range ths {
		if th.state == "pre" {
			s.stepDisk(th, false)
		}
		if th.state == "post" {
			s.stepMem(th)
		}
	}
	if reopen {
		if err := s.raw.Close(); err != nil {
			s.t.Fatalf("close: %v", err)
		}
		s.openDB()
	}
	s.newMap(rc)
}

type vC07Step struct {
	In   []any          `json:"in"`
	Out  []any          `json:"out"`
	Snap map[string]any `json:"snap"`
}

func (s *vC07Sys) callFn(kind string, args any) func() []any {
	cm := s.cm
	switch kind {
	case "commit":
		specs := args.([][3]uint64)
		return func() []any {
			var cs []*PaymentCircuit
			for _, sp := range specs {
				c := &PaymentCircuit{
					Incoming:       vC07Key(sp[0], sp[1]),
					IncomingAmount: lnwire.MilliSatoshi(sp[2]),
					OutgoingAmount: lnwire.MilliSatoshi(sp[2]),
					PaymentHash:    [32]byte{byte(sp[0]), byte(sp[1])},
				}
				// Forwarded circuits carry an error encrypter that is
				// re-extracted on restart; locally sourced ones do not.
				if sp[0] != 0 {
					c.ErrorEncrypter = NewMockObfuscator()
				}
				cs = append(cs, c)
			}
			a, err := cm.CommitCircuits(cs...)
			return []any{"commit", vC07Keys(a.Adds), vC07Keys(a.Drops), vC07Keys(a.Fails), err != nil}
		}
	case "open":
		kss := args.([]Keystone)
		return func() []any { return []any{"err", vC07Err(cm.OpenCircuits(kss...))} }
	case "trim":
		a := args.([2]uint64)
		return func() []any {
			return []any{"err", vC07Err(cm.TrimOpenCircuits(lnwire.NewShortChanIDFromInt(a[0]), a[1]))}
		}
	case "close":
		k := args.(CircuitKey)
		return func() []any {
			c, err := cm.CloseCircuit(k)
			if err != nil {
				return []any{"err", vC07Err(err)}
			}
			return []any{"circ", vC07View(c)}
		}
	case "fail":
		k := args.(CircuitKey)
		return func() []any {
			c, err := cm.FailCircuit(k)
			if err != nil {
				return []any{"err", vC07Err(err)}
			}
			return []any{"circ", vC07View(c)}
		}
	case "delete":
		ks := args.([]CircuitKey)
		return func() []any { return []any{"err", vC07Err(cm.DeleteCircuits(ks...))} }
	}
	panic(kind)
}

func vC07GenRestart(g *vC07Gen) *vC07Restart {
	r := g.r
	rc := &vC07Restart{}
	clp := 0
	if r.intn(3) == 0 {
		clp = 1 + r.intn(3)
	}
	isClosed := map[uint64]bool{}
	for c := uint64(0); c <= 3; c++ {
		if r.intn(6) < clp {
			pend := uint64(0)
			if r.intn(5) == 0 {
				pend = 1
			}
			rc.closed = append(rc.closed, [2]uint64{c, pend})
			isClosed[c] = pend == 0
		}
	}
	for _, k := range g.opens {
		if r.intn(3) == 0 {
			rc.resmsg = append(rc.resmsg, k)
		}
	}
	// Active channels (normally the ones that are not closed) with the next
	// local htlc index at/around the boundary of what the generator opened.
	order := []uint64{0, 1, 2, 3}
	if r.intn(2) == 0 {
		order = []uint64{3, 2, 1, 0}
	}
	for _, c := range order {
		if isClosed[c] && r.intn(8) != 0 {
			continue
		}
		if r.intn(8) == 0 {
			continue
		}
		a := vC07Active{scid: c, pending: r.intn(10) == 0}
		n := g.nextOut[c]
		pick := func() uint64 {
			switch r.intn(8) {
			case 0:
				return 0
			case 1:
				if n > 0 {
					return n - 1
				}
				return 0
			case 2:
				return n + 1
			case 3:
				return uint64(r.intn(int(g.maxH) + 2))
			case 4:
				if n > 1 {
					return n - 2
				}
				return 0
			}
			return n
		}
		a.ridx = pick()
		if r.intn(3) == 0 {
			v := pick()
			a.tip = &v
		}
		rc.active = append(rc.active, a)
	}
	return rc
}

func vC07Case(t *testing.T, out *vWriter, r *vrng, ci int) {
	s := vC07NewSys(t, r.intn(8) == 0)
	defer func() { s.raw.Close() }()
	s.newMap(&vC07Restart{})

	g := &vC07Gen{r: r, inChans: []uint64{1, 2, 0}, outChan: []uint64{2, 3},
		nextOut: map[uint64]uint64{}, maxH: 4}
	if r.intn(4) == 0 {
		// locally initiated payments dominate: stray keystone rule
		g.inChans = []uint64{0, 0, 1}
	}
	nthreads := 1
	mode := "seq"
	if r.intn(5) < 2 {
		nthreads = 2 + r.intn(2)
		mode = "conc"
	}
	failp := 0
	if r.intn(3) > 0 {
		failp = 1 + r.intn(3) // out of 10
	}
	ths := make([]*vC07Thread, nthreads)
	for i := range ths {
		ths[i] = &vC07Thread{id: i, yield: make(chan string), resume: make(chan bool), state: "idle"}
	}
	var steps []vC07Step
	rec := func(in []any, o []any) {
		steps = append(steps, vC07Step{In: in, Out: o, Snap: s.snap()})
	}
	nsteps := 20 + r.intn(50)
	restarts := 0
	for len(steps) < nsteps {
		// pick a thread
		th := ths[r.intn(nthreads)]
		if mode == "seq" || r.intn(3) == 0 {
			// prefer finishing whatever is in flight
			for _, x := range ths {
				if x.state != "idle" {
					th = x
				}
			}
		}
		switch th.state {
		case "pre":
			ok := r.intn(10) >= failp
			// A failing DeleteCircuits rolls back in Go-map order; that
			// order is only observable if two removed circuits claim the
			// same outgoing key, which the model resolves in list order.
			// Keep such (malformed) deletes successful.
			if th.what == "delete-dupout" {
				ok = true
			}
			o := s.stepDisk(th, ok)
			rec([]any{"disk", th.id, ok}, o)
			continue
		case "post":
			o := s.stepMem(th)
			rec([]any{"mem", th.id}, o)
			if o[0] == "commit" {
				for _, k := range o[1].([][]uint64) {
					g.known = append(g.known, vC07Key(k[0], k[1]))
				}
			}
			continue
		}
		// idle thread: new call or restart
		w := r.intn(100)
		switch {
		case w < 6 && restarts < 4:
			rc := vC07GenRestart(g)
			s.doRestart(ths, rc, r.intn(3) == 0)
			restarts++
			rec([]any{"restart", vC07RestartJ(rc)}, []any{"restarted"})
			g.opens = nil
		case w < 34:
			n := 1 + r.intn(3)
			if r.intn(12) == 0 {
				n = 0
			}
			specs := [][3]uint64{}
			for i := 0; i < n; i++ {
				var k CircuitKey
				if r.intn(10) < 6 {
					c := g.inChans[r.intn(len(g.inChans))]
					k = vC07Key(c, uint64(r.intn(int(g.maxH))))
				} else {
					k = g.inKey()
				}
				if i > 0 && r.intn(6) == 0 {
					k = vC07Key(specs[i-1][0], specs[i-1][1])
				}
				specs = append(specs, [3]uint64{k.ChanID.ToUint64(), k.HtlcID, uint64(1 + r.intn(9))})
			}
			th.what = "commit"
			o := s.start(th, s.callFn("commit", specs))
			in := [][]uint64{}
			for _, sp := range specs {
				in = append(in, []uint64{sp[0], sp[1], sp[2]})
			}
			rec([]any{"call", th.id, "commit", in}, o)
			if o[0] == "commit" {
				for _, k := range o[1].([][]uint64) {
					g.known = append(g.known, vC07Key(k[0], k[1]))
				}
			}
		case w < 56:
			n := 1 + r.intn(2)
			if r.intn(15) == 0 {
				n = 0
			}
			var kss []Keystone
			in := [][]uint64{}
			for i := 0; i < n; i++ {
				ks := Keystone{InKey: g.inKey(), OutKey: g.outKey(true)}
				if hp := s.halfNow(); len(hp) > 0 && r.intn(10) < 6 {
					ks.InKey = hp[r.intn(len(hp))]
				}
				if i > 0 && r.intn(12) == 0 {
					ks.OutKey = kss[i-1].OutKey
				}
				kss = append(kss, ks)
				in = append(in, []uint64{ks.InKey.ChanID.ToUint64(), ks.InKey.HtlcID,
					ks.OutKey.ChanID.ToUint64(), ks.OutKey.HtlcID})
			}
			th.what = "open"
			o := s.start(th, s.callFn("open", kss))
			rec([]any{"call", th.id, "open", in}, o)
			for _, ks := range kss {
				g.opens = append(g.opens, ks.OutKey)
			}
		case w < 64:
			c := g.outChan[r.intn(len(g.outChan))]
			n := g.nextOut[c]
			st := n
			switch r.intn(5) {
			case 0:
				st = 0
			case 1:
				if n > 0 {
					st = n - 1
				}
			case 2:
				if n > 1 {
					st = n - 2
				}
			case 3:
				st = uint64(r.intn(int(g.maxH) + 2))
			}
			if on := s.openNow(); len(on) > 0 && r.intn(10) < 6 {
				k := on[r.intn(len(on))]
				c = k.ChanID.ToUint64()
				st = k.HtlcID
				if r.intn(4) == 0 && st > 0 {
					st--
				}
			}
			th.what = "trim"
			o := s.start(th, s.callFn("trim", [2]uint64{c, st}))
			rec([]any{"call", th.id, "trim", c, st}, o)
		case w < 76:
			k := g.outKey(false)
			if on := s.openNow(); len(on) > 0 && r.intn(10) < 6 {
				k = on[r.intn(len(on))]
			}
			th.what = "close"
			o := s.start(th, s.callFn("close", k))
			rec([]any{"call", th.id, "close", k.ChanID.ToUint64(), k.HtlcID}, o)
		case w < 86:
			k := g.inKey()
			th.what = "fail"
			o := s.start(th, s.callFn("fail", k))
			rec([]any{"call", th.id, "fail", k.ChanID.ToUint64(), k.HtlcID}, o)
		default:
			n := 1 + r.intn(2)
			if r.intn(15) == 0 {
				n = 0
			}
			var ks []CircuitKey
			in := [][]uint64{}
			for i := 0; i < n; i++ {
				k := g.inKey()
				if i > 0 && r.intn(6) == 0 {
					k = ks[i-1]
				}
				ks = append(ks, k)
				in = append(in, vC07KeyJ(k))
			}
			th.what = "delete"
			// detect circuits that claim the same outgoing key
			seen := map[CircuitKey]bool{}
			for _, k := range ks {
				if c := s.cm.LookupCircuit(k); c != nil && c.Outgoing != nil {
					if seen[*c.Outgoing] && !(len(ks) > 1 && ks[0] == ks[1]) {
						th.what = "delete-dupout"
					}
					seen[*c.Outgoing] = true
				}
			}
			o := s.start(th, s.callFn("delete", ks))
			rec([]any{"call", th.id, "delete", in}, o)
		}
	}
	// Drain in-flight calls so that no goroutine outlives the case.
	for _, th := range ths {
		if th.state == "pre" {
			o := s.stepDisk(th, true)
			rec([]any{"disk", th.id, true}, o)
		}
		if th.state == "post" {
			o := s.stepMem(th)
			rec([]any{"mem", th.id}, o)
		}
	}
	// Final restart: what is durable is exactly what comes back.
	rc := vC07GenRestart(g)
	s.doRestart(ths, rc, true)
	rec([]any{"restart", vC07RestartJ(rc)}, []any{"restarted"})
	// ... and restarting once more (nothing closed, nothing to trim) changes nothing.
	s.doRestart(ths, &vC07Restart{}, false)
	rec([]any{"restart", vC07RestartJ(&vC07Restart{})}, []any{"restarted"})

	out.emit(map[string]any{"case": ci, "mode": mode, "threads": nthreads,
		"univ": s.univJ(), "steps": steps})
}

// ---- exhaustive small-universe enumeration (thorough tier) -------------------

// vC07Exhaustive enumerates every sequence of `depth` atomic operations over
// 2 incoming keys x 2 outgoing keys (each call run to completion, commits and
// deletes optionally failing), each followed by a restart.
func vC07Exhaustive(t *testing.T, out *vWriter, depth int) {
	type op struct {
		kind string
		args any
		in   []any
		fail bool
	}
	i0, i1 := vC07Key(1, 0), vC07Key(1, 1)
	o0, o1 := vC07Key(2, 0), vC07Key(2, 1)
	var alpha []op
	for _, k := range []CircuitKey{i0, i1} {
		kk := k
		alpha = append(alpha,
			op{"commit", [][3]uint64{{kk.ChanID.ToUint64(), kk.HtlcID, 7}},
				[]any{"commit", [][]uint64{{kk.ChanID.ToUint64(), kk.HtlcID, 7}}}, false},
			op{"fail", kk, []any{"fail", kk.ChanID.ToUint64(), kk.HtlcID}, false},
			op{"delete", []CircuitKey{kk}, []any{"delete", [][]uint64{vC07KeyJ(kk)}}, false},
		)
	}
	alpha = append(alpha,
		op{"commit", [][3]uint64{{1, 0, 7}}, []any{"commit", [][]uint64{{1, 0, 7}}}, true},
		op{"delete", []CircuitKey{i0}, []any{"delete", [][]uint64{vC07KeyJ(i0)}}, true},
		op{"open", []Keystone{{InKey: i0, OutKey: o0}}, []any{"open", [][]uint64{{1, 0, 2, 0}}}, false},
		op{"open", []Keystone{{InKey: i1, OutKey: o1}}, []any{"open", [][]uint64{{1, 1, 2, 1}}}, false},
		op{"open", []Keystone{{InKey: i1, OutKey: o0}}, []any{"open", [][]uint64{{1, 1, 2, 0}}}, false},
		op{"close", o0, []any{"close", uint64(2), uint64(0)}, false},
		op{"close", o1, []any{"close", uint64(2), uint64(1)}, false},
		op{"trim", [2]uint64{2, 1}, []any{"trim", uint64(2), uint64(1)}, false},
		op{"trim", [2]uint64{2, 0}, []any{"trim", uint64(2), uint64(0)}, false},
		op{"restart", nil, nil, false},
	)
	one := uint64(1)
	_ = one
	rcs := []*vC07Restart{
		{active: []vC07Active{{scid: 2, ridx: 1}}},
		{active: []vC07Active{{scid: 2, ridx: 0}}},
	}
	idx := make([]int, depth)
	ci := 0
	stride := int(vEnvInt("VERIF_C07_EXH_STRIDE", 1))
	n := 0
	for {
		n++
		if n%stride == 0 {
			s := vC07NewSys(t, false)
			s.newMap(&vC07Restart{})
			th := &vC07Thread{id: 0, yield: make(chan string), resume: make(chan bool), state: "idle"}
			ths := []*vC07Thread{th}
			var steps []vC07Step
			rec := func(in []any, o []any) {
				steps = append(steps, vC07Step{In: in, Out: o, Snap: s.snap()})
			}
			for d := 0; d < depth; d++ {
				a := alpha[idx[d]]
				if a.kind == "restart" {
					rc := rcs[(d+idx[0])%2]
					s.doRestart(ths, rc, false)
					rec([]any{"restart", vC07RestartJ(rc)}, []any{"restarted"})
					continue
				}
				o := s.start(th, s.callFn(a.kind, a.args))
				rec(append([]any{"call", 0}, a.in...), o)
				if th.state == "pre" {
					o = s.stepDisk(th, !a.fail)
					rec([]any{"disk", 0, !a.fail}, o)
					o = s.stepMem(th)
					rec([]any{"mem", 0}, o)
				}
			}
			rc := rcs[ci%2]
			s.doRestart(ths, rc, false)
			rec([]any{"restart", vC07RestartJ(rc)}, []any{"restarted"})
			s.doRestart(ths, &vC07Restart{}, false)
			rec([]any{"restart", vC07RestartJ(&vC07Restart{})}, []any{"restarted"})
			out.emit(map[string]any{"case": ci, "mode": "exh", "threads": 1,
				"univ": s.univJ(), "steps": steps})
			s.raw.Close()
			ci++
		}
		// next index vector
		d := depth - 1
		for d >= 0 {
			idx[d]++
			if idx[d] < len(alpha) {
				break
			}
			idx[d] = 0
			d--
		}
		if d < 0 {
			break
		}
	}
	_ = sort.Ints
	_ = filepath.Join
}

// ---- scripted witness histories -------------------------------------------------

type vC07Op struct {
	kind string // "call", "disk", "mem", "restart"
	th   int
	call string
	args any
	in   []any
	ok   bool
	rc   *vC07Restart
}

type vC07Script struct {
	name string
	ops  []vC07Op
}

func vC07CallCommit(th int, specs ...[3]uint64) vC07Op {
	in := [][]uint64{}
	for _, sp := range specs {
		in = append(in, []uint64{sp[0], sp[1], sp[2]})
	}
	return vC07Op{kind: "call", th: th, call: "commit", args: [][3]uint64(specs), in: []any{"commit", in}}
}

func vC07CallOpen(th int, ks ...[4]uint64) vC07Op {
	var kss []Keystone
	in := [][]uint64{}
	for _, k := range ks {
		kss = append(kss, Keystone{InKey: vC07Key(k[0], k[1]), OutKey: vC07Key(k[2], k[3])})
		in = append(in, []uint64{k[0], k[1], k[2], k[3]})
	}
	return vC07Op{kind: "call", th: th, call: "open", args: kss, in: []any{"open", in}}
}

func vC07CallTrim(th int, c, st uint64) vC07Op {
	return vC07Op{kind: "call", th: th, call: "trim", args: [2]uint64{c, st}, in: []any{"trim", c, st}}
}

func vC07CallClose(th int, c, h uint64) vC07Op {
	return vC07Op{kind: "call", th: th, call: "close", args: vC07Key(c, h), in: []any{"close", c, h}}
}

func vC07CallFail(th int, c, h uint64) vC07Op {
	return vC07Op{kind: "call", th: th, call: "fail", args: vC07Key(c, h), in: []any{"fail", c, h}}
}

func vC07CallDelete(th int, ks ...[2]uint64) vC07Op {
	var keys []CircuitKey
	in := [][]uint64{}
	for _, k := range ks {
		keys = append(keys, vC07Key(k[0], k[1]))
		in = append(in, []uint64{k[0], k[1]})
	}
	return vC07Op{kind: "call", th: th, call: "delete", args: keys, in: []any{"delete", in}}
}

func vC07Disk(th int, ok bool) vC07Op { return vC07Op{kind: "disk", th: th, ok: ok} }
func vC07Mem(th int) vC07Op           { return vC07Op{kind: "mem", th: th} }
func vC07RestartOp(rc *vC07Restart) vC07Op {
	return vC07Op{kind: "restart", rc: rc}
}

// full = call; disk ok; mem
func vC07Full(op vC07Op, ok bool) []vC07Op {
	return []vC07Op{op, vC07Disk(op.th, ok), vC07Mem(op.th)}
}

func vC07Witnesses() []vC07Script {
	cat := func(xs ...[]vC07Op) []vC07Op {
		var r []vC07Op
		for _, x := range xs {
			r = append(r, x...)
		}
		return r
	}
	one := func(op vC07Op) []vC07Op { return []vC07Op{op} }
	return []vC07Script{
		// RestartProofs.gap_history / gap_rc (C07_restart_gap_refuted)
		{"gap", cat(
			vC07Full(vC07CallCommit(0, [3]uint64{1, 0, 5}, [3]uint64{1, 1, 6}), true),
			vC07Full(vC07CallOpen(0, [4]uint64{1, 0, 2, 0}, [4]uint64{1, 1, 2, 2}), true),
			one(vC07RestartOp(&vC07Restart{active: []vC07Active{{scid: 2, ridx: 0}}})),
		)},
		// Examples.failed_trim_history / failed_trim_rc
		{"failed_trim", cat(
			vC07Full(vC07CallCommit(0, [3]uint64{1, 0, 5}, [3]uint64{1, 1, 6}, [3]uint64{1, 2, 7}), true),
			vC07Full(vC07CallOpen(0, [4]uint64{1, 0, 2, 0}, [4]uint64{1, 1, 2, 1}, [4]uint64{1, 2, 2, 2}), true),
			vC07Full(vC07CallTrim(0, 2, 0), false),
			one(vC07CallTrim(0, 2, 0)),
			one(vC07CallFail(0, 1, 0)),
			vC07Full(vC07CallDelete(0, [2]uint64{1, 0}), true),
			vC07Full(vC07CallOpen(0, [4]uint64{1, 1, 2, 0}, [4]uint64{1, 2, 2, 1}), true),
			one(vC07RestartOp(&vC07Restart{active: []vC07Active{{scid: 2, ridx: 2}}})),
			one(vC07CallCommit(0, [3]uint64{1, 2, 7}, [3]uint64{1, 1, 6})),
			one(vC07CallClose(0, 2, 1)),
		)},
		// Examples.delete_races_commit
		{"delete_races_commit", []vC07Op{
			vC07CallCommit(0, [3]uint64{1, 0, 5}),
			vC07CallDelete(1, [2]uint64{1, 0}),
			vC07CallCommit(2, [3]uint64{1, 0, 6}),
			vC07Disk(0, true), vC07Mem(0), vC07Disk(2, true), vC07Mem(2),
			vC07Disk(1, true), vC07Mem(1),
		}},
		// Examples.dup_out_in_batch
		{"dup_out_in_batch", cat(
			vC07Full(vC07CallCommit(0, [3]uint64{1, 0, 5}, [3]uint64{1, 1, 6}), true),
			vC07Full(vC07CallOpen(0, [4]uint64{1, 0, 2, 0}, [4]uint64{1, 1, 2, 0}), true),
			vC07Full(vC07CallDelete(0, [2]uint64{1, 0}), true),
			one(vC07CallClose(0, 2, 0)),
		)},
		// Examples.double_keystone_dangles
		{"double_keystone", cat(
			vC07Full(vC07CallCommit(0, [3]uint64{1, 0, 5}), true),
			vC07Full(vC07CallOpen(0, [4]uint64{1, 0, 2, 0}), true),
			vC07Full(vC07CallOpen(0, [4]uint64{1, 0, 2, 1}), true),
			vC07Full(vC07CallDelete(0, [2]uint64{1, 0}), true),
		)},
		// Examples.trim_failure_not_rolled_back (C07_rollback, Trim clause)
		{"trim_no_rollback", cat(
			vC07Full(vC07CallCommit(0, [3]uint64{1, 0, 5}), true),
			vC07Full(vC07CallOpen(0, [4]uint64{1, 0, 2, 0}), true),
			vC07Full(vC07CallTrim(0, 2, 0), false),
		)},
		// C07_rollback, DeleteCircuits clause (Examples.rollback_delete_ex)
		{"delete_rollback", cat(
			vC07Full(vC07CallCommit(0, [3]uint64{1, 0, 5}, [3]uint64{1, 1, 6}), true),
			vC07Full(vC07CallOpen(0, [4]uint64{1, 0, 2, 0}), true),
			one(vC07CallClose(0, 2, 0)),
			vC07Full(vC07CallDelete(1, [2]uint64{1, 0}, [2]uint64{1, 1}), false),
			one(vC07CallClose(0, 2, 0)),
		)},
	}
}

func vC07Scripted(t *testing.T, out *vWriter, w vC07Script, ci int) {
	s := vC07NewSys(t, false)
	defer func() { s.raw.Close() }()
	s.newMap(&vC07Restart{})
	ths := make([]*vC07Thread, 3)
	for i := range ths {
		ths[i] = &vC07Thread{id: i, yield: make(chan string), resume: make(chan bool), state: "idle"}
	}
	var steps []vC07Step
	rec := func(in []any, o []any) {
		steps = append(steps, vC07Step{In: in, Out: o, Snap: s.snap()})
	}
	for _, op := range w.ops {
		switch op.kind {
		case "call":
			th := ths[op.th]
			if th.state != "idle" {
				t.Fatalf("witness %s: thread %d busy", w.name, op.th)
			}
			th.what = op.call
			o := s.start(th, s.callFn(op.call, op.args))
			rec(append([]any{"call", op.th}, op.in...), o)
		case "disk":
			th := ths[op.th]
			if th.state != "pre" {
				// the model answers ODisabled; the scripts never do this
				t.Fatalf("witness %s: thread %d has no transaction pending", w.name, op.th)
			}
			o := s.stepDisk(th, op.ok)
			rec([]any{"disk", op.th, op.ok}, o)
		case "mem":
			th := ths[op.th]
			o := s.stepMem(th)
			rec([]any{"mem", op.th}, o)
		case "restart":
			s.doRestart(ths, op.rc, true)
			rec([]any{"restart", vC07RestartJ(op.rc)}, []any{"restarted"})
		}
	}
	for _, th := range ths {
		if th.state == "pre" {
			o := s.stepDisk(th, true)
			rec([]any{"disk", th.id, true}, o)
		}
		if th.state == "post" {
			o := s.stepMem(th)
			rec([]any{"mem", th.id}, o)
		}
	}
	out.emit(map[string]any{"case": ci, "mode": "wit", "name": w.name, "threads": 3,
		"univ": s.univJ(), "steps": steps})
}
