//go:build verif

package lnwire

// C10 harness for lnwire: drives the real ReadMessage / WriteMessage /
// DecodeFailure / EncodeFailure.
//   val  : generated values (RandTestMessage) of EVERY registered message type
//          -> WriteMessage -> ReadMessage -> equal + byte-identical re-encode.
//   msg  : mutated / truncated / extended / random byte strings per type ->
//          ReadMessage must not panic, returns quickly, and when it succeeds the
//          re-encoding is a canonical fixpoint of at most 65535 bytes.
//   fail : same for onion failure packets.
// The element-codec fields of every decoded message are emitted too
// (vFieldMap): for the message types that have a layout in Gen/GenWire.v
// (translated from the Encode/Decode methods) the Coq model must produce the
// same verdict, field values and re-encoded bytes.

import (
	"bytes"
	"compress/zlib"
	"encoding/binary"
	"encoding/hex"
	"fmt"
	"image/color"
	"net"
	"os"
	"reflect"
	"sort"
	"strconv"
	"strings"
	"sync"
	"testing"
	"time"

	"github.com/btcsuite/btcd/btcec/v2"
	"github.com/btcsuite/btcd/wire/v2"
	"github.com/lightningnetwork/lnd/tor"
	"pgregory.net/rapid"
)

func whx(b []byte) string { return hex.EncodeToString(b) }

// ---- canonical dump for equality (nil and empty slices/maps are equal,
// addresses compare by their string form: the same conventions as the
// package's own fuzz targets) ----

var vAddrType = reflect.TypeOf((*net.Addr)(nil)).Elem()

func vCanon(sb *strings.Builder, v reflect.Value, depth int) {
	if depth > 40 {
		sb.WriteString("<deep>")
		return
	}
	switch v.Kind() {
	case reflect.Invalid:
		sb.WriteString("nil")
	case reflect.Ptr, reflect.Interface:
		if v.IsNil() {
			sb.WriteString("nil")
			return
		}
		if v.CanInterface() && v.Type().Implements(vAddrType) {
			if a, ok := v.Interface().(net.Addr); ok {
				sb.WriteString("addr:" + a.Network() + "/" + a.String())
				return
			}
		}
		vCanon(sb, v.Elem(), depth+1)
	case reflect.Slice, reflect.Array:
		if v.Kind() == reflect.Slice && v.Len() == 0 {
			sb.WriteString("[]")
			return
		}
		if v.Type().Elem().Kind() == reflect.Uint8 {
			sb.WriteString("x")
			for i := 0; i < v.Len(); i++ {
				fmt.Fprintf(sb, "%02x", v.Index(i).Uint())
			}
			return
		}
		sb.WriteString("[")
		for i := 0; i < v.Len(); i++ {
			vCanon(sb, v.Index(i), depth+1)
			sb.WriteString(",")
		}
		sb.WriteString("]")
	case reflect.Map:
		if v.Len() == 0 {
			sb.WriteString("{}")
			return
		}
		var items []string
		it := v.MapRange()
		for it.Next() {
			var e strings.Builder
			vCanon(&e, it.Key(), depth+1)
			e.WriteString(":")
			vCanon(&e, it.Value(), depth+1)
			items = append(items, e.String())
		}
		sort.Strings(items)
		sb.WriteString("{" + strings.Join(items, ",") + "}")
	case reflect.Struct:
		sb.WriteString(v.Type().Name() + "{")
		for i := 0; i < v.NumField(); i++ {
			sb.WriteString(v.Type().Field(i).Name + "=")
			vCanon(sb, v.Field(i), depth+1)
			sb.WriteString(";")
		}
		sb.WriteString("}")
	case reflect.Bool:
		fmt.Fprintf(sb, "%v", v.Bool())
	case reflect.Int, reflect.Int8, reflect.Int16, reflect.Int32, reflect.Int64:
		fmt.Fprintf(sb, "%d", v.Int())
	case reflect.Uint, reflect.Uint8, reflect.Uint16, reflect.Uint32, reflect.Uint64,
		reflect.Uintptr:
		fmt.Fprintf(sb, "%d", v.Uint())
	case reflect.String:
		fmt.Fprintf(sb, "%q", v.String())
	case reflect.Func, reflect.Chan, reflect.UnsafePointer:
		sb.WriteString("<" + v.Kind().String() + ">")
	default:
		fmt.Fprintf(sb, "<%s>", v.Kind())
	}
}

func vDump(m any) string {
	var sb strings.Builder
	vCanon(&sb, reflect.ValueOf(m), 0)
	return sb.String()
}

func vDiff(a, b string) string {
	i := 0
	for i < len(a) && i < len(b) && a[i] == b[i] {
		i++
	}
	lo := i - 60
	if lo < 0 {
		lo = 0
	}
	cut := func(s string) string {
		hi := i + 60
		if hi > len(s) {
			hi = len(s)
		}
		if lo > len(s) {
			return ""
		}
		return s[lo:hi]
	}
	return cut(a) + "  <>  " + cut(b)
}

// ---- field projection for the layout-modelled message types ----

func fN(x uint64) []string { return []string{"n", strconv.FormatUint(x, 10)} }
func fB(b []byte) []string { return []string{"b", whx(b)} }

func vFeatBytes(fv *RawFeatureVector) []byte {
	if fv == nil {
		return nil
	}
	var w bytes.Buffer
	if err := fv.Encode(&w); err != nil {
		panic(err)
	}
	return w.Bytes()[2:]
}

func vBool(b bool) uint64 {
	if b {
		return 1
	}
	return 0
}

// vFieldMap projects the exported top-level fields of a decoded message that
// have an element codec (integers, byte arrays/slices, signatures, public
// keys, short channel ids, outpoints, feature vectors, colours) to
// name -> ["n", decimal] | ["b", hex].  props/c10.py orders them by the field
// list the translator extracted from the Encode/Decode methods (Gen/GenWire.v).
func vFieldMap(m Message) map[string][]string {
	out := map[string][]string{}
	v := reflect.ValueOf(m)
	if v.Kind() != reflect.Ptr || v.IsNil() || v.Elem().Kind() != reflect.Struct {
		return out
	}
	vFieldsOf(v.Elem(), out, "")
	return out
}

// vFieldsOf: the fields of one struct value; embedded structs (DynCommit embeds DynPropose
// and DynAck) are entered afterwards: their fields appear as "Embedded.F" and, when no
// shallower field has that name, promoted as "F" (Go's selector rule).
func vFieldsOf(v reflect.Value, out map[string][]string, prefix string) {
	byteArr := func(a reflect.Value) []byte {
		b := make([]byte, a.Len())
		for i := range b {
			b[i] = byte(a.Index(i).Uint())
		}
		return b
	}
	var embedded []int
	for i := 0; i < v.NumField(); i++ {
		sf := v.Type().Field(i)
		if !sf.IsExported() {
			continue
		}
		if sf.Anonymous && sf.Type.Kind() == reflect.Struct {
			embedded = append(embedded, i)
			continue
		}
		name, f := prefix+sf.Name, v.Field(i)
		switch x := f.Interface().(type) {
		case ShortChannelID:
			out[name] = fN(x.ToUint64())
			continue
		case Sig:
			out[name] = fB(x.bytes[:])
			continue
		case []Sig:
			var all []byte
			for _, s := range x {
				all = append(all, s.bytes[:]...)
			}
			out[name] = fB(all)
			continue
		case *btcec.PublicKey:
			if x != nil {
				out[name] = fB(x.SerializeCompressed())
			}
			continue
		case *RawFeatureVector:
			out[name] = fB(vFeatBytes(x))
			continue
		case RawFeatureVector:
			out[name] = fB(vFeatBytes(&x))
			continue
		case wire.OutPoint:
			out[name+".Hash"] = fB(x.Hash[:])
			out[name+".Index"] = fN(uint64(x.Index))
			continue
		case []net.Addr:
			out[name] = fB(vAddrBytes(x))
			continue
		case []ShortChannelID:
			var all []byte
			for _, id := range x {
				all = binary.BigEndian.AppendUint64(all, id.ToUint64())
			}
			out[name] = fB(all)
			continue
		case color.RGBA:
			out[name+".R"] = fN(uint64(x.R))
			out[name+".G"] = fN(uint64(x.G))
			out[name+".B"] = fN(uint64(x.B))
			continue
		}
		switch f.Kind() {
		case reflect.Uint8, reflect.Uint16, reflect.Uint32, reflect.Uint64:
			out[name] = fN(f.Uint())
		case reflect.Int64:
			out[name] = fN(uint64(f.Int()))
		case reflect.Bool:
			out[name] = fN(vBool(f.Bool()))
		case reflect.Array:
			if f.Type().Elem().Kind() == reflect.Uint8 {
				out[name] = fB(byteArr(f))
			}
		case reflect.Slice:
			if f.Type().Elem().Kind() == reflect.Uint8 {
				out[name] = fB(f.Bytes())
			}
		}
	}
	for _, i := range embedded {
		sub := map[string][]string{}
		vFieldsOf(v.Field(i), sub, "")
		en := v.Type().Field(i).Name
		for k, val := range sub {
			out[prefix+en+"."+k] = val
			if _, shadowed := out[prefix+k]; !shadowed {
				out[prefix+k] = val
			}
		}
	}
}

// vAddrBytes: the BOLT-7 descriptors of a decoded address list, written here by hand
// (not through WriteNetAddrs): 1 tcp4, 2 tcp6, 3/4 onion v2/v3, 5 dns, opaque payloads.
func vAddrBytes(as []net.Addr) []byte {
	var out []byte
	port := func(p int) { out = append(out, byte(p>>8), byte(p)) }
	for _, a := range as {
		switch x := a.(type) {
		case *net.TCPAddr:
			if len(x.IP) == 4 || (len(x.IP) == 16 && bytes.Equal(x.IP[:12],
				[]byte{0, 0, 0, 0, 0, 0, 0, 0, 0, 0, 0xff, 0xff})) {
				out = append(out, 1)
				out = append(out, x.IP[len(x.IP)-4:]...)
			} else {
				out = append(out, 2)
				out = append(out, x.IP...)
			}
			port(x.Port)
		case *tor.OnionAddr:
			host, err := tor.Base32Encoding.DecodeString(strings.TrimSuffix(x.OnionService, ".onion"))
			if err != nil {
				panic(err)
			}
			if len(host) == 10 {
				out = append(out, 3)
			} else {
				out = append(out, 4)
			}
			out = append(out, host...)
			port(x.Port)
		case *DNSAddress:
			out = append(out, 5, byte(len(x.Hostname)))
			out = append(out, x.Hostname...)
			port(int(x.Port))
		case *OpaqueAddrs:
			out = append(out, x.Payload...)
		default:
			panic(fmt.Sprintf("address type %T", a))
		}
	}
	return out
}

// vAddrRows: node_announcement encodings whose address section is replaced by a crafted
// descriptor list: padding (0), tcp4, tcp6 (random / IPv4-mapped / nearly mapped), onion
// v2/v3, dns with length 0/1/63/255, unknown types (opaque rest), a truncated last
// descriptor, a dns length running past the section.
func vAddrRows(out *vWriter, mt MessageType, r *vrng, bases [][]byte) {
	n := vCases(40, 1500)
	for i := 0; i < n; i++ {
		rr := r.fork(uint64(i))
		b := bases[rr.intn(len(bases))]
		off := 2 + 64
		if len(b) < off+2 {
			continue
		}
		off += 2 + int(binary.BigEndian.Uint16(b[off:])) + 4 + 33 + 3 + 32
		if len(b) < off+2 {
			continue
		}
		end := off + 2 + int(binary.BigEndian.Uint16(b[off:]))
		if len(b) < end {
			continue
		}
		var sec []byte
		k := rr.intn(6)
		for j := 0; j < k; j++ {
			switch rr.intn(10) {
			case 0:
				sec = append(sec, 0)
			case 1:
				sec = append(append(sec, 1), rr.bytes(6)...)
			case 2:
				sec = append(append(sec, 2), rr.bytes(18)...)
			case 3: // IPv4-mapped and nearly mapped IPv6
				ip := make([]byte, 18)
				copy(ip[10:], []byte{0xff, 0xff})
				copy(ip[12:], rr.bytes(6))
				switch rr.intn(4) {
				case 0:
					ip[11] = 0xfe
				case 1:
					ip[rr.intn(10)] = 1
				}
				sec = append(append(sec, 2), ip...)
			case 4:
				sec = append(append(sec, 3), rr.bytes(12)...)
			case 5:
				sec = append(append(sec, 4), rr.bytes(37)...)
			case 6, 7:
				l := []int{0, 1, 5, 63, 255}[rr.intn(5)]
				h := bytes.Repeat([]byte{'a'}, l)
				if rr.intn(3) == 0 {
					h = rr.bytes(l)
				}
				sec = append(append(append(sec, 5, byte(l)), h...), rr.bytes(2)...)
			case 8:
				sec = append(append(sec, byte(6+rr.intn(250))), rr.bytes(rr.intn(12))...)
				j = k
			default:
				sec = append(append(sec, byte(1+rr.intn(5))), rr.bytes(rr.intn(5))...) // cut short
				j = k
			}
		}
		nb := append([]byte{}, b[:off]...)
		if rr.intn(3) == 0 {
			// alias: UTF-8 boundary sequences (valid and invalid), also cut off by the end
			seqs := [][]byte{{0xc2, 0x80}, {0xc1, 0xbf}, {0xc0, 0x80}, {0xdf, 0xbf}, {0xe0, 0xa0, 0x80},
				{0xe0, 0x9f, 0xbf}, {0xed, 0x9f, 0xbf}, {0xed, 0xa0, 0x80}, {0xef, 0xbf, 0xbf},
				{0xf0, 0x90, 0x80, 0x80}, {0xf0, 0x8f, 0xbf, 0xbf}, {0xf4, 0x8f, 0xbf, 0xbf},
				{0xf4, 0x90, 0x80, 0x80}, {0xf5, 0x80, 0x80, 0x80}, {0x80}, {0xbf}, {0xff}, {0x7f}, {0xe1, 0x80}}
			sq := seqs[rr.intn(len(seqs))]
			p := off - 32 + rr.intn(32)
			for j := 0; j < len(sq) && p+j < off; j++ {
				nb[p+j] = sq[j]
			}
		}
		ln := len(sec)
		if rr.intn(12) == 0 {
			ln += 1 - 2*rr.intn(2) // section length off by one
			if ln < 0 {
				ln = 0
			}
		}
		nb = append(nb, byte(ln>>8), byte(ln))
		nb = append(nb, sec...)
		nb = append(nb, b[end:]...)
		out.emit(vCheckBytes(mt, nb, "addr-craft", nil))
	}
}

// vScidRows: query_short_channel_ids bodies with a PLAIN id list: empty (n = 0, n = 1),
// sorted, equal neighbours, descending pair, length not 8k+1, unknown encoding byte,
// announced length past the end, followed by extension data.
func vScidRows(out *vWriter, mt MessageType, r *vrng) {
	n := vCases(40, 1500)
	for i := 0; i < n; i++ {
		rr := r.fork(uint64(i))
		k := []int{0, 0, 1, 2, 3, 8, 40}[rr.intn(7)]
		var ids []byte
		cur := uint64(rr.intn(1 << 20))
		for j := 0; j < k; j++ {
			switch rr.intn(12) {
			case 0: // equal
			case 1:
				if cur > 0 {
					cur-- // descending
				}
			default:
				cur += uint64(1 + rr.intn(1<<16))
			}
			if rr.intn(10) == 0 {
				cur = cur<<24 | uint64(rr.intn(1<<24))
			}
			ids = binary.BigEndian.AppendUint64(ids, cur)
		}
		body := append([]byte{0}, ids...)
		switch rr.intn(12) {
		case 0:
			body = nil // n = 0: no encoding byte at all
		case 1:
			body[0] = byte(2 + rr.intn(254)) // unknown encoding
		case 2:
			body = append(body, rr.bytes(1+rr.intn(7))...) // not a whole number of ids
		}
		ln := len(body)
		if rr.intn(12) == 0 {
			ln += 1 + rr.intn(3)
		}
		b := append([]byte{byte(mt >> 8), byte(mt)}, rr.bytes(32)...)
		b = append(b, byte(ln>>8), byte(ln))
		b = append(b, body...)
		switch rr.intn(4) {
		case 0:
			b = append(b, vUnknownRec...)
		case 1:
			b = append(b, rr.bytes(1+rr.intn(9))...)
		}
		out.emit(vCheckBytes(mt, b, "scid-craft", nil))
	}
}

func vHasExtra(m Message) bool {
	v := reflect.ValueOf(m)
	if v.Kind() == reflect.Ptr {
		v = v.Elem()
	}
	if v.Kind() != reflect.Struct {
		return false
	}
	et := reflect.TypeOf(ExtraOpaqueData{})
	for i := 0; i < v.NumField(); i++ {
		if v.Field(i).Type() == et {
			return true
		}
	}
	return false
}

// ---- safe wrappers ----

func vRead(b []byte) (m Message, err error, pan string, ms int64) {
	t0 := time.Now()
	defer func() {
		ms = time.Since(t0).Milliseconds()
		if p := recover(); p != nil {
			pan = fmt.Sprint(p)
			if len(pan) > 200 {
				pan = pan[:200]
			}
		}
	}()
	m, err = ReadMessage(bytes.NewReader(b), 0)
	return
}

func vWrite(m Message) (b []byte, err error, pan string) {
	defer func() {
		if p := recover(); p != nil {
			pan = fmt.Sprint(p)
			if len(pan) > 200 {
				pan = pan[:200]
			}
		}
	}()
	var w bytes.Buffer
	_, err = WriteMessage(&w, m, 0)
	b = w.Bytes()
	return
}

type vRow map[string]any

// inputs longer than vModelCap bytes are predicate-checked only (no bytes /
// fields emitted for the model comparison); raised for the feature-vector
// boundary rows, whose vectors are up to 8192 bytes long
var vModelCap = 6000

// the unknown odd TLV record appended to valid encodings: type 2^32-3, 3 bytes
var vUnknownRec = []byte{0xfe, 0xff, 0xff, 0xff, 0xfd, 0x03, 0xaa, 0xbb, 0xcc}

// vCheckBytes runs the bytes->value->bytes->value->bytes pipeline.
func vCheckBytes(t MessageType, b []byte, mut string, base []byte) vRow {
	row := vRow{"k": "msg", "t": int(t), "mut": mut, "n": len(b)}
	if len(b) <= vModelCap {
		row["b"] = whx(b)
	}
	m, err, pan, ms := vRead(b)
	row["ms"] = ms
	if pan != "" {
		row["panic"] = pan
		row["b"] = whx(b)
		row["ok"] = false
		return row
	}
	row["ok"] = err == nil
	if err != nil {
		return row
	}
	switch q := m.(type) {
	case *QueryShortChanIDs:
		row["nids"] = len(q.ShortChanIDs)
	case *ReplyChannelRange:
		row["nids"] = len(q.ShortChanIDs)
	}
	if len(b) <= vModelCap {
		// before WriteMessage: Encode overwrites ExtraData for some types
		row["fmap"] = vFieldMap(m)
	}
	d1 := vDump(m)
	b1, err, pan := vWrite(m)
	if pan != "" {
		row["panic"] = "WriteMessage: " + pan
		row["b"] = whx(b)
		return row
	}
	if err != nil {
		row["enc_err"] = err.Error()
		row["b"] = whx(b)
		return row
	}
	row["len1"] = len(b1)
	if len(b) <= vModelCap && len(b1) <= vModelCap {
		row["reenc"] = whx(b1)
	}
	m2, err, pan, _ := vRead(b1)
	if pan != "" {
		row["panic"] = "ReadMessage(reenc): " + pan
		row["b"] = whx(b)
		return row
	}
	row["dec2_ok"] = err == nil
	if err != nil {
		row["dec2_err"] = err.Error()
		row["b"] = whx(b)
		return row
	}
	// the dump of m is taken again AFTER encoding: Encode may mutate m
	d1b := vDump(m)
	d2 := vDump(m2)
	row["equal"] = d1 == d2 || d1b == d2
	if row["equal"] == false {
		row["diff"] = vDiff(d1, d2)
		row["b"] = whx(b)
	}
	b2, err, _ := vWrite(m2)
	row["enc2_same"] = err == nil && bytes.Equal(b1, b2)
	if row["enc2_same"] == false {
		row["b"] = whx(b)
	}
	if mut == "append-unknown-tlv" && base != nil && vHasExtra(m) {
		if !bytes.HasSuffix(b1, vUnknownRec) {
			row["lost_unknown"] = whx(vUnknownRec)
			if len(b) <= 6000 {
				row["b"] = whx(b)
			}
		}
	}
	return row
}

func vMutate(r *vrng, base []byte) ([]byte, string) {
	b := append([]byte{}, base...)
	body := len(b) - 2
	switch r.intn(12) {
	case 0, 1:
		if body <= 0 {
			return b, "same"
		}
		return b[:2+r.intn(body)], "truncate"
	case 2:
		return append(b, r.bytes(1+r.intn(8))...), "extend-random"
	case 3:
		return append(b, vUnknownRec...), "append-unknown-tlv"
	case 4, 5:
		if body <= 0 {
			return b, "same"
		}
		n := 1 + r.intn(3)
		for i := 0; i < n; i++ {
			b[2+r.intn(body)] ^= byte(1 << uint(r.intn(8)))
		}
		return b, "bitflip"
	case 6, 7:
		if body <= 0 {
			return b, "same"
		}
		edge := []byte{0, 1, 2, 0x7f, 0x80, 0xfc, 0xfd, 0xfe, 0xff}
		n := 1 + r.intn(2)
		for i := 0; i < n; i++ {
			b[2+r.intn(body)] = edge[r.intn(len(edge))]
		}
		return b, "edge-byte"
	case 8:
		if body <= 2 {
			return b, "same"
		}
		// overwrite two adjacent bytes: hits u16 length prefixes
		p := 2 + r.intn(body-1)
		v := []uint16{0, 1, 0xff, 0x100, 0xfffe, 0xffff, uint16(body), uint16(body + 1)}[r.intn(8)]
		binary.BigEndian.PutUint16(b[p:], v)
		return b, "u16-overwrite"
	case 9:
		if body <= 0 {
			return b, "same"
		}
		p := 2 + r.intn(body)
		ins := r.bytes(1 + r.intn(4))
		nb := append(append(append([]byte{}, b[:p]...), ins...), b[p:]...)
		return nb, "insert"
	case 10:
		if body <= 1 {
			return b, "same"
		}
		p := 2 + r.intn(body)
		return append(b[:p], b[p+1:]...), "delete"
	default:
		n := r.intn(80)
		if r.intn(8) == 0 {
			n = 200 + r.intn(2000)
		}
		return append(b[:2], r.bytes(n)...), "random-body"
	}
}

// ---- feature vectors at the boundaries of the uint16 bit-index range ----

var vRawFvType = reflect.TypeOf(RawFeatureVector{})

// vSetFeatures replaces every feature vector reachable through exported,
// settable fields of v (RawFeatureVector, *RawFeatureVector and the named types
// with the same underlying type: ChannelType, QueryOptions, …, also inside
// tlv.RecordT values) by one with exactly the given bits; returns how many.
func vSetFeatures(v reflect.Value, bits []FeatureBit, depth int) int {
	if depth > 4 {
		return 0
	}
	switch v.Kind() {
	case reflect.Ptr:
		if v.Type().Elem().Kind() == reflect.Struct && v.Type().Elem().ConvertibleTo(vRawFvType) &&
			vRawFvType.ConvertibleTo(v.Type().Elem()) {
			if !v.CanSet() {
				return 0
			}
			nv := reflect.New(v.Type().Elem())
			nv.Elem().Set(reflect.ValueOf(*NewRawFeatureVector(bits...)).Convert(v.Type().Elem()))
			v.Set(nv)
			return 1
		}
		if v.IsNil() {
			return 0
		}
		return vSetFeatures(v.Elem(), bits, depth+1)
	case reflect.Struct:
		if v.Type().ConvertibleTo(vRawFvType) && vRawFvType.ConvertibleTo(v.Type()) {
			if !v.CanSet() {
				return 0
			}
			v.Set(reflect.ValueOf(*NewRawFeatureVector(bits...)).Convert(v.Type()))
			return 1
		}
		n := 0
		for i := 0; i < v.NumField(); i++ {
			if v.Type().Field(i).IsExported() {
				n += vSetFeatures(v.Field(i), bits, depth+1)
			}
		}
		return n
	}
	return 0
}

// vFeatRows: generated values of mt whose feature vectors carry bits at the
// boundaries 0, 1, 7, 8, 65519, 65520, 65527, 65528, 65534, 65535 (vectors of
// 1, 2, 8190, 8191, 8192 bytes) and random high bits -> WriteMessage ->
// ReadMessage -> equal + byte-identical re-encode (`val` rows, tag feat-boundary),
// the encodings as byte strings (model-compared: fields and re-encoded bytes),
// and byte-level variants: the same vector with one more leading byte (zero:
// non-minimal, 8193 bytes; non-zero: bit index 65536, which lnd aliases to
// bit 0 because FeatureBit is a uint16 — row flagged feat_over).
func vFeatRows(out *vWriter, mt MessageType, r *vrng) {
	probe, _ := vGenValue(mt, 1)
	if probe == nil || vSetFeatures(reflect.ValueOf(probe), nil, 0) == 0 {
		return
	}
	cases := [][]FeatureBit{{0}, {1, 7}, {8}, {65519}, {65520}, {65527}, {65528}, {65534},
		{65535}, {0, 65535}}
	// quick tier: every case is round-tripped through the real code (`val` rows), but
	// the byte rows for the model comparison (8-16 KB each) are emitted only for one
	// value per vector length 1, 2, 8190, 8191, 8192 and both ends of the top byte
	heavy := map[int]bool{0: true, 1: true, 2: true, 3: true, 5: true, 6: true, 9: true}
	nrand := vCases(2, 40)
	for i := 0; i < nrand; i++ {
		var bs []FeatureBit
		for j := 0; j < 1+r.intn(5); j++ {
			bs = append(bs, FeatureBit(65535-r.intn(600)))
		}
		if r.bool() {
			bs = append(bs, FeatureBit(r.intn(200)))
		}
		cases = append(cases, bs)
	}
	old := vModelCap
	vModelCap = 40000
	defer func() { vModelCap = old }()
	for ci, bits := range cases {
		m, _ := vGenValue(mt, int(r.fork(uint64(ci)).u64()>>33))
		if m == nil {
			continue
		}
		vSetFeatures(reflect.ValueOf(m), bits, 0)
		row := vRow{"k": "val", "t": int(mt), "mut": "feat-boundary", "bits": fmt.Sprint(bits)}
		d0 := vDump(m)
		f0 := vFieldMap(m)
		b, err, pan := vWrite(m)
		if pan != "" {
			row["panic"] = pan
			out.emit(row)
			continue
		}
		row["ok"] = err == nil
		if err != nil {
			row["err"] = err.Error()
			row["too_large"] = strings.Contains(err.Error(), "too large")
			out.emit(row)
			continue
		}
		row["len"] = len(b)
		hv := vTier() == "thorough" || heavy[ci] || (ci >= 10 && ci%2 == 0)
		if hv && len(b) <= vModelCap {
			out.emit(vRow{"k": "write", "t": int(mt), "fmap": f0, "ok": true, "out": whx(b),
				"mut": "feat-boundary"})
		}
		m2, err, pan, _ := vRead(b)
		if pan != "" {
			row["panic"] = pan
			out.emit(row)
			continue
		}
		row["dec_ok"] = err == nil
		if err != nil {
			row["dec_err"] = err.Error()
			if len(b) <= 400 {
				row["b"] = whx(b)
			}
			out.emit(row)
			continue
		}
		d2 := vDump(m2)
		row["equal"] = d0 == d2 || vDump(m) == d2
		if row["equal"] == false {
			row["diff"] = vDiff(d0, d2)
		}
		b2, err, _ := vWrite(m2)
		row["enc2_same"] = err == nil && bytes.Equal(b, b2)
		out.emit(row)
		if !hv {
			continue
		}
		out.emit(vCheckBytes(mt, b, "feat-boundary", nil))
		// byte-level: one more leading byte in front of the vector
		vec := vFeatBytes(NewRawFeatureVector(bits...))
		if len(vec) < 8191 {
			continue
		}
		at := bytes.Index(b, vec)
		if at < 2 || int(binary.BigEndian.Uint16(b[at-2:])) != len(vec) {
			continue
		}
		for _, top := range []byte{0, 1} {
			nb := append([]byte{}, b[:at-2]...)
			nb = append(nb, byte((len(vec)+1)>>8), byte(len(vec)+1), top)
			nb = append(nb, b[at:]...)
			// (a TLV-carried vector has the BigSize length `fd xx xx`, whose last
			// two bytes are patched the same way)
			rw := vCheckBytes(mt, nb, "feat-extra-byte", nil)
			if top != 0 && len(vec) == 8192 {
				rw["feat_over"] = true
			}
			out.emit(rw)
		}
	}
}

// vExtStart: offset at which the extension data of a valid encoding starts =
// the shortest prefix that still decodes (every fixed field fails on
// truncation); -1 when the type has no extension data.
func vExtStart(b []byte) int {
	m, err, pan, _ := vRead(b)
	if err != nil || pan != "" || !vHasExtra(m) {
		return -1
	}
	for k := 2; k <= len(b); k++ {
		if _, err, pan, _ := vRead(b[:k]); err == nil && pan == "" {
			// ... and an (unknown, odd) record may follow here: ChannelReestablish
			// decodes already without its optional tail, where no record can follow
			probe := append(append([]byte{}, b[:k]...), vUnknownRec...)
			if _, err, pan, _ := vRead(probe); err == nil && pan == "" {
				return k
			}
		}
	}
	return -1
}

// vNonceMap builds the value of a LocalNoncesData record (type 22 of RevokeAndAck /
// ChannelReestablish): n entries of 32-byte txid ++ 66-byte nonce, mostly valid nonces,
// txids random / ascending / descending / with a duplicate, n around the 16-entry bound.
func vNonceMap(r *vrng) []byte {
	n := []int{0, 1, 2, 3, 5, 15, 16, 17}[r.intn(8)]
	mode := r.intn(5)
	var out []byte
	for i := 0; i < n; i++ {
		e := r.bytes(98)
		switch mode {
		case 1: // ascending first byte
			e[0] = byte(i * 9)
		case 2: // descending
			e[0] = byte(250 - i*9)
		case 3: // equal prefixes: order decided by a later byte
			for j := 0; j < 31; j++ {
				e[j] = 7
			}
		}
		copy(e[32:], vPointG)
		copy(e[65:], vPointG)
		if r.intn(4) == 0 {
			e[65] = 3
		}
		out = append(out, e...)
	}
	if n >= 2 && r.intn(6) == 0 {
		copy(out[98*(n-1):98*(n-1)+32], out[:32]) // duplicate txid
	}
	if n >= 1 && r.intn(8) == 0 {
		out[98*r.intn(n)+33+r.intn(32)] ^= 0x55 // spoil one nonce point (mostly off curve)
	}
	if r.intn(10) == 0 {
		out = append(out, r.bytes(1+r.intn(3))...) // length not divisible by 98
	}
	return out
}

// compressed generator point of secp256k1 (a valid public key / nonce half)
var vPointG = []byte{0x02, 0x79, 0xbe, 0x66, 0x7e, 0xf9, 0xdc, 0xbb, 0xac, 0x55, 0xa0, 0x62,
	0x95, 0xce, 0x87, 0x0b, 0x07, 0x02, 0x9b, 0xfc, 0xdb, 0x2d, 0xce, 0x28, 0xd9, 0x59, 0xf2,
	0x81, 0x5b, 0x16, 0xf8, 0x17, 0x98}

// vCraftExt builds a TLV stream over the record types the lnwire messages
// know (0..8, 22, 55555, 65536) plus unknown ones, with plausible and
// implausible lengths, valid and invalid curve points, scalars above the group
// order, feature vectors with leading zero bytes; mostly canonical order, with
// occasional duplicates / disorder / truncation.
// vTlvLens parses a canonical TLV stream loosely: type -> value length of every record
// (stops at the first malformed one).
func vTlvLens(b []byte, into map[uint64][]int) {
	rd := func() (uint64, bool) {
		if len(b) == 0 {
			return 0, false
		}
		d := b[0]
		w := map[byte]int{0xfd: 2, 0xfe: 4, 0xff: 8}[d]
		if w == 0 {
			b = b[1:]
			return uint64(d), true
		}
		if len(b) < 1+w {
			return 0, false
		}
		var v uint64
		for _, x := range b[1 : 1+w] {
			v = v<<8 | uint64(x)
		}
		b = b[1+w:]
		return v, true
	}
	for {
		t, ok := rd()
		if !ok {
			return
		}
		l, ok := rd()
		if !ok || l > uint64(len(b)) {
			return
		}
		into[t] = append(into[t], int(l))
		b = b[l:]
	}
}

// vCraftHint: record lengths seen in the extension data of this message type's valid
// encodings; vCraftExt prefers them (3 of 4 draws) so that accepted streams do not drown
// in wrong-length rejections for messages with many fixed-size known records.
var vCraftHint map[uint64][]int

func vCraftExt(r *vrng) []byte {
	types := []uint64{0, 1, 2, 3, 4, 5, 6, 7, 8, 10, 12, 14, 20, 22, 253, 55555, 65535, 65536, 65537, 1<<32 - 3}
	plaus := map[uint64][]int{0: {0, 22, 33, 34, 66}, 1: {0, 1, 2, 3, 8, 64}, 2: {4, 64, 66, 98},
		3: {64}, 4: {4, 66}, 5: {32, 98}, 6: {32, 98}, 7: {32, 98}, 8: {2, 66}, 10: {2}, 12: {0, 1, 2},
		14: {66}, 20: {8},
		22: {0, 66, 98, 196}, 55555: {8}, 65536: {4}}
	anyLen := []int{0, 1, 2, 3, 4, 7, 8, 9, 31, 32, 33, 34, 65, 66, 67, 97, 98, 99}
	p := 30 + r.intn(40)
	// ClosingComplete/ClosingSig reject types 1..3 together with 5..7: mostly keep one group
	g := r.intn(3)
	dropLo, dropHi := g == 0, g == 1
	var out []byte
	var last []byte
	for _, t := range types {
		if r.intn(100) >= p {
			continue
		}
		if dropLo && t >= 1 && t <= 3 || dropHi && t >= 5 && t <= 7 {
			continue
		}
		n := anyLen[r.intn(len(anyLen))]
		if pl, ok := plaus[t]; ok && r.intn(4) != 0 {
			n = pl[r.intn(len(pl))]
		}
		if hl, ok := vCraftHint[t]; ok && r.intn(4) != 0 {
			n = hl[r.intn(len(hl))]
		}
		v := r.bytes(n)
		switch r.intn(6) {
		case 0: // curve points wherever they fit
			for o := n % 33; o+33 <= n; o += 33 {
				copy(v[o:], vPointG)
				if r.intn(3) == 0 {
					v[o] = 3
				}
			}
			if n == 98 {
				copy(v[32:], vPointG)
				copy(v[65:], vPointG)
			}
		case 1: // leading zero bytes / small values
			for i := 0; i < n && i < 1+r.intn(3); i++ {
				v[i] = 0
			}
		case 2: // scalar >= group order
			for i := 0; i < n && i < 32; i++ {
				v[i] = 0xff
			}
			if n == 98 {
				copy(v[32:], vPointG)
				copy(v[65:], vPointG)
			}
		}
		if t == 22 && r.intn(2) == 0 {
			v = vNonceMap(r)
			n = len(v)
		}
		if (t == 0 || t == 2 || t == 4 || t == 6) && r.intn(3) == 0 {
			// a BigSize integer as value (DynPropose: dust limit, max in flight, htlc minimum,
			// reserve), sometimes under a wrong announced length (tlv.DBigSize ignores it)
			x := []uint64{0, 1, 0xfc, 0xfd, 0xffff, 0x10000, 0xffffffff, 0x100000000, 1<<64 - 1}[r.intn(9)]
			v = vBigSize(x)
			n = len(v)
			if r.intn(3) == 0 {
				n = []int{0, 1, 2, 3, 5, 9, 10}[r.intn(7)]
			}
			if r.intn(8) == 0 && len(v) > 1 {
				v = append([]byte{v[0]}, make([]byte, len(v)-1)...) // non-minimal
			}
		}
		var rec []byte
		rec = append(rec, vBigSize(t)...)
		rec = append(rec, vBigSize(uint64(n))...)
		rec = append(rec, v...)
		out = append(out, rec...)
		last = rec
	}
	switch r.intn(14) {
	case 0:
		out = append(out, last...) // duplicate type
	case 1:
		if len(out) > 0 {
			out = out[:r.intn(len(out))] // truncated
		}
	case 2:
		out = append(last, out...) // disorder
	}
	return out
}

func vBigSize(x uint64) []byte {
	switch {
	case x < 0xfd:
		return []byte{byte(x)}
	case x <= 0xffff:
		return []byte{0xfd, byte(x >> 8), byte(x)}
	case x <= 0xffffffff:
		return []byte{0xfe, byte(x >> 24), byte(x >> 16), byte(x >> 8), byte(x)}
	}
	b := []byte{0xff, 0, 0, 0, 0, 0, 0, 0, 0}
	binary.BigEndian.PutUint64(b[1:], x)
	return b
}

// ---------------------------------------------------------------- systematic sweeps
//
// rec-sweep : for every record of the TLV part of a valid encoding (per message type each
//             (record type, length) once in the quick tier, on four bases in the thorough tier)
//             the value is driven over its domain: 1-byte values exhaustively; integers of
//             2..8 bytes over 0..260, 2^k, 2^k-1, all-ones, 999..1001, x+-1 (fixed width,
//             and as BigSize when the original value is one); longer values bitwise on
//             their first and last bytes, all-zero, all-ones; the record removed; emptied.
// fix-sweep : every byte of the fixed part (first 400): all single-bit flips, 0, 0xff, +-1
//             (thorough: all 256 values on the first base, the short set on three more).
// val-sweep : value -> bytes: every settable unsigned-integer field of a generated message
//             value (also inside tlv.RecordT) over the FULL domain of its Go type (uint8: all
//             256 values; wider: the integer set above), not only the defined constants.
// Every case runs b -> m1 -> b2 -> m2 -> b3 and requires m1 == m2 (deep value equality,
// TLV record maps and optional records included) and b2 == b3.  Only the failing cases and a
// 1-in-150 sample (for the model comparison) are emitted; the counts go into a `sweep` row.

type vRec struct {
	t      uint64
	off    int // offset of the record in b
	hdr, n int // header bytes, value bytes
}

// strict parse of b[start:] as a TLV stream; nil when it is not one
func vTlvRecords(b []byte, start int) []vRec {
	var out []vRec
	i := start
	rd := func() (uint64, bool) {
		if i >= len(b) {
			return 0, false
		}
		d := b[i]
		w := map[byte]int{0xfd: 2, 0xfe: 4, 0xff: 8}[d]
		if w == 0 {
			i++
			return uint64(d), true
		}
		if i+1+w > len(b) {
			return 0, false
		}
		var v uint64
		for _, x := range b[i+1 : i+1+w] {
			v = v<<8 | uint64(x)
		}
		i += 1 + w
		return v, true
	}
	for i < len(b) {
		off := i
		t, ok := rd()
		if !ok {
			return nil
		}
		l, ok := rd()
		if !ok || l > uint64(len(b)-i) {
			return nil
		}
		out = append(out, vRec{t, off, i - off, int(l)})
		i += int(l)
	}
	return out
}

// vTlvStart: offset where records may follow a valid encoding's fixed part (also for the
// pure-TLV messages, which have no ExtraOpaqueData field): the shortest decodable prefix
// after which an unknown odd record is accepted.
func vTlvStart(b []byte) int {
	for k := 2; k <= len(b); k++ {
		if _, err, pan, _ := vRead(b[:k]); err == nil && pan == "" {
			probe := append(append([]byte{}, b[:k]...), vUnknownRec...)
			if _, err, pan, _ := vRead(probe); err == nil && pan == "" {
				return k
			}
		}
	}
	return -1
}

var vSweepInts = func() []uint64 {
	seen := map[uint64]bool{}
	var out []uint64
	add := func(x uint64) {
		if !seen[x] {
			seen[x] = true
			out = append(out, x)
		}
	}
	small := uint64(100) // covers the defaults lnd elides (1, 80) and their neighbours
	if vTier() == "thorough" {
		small = 260
	}
	for x := uint64(0); x <= small; x++ {
		add(x)
	}
	add(255)
	add(256)
	add(257)
	for k := uint(0); k < 64; k++ {
		add(1 << k)
		add(1<<k - 1)
		add(1<<k + 1)
	}
	for _, x := range []uint64{999, 1000, 1001, 9999, 10000, 1<<64 - 1, 1<<64 - 2} {
		add(x)
	}
	return out
}()

type vSweepStat struct{ cases, accepted, bad, badVal, emitted int }

// take the value dump only when the re-encoding differs from the input
const vFixLazy = true

// vFix runs the fixpoint pipeline without building a row; bad = a predicate would fail.
func vFix(b []byte) (accepted, bad bool) {
	m, err, pan, _ := vRead(b)
	if pan != "" {
		return false, true
	}
	if err != nil {
		return false, false
	}
	d1 := ""
	if !vFixLazy {
		d1 = vDump(m)
	}
	b1, err, pan := vWrite(m)
	if pan != "" || err != nil || len(b1) > 65535 {
		return true, true
	}
	if bytes.Equal(b1, b) {
		// the input is its own re-encoding: the second generation repeats the first
		// (decoder and encoder are functions of their input), nothing more to compare
		return true, false
	}
	if vFixLazy {
		// the dump must be taken before Encode (which may rewrite ExtraData): decode again;
		// m itself stays the encoded-from value (same allowance as vCheckBytes: d1b)
		mf, _, _, _ := vRead(b)
		d1 = vDump(mf)
	}
	m2, err, pan, _ := vRead(b1)
	if pan != "" || err != nil {
		return true, true
	}
	d2 := vDump(m2)
	if d1 != d2 && vDump(m) != d2 {
		return true, true
	}
	b2, err, _ := vWrite(m2)
	return true, err != nil || !bytes.Equal(b1, b2)
}

func vSweepCase(out *vWriter, mt MessageType, b []byte, mut string, st *vSweepStat) {
	if len(b) > 65535 {
		return
	}
	st.cases++
	acc, bad := vFix(b)
	if acc {
		st.accepted++
	}
	if bad {
		st.bad++
		if st.bad-st.badVal > 40 {
			return // enough evidence; the count is still reported
		}
	}
	if bad || (acc && st.accepted%150 == 1) {
		st.emitted++
		out.emit(vCheckBytes(mt, b, mut, nil))
	}
}

func vBEval(v []byte) uint64 {
	var x uint64
	for _, c := range v {
		x = x<<8 | uint64(c)
	}
	return x
}

func vBE(x uint64, n int) []byte {
	v := make([]byte, n)
	for i := n - 1; i >= 0; i-- {
		v[i] = byte(x)
		x >>= 8
	}
	return v
}

// replacement values for a record value v
func vRecValues(v []byte) [][]byte {
	n := len(v)
	var out [][]byte
	out = append(out, nil, []byte{0}, []byte{1})
	switch {
	case n == 1:
		for x := 0; x < 256; x++ {
			out = append(out, []byte{byte(x)})
		}
	case n >= 2 && n <= 8:
		var cur uint64
		for _, c := range v {
			cur = cur<<8 | uint64(c)
		}
		ints := append([]uint64{cur + 1, cur - 1, cur ^ 1}, vSweepInts...)
		for _, x := range ints {
			if n == 8 || x>>(8*uint(n)) == 0 {
				out = append(out, vBE(x, n))
			}
		}
		out = append(out, bytes.Repeat([]byte{0xff}, n))
	default:
		for _, p := range []int{0, 1, n - 2, n - 1} {
			if p < 0 || p >= n {
				continue
			}
			for k := uint(0); k < 8; k++ {
				w := append([]byte{}, v...)
				w[p] ^= 1 << k
				out = append(out, w)
			}
		}
		out = append(out, make([]byte, n), bytes.Repeat([]byte{0xff}, n))
	}
	// a value that is itself one canonical BigSize integer (MilliSatoshi, tlv.BigSizeT
	// records): the integer set again, in BigSize form (the record length changes)
	if bytes.Equal(v, vBigSize(vBEval(v[min(1, n):]))) || (n == 1 && v[0] < 0xfd) {
		for _, x := range vSweepInts {
			out = append(out, vBigSize(x))
		}
	}
	return out
}

func vRecSweep(out *vWriter, mt MessageType, bases [][]byte, st *vSweepStat) {
	seen := map[[2]uint64]int{}
	per := 1 // how many bases each (record type, length) is swept on
	if vTier() == "thorough" {
		per = 4
	}
	for _, base := range bases {
		k := vTlvStart(base)
		if k < 0 {
			continue
		}
		recs := vTlvRecords(base, k)
		for _, rc := range recs {
			key := [2]uint64{rc.t, uint64(rc.n)}
			if seen[key] >= per {
				continue
			}
			seen[key]++
			val := base[rc.off+rc.hdr : rc.off+rc.hdr+rc.n]
			head := append([]byte{}, base[:rc.off]...)
			tail := base[rc.off+rc.hdr+rc.n:]
			// the record removed (the decoder fills a default, if the record has one)
			vSweepCase(out, mt, append(append([]byte{}, head...), tail...), "rec-sweep", st)
			for _, nv := range vRecValues(val) {
				b := append([]byte{}, head...)
				b = append(b, vBigSize(rc.t)...)
				b = append(b, vBigSize(uint64(len(nv)))...)
				b = append(b, nv...)
				b = append(b, tail...)
				vSweepCase(out, mt, b, "rec-sweep", st)
			}
		}
	}
}

func vFixSweep(out *vWriter, mt MessageType, bases [][]byte, st *vSweepStat) {
	thorough := vTier() == "thorough"
	for bi, base := range bases {
		if bi >= 1 && !thorough || bi >= 4 {
			break
		}
		end := vTlvStart(base)
		if end < 0 {
			end = len(base)
		}
		if end > 402 {
			end = 402
		}
		if end > 252 && !thorough {
			end = 252
		}
		for p := 2; p < end; p++ {
			o := base[p]
			vals := []byte{0, 0xff, o + 1, o - 1, o ^ 1, o ^ 2, o ^ 4, o ^ 8, o ^ 16, o ^ 32, o ^ 64, o ^ 128}
			if thorough && bi == 0 {
				vals = vals[:0]
				for x := 0; x < 256; x++ {
					vals = append(vals, byte(x))
				}
			}
			for _, v := range vals {
				if v == o {
					continue
				}
				b := append([]byte{}, base...)
				b[p] = v
				vSweepCase(out, mt, b, "fix-sweep", st)
			}
		}
	}
}

// vUintFields: the settable unsigned-integer fields of a message value, with the flag
// "is the Val of a tlv.RecordT" (each record is encoded on its own: the value must come back).
func vUintFields(v reflect.Value, path string, inRec bool, depth int,
	visit func(f reflect.Value, path string, recVal bool)) {

	if depth > 6 {
		return
	}
	switch v.Kind() {
	case reflect.Ptr:
		if !v.IsNil() {
			vUintFields(v.Elem(), path, false, depth+1, visit)
		}
	case reflect.Struct:
		isRec := strings.HasPrefix(v.Type().Name(), "RecordT[")
		for i := 0; i < v.NumField(); i++ {
			sf := v.Type().Field(i)
			if !sf.IsExported() || !v.Field(i).CanSet() {
				continue
			}
			vUintFields(v.Field(i), path+"."+sf.Name, isRec && sf.Name == "Val", depth+1, visit)
		}
	case reflect.Uint8, reflect.Uint16, reflect.Uint32, reflect.Uint64:
		// (Custom.Type is the message type itself, not a field of the payload)
		if v.CanSet() && v.Type() != reflect.TypeOf(MessageType(0)) {
			visit(v, path, inRec)
		}
	}
}

func vValSweep(out *vWriter, mt MessageType, seed int, st *vSweepStat) {
	m, _ := vGenValue(mt, seed)
	if m == nil {
		return
	}
	if _, err, pan := vWrite(m); err != nil || pan != "" {
		return
	}
	vUintFields(reflect.ValueOf(m), "", false, 0, func(f reflect.Value, path string, recVal bool) {
		orig := f.Uint()
		bits := uint(f.Type().Bits())
		var vals []uint64
		if bits == 8 {
			for x := uint64(0); x < 256; x++ {
				vals = append(vals, x)
			}
		} else {
			for _, x := range vSweepInts {
				if bits == 64 || x>>bits == 0 {
					vals = append(vals, x)
				}
			}
		}
		for _, x := range vals {
			f.SetUint(x)
			st.cases++
			row := vRow{"k": "val", "t": int(mt), "mut": "val-sweep", "field": path, "value": x}
			bad := func() bool {
				d0 := vDump(m)
				b, err, pan := vWrite(m)
				if pan != "" {
					row["panic"] = pan
					return true
				}
				if err != nil {
					return false // outside the wire domain of the field: refused by Encode
				}
				row["ok"], row["len"], row["b"] = true, len(b), whx(b)
				m1, err, pan, _ := vRead(b)
				if pan != "" {
					row["panic"] = pan
					return true
				}
				st.accepted++
				row["dec_ok"] = err == nil
				if err != nil {
					row["dec_err"] = err.Error()
					return true
				}
				d1 := vDump(m1)
				// a record value stands on its own: it must come back as it was.  Other fields
				// may be governed by flags elsewhere in the value: canonical fixpoint only.
				row["equal"] = !recVal || d0 == d1 || vDump(m) == d1
				if row["equal"] == false {
					row["diff"] = vDiff(d0, d1)
				}
				b2, err, _ := vWrite(m1)
				row["enc2_same"] = err == nil && bytes.Equal(b, b2)
				return row["equal"] == false || row["enc2_same"] == false
			}()
			if bad {
				st.bad++
				st.badVal++
				if st.badVal <= 40 {
					st.emitted++
					out.emit(row)
				}
			}
		}
		f.SetUint(orig)
	})
}

func vTypes() []MessageType {
	var ts []MessageType
	for t := MessageType(0); t < MsgEnd; t++ {
		if _, err := makeEmptyMessage(t); err == nil {
			ts = append(ts, t)
		}
	}
	return append(ts, CustomTypeStart, CustomTypeStart+1, 65535)
}

func vGenValue(t MessageType, seed int) (m Message, pan string) {
	defer func() {
		if p := recover(); p != nil {
			pan = fmt.Sprint(p)
		}
	}()
	e, err := makeEmptyMessage(t)
	if err != nil {
		return nil, err.Error()
	}
	tm, ok := e.(TestMessage)
	if !ok {
		return nil, "no TestMessage"
	}
	g := rapid.Custom(func(rt *rapid.T) Message {
		msg := tm.RandTestMessage(rt)
		if c, ok := msg.(*Custom); ok {
			c.Type = t
		}
		return msg
	})
	return g.Example(seed), ""
}

// vOnly parses VERIF_ONLY / VERIF_ONLY_FAIL ("258,136"): the directed search of
// props/c10.py re-runs the generators for exactly the affected message types /
// failure codes with VERIF_BOOST times the volume.
func vOnly(name string) map[int]bool {
	s := os.Getenv(name)
	if s == "" {
		return nil
	}
	m := map[int]bool{}
	for _, f := range strings.Split(s, ",") {
		if n, err := strconv.Atoi(strings.TrimSpace(f)); err == nil {
			m[n] = true
		}
	}
	return m
}

var vBoost = int(vEnvInt("VERIF_BOOST", 1))

func TestVerifWire(t *testing.T) {
	out := vOpenOut()
	defer out.close()
	master := vNewRng(vSeed())
	nval := vCases(8, 120) * vBoost
	nmut := vCases(90, 1500) * vBoost
	only, onlyFail := vOnly("VERIF_ONLY"), vOnly("VERIF_ONLY_FAIL")
	directed := only != nil || onlyFail != nil
	retOnly := os.Getenv("VERIF_RETAIN_ONLY") != ""
	if directed {
		master = master.fork(0xd1ec7ed) // other inputs than the first run
	}

	for _, mt := range vTypes() {
		if directed && !only[int(mt)] {
			continue
		}
		var bases [][]byte
		r := master.fork(uint64(mt))
		for i := 0; i < nval; i++ {
			row := vRow{"k": "val", "t": int(mt)}
			m, pan := vGenValue(mt, int(r.u64()>>33))
			if m == nil {
				row["ok"] = false
				row["err"] = "generator: " + pan
				row["too_large"] = true // not a codec verdict
				out.emit(row)
				continue
			}
			d0 := vDump(m)
			f0 := vFieldMap(m)
			b, err, pan := vWrite(m)
			if pan != "" {
				row["panic"] = pan
				out.emit(row)
				continue
			}
			row["ok"] = err == nil
			if err != nil {
				row["err"] = err.Error()
				row["too_large"] = strings.Contains(err.Error(), "too large")
				out.emit(row)
				continue
			}
			row["len"] = len(b)
			if len(b) <= 6000 {
				out.emit(vRow{"k": "write", "t": int(mt), "fmap": f0,
					"ok": true, "out": whx(b)})
			}
			m2, err, pan, _ := vRead(b)
			if pan != "" {
				row["panic"] = pan
				out.emit(row)
				continue
			}
			row["dec_ok"] = err == nil
			if err != nil {
				row["dec_err"] = err.Error()
				row["b"] = whx(b)
				out.emit(row)
				continue
			}
			d2 := vDump(m2)
			row["equal"] = d0 == d2 || vDump(m) == d2
			if row["equal"] == false {
				row["diff"] = vDiff(d0, d2)
				row["b"] = whx(b)
			}
			b2, err, _ := vWrite(m2)
			row["enc2_same"] = err == nil && bytes.Equal(b, b2)
			out.emit(row)
			bases = append(bases, b)
			vAllBases = append(vAllBases, vRetCase{false, false, b})
		}
		if retOnly {
			continue // VERIF_RETAIN_ONLY: only the valid encodings are needed (race run)
		}
		var tb [2]byte
		binary.BigEndian.PutUint16(tb[:], uint16(mt))
		if len(bases) == 0 {
			bases = append(bases, tb[:])
		}
		// the valid encodings themselves, as byte strings
		for _, b := range bases {
			out.emit(vCheckBytes(mt, b, "valid", nil))
			out.emit(vCheckBytes(mt, append(append([]byte{}, b...), vUnknownRec...),
				"append-unknown-tlv", b))
		}
		out.emit(vCheckBytes(mt, tb[:], "empty-body", nil))
		if mt == MsgQueryShortChanIDs {
			for k := 0; k < vBoost; k++ {
				vScidRows(out, mt, r.fork(uint64(900000+k)))
			}
		}
		if mt == MsgNodeAnnouncement {
			for k := 0; k < vBoost; k++ {
				vAddrRows(out, mt, r.fork(uint64(800000+k)), bases)
			}
		}
		// feature vectors at the bit-index boundaries (see vFeatRows)
		vFeatRows(out, mt, r.fork(700000))
		// crafted TLV extensions behind the fixed fields of a valid encoding
		anyExt := false
		for _, b := range bases {
			anyExt = anyExt || vExtStart(b) > 0
		}
		if anyExt {
			vCraftHint = map[uint64][]int{}
			for _, b := range bases {
				if k := vExtStart(b); k > 0 {
					vTlvLens(b[k:], vCraftHint)
				}
			}
			ncraft := vCases(60, 800) * vBoost
			for i := 0; i < ncraft; i++ {
				rr := r.fork(uint64(500000 + i))
				base := bases[rr.intn(len(bases))]
				kk := vExtStart(base)
				if kk < 0 {
					continue
				}
				b := append(append([]byte{}, base[:kk]...), vCraftExt(rr)...)
				out.emit(vCheckBytes(mt, b, "tlv-craft", nil))
			}
		}
		// systematic per-record / per-byte / per-field sweeps (see vRecSweep)
		{
			var st vSweepStat
			vRecSweep(out, mt, bases, &st)
			recCases := st.cases
			vFixSweep(out, mt, bases, &st)
			fixCases := st.cases - recCases
			nv := 1
			if vTier() == "thorough" || directed {
				nv = 6
			}
			for k := 0; k < nv; k++ {
				vValSweep(out, mt, int(r.fork(uint64(600000+k)).u64()>>33), &st)
			}
			out.emit(vRow{"k": "sweep", "t": int(mt), "cases": st.cases, "rec": recCases, "fix": fixCases,
				"val": st.cases - recCases - fixCases, "accepted": st.accepted, "bad": st.bad,
				"emitted": st.emitted})
		}
		if directed {
			// exhaustive single-byte sweep over the head of every valid encoding: every
			// flag / length / type byte takes its neighbours and the edge values once
			for bi, base := range bases {
				if bi >= 12 {
					break
				}
				for p := 2; p < len(base) && p < 220; p++ {
					o := base[p]
					for _, v := range []byte{0, 1, 2, 3, 0x7f, 0x80, 0xff, o ^ 1, o ^ 2, o ^ 4, o + 1, o - 1} {
						if v == o {
							continue
						}
						b := append([]byte{}, base...)
						b[p] = v
						row := vCheckBytes(mt, b, "byte-sweep", base)
						// only the interesting rows are kept: accepted inputs
						if row["ok"] == true {
							delete(row, "fmap")
							out.emit(row)
						}
					}
				}
			}
		}
		for i := 0; i < nmut; i++ {
			rr := r.fork(uint64(1000 + i))
			base := bases[rr.intn(len(bases))]
			b, mut := vMutate(rr, base)
			if rr.intn(6) == 0 {
				// second-order mutation
				b, _ = vMutate(rr, b)
				mut += "+2"
			}
			if len(b) > 65535 {
				b = b[:65535]
			}
			out.emit(vCheckBytes(mt, b, mut, base))
		}
	}

	if directed {
		if onlyFail != nil {
			vFailures(out, master, onlyFail)
		}
		return
	}
	if retOnly {
		vFailures(out, master, nil)
		vRetention(out, master.fork(1<<51))
		return
	}
	// ---- size boundary: messages of 65533/65534 body bytes ----
	for _, n := range []int{65529, 65530, 65531, 65532, 65533} {
		for _, mt := range []MessageType{MsgPing, MsgPong, CustomTypeStart, MsgUpdateFee} {
			var b []byte
			switch mt {
			case MsgPing:
				b = append([]byte{0, 18, 0, 0, byte((n - 4) >> 8), byte(n - 4)}, make([]byte, n-4)...)
			case MsgPong:
				b = append([]byte{0, 19, byte((n - 2) >> 8), byte(n - 2)}, make([]byte, n-2)...)
			case MsgUpdateFee:
				b = append([]byte{0, 134}, make([]byte, n)...)
			default:
				b = append([]byte{0x80, 0}, make([]byte, n)...)
			}
			out.emit(vCheckBytes(mt, b, "size-boundary", nil))
		}
	}
	// ---- zlib short-channel-id lists around the decode bound ----
	// (strictly increasing ids cost > 1 byte each under deflate, so the
	// 100000-id bound cannot be reached within a 65535-byte message; the
	// largest list that fits is exercised)
	for _, n := range []int{1000, 30000, 34000} {
		var raw bytes.Buffer
		for i := 1; i <= n; i++ {
			var id [8]byte
			binary.BigEndian.PutUint64(id[:], uint64(i))
			raw.Write(id[:])
		}
		var z bytes.Buffer
		zw := zlib.NewWriter(&z)
		zw.Write(raw.Bytes())
		zw.Close()
		if z.Len()+1 > 65000 {
			continue
		}
		body := append([]byte{byte(EncodingSortedZlib)}, z.Bytes()...)
		b := append([]byte{0x01, 0x05}, make([]byte, 32)...)
		b = append(b, byte(len(body)>>8), byte(len(body)))
		b = append(b, body...)
		row := vCheckBytes(MsgQueryShortChanIDs, b, "zlib-bound", nil)
		row["zn"] = n
		out.emit(row)
	}

	// WriteMessage must refuse a 65534-byte body
	for _, n := range []int{65533, 65534, 70000} {
		m := &Custom{Type: CustomTypeStart, Data: make([]byte, n)}
		b, err, pan := vWrite(m)
		out.emit(vRow{"k": "val", "t": int(CustomTypeStart), "ok": err == nil, "len": len(b),
			"panic": pan, "too_large": err != nil && n > MaxMsgBody, "size_case": n,
			"dec_ok": true, "equal": true, "enc2_same": true, "err": fmt.Sprint(err)})
	}

	vFailures(out, master, nil)
	vRetention(out, master.fork(1<<51))
}

// ---------------------------------------------------------------- retention / process-wide state
//
// The codec must be PURE: a decoded value stays what it was -- same deep canonical dump, same
// re-encoding -- after arbitrarily many further decodes / encodes of other messages in the
// same process (no pooled / package-level buffer may be shared with a returned value), it
// must not alias the INPUT bytes (the input is overwritten right after decode), and bytes
// returned by an earlier encode must not change.  Windows of up to 128 consecutive cases are
// kept alive: (a) all valid encodings of all message types and failure codes, shuffled;
// (b) per message type, runs with decreasing then increasing extension / payload sizes (so
// that a reused buffer fits); (c) the same cases split over 8 goroutines.  Every 16 cases
// all retained values are re-dumped (the culprits are then among the last 16 inputs); at
// the end of the window they are re-dumped and re-encoded.

type vRetCase struct {
	fail, full bool // onion failure (DecodeFailureMessage / DecodeFailure) or message
	b          []byte
}

var vAllBases []vRetCase

type vKept struct {
	c     vRetCase
	in    []byte // the slice handed to the decoder (overwritten after decode)
	m     any
	dump  string // canonical dump after the first encode (Encode may rewrite ExtraData)
	enc   []byte // private copy of the first re-encoding
	encR  []byte // the slice the encoder returned, kept as it is
	noEnc bool
	idx   int
}

func vRetDecode(c vRetCase, in []byte) (any, bool) {
	if c.fail {
		m, err, pan := vDecFail(in, c.full)
		return m, err == nil && pan == "" && m != nil
	}
	m, err, pan, _ := vRead(in)
	return m, err == nil && pan == "" && m != nil
}

func vRetEncode(c vRetCase, m any) ([]byte, bool) {
	if c.fail {
		b, err, pan := vEncFail(m.(FailureMessage), c.full)
		return b, err == nil && pan == ""
	}
	b, err, pan := vWrite(m.(Message))
	return b, err == nil && pan == ""
}

type vRetStat struct{ cases, kept, bad int }

func vRetReport(out *vWriter, st *vRetStat, kind, stream string, k *vKept, window []vRetCase, lo, hi int, extra string) {
	st.bad++
	if st.bad > 6 || out == nil {
		return
	}
	var culprits []string
	for i := lo; i < hi && len(culprits) < 16; i++ {
		if i >= 0 && i < len(window) && i != k.idx {
			c := window[i].b
			if len(c) > 8192 {
				c = c[:8192]
			}
			culprits = append(culprits, whx(c))
		}
	}
	t := -1
	if len(k.c.b) >= 2 {
		t = int(binary.BigEndian.Uint16(k.c.b))
	}
	out.emit(vRow{"k": "retain", "ok": false, "kind": kind, "stream": stream, "t": t, "failure": k.c.fail,
		"b": whx(k.c.b), "culprits": culprits, "detail": extra})
}

// vRetWindow decodes the cases of one window in order, keeping every decoded value alive.
func vRetWindow(out *vWriter, window []vRetCase, stream string, st *vRetStat, verifyNow bool) []*vKept {
	var kept []*vKept
	check := func(upto int, final bool) {
		lo := upto - 16
		if final {
			lo = 0
		}
		for _, k := range kept {
			if k.dump == "" {
				continue
			}
			if d := vDump(k.m); d != k.dump {
				vRetReport(out, st, "retained value changed after later decodes", stream, k, window, max(lo, k.idx+1), upto,
					vDiff(k.dump, d))
				k.dump = "" // reported
				continue
			}
			if !bytes.Equal(k.encR, k.enc) {
				vRetReport(out, st, "encoded bytes returned earlier changed after later encodes", stream, k, window,
					max(lo, k.idx+1), upto, "")
				k.dump = ""
				continue
			}
			if final && !k.noEnc {
				if e, ok := vRetEncode(k.c, k.m); !ok || !bytes.Equal(e, k.enc) {
					vRetReport(out, st, "retained value re-encodes differently after later decodes", stream, k, window,
						k.idx+1, upto, "")
					k.dump = ""
				}
			}
		}
	}
	for i, c := range window {
		st.cases++
		in := append([]byte{}, c.b...)
		m, ok := vRetDecode(c, in)
		if !ok {
			continue
		}
		k := &vKept{c: c, in: in, m: m, idx: i}
		d0 := vDump(m)
		e, ok := vRetEncode(c, m)
		if ok {
			k.encR, k.enc = e, append([]byte{}, e...)
		} else {
			k.noEnc = true
		}
		k.dump = vDump(m)
		// the decoded value must not share memory with its input
		for j := range in {
			in[j] ^= 0xa5
		}
		if d := vDump(m); d != k.dump {
			vRetReport(out, st, "decoded value aliases its input bytes", stream, k, window, 0, 0, vDiff(k.dump, d))
			k.dump = ""
		}
		_ = d0
		kept = append(kept, k)
		st.kept++
		if verifyNow && (i+1)%16 == 0 {
			check(i+1, false)
		}
	}
	if verifyNow {
		check(len(window), true)
	}
	return kept
}

// vSizeRun: per message type, the same valid encoding followed by an (unknown odd) record /
// opaque tail of decreasing, then increasing size
func vSizeRuns(r *vrng) [][]vRetCase {
	var runs [][]vRetCase
	seen := map[uint16]bool{}
	sizes := []int{6000, 4000, 2500, 2499, 1200, 600, 601, 300, 120, 40, 8, 0, 8, 41, 300, 1300, 4000, 6001}
	for _, c := range vAllBases {
		if c.fail || len(c.b) < 2 {
			continue
		}
		t := binary.BigEndian.Uint16(c.b)
		if seen[t] || len(c.b) > 20000 {
			continue
		}
		seen[t] = true
		var run []vRetCase
		for _, n := range sizes {
			b := append([]byte{}, c.b...)
			if n > 0 {
				b = append(b, 0xfe, 0xff, 0xff, 0xff, 0xfd)
				b = append(b, vBigSize(uint64(n))...)
				b = append(b, r.bytes(n)...)
			}
			run = append(run, vRetCase{false, false, b})
		}
		runs = append(runs, run)
	}
	return runs
}

func vRetention(out *vWriter, r *vrng) {
	var st vRetStat
	all := append([]vRetCase{}, vAllBases...)
	// failure messages also as complete packets
	for _, c := range vAllBases {
		if c.fail && len(c.b) <= 256 {
			pad := 256 - len(c.b)
			p := []byte{byte(len(c.b) >> 8), byte(len(c.b))}
			p = append(p, c.b...)
			p = append(p, byte(pad>>8), byte(pad))
			p = append(p, make([]byte, pad)...)
			all = append(all, vRetCase{true, true, p})
		}
	}
	for i := len(all) - 1; i > 0; i-- {
		j := r.intn(i + 1)
		all[i], all[j] = all[j], all[i]
	}
	// (a) mixed windows
	for lo := 0; lo < len(all); lo += 128 {
		vRetWindow(out, all[lo:min(lo+128, len(all))], "mixed", &st, true)
	}
	// (b) same-type runs with shrinking, then growing sizes
	runs := vSizeRuns(r)
	for _, run := range runs {
		vRetWindow(out, run, "size-run", &st, true)
	}
	// (c) concurrent: 8 goroutines over disjoint case streams; everything retained is verified
	// after all of them are done (and the race detector watches in the thorough tier)
	var conc []vRetCase
	conc = append(conc, all...)
	for _, run := range runs {
		conc = append(conc, run...)
	}
	const G = 8
	parts := make([][]vRetCase, G)
	for i, c := range conc {
		parts[i%G] = append(parts[i%G], c)
	}
	keptAll := make([][]*vKept, G)
	stats := make([]vRetStat, G)
	var wg sync.WaitGroup
	for g := 0; g < G; g++ {
		wg.Add(1)
		go func(g int) {
			defer wg.Done()
			keptAll[g] = vRetWindow(nil, parts[g], "concurrent", &stats[g], false)
		}(g)
	}
	wg.Wait()
	for g := 0; g < G; g++ {
		st.cases += stats[g].cases
		st.kept += stats[g].kept
		for _, k := range keptAll[g] {
			if k.dump == "" {
				continue
			}
			bad := ""
			if d := vDump(k.m); d != k.dump {
				bad = "retained value changed after later decodes"
			} else if !bytes.Equal(k.encR, k.enc) {
				bad = "encoded bytes returned earlier changed after later encodes"
			} else if !k.noEnc {
				if e, ok := vRetEncode(k.c, k.m); !ok || !bytes.Equal(e, k.enc) {
					bad = "retained value re-encodes differently after later decodes"
				}
			}
			if bad != "" {
				vRetReport(out, &st, bad, "concurrent", k, parts[g], k.idx+1, len(parts[g]), "")
			}
		}
	}
	out.emit(vRow{"k": "retain_sum", "cases": st.cases, "kept": st.kept, "bad": st.bad, "size_runs": len(runs)})
}

// ---------------------------------------------------------------- onion failures

func vDecFail(b []byte, full bool) (m FailureMessage, err error, pan string) {
	defer func() {
		if p := recover(); p != nil {
			pan = fmt.Sprint(p)
			if len(pan) > 200 {
				pan = pan[:200]
			}
		}
	}()
	if full {
		m, err = DecodeFailure(bytes.NewReader(b), 0)
	} else {
		m, err = DecodeFailureMessage(bytes.NewReader(b), 0)
	}
	return
}

func vEncFail(m FailureMessage, full bool) (b []byte, err error, pan string) {
	defer func() {
		if p := recover(); p != nil {
			pan = fmt.Sprint(p)
		}
	}()
	var w bytes.Buffer
	if full {
		err = EncodeFailure(&w, m, 0)
	} else {
		err = EncodeFailureMessage(&w, m, 0)
	}
	return w.Bytes(), err, pan
}

func vCheckFail(b []byte, full bool, mut string, code int) vRow {
	api := "DecodeFailureMessage"
	if full {
		api = "DecodeFailure"
	}
	row := vRow{"k": "fail", "t": code, "mut": mut, "api": api, "n": len(b), "b": whx(b)}
	t0 := time.Now()
	m, err, pan := vDecFail(b, full)
	row["ms"] = time.Since(t0).Milliseconds()
	if pan != "" {
		row["panic"] = pan
		row["ok"] = false
		return row
	}
	row["ok"] = err == nil
	if err != nil {
		return row
	}
	d1 := vDump(m)
	b1, err, pan := vEncFail(m, full)
	if pan != "" {
		row["panic"] = "encode: " + pan
		return row
	}
	if err != nil {
		row["enc_err"] = err.Error()
		// EncodeFailure refuses messages longer than 256 bytes although
		// DecodeFailure accepts them (fixed-size packets are only produced,
		// not required); re-encoding may also add the 2-byte channel_update
		// type prefix.  Same allowance as lnwire's own fuzz harness.
		row["enc_err_allowed"] = full && len(b)+2 > FailureMessageLength
		return row
	}
	row["len1"] = len(b1)
	row["reenc"] = whx(b1)
	m2, err, pan := vDecFail(b1, full)
	if pan != "" {
		row["panic"] = "decode(reenc): " + pan
		return row
	}
	row["dec2_ok"] = err == nil
	if err != nil {
		row["dec2_err"] = err.Error()
		return row
	}
	d2 := vDump(m2)
	row["equal"] = d1 == d2 || vDump(m) == d2
	if row["equal"] == false {
		row["diff"] = vDiff(d1, d2)
	}
	b2, err, _ := vEncFail(m2, full)
	row["enc2_same"] = err == nil && bytes.Equal(b1, b2)
	return row
}

func vFailures(out *vWriter, master *vrng, only map[int]bool) {
	r := master.fork(1 << 50)
	var codes []uint16
	for c := 0; c < 65536; c++ {
		if _, err := makeEmptyOnionError(FailCode(c)); err == nil && (only == nil || only[c]) {
			codes = append(codes, uint16(c))
		}
	}
	// a few valid channel updates to embed
	var upds [][]byte
	for i := 0; i < 4; i++ {
		m, _ := vGenValue(MsgChannelUpdate, int(r.u64()>>33))
		if m == nil {
			continue
		}
		if b, err, _ := vWrite(m); err == nil {
			upds = append(upds, b)
		}
	}
	lenUpd := func(withType bool) []byte {
		if len(upds) == 0 {
			return []byte{0, 0}
		}
		u := upds[r.intn(len(upds))]
		if !withType {
			u = u[2:]
		}
		return append([]byte{byte(len(u) >> 8), byte(len(u))}, u...)
	}
	// claimed length differing from the update that follows (io.LimitReader yields what is
	// there), and an update without type prefix whose signature starts with 0x0102
	lenUpdOff := func(withType bool, delta int) []byte {
		b := lenUpd(withType)
		if len(b) <= 2 {
			return b
		}
		n := int(binary.BigEndian.Uint16(b)) + delta
		if n < 0 {
			n = 0
		}
		binary.BigEndian.PutUint16(b, uint16(n))
		return b
	}
	sig0102 := func() []byte {
		b := lenUpd(false)
		if len(b) > 4 {
			b[2], b[3] = 0x01, 0x02
		}
		return b
	}
	shapes := func() [][]byte {
		return [][]byte{
			lenUpdOff(true, 1), lenUpdOff(true, 40), lenUpdOff(false, -1), lenUpdOff(true, -3),
			lenUpdOff(true, -130), sig0102(), append(r.bytes(8), sig0102()...),
			append(r.bytes(8), lenUpdOff(true, 7)...), append(r.bytes(2), lenUpdOff(false, -9)...),
			{0, 1, 7}, {0, 2, 1, 2}, {0, 2, 1, 3}, append(r.bytes(4), 0, 2, 1, 2),
			nil, r.bytes(32), r.bytes(12), r.bytes(8), r.bytes(4), r.bytes(2),
			append(r.bytes(12), r.bytes(1+r.intn(6))...),
			lenUpd(true), lenUpd(false),
			append(r.bytes(8), lenUpd(true)...), append(r.bytes(4), lenUpd(true)...),
			append(r.bytes(2), lenUpd(true)...), append(r.bytes(8), lenUpd(false)...),
			append([]byte{0xfd, 0x01, 0x00}, r.bytes(2)...), append([]byte{0x07}, r.bytes(2)...),
		}
	}
	wrap := func(msg []byte, padTo int) []byte {
		pad := 0
		if len(msg) < padTo {
			pad = padTo - len(msg)
		}
		b := []byte{byte(len(msg) >> 8), byte(len(msg))}
		b = append(b, msg...)
		b = append(b, byte(pad>>8), byte(pad))
		return append(b, make([]byte, pad)...)
	}
	nmut := vCases(20, 400) * vBoost
	for _, c := range codes {
		var bases [][]byte
		for _, s := range shapes() {
			msg := append([]byte{byte(c >> 8), byte(c)}, s...)
			if m, err, _ := vDecFail(msg, false); err == nil && m != nil {
				bases = append(bases, msg)
				vAllBases = append(vAllBases, vRetCase{true, false, msg})
			}
			out.emit(vCheckFail(msg, false, "shape", int(c)))
		}
		for _, msg := range bases {
			out.emit(vCheckFail(wrap(msg, 256), true, "valid-packet", int(c)))
			out.emit(vCheckFail(wrap(msg, 255), true, "short-total", int(c)))
			out.emit(vCheckFail(wrap(msg, 300), true, "long-total", int(c)))
			out.emit(vCheckFail(append(wrap(msg, 256), 0), true, "trailing-byte", int(c)))
		}
		if len(bases) == 0 {
			continue
		}
		for i := 0; i < nmut; i++ {
			rr := r.fork(uint64(c)<<16 | uint64(i))
			msg := bases[rr.intn(len(bases))]
			full := rr.bool()
			b := msg
			if full {
				b = wrap(msg, 256)
			}
			// reuse the message mutator (it keeps the first two bytes)
			mb, mut := vMutate(rr, append([]byte{0, 0}, b...))
			out.emit(vCheckFail(mb[2:], full, mut, int(c)))
		}
	}
	// unknown codes
	for _, c := range []uint16{0, 1, 0xffff, 0x4000, 0x8000} {
		out.emit(vCheckFail([]byte{byte(c >> 8), byte(c)}, false, "unknown-code", int(c)))
	}
}
