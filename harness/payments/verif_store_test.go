//go:build verif

package paymentsdb

// C16 correspondence harness.  The same seeded histories of payment-store
// operations are applied to the REAL KVStore (bbolt) and the REAL SQLStore
// (sqlite; the test binary is built with -tags "verif test_db_sqlite") and
// every answer (error class + projected MPPayment) is written to VERIF_OUT.
// The Coq model (Payments/Exec.v) re-runs each history on its KV and SQL
// step functions and must agree answer by answer; python additionally
// evaluates the property predicate on these traces alone.
//
// Nothing here mocks lnd code: only the paymentsdb.DB interface methods are
// called.

import (
	"context"
	"encoding/binary"
	"encoding/hex"
	"errors"
	"sort"
	"strconv"
	"sync"
	"testing"
	"time"

	"github.com/btcsuite/btcd/btcec/v2"
	"github.com/lightningnetwork/lnd/kvdb"
	"github.com/lightningnetwork/lnd/lntypes"
	"github.com/lightningnetwork/lnd/lnwire"
	"github.com/lightningnetwork/lnd/record"
	"github.com/lightningnetwork/lnd/routing/route"
	"github.com/lightningnetwork/lnd/sqldb"
	"github.com/lightningnetwork/lnd/tlv"
)

// ---- canonical error enum (must match Payments/Model.v `err` and props/c16.py)

var vErrTable = []struct {
	code int
	err  error
}{
	{2, ErrAlreadyPaid},
	{3, ErrPaymentInFlight},
	{4, ErrPaymentExists},
	{5, ErrPaymentNotInitiated},
	{6, ErrPaymentAlreadySucceeded},
	{7, ErrPaymentAlreadyFailed},
	{8, ErrAttemptAlreadySettled},
	{9, ErrAttemptAlreadyFailed},
	{10, ErrValueMismatch},
	{11, ErrValueExceedsAmt},
	{12, ErrNonMPPayment},
	{13, ErrMPPayment},
	{14, ErrMPPRecordInBlindedPayment},
	{15, ErrBlindedPaymentTotalAmountMismatch},
	{16, ErrMixedBlindedAndNonBlindedPayments},
	{17, ErrBlindedPaymentMissingTotalAmount},
	{18, ErrMPPPaymentAddrMismatch},
	{19, ErrMPPTotalAmountMismatch},
	{20, ErrPaymentPendingSettled},
	{21, ErrPaymentPendingFailed},
	{22, ErrSentExceedsTotal},
}

func vErrCode(err error) int {
	if err == nil {
		return 0
	}
	for _, e := range vErrTable {
		if errors.Is(err, e.err) {
			return e.code
		}
	}
	return 1
}

// ---- projections

type vProj struct {
	St  int      `json:"st"`
	Val uint64   `json:"val"`
	Rem uint64   `json:"rem"`
	Nif int      `json:"nif"`
	Hs  bool     `json:"hs"`
	Pf  bool     `json:"pf"`
	Fr  *int     `json:"fr"`
	At  [][3]any `json:"at"`
	// Rt: the stored attempt (route content, session key, hash) as the
	// store hands it back, keyed by the small attempt id.  Not part of the
	// Coq model's projection; compared KV-vs-SQL and against what was
	// registered (props/c16.py).
	Rt map[string]*vRouteP `json:"rt,omitempty"`
}

// vHopP / vRouteP: canonical projection of every per-hop / per-route field
// the payment stores persist (no timestamps, byte strings as hex, nil and
// empty byte strings identified, record maps sorted by key).
type vHopP struct {
	PK  string   `json:"pk"`
	Ch  uint64   `json:"ch"`
	TL  uint32   `json:"tl"`
	Amt uint64   `json:"amt"`
	MPP []any    `json:"mpp,omitempty"` // [addr hex, total]
	AMP []any    `json:"amp,omitempty"` // [root share hex, set id hex, child]
	ED  string   `json:"ed,omitempty"`
	BP  string   `json:"bp,omitempty"`
	Tot uint64   `json:"tot,omitempty"`
	MD  string   `json:"md,omitempty"`
	CR  [][2]any `json:"cr,omitempty"`
	LG  bool     `json:"lg,omitempty"`
}

type vRouteP struct {
	Src  string   `json:"src"`
	TTL  uint32   `json:"ttl"`
	TAmt uint64   `json:"tamt"`
	FHA  uint64   `json:"fha,omitempty"`
	FHCR [][2]any `json:"fhcr,omitempty"`
	SK   string   `json:"sk"`
	Hash string   `json:"hash"`
	Hops []vHopP  `json:"hops"`
}

func vSortedRecs(m map[uint64][]byte) [][2]any {
	if len(m) == 0 {
		return nil
	}
	ks := make([]uint64, 0, len(m))
	for k := range m {
		ks = append(ks, k)
	}
	sort.Slice(ks, func(i, j int) bool { return ks[i] < ks[j] })
	out := make([][2]any, 0, len(ks))
	for _, k := range ks {
		out = append(out, [2]any{k, hex.EncodeToString(m[k])})
	}
	return out
}

func vProjAttempt(a *HTLCAttemptInfo) *vRouteP {
	rt := &a.Route
	p := &vRouteP{
		Src:  hex.EncodeToString(rt.SourcePubKey[:]),
		TTL:  rt.TotalTimeLock,
		TAmt: uint64(rt.TotalAmount),
		FHA:  uint64(rt.FirstHopAmount.Val.Int()),
		FHCR: vSortedRecs(rt.FirstHopWireCustomRecords),
		SK:   hex.EncodeToString(a.sessionKey[:]),
		Hops: []vHopP{},
	}
	if a.Hash != nil {
		p.Hash = hex.EncodeToString(a.Hash[:8])
	}
	for _, h := range rt.Hops {
		hp := vHopP{
			PK:  hex.EncodeToString(h.PubKeyBytes[:]),
			Ch:  h.ChannelID,
			TL:  h.OutgoingTimeLock,
			Amt: uint64(h.AmtToForward),
			ED:  hex.EncodeToString(h.EncryptedData),
			Tot: uint64(h.TotalAmtMsat),
			MD:  hex.EncodeToString(h.Metadata),
			CR:  vSortedRecs(h.CustomRecords),
			LG:  h.LegacyPayload,
		}
		if h.MPP != nil {
			ad := h.MPP.PaymentAddr()
			hp.MPP = []any{hex.EncodeToString(ad[:]),
				uint64(h.MPP.TotalMsat())}
		}
		if h.AMP != nil {
			rs, si := h.AMP.RootShare(), h.AMP.SetID()
			hp.AMP = []any{hex.EncodeToString(rs[:]),
				hex.EncodeToString(si[:]), h.AMP.ChildIndex()}
		}
		if h.BlindingPoint != nil {
			hp.BP = hex.EncodeToString(
				h.BlindingPoint.SerializeCompressed())
		}
		p.Hops = append(p.Hops, hp)
	}
	return p
}

type vResp struct {
	E int       `json:"e"`
	P *vProj    `json:"p"`
	L [][2]any  `json:"l"`
	M string    `json:"m,omitempty"`
	// Ab: the call ended in a database serialization / busy / retries-
	// exceeded error (sqldb.ExecuteSQLTransactionWithRetry rolls such a
	// transaction back: the operation did not happen).  Only expected under
	// concurrency (verif_concurrent_test.go).
	Ab bool `json:"ab,omitempty"`
	// Reg: RegisterAttempt only — the attempt as it was handed to the store
	// (projection of the in-memory object before the call).
	Reg *vRouteP `json:"reg,omitempty"`
}

func vProject(p *MPPayment, idBase uint64) *vProj {
	if p == nil {
		return nil
	}
	pr := &vProj{St: int(p.Status), Val: uint64(p.Info.Value)}
	if p.State != nil {
		pr.Rem = uint64(p.State.RemainingAmt)
		pr.Nif = p.State.NumAttemptsInFlight
		pr.Hs = p.State.HasSettledHTLC
		pr.Pf = p.State.PaymentFailed
	}
	if p.FailureReason != nil {
		r := int(*p.FailureReason)
		pr.Fr = &r
	}
	hs := make([]HTLCAttempt, len(p.HTLCs))
	copy(hs, p.HTLCs)
	sort.SliceStable(hs, func(i, j int) bool {
		return hs[i].AttemptID < hs[j].AttemptID
	})
	pr.At = [][3]any{}
	for _, h := range hs {
		out := 0
		// Same precedence as decidePaymentStatus: Failure first.
		if h.Failure != nil {
			out = 2
		} else if h.Settle != nil {
			out = 1
		}
		pr.At = append(pr.At, [3]any{
			h.AttemptID - idBase, uint64(h.Route.ReceiverAmt()), out,
		})
		if pr.Rt == nil {
			pr.Rt = map[string]*vRouteP{}
		}
		hi := h.HTLCAttemptInfo
		pr.Rt[strconv.FormatUint(h.AttemptID-idBase, 10)] =
			vProjAttempt(&hi)
	}
	return pr
}

// ---- one pair of stores

type vStores struct {
	kv  DB
	sql DB
}

func vNewStores(t *testing.T) *vStores {
	backend, cleanup, err := kvdb.GetTestBackend(t.TempDir(), "vkv")
	if err != nil {
		t.Fatalf("kv backend: %v", err)
	}
	t.Cleanup(cleanup)
	kv, err := NewKVStore(backend)
	if err != nil {
		t.Fatalf("kv store: %v", err)
	}
	// With -tags test_db_sqlite NewTestDB builds an SQLStore on sqlite.
	sq, _ := NewTestDB(t)
	if _, ok := sq.(*SQLStore); !ok {
		t.Fatalf("NewTestDB did not return an SQLStore (%T): build with "+
			"-tags test_db_sqlite", sq)
	}
	return &vStores{kv: kv, sql: sq}
}

var (
	vKeyMu  sync.Mutex
	vKeyCtr uint64
)

// vSessionKey returns a fresh valid secp256k1 scalar: SQL has a UNIQUE
// constraint on session keys which must not interfere with the histories.
func vSessionKey() [32]byte {
	vKeyMu.Lock()
	vKeyCtr++
	c := vKeyCtr
	vKeyMu.Unlock()
	var k [32]byte
	k[0] = 1
	binary.BigEndian.PutUint64(k[24:], c)
	return k
}

type vAtt struct {
	ID      uint64 // small id
	Amt     uint64
	HasMPP  bool
	Addr    uint64
	Total   uint64
	Blinded bool
	BTotal  uint64
	// Sh: content of the route beyond what verifyAttempt reads (nil = one
	// plain hop; blinded: encrypted data without a blinding point).
	Sh *vShape
}

// vShape describes the ROUTE CONTENT of a registered attempt: every per-hop
// and per-route field the stores persist.  The fields verifyAttempt reads
// (receiver amount, final-hop MPP record, final hop blinded?, blinded total)
// stay in vAtt / the op's positions 3..8, so the Coq model sees the same op.
type vShape struct {
	N    int    `json:"n"`              // hops (1..4)
	BL   int    `json:"bl,omitempty"`   // blinded tail length (blinded attempts: 1..N)
	NoBP bool   `json:"nobp,omitempty"` // introduction hop WITHOUT blinding point
	AMP  int    `json:"amp,omitempty"`  // AMP record on the final hop (child index variant)
	CR   int    `json:"cr,omitempty"`   // bit i: hop i carries custom records
	CRV  int    `json:"crv,omitempty"`  // which custom-record set
	MD   int    `json:"md,omitempty"`   // final-hop metadata: 1 one byte, 2 32 bytes, 3 empty non-nil
	FH   int    `json:"fh,omitempty"`   // bit0 FirstHopAmount, bit1 first-hop wire custom records
	ED   int    `json:"ed,omitempty"`   // encrypted-data length variant
	Fee  uint64 `json:"fee,omitempty"`  // per-hop fee (AmtToForward differs per hop)
	TL   int    `json:"tl,omitempty"`   // time lock / channel id boundary variant
	// XK: a custom record with a key >= 2^63 (directed finding case C16-F4
	// only: the SQL store casts keys to int64 and its CHECK refuses them):
	// 1 = hop custom record on hop 0, 2 = first-hop wire custom record
	XK int `json:"xk,omitempty"`
}

var (
	vPubOnce sync.Once
	vPubs    []*btcec.PublicKey
)

// vPub: deterministic valid curve points (blinding points must parse when the
// stores read them back; hop / source keys are only 33 stored bytes).
func vPub(i int) *btcec.PublicKey {
	vPubOnce.Do(func() {
		for k := 0; k < 8; k++ {
			var b [32]byte
			b[0] = 0x16
			b[31] = byte(k + 1)
			_, pk := btcec.PrivKeyFromBytes(b[:])
			vPubs = append(vPubs, pk)
		}
	})
	return vPubs[i%len(vPubs)]
}

var (
	vTLs   = []uint32{100, 0, 1, 1<<31 - 1, 1 << 31, 1<<32 - 1}
	vChans = []uint64{1, 0, 1<<63 - 1, 1 << 63, 1<<64 - 1, 0x0a0b0c0000010000}
	vEDLen = []int{3, 1, 2, 64, 300}
)

func vCustomSet(v int, salt byte) map[uint64][]byte {
	switch v % 5 {
	case 0:
		return map[uint64][]byte{65536: {salt}}
	case 1:
		return map[uint64][]byte{65537: {salt, 2, 3}, 65536 + 1000: {}}
	case 2:
		big := make([]byte, 40)
		for i := range big {
			big[i] = salt + byte(i)
		}
		return map[uint64][]byte{5482373484: big}
	case 3:
		// (keys >= 2^63 are refused by the SQL schema's CHECK on the
		// int64 column while the KV store takes them: see notes/C16.md)
		return map[uint64][]byte{65536: {}, 1 << 32: {salt},
			1<<63 - 1: {9, salt}}
	default:
		return map[uint64][]byte{70000: {salt}, 70001: {salt + 1},
			70002: {salt + 2}}
	}
}

func vBuildRoute(a vAtt) route.Route {
	sh := a.Sh
	if sh == nil {
		sh = &vShape{N: 1, NoBP: true}
		if a.Blinded {
			sh.BL = 1
		}
	}
	n := sh.N
	if n < 1 {
		n = 1
	}
	tl, ch := vTLs[0], vChans[0]
	hops := make([]*route.Hop, n)
	for i := 0; i < n; i++ {
		if sh.TL > 0 {
			tl = vTLs[(sh.TL+i)%len(vTLs)]
			ch = vChans[(sh.TL+i)%len(vChans)]
		}
		hop := &route.Hop{
			PubKeyBytes:      route.NewVertex(vPub(i + 1)),
			ChannelID:        ch + uint64(i)*uint64(1-minInt(sh.TL, 1)),
			OutgoingTimeLock: tl,
			AmtToForward: lnwire.MilliSatoshi(
				a.Amt + sh.Fee*uint64(n-1-i)),
		}
		if sh.CR&(1<<i) != 0 {
			hop.CustomRecords = vCustomSet(sh.CRV+i, byte(16*i+1))
		}
		// blinded tail: introduction hop .. final hop
		if a.Blinded && i >= n-sh.BL {
			l := vEDLen[sh.ED%len(vEDLen)]
			ed := make([]byte, l)
			for j := range ed {
				ed[j] = byte(2 + i + j)
			}
			hop.EncryptedData = ed
			if i == n-sh.BL && !sh.NoBP {
				hop.BlindingPoint = vPub(5 + sh.ED)
			}
		}
		hops[i] = hop
	}
	if sh.XK == 1 {
		hops[0].CustomRecords = map[uint64][]byte{1<<63 + 5: {1}}
	}
	fin := hops[n-1]
	fin.TotalAmtMsat = lnwire.MilliSatoshi(a.BTotal)
	if a.HasMPP {
		var addr [32]byte
		binary.BigEndian.PutUint64(addr[:8], a.Addr)
		fin.MPP = record.NewMPP(lnwire.MilliSatoshi(a.Total), addr)
	}
	if sh.AMP > 0 {
		var rs, si [32]byte
		rs[0], rs[31] = 0xA0, byte(sh.AMP)
		si[0], si[31] = 0x5E, byte(sh.AMP)
		child := []uint32{0, 1, 1 << 31, 1<<32 - 1}[sh.AMP%4]
		fin.AMP = record.NewAMP(rs, si, child)
	}
	switch sh.MD {
	case 1:
		fin.Metadata = []byte{0x4d}
	case 2:
		fin.Metadata = make([]byte, 32)
		fin.Metadata[0], fin.Metadata[31] = 0x4d, 0x44
	case 3:
		fin.Metadata = []byte{}
	}
	rt := route.Route{
		SourcePubKey:  route.NewVertex(vPub(0)),
		TotalTimeLock: tl + uint32(minInt(sh.TL, 1))*7,
		TotalAmount:   lnwire.MilliSatoshi(a.Amt + sh.Fee*uint64(n)),
		Hops:          hops,
	}
	if sh.FH&1 != 0 {
		rt.FirstHopAmount = tlv.NewRecordT[tlv.TlvType0](
			tlv.NewBigSizeT(lnwire.MilliSatoshi(a.Amt + 77)),
		)
	}
	if sh.XK == 2 {
		rt.FirstHopWireCustomRecords = lnwire.CustomRecords{
			1<<63 + 5: {1}}
	}
	if sh.FH&2 != 0 {
		rt.FirstHopWireCustomRecords = lnwire.CustomRecords(
			vCustomSet(sh.CRV+1, 0xF0))
	}
	return rt
}

func minInt(a, b int) int {
	if a < b {
		return a
	}
	return b
}

func vHash(ci int, h int) lntypes.Hash {
	var x lntypes.Hash
	binary.BigEndian.PutUint32(x[0:4], uint32(ci))
	x[4] = byte(h)
	x[5] = 0xC1
	x[6] = 0x6
	return x
}

func vMakeAttempt(hash lntypes.Hash, idBase uint64, a vAtt) *HTLCAttemptInfo {
	hh := hash
	return &HTLCAttemptInfo{
		AttemptID:   idBase + a.ID,
		sessionKey:  vSessionKey(),
		Route:       vBuildRoute(a),
		AttemptTime: time.Unix(1700000000, 0),
		Hash:        &hh,
	}
}

// vApply executes one op on one store and projects the answer.
// op encodings (JSON arrays):
//
//	["init",h,value] ["reg",h,id,amt,hasMpp,addr,total,blinded,btotal]
//	["settle",h,id] ["failatt",h,id] ["fail",h,reason] ["delfailed",h]
//	["delpay",h,failedOnly] ["fetch",h] ["inflight"]
func vApply(db DB, ci int, nh int, op []any) vResp {
	ctx := context.Background()
	idBase := uint64(ci) << 8
	gi := func(i int) int {
		switch v := op[i].(type) {
		case int:
			return v
		case uint64:
			return int(v)
		case bool:
			if v {
				return 1
			}
			return 0
		}
		panic("bad op field")
	}
	gu := func(i int) uint64 {
		switch v := op[i].(type) {
		case int:
			return uint64(v)
		case uint64:
			return v
		}
		panic("bad op field")
	}
	var (
		p       *MPPayment
		err     error
		regProj *vRouteP
	)
	switch op[0].(string) {
	case "init":
		h := vHash(ci, gi(1))
		info := &PaymentCreationInfo{
			PaymentIdentifier: h,
			Value:             lnwire.MilliSatoshi(gu(2)),
			CreationTime:      time.Unix(1700000000, 0),
			PaymentRequest:    []byte("verif"),
		}
		if len(op) > 3 && op[3].(bool) {
			// C16-F4 directed case: first-hop custom record, key >= 2^63
			info.FirstHopCustomRecords = lnwire.CustomRecords{
				1<<63 + 5: {1}}
		}
		err = db.InitPayment(ctx, h, info)
	case "reg":
		h := vHash(ci, gi(1))
		a := vAtt{
			ID: gu(2), Amt: gu(3), HasMPP: op[4].(bool), Addr: gu(5),
			Total: gu(6), Blinded: op[7].(bool), BTotal: gu(8),
		}
		if len(op) > 9 {
			a.Sh, _ = op[9].(*vShape)
		}
		att := vMakeAttempt(h, idBase, a)
		// what is handed to the store, projected BEFORE the call
		regProj = vProjAttempt(att)
		p, err = db.RegisterAttempt(ctx, h, att)
	case "settle":
		var pre lntypes.Preimage
		pre[0] = 7
		p, err = db.SettleAttempt(ctx, vHash(ci, gi(1)), idBase+gu(2),
			&HTLCSettleInfo{
				Preimage:   pre,
				SettleTime: time.Unix(1700000100, 0),
			})
	case "failatt":
		p, err = db.FailAttempt(ctx, vHash(ci, gi(1)), idBase+gu(2),
			&HTLCFailInfo{
				Reason:   HTLCFailInternal,
				FailTime: time.Unix(1700000100, 0),
			})
	case "fail":
		p, err = db.Fail(ctx, vHash(ci, gi(1)), FailureReason(gi(2)))
	case "delfailed":
		err = db.DeleteFailedAttempts(ctx, vHash(ci, gi(1)))
	case "delpay":
		err = db.DeletePayment(ctx, vHash(ci, gi(1)), op[2].(bool))
	case "fetch":
		p, err = db.FetchPayment(ctx, vHash(ci, gi(1)))
	case "inflight":
		var ps []*MPPayment
		ps, err = db.FetchInFlightPayments(ctx)
		r := vResp{E: vErrCode(err), L: [][2]any{}}
		if err != nil && (sqldb.IsSerializationError(err) ||
			errors.Is(err, sqldb.ErrRetriesExceeded)) {

			r.Ab = true
		}
		if err != nil {
			r.M = err.Error()
			if len(r.M) > 160 {
				r.M = r.M[:160]
			}
		}
		type ent struct {
			h int
			p *vProj
		}
		var es []ent
		for _, q := range ps {
			id := q.Info.PaymentIdentifier
			if int(binary.BigEndian.Uint32(id[0:4])) != ci ||
				id[5] != 0xC1 {

				continue
			}
			es = append(es, ent{int(id[4]), vProject(q, idBase)})
		}
		sort.Slice(es, func(i, j int) bool { return es[i].h < es[j].h })
		for _, e := range es {
			r.L = append(r.L, [2]any{e.h, e.p})
		}
		return r
	default:
		panic("unknown op")
	}
	r := vResp{E: vErrCode(err), L: [][2]any{}, Reg: regProj}
	if err != nil && (sqldb.IsSerializationError(err) ||
		errors.Is(err, sqldb.ErrRetriesExceeded)) {

		r.Ab = true
	}
	if err != nil && r.E == 1 {
		m := err.Error()
		if len(m) > 160 {
			m = m[:160]
		}
		r.M = m
	}
	if err == nil {
		r.P = vProject(p, idBase)
	} else if p != nil {
		// A payment returned next to an error would be an unmodelled
		// observable: surface it.
		r.M = "payment returned with error"
		r.P = vProject(p, idBase)
	}
	return r
}

// vQuery: closing observation through QueryPayments (all payments of the
// case, complete and incomplete), projected like FetchInFlightPayments.
func vQuery(st *vStores, ci int) map[string]vResp {
	one := func(db DB) vResp {
		resp, err := db.QueryPayments(context.Background(), Query{
			MaxPayments:       100000,
			IncludeIncomplete: true,
		})
		r := vResp{E: vErrCode(err), L: [][2]any{}}
		if err != nil {
			r.M = err.Error()
			return r
		}
		type ent struct {
			h int
			p *vProj
		}
		var es []ent
		for _, q := range resp.Payments {
			id := q.Info.PaymentIdentifier
			if int(binary.BigEndian.Uint32(id[0:4])) != ci ||
				id[5] != 0xC1 {

				continue
			}
			es = append(es, ent{int(id[4]), vProject(q, uint64(ci)<<8)})
		}
		sort.Slice(es, func(i, j int) bool { return es[i].h < es[j].h })
		for _, e := range es {
			r.L = append(r.L, [2]any{e.h, e.p})
		}
		return r
	}
	return map[string]vResp{"kv": one(st.kv), "sql": one(st.sql)}
}

type vStep struct {
	Op  []any          `json:"op"`
	KV  vResp          `json:"kv"`
	SQL vResp          `json:"sql"`
	Pre map[string]int `json:"pre,omitempty"`
}

// vPre observes, for InitPayment only, the status the payment had just
// before the call (0 = unknown payment) so that the init-gate predicate
// does not depend on any bookkeeping outside the implementation.
func vPre(st *vStores, ci int, op []any) map[string]int {
	if op[0].(string) != "init" {
		return nil
	}
	h := vHash(ci, op[1].(int))
	get := func(db DB) int {
		p, err := db.FetchPayment(context.Background(), h)
		if err != nil || p == nil {
			return 0
		}
		return int(p.Status)
	}
	return map[string]int{"kv": get(st.kv), "sql": get(st.sql)}
}

func vExec(st *vStores, ci int, nh int, op []any) vStep {
	s := vStep{Op: op, Pre: vPre(st, ci, op)}
	s.KV = vApply(st.kv, ci, nh, op)
	s.SQL = vApply(st.sql, ci, nh, op)
	return s
}

// vGenCase generates and executes one history.  mode "disc": attempt ids
// are globally fresh and settles/fails target (hash, id) pairs that belong
// together (what the router does); mode "wild": ids from a tiny pool,
// reused across payments, arbitrary (hash,id) targets; mode "wrap": amounts
// near 2^64 to tie the model's fixed-width arithmetic.
func vGenCase(st *vStores, r *vrng, ci int, mode string, nops int) []vStep {
	nh := 2 + r.intn(2)
	vals := []uint64{1000, 1000, 1000, 1, 0, 7, 1001, 4000}
	baseVal := make([]uint64, nh)
	for i := range baseVal {
		baseVal[i] = vals[r.intn(len(vals))]
	}
	curVal := make([]uint64, nh) // value of the last successful init
	inited := make([]bool, nh)
	ids := make([][]uint64, nh) // ids registered per hash (disc mode)
	fresh := uint64(0)
	// "style" of a payment's shards, so that most registrations are
	// mutually consistent.
	style := make([]int, nh) // 0 single-shot 1 mpp 2 blinded
	for i := range style {
		style[i] = r.intn(3)
		if r.intn(3) == 0 {
			style[i] = 1
		}
	}
	var steps []vStep
	do := func(op []any) vStep {
		s := vExec(st, ci, nh, op)
		steps = append(steps, s)
		return s
	}
	remaining := func(h int) (uint64, bool) {
		p, err := st.kv.FetchPayment(context.Background(), vHash(ci, h))
		if err != nil || p.State == nil {
			return 0, false
		}
		return uint64(p.State.RemainingAmt), true
	}
	pickID := func(h int) uint64 {
		if mode == "wild" {
			return uint64(r.intn(5))
		}
		if len(ids[h]) > 0 && r.intn(8) != 0 {
			// bias to recent ids
			if r.bool() {
				return ids[h][len(ids[h])-1]
			}
			return ids[h][r.intn(len(ids[h]))]
		}
		return 200 + uint64(r.intn(3)) // never registered anywhere
	}
	for len(steps) < nops {
		h := r.intn(nh)
		if !inited[h] && r.intn(10) < 7 {
			// mostly start payments before using them
			v := baseVal[h]
			s := do([]any{"init", h, v})
			if s.KV.E == 0 || s.SQL.E == 0 {
				inited[h] = true
				curVal[h] = v
				ids[h] = nil
			}
			continue
		}
		w := r.intn(100)
		// Do not let a terminated payment soak up the rest of the history
		// with refusals: usually restart (Failed) or delete it.
		if q, err := st.kv.FetchPayment(context.Background(),
			vHash(ci, h)); err == nil && q.Terminated() && r.intn(10) < 6 {

			if q.Status == StatusFailed || r.intn(3) == 0 {
				w = 0
			} else {
				w = 83
			}
		}
		switch {
		case w < 8:
			v := baseVal[h]
			if r.intn(4) == 0 {
				v = vals[r.intn(len(vals))]
			}
			if mode == "wrap" && r.intn(3) == 0 {
				v = (uint64(1) << 63) + uint64(r.intn(3))
			}
			s := do([]any{"init", h, v})
			if s.KV.E == 0 || s.SQL.E == 0 {
				inited[h] = true
				curVal[h] = v
				ids[h] = nil
			}
		case w < 42:
			v := curVal[h]
			rem, ok := remaining(h)
			if !ok {
				rem = v
			}
			var amt uint64
			switch r.intn(10) {
			case 0:
				amt = rem
			case 1:
				amt = rem + 1
			case 2:
				if rem > 0 {
					amt = rem - 1
				}
			case 3:
				amt = v
			case 4:
				amt = 0
			case 5:
				amt = 1
			case 6, 7:
				amt = v / 2
			case 8:
				amt = v/3 + 1
			default:
				amt = uint64(r.intn(int(v%5000) + 2))
			}
			if mode == "wrap" {
				switch r.intn(4) {
				case 0:
					amt = ^uint64(0) - uint64(r.intn(400))
				case 1:
					amt = (uint64(1) << 63) + uint64(r.intn(3)) - 1
				case 2:
					amt = ^uint64(0) - rem + uint64(r.intn(3))
				}
			}
			sty := style[h]
			if r.intn(7) == 0 {
				sty = r.intn(4) // 3 = blinded with an MPP record
			}
			a := vAtt{Amt: amt, Addr: 1, Total: v, BTotal: 0}
			switch sty {
			case 0:
				if r.intn(3) != 0 {
					a.Amt = v // single shot pays everything
					if r.intn(6) == 0 {
						a.Amt = v + 1
					}
				}
			case 1:
				a.HasMPP = true
				if r.intn(8) == 0 {
					a.Addr = 2
				}
				if r.intn(8) == 0 {
					a.Total = v + 1
				}
			case 2:
				a.Blinded = true
				a.BTotal = v
				if v == 0 {
					a.BTotal = 5
				}
				if r.intn(8) == 0 {
					a.BTotal = v + 1
				}
				if r.intn(10) == 0 {
					a.BTotal = 0
				}
			default:
				a.Blinded = true
				a.HasMPP = true
				a.BTotal = v
			}
			if mode != "wild" {
				a.ID = fresh
				fresh++
			} else {
				a.ID = uint64(r.intn(5))
			}
			a.Sh = vGenShape(r, a.Blinded, a.HasMPP)
			s := do([]any{"reg", h, a.ID, a.Amt, a.HasMPP, a.Addr,
				a.Total, a.Blinded, a.BTotal, a.Sh})
			if s.KV.E == 0 || s.SQL.E == 0 {
				ids[h] = append(ids[h], a.ID)
			}
		case w < 54:
			do([]any{"settle", h, pickID(h)})
		case w < 70:
			do([]any{"failatt", h, pickID(h)})
		case w < 77:
			do([]any{"fail", h, r.intn(6)})
		case w < 82:
			do([]any{"delfailed", h})
		case w < 86:
			fo := r.intn(3) == 0
			s := do([]any{"delpay", h, fo})
			if !fo && (s.KV.E == 0 || s.SQL.E == 0) {
				inited[h] = false
				ids[h] = nil
			}
		case w < 95:
			do([]any{"fetch", h})
		default:
			do([]any{"inflight"})
		}
	}
	// closing observations: every payment and the in-flight set
	for h := 0; h < nh; h++ {
		do([]any{"fetch", h})
	}
	do([]any{"inflight"})
	return steps
}

// vGenShape draws the route content of one attempt: 1-4 hops; blinded
// attempts get a blinded tail of every length 1..N (1 = the final hop is its
// own introduction node, what routing.newRoute builds for an
// introduction-node-only path; N = the first hop is the introduction node),
// rarely without a blinding point; AMP / metadata / custom records /
// first-hop data / boundary time locks and channel ids on a minority.
// A quarter of the draws stay the plain shape of the directed witnesses.
func vGenShape(r *vrng, blinded, hasMPP bool) *vShape {
	if r.intn(4) == 0 {
		return nil
	}
	sh := &vShape{N: 1 + r.intn(4)}
	if r.intn(3) == 0 {
		sh.N = 1
	}
	if blinded {
		sh.BL = 1 + r.intn(sh.N)
		if r.intn(3) == 0 {
			sh.BL = 1
		}
		sh.NoBP = r.intn(8) == 0
		sh.ED = r.intn(len(vEDLen))
	} else {
		if hasMPP && r.intn(4) == 0 {
			sh.AMP = 1 + r.intn(4)
		}
		if r.intn(3) == 0 {
			sh.MD = 1 + r.intn(3)
		}
	}
	if r.intn(3) == 0 {
		sh.CR = 1 + r.intn(1<<sh.N-1)
		sh.CRV = r.intn(5)
	}
	if r.intn(4) == 0 {
		sh.FH = 1 + r.intn(3)
		sh.CRV = r.intn(5)
	}
	if r.intn(2) == 0 {
		sh.Fee = uint64(1 + r.intn(50))
	}
	if r.intn(6) == 0 {
		sh.TL = 1 + r.intn(6)
	}
	return sh
}

// vShapeUniverse enumerates the small universe of route shapes: hops 1..3
// (thorough: 1..4) x
// blinded tail length 0..N x introduction hop with / without blinding point x
// {bare, every optional field set}.  Non-blinded shapes alternate between an
// MPP final hop and (for "bare") a single-shot attempt.
type vShapeCase struct {
	name    string
	blinded bool
	mpp     bool
	sh      *vShape
}

func vShapeUniverse() []vShapeCase {
	var out []vShapeCase
	nmax := 3
	if vTier() == "thorough" {
		nmax = 4
	}
	for n := 1; n <= nmax; n++ {
		for bl := 0; bl <= n; bl++ {
			for _, nobp := range []bool{false, true} {
				if bl == 0 && nobp {
					continue
				}
				for full := 0; full < 2; full++ {
					sh := &vShape{N: n, BL: bl, NoBP: nobp}
					c := vShapeCase{blinded: bl > 0, mpp: bl == 0,
						sh: sh}
					if full == 1 {
						sh.CR = 1<<n - 1
						sh.CRV = n + bl
						sh.FH = 3
						sh.Fee = 7
						sh.ED = 1 + (n+bl)%4
						sh.TL = n + bl
						if bl == 0 {
							sh.AMP = 1 + n
							sh.MD = n
						}
					}
					c.name = "n" + strconv.Itoa(n) + "bl" +
						strconv.Itoa(bl)
					if nobp {
						c.name += "nobp"
					}
					if full == 1 {
						c.name += "full"
					}
					out = append(out, c)
				}
			}
		}
	}
	return out
}

// vShapeHistory: the multi-shard history run for every shape of the universe:
// a 1000 msat payment split 400 + 600 with the SAME shape (second shard
// registered while the first is in flight; reaches the amount exactly), a
// shard announcing a different total (blinded: total_amt_msat, MPP: total),
// a shard of the other kind (mixed blinded / non-blinded), an overflowing
// shard, then fail one shard, re-send its amount, settle everything.
func vShapeHistory(c vShapeCase) [][]any {
	const v = uint64(1000)
	reg := func(id, amt uint64, blinded, mpp bool, total uint64,
		sh *vShape) []any {

		bt, mt := uint64(0), uint64(0)
		if blinded {
			bt = total
		}
		if mpp {
			mt = total
		}
		return []any{"reg", 0, id, amt, mpp, uint64(1), mt, blinded, bt, sh}
	}
	other := &vShape{N: c.sh.N, BL: 0}
	if !c.blinded {
		other = &vShape{N: c.sh.N, BL: 1}
	}
	return [][]any{
		{"init", 0, v},
		reg(0, 400, c.blinded, c.mpp, v, c.sh),
		{"fetch", 0},
		reg(1, 600, c.blinded, c.mpp, v, c.sh),
		{"inflight"},
		{"failatt", 0, uint64(1)},
		reg(2, 1, c.blinded, c.mpp, v+1, c.sh),
		reg(3, 1, !c.blinded, !c.mpp, v, other),
		reg(4, 601, c.blinded, c.mpp, v, c.sh),
		reg(5, 600, c.blinded, c.mpp, v, c.sh),
		{"fetch", 0},
		{"settle", 0, uint64(0)},
		{"settle", 0, uint64(5)},
		{"fetch", 0},
		{"inflight"},
	}
}

// Directed histories: the witnesses of the Coq theorems
// C16_backends_differ_* (Payments/Props.v), replayed on the real stores on
// every run so that the model's KV/SQL differences stay tied to the code.
func vDirected() [][][]any {
	reg := func(h int, id, amt uint64) []any {
		return []any{"reg", h, id, amt, true, uint64(1), uint64(1000), false,
			uint64(0)}
	}
	return [][][]any{
		// W1: duplicate attempt id inside one payment.
		{{"init", 0, uint64(1000)}, reg(0, 1, 400), reg(0, 1, 300),
			{"fetch", 0}},
		// W2: attempt id re-used after it failed (KV: new shard is born
		// failed, SQL: rejected).
		{{"init", 0, uint64(1000)}, reg(0, 1, 400), {"failatt", 0, uint64(1)},
			reg(0, 1, 600), {"fetch", 0}},
		// W3: same attempt id in two payments.
		{{"init", 0, uint64(1000)}, {"init", 1, uint64(1000)},
			reg(0, 1, 400), reg(1, 1, 400), {"fetch", 1}},
		// W4: settle through the wrong payment hash.
		{{"init", 0, uint64(1000)}, {"init", 1, uint64(1000)},
			reg(0, 1, 400), {"settle", 1, uint64(1)}, {"fetch", 0},
			{"fetch", 1}},
		// W5: error classes on unknown payments / resolved attempts.
		{{"reg", 0, uint64(1), uint64(5), true, uint64(1), uint64(1000), false,
			uint64(0)}, {"delpay", 0, false}, {"delfailed", 0},
			{"init", 0, uint64(1000)}, reg(0, 1, 400),
			{"failatt", 0, uint64(1)}, {"failatt", 0, uint64(1)},
			{"settle", 0, uint64(1)}, reg(0, 2, 400),
			{"settle", 0, uint64(2)}, {"settle", 0, uint64(2)},
			{"failatt", 0, uint64(2)}},
		// W6: fixed-width wrap of sentAmt+amt (documented domain guard).
		{{"init", 0, uint64(1000)}, reg(0, 1, 600),
			reg(0, 2, ^uint64(0)-199), {"fetch", 0}},
	}
}

func TestVerifPayments(t *testing.T) {
	out := vOpenOut()
	defer out.close()
	master := vNewRng(vSeed())
	ncases := vCases(150, 1500)
	chunk := int(vEnvInt("VERIF_CHUNK", 40))

	var st *vStores
	ci := 0
	// directed witnesses first
	st = vNewStores(t)
	for wi, ops := range vDirected() {
		var steps []vStep
		for _, op := range ops {
			steps = append(steps, vExec(st, ci, 2, op))
		}
		out.emit(map[string]any{"case": ci, "mode": "witness", "w": wi + 1,
			"steps": steps})
		ci++
	}
	// the enumerated universe of route shapes, each under the multi-shard
	// history
	for _, sc := range vShapeUniverse() {
		var steps []vStep
		for _, op := range vShapeHistory(sc) {
			steps = append(steps, vExec(st, ci, 1, op))
		}
		out.emit(map[string]any{"case": ci, "mode": "shape",
			"shape": sc.name, "steps": steps,
			"query": vQuery(st, ci)})
		ci++
	}
	// directed finding case C16-F4 (judged by props/c16.py under its own
	// signature): a custom record key >= 2^63 at the three sites where the
	// SQL store casts record keys to int64
	{
		mppReg := func(h int, id uint64, xk int) []any {
			return []any{"reg", h, id, uint64(400), true, uint64(1),
				uint64(1000), false, uint64(0), &vShape{N: 2, XK: xk}}
		}
		var steps []vStep
		for _, op := range [][]any{
			{"init", 0, uint64(1000)}, mppReg(0, 0, 1), {"fetch", 0},
			{"init", 1, uint64(1000)}, mppReg(1, 1, 2), {"fetch", 1},
			{"init", 2, uint64(1000), true}, {"fetch", 2}} {

			steps = append(steps, vExec(st, ci, 3, op))
		}
		out.emit(map[string]any{"case": ci, "mode": "probe",
			"probe": "custom-record-key>=2^63", "steps": steps})
		ci++
	}
	for n := 0; n < ncases; n++ {
		if n%chunk == 0 {
			st = vNewStores(t)
		}
		r := master.fork(uint64(n))
		mode := "disc"
		switch x := r.intn(20); {
		case x < 6:
			mode = "wild"
		case x == 6:
			mode = "wrap"
		}
		nops := 6 + r.intn(30)
		if r.intn(10) == 0 {
			nops = 40 + r.intn(40)
		}
		steps := vGenCase(st, r, ci, mode, nops)
		out.emit(map[string]any{"case": ci, "mode": mode, "steps": steps,
			"query": vQuery(st, ci)})
		ci++
	}
}
