//go:build verif

package paymentsdb

// C16 correspondence harness.  The same seeded histories of payment-store
// operations are applied to the REAL KVStore (bbolt) and the REAL SQLStore
// (sqlite; the test binary is built with -tags "verif test_db_sqlite") and
// every answer (error class + projected MPPayment) is written to VERIF_OUT.
// The Coq model (Payments/Exec.v) re-runs each history on its KV and SQL
// step functions and must agree answer by answer; python additionally
// evaluates the property predicate on these traces alone.
//
// Nothing here mocks lnd code: only the paymentsdb.DB interface methods are
// called.

import (
	"context"
	"encoding/binary"
	"errors"
	"sort"
	"sync"
	"testing"
	"time"

	"github.com/lightningnetwork/lnd/kvdb"
	"github.com/lightningnetwork/lnd/lntypes"
	"github.com/lightningnetwork/lnd/lnwire"
	"github.com/lightningnetwork/lnd/record"
	"github.com/lightningnetwork/lnd/routing/route"
	"github.com/lightningnetwork/lnd/sqldb"
)

// ---- canonical error enum (must match Payments/Model.v `err` and props/c16.py)

var vErrTable = []struct {
	code int
	err  error
}{
	{2, ErrAlreadyPaid},
	{3, ErrPaymentInFlight},
	{4, ErrPaymentExists},
	{5, ErrPaymentNotInitiated},
	{6, ErrPaymentAlreadySucceeded},
	{7, ErrPaymentAlreadyFailed},
	{8, ErrAttemptAlreadySettled},
	{9, ErrAttemptAlreadyFailed},
	{10, ErrValueMismatch},
	{11, ErrValueExceedsAmt},
	{12, ErrNonMPPayment},
	{13, ErrMPPayment},
	{14, ErrMPPRecordInBlindedPayment},
	{15, ErrBlindedPaymentTotalAmountMismatch},
	{16, ErrMixedBlindedAndNonBlindedPayments},
	{17, ErrBlindedPaymentMissingTotalAmount},
	{18, ErrMPPPaymentAddrMismatch},
	{19, ErrMPPTotalAmountMismatch},
	{20, ErrPaymentPendingSettled},
	{21, ErrPaymentPendingFailed},
	{22, ErrSentExceedsTotal},
}

func vErrCode(err error) int {
	if err == nil {
		return 0
	}
	for _, e := range vErrTable {
		if errors.Is(err, e.err) {
			return e.code
		}
	}
	return 1
}

// ---- projections

type vProj struct {
	St  int      `json:"st"`
	Val uint64   `json:"val"`
	Rem uint64   `json:"rem"`
	Nif int      `json:"nif"`
	Hs  bool     `json:"hs"`
	Pf  bool     `json:"pf"`
	Fr  *int     `json:"fr"`
	At  [][3]any `json:"at"`
}

type vResp struct {
	E int       `json:"e"`
	P *vProj    `json:"p"`
	L [][2]any  `json:"l"`
	M string    `json:"m,omitempty"`
	// Ab: the call ended in a database serialization / busy / retries-
	// exceeded error (sqldb.ExecuteSQLTransactionWithRetry rolls such a
	// transaction back: the operation did not happen).  Only expected under
	// concurrency (verif_concurrent_test.go).
	Ab bool `json:"ab,omitempty"`
}

func vProject(p *MPPayment, idBase uint64) *vProj {
	if p == nil {
		return nil
	}
	pr := &vProj{St: int(p.Status), Val: uint64(p.Info.Value)}
	if p.State != nil {
		pr.Rem = uint64(p.State.RemainingAmt)
		pr.Nif = p.State.NumAttemptsInFlight
		pr.Hs = p.State.HasSettledHTLC
		pr.Pf = p.State.PaymentFailed
	}
	if p.FailureReason != nil {
		r := int(*p.FailureReason)
		pr.Fr = &r
	}
	hs := make([]HTLCAttempt, len(p.HTLCs))
	copy(hs, p.HTLCs)
	sort.SliceStable(hs, func(i, j int) bool {
		return hs[i].AttemptID < hs[j].AttemptID
	})
	pr.At = [][3]any{}
	for _, h := range hs {
		out := 0
		// Same precedence as decidePaymentStatus: Failure first.
		if h.Failure != nil {
			out = 2
		} else if h.Settle != nil {
			out = 1
		}
		pr.At = append(pr.At, [3]any{
			h.AttemptID - idBase, uint64(h.Route.ReceiverAmt()), out,
		})
	}
	return pr
}

// ---- one pair of stores

type vStores struct {
	kv  DB
	sql DB
}

func vNewStores(t *testing.T) *vStores {
	backend, cleanup, err := kvdb.GetTestBackend(t.TempDir(), "vkv")
	if err != nil {
		t.Fatalf("kv backend: %v", err)
	}
	t.Cleanup(cleanup)
	kv, err := NewKVStore(backend)
	if err != nil {
		t.Fatalf("kv store: %v", err)
	}
	// With -tags test_db_sqlite NewTestDB builds an SQLStore on sqlite.
	sq, _ := NewTestDB(t)
	if _, ok := sq.(*SQLStore); !ok {
		t.Fatalf("NewTestDB did not return an SQLStore (%T): build with "+
			"-tags test_db_sqlite", sq)
	}
	return &vStores{kv: kv, sql: sq}
}

var (
	vKeyMu  sync.Mutex
	vKeyCtr uint64
)

// vSessionKey returns a fresh valid secp256k1 scalar: SQL has a UNIQUE
// constraint on session keys which must not interfere with the histories.
func vSessionKey() [32]byte {
	vKeyMu.Lock()
	vKeyCtr++
	c := vKeyCtr
	vKeyMu.Unlock()
	var k [32]byte
	k[0] = 1
	binary.BigEndian.PutUint64(k[24:], c)
	return k
}

type vAtt struct {
	ID      uint64 // small id
	Amt     uint64
	HasMPP  bool
	Addr    uint64
	Total   uint64
	Blinded bool
	BTotal  uint64
}

func vHash(ci int, h int) lntypes.Hash {
	var x lntypes.Hash
	binary.BigEndian.PutUint32(x[0:4], uint32(ci))
	x[4] = byte(h)
	x[5] = 0xC1
	x[6] = 0x6
	return x
}

func vMakeAttempt(hash lntypes.Hash, idBase uint64, a vAtt) *HTLCAttemptInfo {
	hop := &route.Hop{
		PubKeyBytes:  vertex,
		ChannelID:    1,
		AmtToForward: lnwire.MilliSatoshi(a.Amt),
		TotalAmtMsat: lnwire.MilliSatoshi(a.BTotal),
	}
	if a.HasMPP {
		var addr [32]byte
		binary.BigEndian.PutUint64(addr[:8], a.Addr)
		hop.MPP = record.NewMPP(lnwire.MilliSatoshi(a.Total), addr)
	}
	if a.Blinded {
		hop.EncryptedData = []byte{2, 2, 2}
	}
	hh := hash
	return &HTLCAttemptInfo{
		AttemptID:  idBase + a.ID,
		sessionKey: vSessionKey(),
		Route: route.Route{
			SourcePubKey:  vertex,
			TotalTimeLock: 100,
			TotalAmount:   lnwire.MilliSatoshi(a.Amt),
			Hops:          []*route.Hop{hop},
		},
		AttemptTime: time.Unix(1700000000, 0),
		Hash:        &hh,
	}
}

// vApply executes one op on one store and projects the answer.
// op encodings (JSON arrays):
//
//	["init",h,value] ["reg",h,id,amt,hasMpp,addr,total,blinded,btotal]
//	["settle",h,id] ["failatt",h,id] ["fail",h,reason] ["delfailed",h]
//	["delpay",h,failedOnly] ["fetch",h] ["inflight"]
func vApply(db DB, ci int, nh int, op []any) vResp {
	ctx := context.Background()
	idBase := uint64(ci) << 8
	gi := func(i int) int {
		switch v := op[i].(type) {
		case int:
			return v
		case uint64:
			return int(v)
		case bool:
			if v {
				return 1
			}
			return 0
		}
		panic("bad op field")
	}
	gu := func(i int) uint64 {
		switch v := op[i].(type) {
		case int:
			return uint64(v)
		case uint64:
			return v
		}
		panic("bad op field")
	}
	var (
		p   *MPPayment
		err error
	)
	switch op[0].(string) {
	case "init":
		h := vHash(ci, gi(1))
		err = db.InitPayment(ctx, h, &PaymentCreationInfo{
			PaymentIdentifier: h,
			Value:             lnwire.MilliSatoshi(gu(2)),
			CreationTime:      time.Unix(1700000000, 0),
			PaymentRequest:    []byte("verif"),
		})
	case "reg":
		h := vHash(ci, gi(1))
		a := vAtt{
			ID: gu(2), Amt: gu(3), HasMPP: op[4].(bool), Addr: gu(5),
			Total: gu(6), Blinded: op[7].(bool), BTotal: gu(8),
		}
		p, err = db.RegisterAttempt(ctx, h, vMakeAttempt(h, idBase, a))
	case "settle":
		var pre lntypes.Preimage
		pre[0] = 7
		p, err = db.SettleAttempt(ctx, vHash(ci, gi(1)), idBase+gu(2),
			&HTLCSettleInfo{
				Preimage:   pre,
				SettleTime: time.Unix(1700000100, 0),
			})
	case "failatt":
		p, err = db.FailAttempt(ctx, vHash(ci, gi(1)), idBase+gu(2),
			&HTLCFailInfo{
				Reason:   HTLCFailInternal,
				FailTime: time.Unix(1700000100, 0),
			})
	case "fail":
		p, err = db.Fail(ctx, vHash(ci, gi(1)), FailureReason(gi(2)))
	case "delfailed":
		err = db.DeleteFailedAttempts(ctx, vHash(ci, gi(1)))
	case "delpay":
		err = db.DeletePayment(ctx, vHash(ci, gi(1)), op[2].(bool))
	case "fetch":
		p, err = db.FetchPayment(ctx, vHash(ci, gi(1)))
	case "inflight":
		var ps []*MPPayment
		ps, err = db.FetchInFlightPayments(ctx)
		r := vResp{E: vErrCode(err), L: [][2]any{}}
		if err != nil && (sqldb.IsSerializationError(err) ||
			errors.Is(err, sqldb.ErrRetriesExceeded)) {

			r.Ab = true
		}
		if err != nil {
			r.M = err.Error()
			if len(r.M) > 160 {
				r.M = r.M[:160]
			}
		}
		type ent struct {
			h int
			p *vProj
		}
		var es []ent
		for _, q := range ps {
			id := q.Info.PaymentIdentifier
			if int(binary.BigEndian.Uint32(id[0:4])) != ci ||
				id[5] != 0xC1 {

				continue
			}
			es = append(es, ent{int(id[4]), vProject(q, idBase)})
		}
		sort.Slice(es, func(i, j int) bool { return es[i].h < es[j].h })
		for _, e := range es {
			r.L = append(r.L, [2]any{e.h, e.p})
		}
		return r
	default:
		panic("unknown op")
	}
	r := vResp{E: vErrCode(err), L: [][2]any{}}
	if err != nil && (sqldb.IsSerializationError(err) ||
		errors.Is(err, sqldb.ErrRetriesExceeded)) {

		r.Ab = true
	}
	if err != nil && r.E == 1 {
		m := err.Error()
		if len(m) > 160 {
			m = m[:160]
		}
		r.M = m
	}
	if err == nil {
		r.P = vProject(p, idBase)
	} else if p != nil {
		// A payment returned next to an error would be an unmodelled
		// observable: surface it.
		r.M = "payment returned with error"
		r.P = vProject(p, idBase)
	}
	return r
}

type vStep struct {
	Op  []any          `json:"op"`
	KV  vResp          `json:"kv"`
	SQL vResp          `json:"sql"`
	Pre map[string]int `json:"pre,omitempty"`
}

// vPre observes, for InitPayment only, the status the payment had just
// before the call (0 = unknown payment) so that the init-gate predicate
// does not depend on any bookkeeping outside the implementation.
func vPre(st *vStores, ci int, op []any) map[string]int {
	if op[0].(string) != "init" {
		return nil
	}
	h := vHash(ci, op[1].(int))
	get := func(db DB) int {
		p, err := db.FetchPayment(context.Background(), h)
		if err != nil || p == nil {
			return 0
		}
		return int(p.Status)
	}
	return map[string]int{"kv": get(st.kv), "sql": get(st.sql)}
}

func vExec(st *vStores, ci int, nh int, op []any) vStep {
	s := vStep{Op: op, Pre: vPre(st, ci, op)}
	s.KV = vApply(st.kv, ci, nh, op)
	s.SQL = vApply(st.sql, ci, nh, op)
	return s
}

// vGenCase generates and executes one history.  mode "disc": attempt ids
// are globally fresh and settles/fails target (hash, id) pairs that belong
// together (what the router does); mode "wild": ids from a tiny pool,
// reused across payments, arbitrary (hash,id) targets; mode "wrap": amounts
// near 2^64 to tie the model's fixed-width arithmetic.
func vGenCase(st *vStores, r *vrng, ci int, mode string, nops int) []vStep {
	nh := 2 + r.intn(2)
	vals := []uint64{1000, 1000, 1000, 1, 0, 7, 1001, 4000}
	baseVal := make([]uint64, nh)
	for i := range baseVal {
		baseVal[i] = vals[r.intn(len(vals))]
	}
	curVal := make([]uint64, nh) // value of the last successful init
	inited := make([]bool, nh)
	ids := make([][]uint64, nh) // ids registered per hash (disc mode)
	fresh := uint64(0)
	// "style" of a payment's shards, so that most registrations are
	// mutually consistent.
	style := make([]int, nh) // 0 single-shot 1 mpp 2 blinded
	for i := range style {
		style[i] = r.intn(3)
		if r.intn(3) == 0 {
			style[i] = 1
		}
	}
	var steps []vStep
	do := func(op []any) vStep {
		s := vExec(st, ci, nh, op)
		steps = append(steps, s)
		return s
	}
	remaining := func(h int) (uint64, bool) {
		p, err := st.kv.FetchPayment(context.Background(), vHash(ci, h))
		if err != nil || p.State == nil {
			return 0, false
		}
		return uint64(p.State.RemainingAmt), true
	}
	pickID := func(h int) uint64 {
		if mode == "wild" {
			return uint64(r.intn(5))
		}
		if len(ids[h]) > 0 && r.intn(8) != 0 {
			// bias to recent ids
			if r.bool() {
				return ids[h][len(ids[h])-1]
			}
			return ids[h][r.intn(len(ids[h]))]
		}
		return 200 + uint64(r.intn(3)) // never registered anywhere
	}
	for len(steps) < nops {
		h := r.intn(nh)
		if !inited[h] && r.intn(10) < 7 {
			// mostly start payments before using them
			v := baseVal[h]
			s := do([]any{"init", h, v})
			if s.KV.E == 0 || s.SQL.E == 0 {
				inited[h] = true
				curVal[h] = v
				ids[h] = nil
			}
			continue
		}
		w := r.intn(100)
		// Do not let a terminated payment soak up the rest of the history
		// with refusals: usually restart (Failed) or delete it.
		if q, err := st.kv.FetchPayment(context.Background(),
			vHash(ci, h)); err == nil && q.Terminated() && r.intn(10) < 6 {

			if q.Status == StatusFailed || r.intn(3) == 0 {
				w = 0
			} else {
				w = 83
			}
		}
		switch {
		case w < 8:
			v := baseVal[h]
			if r.intn(4) == 0 {
				v = vals[r.intn(len(vals))]
			}
			if mode == "wrap" && r.intn(3) == 0 {
				v = (uint64(1) << 63) + uint64(r.intn(3))
			}
			s := do([]any{"init", h, v})
			if s.KV.E == 0 || s.SQL.E == 0 {
				inited[h] = true
				curVal[h] = v
				ids[h] = nil
			}
		case w < 42:
			v := curVal[h]
			rem, ok := remaining(h)
			if !ok {
				rem = v
			}
			var amt uint64
			switch r.intn(10) {
			case 0:
				amt = rem
			case 1:
				amt = rem + 1
			case 2:
				if rem > 0 {
					amt = rem - 1
				}
			case 3:
				amt = v
			case 4:
				amt = 0
			case 5:
				amt = 1
			case 6, 7:
				amt = v / 2
			case 8:
				amt = v/3 + 1
			default:
				amt = uint64(r.intn(int(v%5000) + 2))
			}
			if mode == "wrap" {
				switch r.intn(4) {
				case 0:
					amt = ^uint64(0) - uint64(r.intn(400))
				case 1:
					amt = (uint64(1) << 63) + uint64(r.intn(3)) - 1
				case 2:
					amt = ^uint64(0) - rem + uint64(r.intn(3))
				}
			}
			sty := style[h]
			if r.intn(7) == 0 {
				sty = r.intn(4) // 3 = blinded with an MPP record
			}
			a := vAtt{Amt: amt, Addr: 1, Total: v, BTotal: 0}
			switch sty {
			case 0:
				if r.intn(3) != 0 {
					a.Amt = v // single shot pays everything
					if r.intn(6) == 0 {
						a.Amt = v + 1
					}
				}
			case 1:
				a.HasMPP = true
				if r.intn(8) == 0 {
					a.Addr = 2
				}
				if r.intn(8) == 0 {
					a.Total = v + 1
				}
			case 2:
				a.Blinded = true
				a.BTotal = v
				if v == 0 {
					a.BTotal = 5
				}
				if r.intn(8) == 0 {
					a.BTotal = v + 1
				}
				if r.intn(10) == 0 {
					a.BTotal = 0
				}
			default:
				a.Blinded = true
				a.HasMPP = true
				a.BTotal = v
			}
			if mode != "wild" {
				a.ID = fresh
				fresh++
			} else {
				a.ID = uint64(r.intn(5))
			}
			s := do([]any{"reg", h, a.ID, a.Amt, a.HasMPP, a.Addr,
				a.Total, a.Blinded, a.BTotal})
			if s.KV.E == 0 || s.SQL.E == 0 {
				ids[h] = append(ids[h], a.ID)
			}
		case w < 54:
			do([]any{"settle", h, pickID(h)})
		case w < 70:
			do([]any{"failatt", h, pickID(h)})
		case w < 77:
			do([]any{"fail", h, r.intn(6)})
		case w < 82:
			do([]any{"delfailed", h})
		case w < 86:
			fo := r.intn(3) == 0
			s := do([]any{"delpay", h, fo})
			if !fo && (s.KV.E == 0 || s.SQL.E == 0) {
				inited[h] = false
				ids[h] = nil
			}
		case w < 95:
			do([]any{"fetch", h})
		default:
			do([]any{"inflight"})
		}
	}
	// closing observations: every payment and the in-flight set
	for h := 0; h < nh; h++ {
		do([]any{"fetch", h})
	}
	do([]any{"inflight"})
	return steps
}

// Directed histories: the witnesses of the Coq theorems
// C16_backends_differ_* (Payments/Props.v), replayed on the real stores on
// every run so that the model's KV/SQL differences stay tied to the code.
func vDirected() [][][]any {
	reg := func(h int, id, amt uint64) []any {
		return []any{"reg", h, id, amt, true, uint64(1), uint64(1000), false,
			uint64(0)}
	}
	return [][][]any{
		// W1: duplicate attempt id inside one payment.
		{{"init", 0, uint64(1000)}, reg(0, 1, 400), reg(0, 1, 300),
			{"fetch", 0}},
		// W2: attempt id re-used after it failed (KV: new shard is born
		// failed, SQL: rejected).
		{{"init", 0, uint64(1000)}, reg(0, 1, 400), {"failatt", 0, uint64(1)},
			reg(0, 1, 600), {"fetch", 0}},
		// W3: same attempt id in two payments.
		{{"init", 0, uint64(1000)}, {"init", 1, uint64(1000)},
			reg(0, 1, 400), reg(1, 1, 400), {"fetch", 1}},
		// W4: settle through the wrong payment hash.
		{{"init", 0, uint64(1000)}, {"init", 1, uint64(1000)},
			reg(0, 1, 400), {"settle", 1, uint64(1)}, {"fetch", 0},
			{"fetch", 1}},
		// W5: error classes on unknown payments / resolved attempts.
		{{"reg", 0, uint64(1), uint64(5), true, uint64(1), uint64(1000), false,
			uint64(0)}, {"delpay", 0, false}, {"delfailed", 0},
			{"init", 0, uint64(1000)}, reg(0, 1, 400),
			{"failatt", 0, uint64(1)}, {"failatt", 0, uint64(1)},
			{"settle", 0, uint64(1)}, reg(0, 2, 400),
			{"settle", 0, uint64(2)}, {"settle", 0, uint64(2)},
			{"failatt", 0, uint64(2)}},
		// W6: fixed-width wrap of sentAmt+amt (documented domain guard).
		{{"init", 0, uint64(1000)}, reg(0, 1, 600),
			reg(0, 2, ^uint64(0)-199), {"fetch", 0}},
	}
}

func TestVerifPayments(t *testing.T) {
	out := vOpenOut()
	defer out.close()
	master := vNewRng(vSeed())
	ncases := vCases(150, 1500)
	chunk := int(vEnvInt("VERIF_CHUNK", 40))

	var st *vStores
	ci := 0
	// directed witnesses first
	st = vNewStores(t)
	for wi, ops := range vDirected() {
		var steps []vStep
		for _, op := range ops {
			steps = append(steps, vExec(st, ci, 2, op))
		}
		out.emit(map[string]any{"case": ci, "mode": "witness", "w": wi + 1,
			"steps": steps})
		ci++
	}
	for n := 0; n < ncases; n++ {
		if n%chunk == 0 {
			st = vNewStores(t)
		}
		r := master.fork(uint64(n))
		mode := "disc"
		switch x := r.intn(20); {
		case x < 6:
			mode = "wild"
		case x == 6:
			mode = "wrap"
		}
		nops := 6 + r.intn(30)
		if r.intn(10) == 0 {
			nops = 40 + r.intn(40)
		}
		steps := vGenCase(st, r, ci, mode, nops)
		out.emit(map[string]any{"case": ci, "mode": mode, "steps": steps})
		ci++
	}
}
