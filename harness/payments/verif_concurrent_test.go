//go:build verif

package paymentsdb

// C16 concurrent harness.  Seeded PROGRAMS of 2-4 goroutines x 3-8 payment
// store operations each (over 1-2 payment hashes and a small attempt-id
// pool) are run on the REAL KVStore (bbolt) and the REAL SQLStore (sqlite).
// All goroutines of a program are released together by a barrier; every
// operation records (goroutine, op, invoke time, return time, projected
// answer) with ONE global atomic clock.  Nothing is decided here: the
// histories go to VERIF_OUT_CONC and props/c16.py
//   - decides linearisability of every history against the Coq model
//     (Payments/Model.v `step`, extracted to OCaml; every witness order is
//     re-validated by the Coq kernel), and
//   - evaluates model-independent safety predicates on the raw traces.
//
// Only paymentsdb.DB interface methods are called (through vApply of
// verif_store_test.go, which must be injected next to this file).

import (
	"bufio"
	"encoding/json"
	"os"
	"runtime"
	"sync"
	"sync/atomic"
	"testing"
	"time"
)

// vccRec is one completed operation of a concurrent history.
type vccRec struct {
	G   int   `json:"g"` // goroutine; -1 = sequential setup, -2 = closing observation
	Op  []any `json:"op"`
	Inv int64 `json:"inv"`
	Ret int64 `json:"ret"`
	R   vResp `json:"r"`
}

type vccProg struct {
	mode  string
	nh    int
	vals  []uint64
	setup [][]any
	gs    [][][]any // per goroutine: ops
	final [][]any
}

// vccClock is the global logical clock: one tick per invoke / return event.
var vccClock int64

func vccTick() int64 { return atomic.AddInt64(&vccClock, 1) }

// vccShard builds the register op of one shard of payment h.
// style 0: MPP (addr 1, total = value); 1: blinded (total = value);
// 2: MPP with a different total (ErrMPPTotalAmountMismatch against siblings).
func vccShard(h int, id, amt, val uint64, style int) []any {
	// route content (verif_store_test.go vShape), a fixed function of the
	// attempt id: plain, final hop = introduction node, longer blinded
	// tails, custom records / AMP / first-hop data
	var sh *vShape
	switch style {
	case 1:
		bt := val
		if bt == 0 {
			bt = 5
		}
		switch id % 5 {
		case 1:
			sh = &vShape{N: 1, BL: 1}
		case 2:
			sh = &vShape{N: 2, BL: 1, Fee: 3}
		case 3:
			sh = &vShape{N: 3, BL: 2, CR: 5, ED: 3}
		case 4:
			sh = &vShape{N: 2, BL: 2, FH: 3, CRV: 2}
		}
		return []any{"reg", h, id, amt, false, uint64(0), uint64(0), true,
			bt, sh}
	case 2:
		return []any{"reg", h, id, amt, true, uint64(1), val + 1, false,
			uint64(0), sh}
	}
	switch id % 4 {
	case 1:
		sh = &vShape{N: 2, CR: 2, CRV: 1, Fee: 5}
	case 2:
		sh = &vShape{N: 3, AMP: 2, MD: 1, FH: 1}
	}
	return []any{"reg", h, id, amt, true, uint64(1), val, false, uint64(0), sh}
}

// vccGen generates one program.  mode "disc": every register op owns a
// program-wide fresh attempt id and settle/fail ops address an id through the
// hash it was generated for (C16_refinement_partial's discipline; holds in
// every interleaving because the binding id -> hash is static).  mode "wild":
// ids from a pool of 3 shared by all payments, arbitrary (hash,id) targets.
func vccGen(r *vrng) *vccProg {
	p := &vccProg{mode: "disc"}
	if r.intn(100) < 15 {
		p.mode = "wild"
	}
	p.nh = 1
	if r.intn(100) < 35 {
		p.nh = 2
	}
	valPool := []uint64{1000, 1000, 1000, 1000, 1000, 10, 7, 1}
	style := make([]int, p.nh)
	for h := 0; h < p.nh; h++ {
		p.vals = append(p.vals, valPool[r.intn(len(valPool))])
		if r.intn(5) == 0 {
			style[h] = 1
		}
	}
	fresh := uint64(0)
	ids := make([][]uint64, p.nh) // ids generated for hash h so far (program text order)
	newID := func(h int) uint64 {
		if p.mode == "wild" {
			return uint64(r.intn(3))
		}
		id := fresh
		fresh++
		ids[h] = append(ids[h], id)
		return id
	}
	amtOf := func(h int) uint64 {
		v := p.vals[h]
		switch x := r.intn(100); {
		case x < 35:
			return v * 6 / 10 // two of them exceed the amount
		case x < 52:
			return v * 4 / 10 // 60 % + 40 % reach it exactly
		case x < 67:
			return v / 2
		case x < 77:
			return v
		case x < 82:
			return 1
		case x < 87:
			if v > 0 {
				return v - 1
			}
			return 0
		case x < 92:
			return v + 1
		default:
			return v * 3 / 10
		}
	}
	reg := func(h int) []any {
		st := style[h]
		if r.intn(12) == 0 {
			st = r.intn(3)
		}
		return vccShard(h, newID(h), amtOf(h), p.vals[h], st)
	}
	target := func(h int, own []uint64) (int, uint64) {
		if p.mode == "wild" {
			return r.intn(p.nh), uint64(r.intn(3))
		}
		if len(own) > 0 && r.intn(10) < 6 {
			return h, own[len(own)-1-r.intn(len(own))%len(own)]
		}
		if len(ids[h]) > 0 && r.intn(10) < 8 {
			return h, ids[h][r.intn(len(ids[h]))]
		}
		return h, 200 + uint64(r.intn(2)) // never registered anywhere
	}

	// ---- sequential setup (recorded like every other op)
	for h := 0; h < p.nh; h++ {
		v := p.vals[h]
		s := r.intn(100)
		if s < 12 {
			continue // unknown payment: the goroutines race on the first init
		}
		p.setup = append(p.setup, []any{"init", h, v})
		switch {
		case s < 45:
		case s < 62: // one shard of 40 % in flight
			p.setup = append(p.setup, vccShard(h, newID(h), v*4/10, v, style[h]))
		case s < 80: // Failed payment: the goroutines race on re-initiation
			id := newID(h)
			p.setup = append(p.setup, vccShard(h, id, v*4/10, v, style[h]),
				[]any{"failatt", h, id}, []any{"fail", h, r.intn(5)})
		case s < 86: // Succeeded payment
			id := newID(h)
			p.setup = append(p.setup, vccShard(h, id, v, v, style[h]),
				[]any{"settle", h, id})
		case s < 93: // fully in flight (60 % + 40 %)
			p.setup = append(p.setup,
				vccShard(h, newID(h), v*6/10, v, style[h]),
				vccShard(h, newID(h), v-v*6/10, v, style[h]))
		default: // failure reason recorded while a shard is in flight
			p.setup = append(p.setup, vccShard(h, newID(h), v/2, v, style[h]),
				[]any{"fail", h, r.intn(5)})
		}
	}

	// ---- concurrent part
	ng := 2 + r.intn(3)
	for g := 0; g < ng; g++ {
		n := 3 + r.intn(6)
		var ops [][]any
		own := make([][]uint64, p.nh)
		// Goroutine "personalities" make the interesting races likely: a
		// registrar (register/resolve) against a janitor (delete/re-init,
		// whose KV operations are single short transactions while the
		// registrar's go through bbolt's 10 ms batch) against a failer.
		// Weights are cumulative thresholds for the switch below.
		pers := r.intn(8)
		for len(ops) < n {
			h := r.intn(p.nh)
			w := r.intn(100)
			switch pers {
			case 0, 1: // registrar
				w = []int{0, 0, 0, 0, 0, 0, 34, 40, 50, 97}[r.intn(10)]
			case 2, 3: // janitor
				w = []int{70, 70, 80, 80, 85, 85, 85, 90, 92, 0}[r.intn(10)]
			case 4: // failer
				w = []int{60, 60, 60, 70, 70, 92, 0, 50, 85, 40}[r.intn(10)]
			}
			switch {
			case w < 34:
				o := reg(h)
				own[h] = append(own[h], o[2].(uint64))
				ops = append(ops, o)
			case w < 46:
				th, id := target(h, own[h])
				ops = append(ops, []any{"settle", th, id})
			case w < 60:
				th, id := target(h, own[h])
				ops = append(ops, []any{"failatt", th, id})
			case w < 68:
				ops = append(ops, []any{"fail", h, r.intn(5)})
			case w < 79:
				ops = append(ops, []any{"init", h, p.vals[h]})
			case w < 84:
				ops = append(ops, []any{"delfailed", h})
			case w < 89:
				ops = append(ops, []any{"delpay", h, false})
			case w < 91:
				ops = append(ops, []any{"delpay", h, true})
			case w < 98:
				ops = append(ops, []any{"fetch", h})
			default:
				ops = append(ops, []any{"inflight"})
			}
		}
		p.gs = append(p.gs, ops)
	}
	for h := 0; h < p.nh; h++ {
		p.final = append(p.final, []any{"fetch", h})
	}
	p.final = append(p.final, []any{"inflight"})
	return p
}

// vccRun executes one program on one store and returns the history.
func vccRun(db DB, ci int, p *vccProg, jit *vrng) []vccRec {
	var (
		mu  sync.Mutex
		out []vccRec
	)
	do := func(g int, op []any) {
		inv := vccTick()
		r := vApply(db, ci, p.nh, op)
		ret := vccTick()
		mu.Lock()
		out = append(out, vccRec{G: g, Op: op, Inv: inv, Ret: ret, R: r})
		mu.Unlock()
	}
	for _, op := range p.setup {
		do(-1, op)
	}
	start := make(chan struct{})
	var wg sync.WaitGroup
	for g := range p.gs {
		g := g
		// Per-goroutine jitter plan, fixed before the start: 0 = none,
		// 1 = yield, 2 = short sleep.  (The schedule itself is of course
		// not reproducible; the recorded history is the replay.)
		plan := make([]int, len(p.gs[g]))
		for i := range plan {
			plan[i] = jit.intn(4)
		}
		wg.Add(1)
		go func() {
			defer wg.Done()
			<-start
			for i, op := range p.gs[g] {
				switch plan[i] {
				case 1:
					runtime.Gosched()
				case 2:
					time.Sleep(time.Duration(200+100*g) * time.Microsecond)
				}
				do(g, op)
			}
		}()
	}
	close(start)
	wg.Wait()
	for _, op := range p.final {
		do(-2, op)
	}
	return out
}

type vccOut struct {
	mu sync.Mutex
	f  *os.File
	w  *bufio.Writer
}

func (o *vccOut) emit(v any) {
	b, err := json.Marshal(v)
	if err != nil {
		panic(err)
	}
	o.mu.Lock()
	o.w.Write(b)
	o.w.WriteByte('\n')
	o.mu.Unlock()
}

func TestVerifPaymentsConc(t *testing.T) {
	path := os.Getenv("VERIF_OUT_CONC")
	if path == "" {
		path = os.DevNull
	}
	f, err := os.Create(path)
	if err != nil {
		t.Fatal(err)
	}
	out := &vccOut{f: f, w: bufio.NewWriterSize(f, 1<<20)}
	defer func() {
		out.w.Flush()
		f.Close()
	}()

	master := vNewRng(vSeed() ^ 0xC16C0C)
	nprog := int(vEnvInt("VERIF_CONC_CASES", int64(vCases(300, 3000))))
	if vEnvInt("VERIF_CASES", -1) >= 0 && vEnvInt("VERIF_CONC_CASES", -1) < 0 {
		nprog = vCases(300, 3000)
	}
	workers := int(vEnvInt("VERIF_CONC_WORKERS", 4))
	chunk := int(vEnvInt("VERIF_CONC_CHUNK", 30))

	// Programs are generated up front (deterministic in the seed), then
	// executed by a few workers, each owning its own pair of stores.
	progs := make([]*vccProg, nprog)
	for i := range progs {
		progs[i] = vccGen(master.fork(uint64(i)))
	}
	var next int64 = -1
	var wg sync.WaitGroup
	for w := 0; w < workers; w++ {
		wg.Add(1)
		go func() {
			defer wg.Done()
			var st *vStores
			done := 0
			for {
				i := int(atomic.AddInt64(&next, 1))
				if i >= nprog {
					return
				}
				if done%chunk == 0 {
					st = vNewStores(t)
				}
				done++
				p := progs[i]
				jr := master.fork(uint64(1<<32 + i))
				var kv, sq []vccRec
				var w2 sync.WaitGroup
				w2.Add(2)
				go func() { defer w2.Done(); kv = vccRun(st.kv, i, p, jr.fork(1)) }()
				go func() { defer w2.Done(); sq = vccRun(st.sql, i, p, jr.fork(2)) }()
				w2.Wait()
				out.emit(map[string]any{
					"case": i, "mode": p.mode, "nh": p.nh, "vals": p.vals,
					"ng": len(p.gs), "kv": kv, "sql": sq,
				})
			}
		}()
	}
	wg.Wait()
}
