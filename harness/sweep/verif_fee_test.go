//go:build verif

package sweep

// C18 correspondence harness.  Drives the REAL sweep fee function
// (NewLinearFeeFunction / Increment / IncreaseFeeRate / feeRateAtPosition),
// chainfee.NewSatPerKWeight, and the real TxPublisher (createAndCheckTx,
// createRBFCompliantTx, handleInitialBroadcast, processRecords ->
// handleFeeBumpTx) with fake wallet / estimator / notifier / signer, on seeded
// and boundary inputs; every observable is written to VERIF_OUT as JSONL.
// The Coq model (Sweep/Exec.v) re-computes every row float-for-float.

import (
	"errors"
	"fmt"
	"testing"

	"github.com/btcsuite/btcd/blockchain"
	"github.com/btcsuite/btcd/btcec/v2"
	"github.com/btcsuite/btcd/btcec/v2/ecdsa"
	"github.com/btcsuite/btcd/btcutil/v2"
	"github.com/btcsuite/btcd/chainhash/v2"
	"github.com/btcsuite/btcd/wire/v2"
	"github.com/btcsuite/btcwallet/chain"
	"github.com/lightningnetwork/lnd/chainntnfs"
	"github.com/lightningnetwork/lnd/fn/v2"
	"github.com/lightningnetwork/lnd/input"
	"github.com/lightningnetwork/lnd/keychain"
	"github.com/lightningnetwork/lnd/lntypes"
	"github.com/lightningnetwork/lnd/lnwallet"
	"github.com/lightningnetwork/lnd/lnwallet/chainfee"
)

var (
	errVEst     = errors.New("verif: estimator failure")
	errVMempool = errors.New("verif: mempool rejects (non-fee)")
)

func vErrCode(err error) int {
	switch {
	case err == nil:
		return 0
	case errors.Is(err, ErrMaxPosition):
		return 1
	case errors.Is(err, ErrZeroFeeRateDelta):
		return 2
	case errors.Is(err, errVEst):
		return 3
	case errors.Is(err, ErrFeePreferenceTooLow):
		return 4
	case errors.Is(err, ErrNotEnoughInputs):
		return 5
	case errors.Is(err, ErrTxNoOutput):
		return 6
	case errors.Is(err, ErrNotEnoughBudget):
		return 7
	case errors.Is(err, errVMempool):
		return 8
	}
	return 99
}

// ---- fakes -----------------------------------------------------------

type vEst struct {
	relay chainfee.SatPerKWeight
	ans   chainfee.SatPerKWeight
	fail  bool
	calls int
}

func (e *vEst) EstimateFeePerKW(uint32) (chainfee.SatPerKWeight, error) {
	e.calls++
	if e.fail {
		return 0, errVEst
	}
	return e.ans, nil
}
func (e *vEst) Start() error                          { return nil }
func (e *vEst) Stop() error                           { return nil }
func (e *vEst) RelayFeePerKW() chainfee.SatPerKWeight { return e.relay }

// vSigner produces witnesses of the REAL (maximal) size of every input kind,
// so that the weight of the serialized tx (blockchain.GetTransactionWeight) is
// the weight the sweeper's estimator promises and the fee rate a published tx
// actually pays can be computed from the tx itself.
type vSigner struct{ input.Signer }

// witness type of every input the harness created (by outpoint)
var vWT = map[wire.OutPoint]input.WitnessType{}

func (vSigner) ComputeInputScript(tx *wire.MsgTx, sd *input.SignDescriptor) (
	*input.Script, error) {

	wt, ok := vWT[tx.TxIn[sd.InputIndex].PreviousOutPoint]
	if !ok {
		wt = input.WitnessKeyHash // wallet utxo (p2wkh)
	}
	switch wt {
	case input.TaprootPubKeySpend:
		n := 64
		if sd.HashType != 0 {
			n = 65
		}
		return &input.Script{Witness: wire.TxWitness{make([]byte, n)}}, nil
	case input.NestedWitnessKeyHash:
		return &input.Script{
			Witness:   wire.TxWitness{make([]byte, 73), make([]byte, 33)},
			SigScript: make([]byte, 23),
		}, nil
	}
	return &input.Script{
		Witness: wire.TxWitness{make([]byte, 73), make([]byte, 33)},
	}, nil
}

// a 72-byte DER signature (+1 sighash byte = the 73 bytes the size constants
// assume): both scalars have their top bit set
func (vSigner) SignOutputRaw(*wire.MsgTx, *input.SignDescriptor) (
	input.Signature, error) {

	var b [32]byte
	for i := range b {
		b[i] = 0x81
	}
	b[0] = 0xf0
	var r, sc btcec.ModNScalar
	r.SetBytes(&b)
	b[31] = 0x7f
	sc.SetBytes(&b)
	return ecdsa.NewSignature(&r, &sc), nil
}

// vWallet scripts testmempoolaccept verdicts and records every tx handed to
// CheckMempoolAcceptance / PublishTransaction.
type vWallet struct {
	Wallet
	verdicts  []int // 0 accept, 1 fee-related, 2 other
	next      int
	checked   []*wire.MsgTx
	cverdicts []int
	published []*wire.MsgTx
	utxos     []*lnwallet.Utxo
}

func (w *vWallet) CheckMempoolAcceptance(tx *wire.MsgTx) error {
	v := 0
	if w.next < len(w.verdicts) {
		v = w.verdicts[w.next]
	}
	w.next++
	w.checked = append(w.checked, tx)
	w.cverdicts = append(w.cverdicts, v)
	switch v {
	case 0:
		return nil
	case 1:
		return chain.ErrInsufficientFee
	}
	return errVMempool
}
func (w *vWallet) PublishTransaction(tx *wire.MsgTx, _ string) error {
	w.published = append(w.published, tx)
	return nil
}
func (w *vWallet) BackEnd() string { return "bitcoind" }
func (w *vWallet) ListUnspentWitnessFromDefaultAccount(int32, int32) (
	[]*lnwallet.Utxo, error) {

	return w.utxos, nil
}

type vNotifier struct{ chainntnfs.ChainNotifier }

func (vNotifier) RegisterSpendNtfn(*wire.OutPoint, []byte, uint32) (
	*chainntnfs.SpendEvent, error) {

	return &chainntnfs.SpendEvent{
		Spend:  make(chan *chainntnfs.SpendDetail, 1),
		Cancel: func() {},
	}, nil
}

// vReqInput is an input that commits to a required output (second-level
// HTLC style) and/or to a transaction locktime.
type vReqInput struct {
	*input.BaseInput
	req *wire.TxOut
	lt  int64 // -1: none
}

func (v *vReqInput) RequiredTxOut() *wire.TxOut { return v.req }
func (v *vReqInput) RequiredLockTime() (uint32, bool) {
	if v.lt < 0 {
		return 0, false
	}
	return uint32(v.lt), true
}

// vFixedFee is a FeeFunction stub returning a fixed rate (used only to feed
// createAndCheckTx a chosen rate).
type vFixedFee struct{ rate chainfee.SatPerKWeight }

func (f *vFixedFee) FeeRate() chainfee.SatPerKWeight      { return f.rate }
func (f *vFixedFee) Increment() (bool, error)             { return false, ErrMaxPosition }
func (f *vFixedFee) IncreaseFeeRate(uint32) (bool, error) { return false, nil }

var vInputCount uint32

var vP2WKH = []byte{0x0, 0x14, 1, 2, 3, 4, 5, 6, 7, 8, 9, 10, 11, 12, 13, 14,
	15, 16, 17, 18, 19, 20}
var vP2TR = []byte{0x51, 0x20, 1, 2, 3, 4, 5, 6, 7, 8, 9, 10, 11, 12, 13, 14,
	15, 16, 17, 18, 19, 20, 21, 22, 23, 24, 25, 26, 27, 28, 29, 30, 31, 32}

// witness script length the size constants assume, per witness type
func vScriptLen(wt input.WitnessType) int {
	switch wt {
	case input.CommitmentAnchor:
		return input.AnchorScriptSize
	case input.CommitmentTimeLock:
		return input.ToLocalScriptSize
	}
	return 0
}

func vMakeInput(value int64, wt input.WitnessType, req int64) input.Input {
	return vMakeInputEx(value, wt, req, nil, -1)
}

// vMakeInputEx: value, witness type (weight class), required output value (-1
// none), unconfirmed parent (CPFP: the parent tx's fee and weight, nil none),
// required tx locktime (-1 none).
func vMakeInputEx(value int64, wt input.WitnessType, req int64,
	parent *input.TxInfo, lt int64) input.Input {

	vInputCount++
	var h chainhash.Hash
	h[0] = byte(vInputCount)
	h[1] = byte(vInputCount >> 8)
	h[2] = byte(vInputCount >> 16)
	h[3] = byte(vInputCount >> 24)
	h[31] = 0xc8
	op := wire.OutPoint{Hash: h, Index: vInputCount % 3}
	vWT[op] = wt
	b := input.MakeBaseInput(
		&op, wt,
		&input.SignDescriptor{
			Output:        &wire.TxOut{Value: value, PkScript: vP2WKH},
			KeyDesc:       keychain.KeyDescriptor{PubKey: testPubKey},
			WitnessScript: make([]byte, vScriptLen(wt)),
		}, 1, parent,
	)
	if req < 0 && lt < 0 {
		return &b
	}
	var ro *wire.TxOut
	if req >= 0 {
		ro = &wire.TxOut{Value: req, PkScript: vP2TR}
	}
	return &vReqInput{BaseInput: &b, req: ro, lt: lt}
}

type vIn struct {
	Value int64  `json:"v"`
	Req   *int64 `json:"r"`
	// attributes the model does not need (the publisher's fee arithmetic
	// must not depend on them) but the generator ranges over
	WT   string   `json:"wt,omitempty"`
	Par  *[2]int64 `json:"parent,omitempty"` // unconfirmed parent {fee, weight}
	Lock *int64   `json:"lock,omitempty"`   // required tx locktime
}

// vInView describes an input the way the JSON rows do.
func vInView(in input.Input) vIn {
	v := vIn{Value: in.SignDesc().Output.Value, WT: in.WitnessType().String()}
	if ro := in.RequiredTxOut(); ro != nil {
		rv := ro.Value
		v.Req = &rv
	}
	if p := in.UnconfParent(); p != nil {
		v.Par = &[2]int64{int64(p.Fee), int64(p.Weight)}
	}
	if lt, ok := in.RequiredLockTime(); ok {
		l := int64(lt)
		v.Lock = &l
	}
	return v
}

// vTxView projects a tx to the observables: which requested input each
// TxIn spends (index into the request's input list, -1 unknown), and output
// values.
func vTxView(tx *wire.MsgTx, ins []input.Input) map[string]any {
	idx := make(map[wire.OutPoint]int)
	for i, in := range ins {
		idx[in.OutPoint()] = i
	}
	var is []int
	for _, ti := range tx.TxIn {
		j, ok := idx[ti.PreviousOutPoint]
		if !ok {
			j = -1
		}
		is = append(is, j)
	}
	outs := []int64{}
	for _, o := range tx.TxOut {
		outs = append(outs, o.Value)
	}
	// measured on the transaction itself: weight of the serialized tx, fee
	// = real input values - outputs, nLockTime
	var tin, tout int64
	for _, ti := range tx.TxIn {
		if j, ok := idx[ti.PreviousOutPoint]; ok {
			tin += ins[j].SignDesc().Output.Value
		}
	}
	for _, o := range tx.TxOut {
		tout += o.Value
	}
	return map[string]any{"ins": is, "outs": outs,
		"txw":      blockchain.GetTransactionWeight(btcutil.NewTx(tx)),
		"txfee":    tin - tout,
		"locktime": tx.LockTime}
}

func vPublisher(est *vEst, w *vWallet) *TxPublisher {
	return NewTxPublisher(TxPublisherConfig{
		Estimator:  est,
		Signer:     vSigner{},
		Wallet:     w,
		Notifier:   vNotifier{},
		AuxSweeper: fn.None[AuxSweeper](),
	})
}

// ---- generators --------------------------------------------------------

func vPickRate(r *vrng) int64 {
	switch r.intn(6) {
	case 0:
		return r.rng(1, 2000)
	case 1:
		return r.rng(250, 260)
	case 2:
		return r.rng(1000, 1_000_000)
	case 3:
		return r.rng(1_000_000, 1_000_000_000)
	case 4:
		return r.rng(1, 1<<40)
	}
	return r.rng(253, 50_000)
}

func vPickConf(r *vrng) uint32 {
	switch r.intn(10) {
	case 0:
		return uint32(r.intn(3)) // 0,1,2
	case 1:
		return uint32(r.rng(1006, 1010))
	case 2:
		return uint32(r.rng(1000, 5000))
	case 3:
		return uint32(r.rng(1<<31, 1<<32-1))
	case 4, 5:
		return uint32(r.rng(2, 8))
	}
	return uint32(r.rng(2, 200))
}

func vOpt(v int64, some bool) any {
	if !some {
		return nil
	}
	return v
}

// vFFCase drives NewLinearFeeFunction and an op sequence.
func vFFCase(r *vrng, out *vWriter, ci int) {
	maxr := vPickRate(r)
	conf := vPickConf(r)
	relay := int64(253)
	switch r.intn(5) {
	case 0:
		relay = r.rng(1, 3000)
	case 1:
		relay = maxr + r.rng(-1, 1)
	}
	if relay < 0 {
		relay = 0
	}
	if r.intn(40) == 0 {
		maxr = 0
	}
	est := &vEst{relay: chainfee.SatPerKWeight(relay)}
	// estimator answer: around relay, around maxr, in between, error
	switch r.intn(12) {
	case 0:
		est.fail = true
	case 1:
		est.ans = chainfee.SatPerKWeight(relay + r.rng(-1, 1))
	case 2:
		est.ans = chainfee.SatPerKWeight(maxr + r.rng(-1, 1))
	case 3:
		est.ans = chainfee.SatPerKWeight(maxr + r.rng(1, 1<<20))
	default:
		if maxr > relay {
			est.ans = chainfee.SatPerKWeight(r.rng(relay, maxr))
		} else {
			est.ans = chainfee.SatPerKWeight(relay)
		}
	}
	if est.ans < 0 {
		est.ans = 0
	}
	startOpt := fn.None[chainfee.SatPerKWeight]()
	var startV int64
	hasStart := false
	sw := r.intn(20)
	switch {
	case sw < 6:
		// supplied start within [0, maxr]
		hasStart = true
		switch r.intn(8) {
		case 0:
			startV = maxr
		case 1:
			startV = maxr - 1
		case 2:
			startV = 0
		default:
			startV = r.rng(0, maxr)
		}
	case sw == 6:
		// supplied start ABOVE the ceiling (walletrpc BumpFee can do
		// this: finding C18-F1, fixed by lnd commit 1567bc7) - kept
		// as regression input: must start AT the ceiling
		hasStart = true
		startV = maxr + r.rng(1, 1+maxr)
	}
	if startV < 0 {
		startV = 0
	}
	// rounding boundary family: (end-start)*1000/width ends in .5 msat or
	// delta*p/1000 ends in .5 sat
	if r.intn(6) == 0 && conf >= 3 && conf < 4000 {
		w := int64(conf - 1)
		hasStart = true
		k := r.rng(1, 9)
		switch r.intn(3) {
		case 0:
			startV = maxr - k*w/2
		case 1:
			startV = maxr - (k*w+1)/2
		default:
			startV = maxr - k
		}
		if startV < 0 {
			startV = 0
		}
	}
	if hasStart {
		startOpt = fn.Some(chainfee.SatPerKWeight(startV))
	}

	row := map[string]any{
		"kind": "ff", "case": ci, "maxr": maxr, "conf": conf,
		"relay": relay, "ans": vOpt(int64(est.ans), !est.fail),
		"start": vOpt(startV, hasStart),
	}
	f, err := NewLinearFeeFunction(
		chainfee.SatPerKWeight(maxr), conf, est, startOpt,
	)
	if err != nil {
		row["init"] = map[string]any{"err": vErrCode(err)}
		row["ops"] = []any{}
		row["estcalls"] = est.calls
		out.emit(row)
		return
	}
	row["init"] = map[string]any{
		"err": 0, "rate": int64(f.FeeRate()), "delta": int64(f.deltaFeeRate),
		"width": f.width, "start": int64(f.startingFeeRate),
		"end": int64(f.endingFeeRate),
	}
	// op sequence: blocks arriving (conf target decreasing, with skips and
	// occasional stale/greater targets), interleaved Increments.
	var ops [][]any
	cur := int64(conf)
	nops := 4 + r.intn(30)
	maxErrs := 0
	for i := 0; i < nops && maxErrs < 3; i++ {
		switch r.intn(10) {
		case 0, 1, 2:
			inc, err := f.Increment()
			ops = append(ops, []any{"inc", inc, vErrCode(err),
				int64(f.FeeRate()), f.position})
			if err != nil {
				maxErrs++
			}
		default:
			// next block(s)
			step := int64(1)
			switch r.intn(8) {
			case 0:
				step = r.rng(2, 5)
			case 1:
				step = cur / 2
			case 2:
				step = cur - 1 // jump to conf target 1
			case 3:
				step = -r.rng(0, 3) // stale / reorged height
			}
			if int64(conf) > 5000 && r.intn(2) == 0 {
				step = cur / 3
			}
			cur -= step
			if cur < 0 {
				cur = 0
			}
			if cur > 1<<32-1 {
				cur = 1<<32 - 1
			}
			inc, err := f.IncreaseFeeRate(uint32(cur))
			ops = append(ops, []any{"conf", cur, inc, vErrCode(err),
				int64(f.FeeRate()), f.position})
			if err != nil {
				maxErrs++
			}
		}
	}
	// always finish by the block before the deadline (conf target 1) and
	// the deadline itself, so that "reaches the ceiling" is observed
	for _, c := range []int64{1, 0} {
		inc, err := f.IncreaseFeeRate(uint32(c))
		ops = append(ops, []any{"conf", c, inc, vErrCode(err),
			int64(f.FeeRate()), f.position})
	}
	row["ops"] = ops
	row["estcalls"] = est.calls
	out.emit(row)
}

// vRateCase ties feeRateAtPosition and NewSatPerKWeight directly on a grid.
func vRateCase(r *vrng, out *vWriter, ci int) {
	if r.intn(3) == 0 {
		budget := r.rng(0, 1<<uint(10+r.intn(35)))
		size := r.rng(1, 400_000)
		if r.intn(3) == 0 {
			size = r.rng(400, 2000)
		}
		rate := chainfee.NewSatPerKWeight(
			btcutil.Amount(budget), lntypes.WeightUnit(size),
		)
		out.emit(map[string]any{"kind": "nspk", "case": ci,
			"budget": budget, "size": size, "rate": int64(rate)})
		return
	}
	end := vPickRate(r)
	start := r.rng(0, end)
	width := int64(vPickConf(r))
	if width < 1 {
		width = 1
	}
	var delta int64
	switch r.intn(4) {
	case 0:
		// exactly what NewLinearFeeFunction would compute
		delta = int64(btcutil.Amount(end - start).MulF64(
			1000 / float64(uint32(width))))
	case 1:
		// .5 boundaries: delta*p/1000 = k + 0.5
		delta = 500 * (2*r.rng(0, 50) + 1)
	case 2:
		delta = r.rng(0, 1<<uint(5+r.intn(36))) // <= 2^40: the proved domain (no int64 overflow of delta*p/1000)
	default:
		delta = r.rng(0, 5000)
	}
	f := &LinearFeeFunction{
		startingFeeRate: chainfee.SatPerKWeight(start),
		endingFeeRate:   chainfee.SatPerKWeight(end),
		currentFeeRate:  chainfee.SatPerKWeight(start),
		width:           uint32(width),
		deltaFeeRate:    mSatPerKWeight(delta),
	}
	var obs [][]int64
	seen := map[int64]bool{}
	add := func(p int64) {
		if p < 0 || p > 1<<32-1 || seen[p] {
			return
		}
		seen[p] = true
		obs = append(obs, []int64{p, int64(f.feeRateAtPosition(uint32(p)))})
	}
	for p := int64(0); p < 6; p++ {
		add(p)
	}
	add(width - 2)
	add(width - 1)
	add(width)
	add(width + 1)
	for i := 0; i < 10; i++ {
		add(r.rng(0, width))
	}
	out.emit(map[string]any{"kind": "rate", "case": ci, "start": start,
		"end": end, "width": width, "delta": delta, "obs": obs})
}

// one witness type per weight class the fakes can sign for: wallet-style key
// spends (p2wkh, p2tr, nested p2wkh), the commitment anchor (CPFP), to_remote
// (tweakless p2wkh) and the CSV-delayed to_local script spend
var vWitnessTypes = []input.WitnessType{
	input.WitnessKeyHash, input.TaprootPubKeySpend,
	input.NestedWitnessKeyHash, input.CommitmentAnchor,
	input.CommitSpendNoDelayTweakless, input.CommitmentTimeLock,
}

// vPickParent: an unconfirmed parent (CPFP) whose own fee rate is far below,
// around, or far above anything the sweep will offer.
func vPickParent(r *vrng) *input.TxInfo {
	w := r.rng(400, 4000)
	var rate int64
	switch r.intn(4) {
	case 0:
		rate = r.rng(0, 253)
	case 1:
		rate = r.rng(253, 3500)
	case 2:
		rate = r.rng(3000, 300_000)
	default:
		rate = r.rng(200, 1200)
	}
	return &input.TxInfo{Fee: btcutil.Amount(rate * w / 1000),
		Weight: lntypes.WeightUnit(w)}
}

// vMakeInputs builds 1..4 inputs; returns inputs + their JSON view.  lock >=
// 0: inputs that require a tx locktime all require this one.
func vMakeInputs(r *vrng, allowReq bool) ([]input.Input, []vIn) {
	return vMakeInputsL(r, allowReq, -1)
}

func vMakeInputsL(r *vrng, allowReq bool, lock int64) ([]input.Input, []vIn) {
	n := 1 + r.intn(4)
	var ins []input.Input
	var view []vIn
	for i := 0; i < n; i++ {
		val := r.rng(300, 200_000)
		switch r.intn(10) {
		case 0, 1:
			val = r.rng(1, 1<<uint(10+r.intn(30)))
		case 2:
			val = r.rng(0, 330) // zero / dust valued
		}
		req := int64(-1)
		if allowReq && r.intn(4) == 0 {
			req = val - r.rng(0, 10)
			if req < 0 {
				req = 0
			}
		}
		wt := vWitnessTypes[r.intn(len(vWitnessTypes))]
		var parent *input.TxInfo
		if r.intn(4) == 0 || (wt == input.CommitmentAnchor && r.intn(3) != 0) {
			parent = vPickParent(r)
		}
		lt := int64(-1)
		if lock >= 0 && r.intn(4) == 0 {
			lt = lock
		}
		in := vMakeInputEx(val, wt, req, parent, lt)
		ins = append(ins, in)
		view = append(view, vInView(in))
	}
	return ins, view
}

func vSums(view []vIn) (tin, treq int64) {
	for _, v := range view {
		tin += v.Value
		if v.Req != nil {
			treq += *v.Req
		}
	}
	return
}

// vTxCase drives createAndCheckTx (prepareSweepTx + createSweepTx + budget
// guard + testmempoolaccept) at a chosen fee rate, with amounts placed at the
// comparison boundaries.
func vTxCase(r *vrng, out *vWriter, ci int) {
	ins, view := vMakeInputs(r, true)
	addr := lnwallet.AddrWithKey{DeliveryAddress: vP2WKH}
	if r.bool() {
		addr = lnwallet.AddrWithKey{DeliveryAddress: vP2TR}
	}
	floor := int64(lnwallet.DustLimitForSize(len(addr.DeliveryAddress)))
	weight, err := calcSweepTxWeight(ins, [][]byte{addr.DeliveryAddress})
	if err != nil {
		panic(err)
	}
	rate := vPickRate(r)
	if rate > 1<<24 {
		rate = rate >> 16
	}
	if rate < 1 {
		rate = 1
	}
	fee := rate * int64(weight) / 1000
	tin, treq := vSums(view)
	// Re-balance the first non-required input so that the change lands on
	// a boundary: change in {-1,0,1} (not enough inputs), {floor-1,
	// floor, floor+1} (dust), or random.
	adj := -1
	for i, v := range view {
		if v.Req == nil {
			adj = i
			break
		}
	}
	if adj >= 0 && r.intn(3) != 0 {
		// make the adjusted input a p2wkh spend first so that the
		// weight (hence the fee) is fixed before balancing
		ins[adj] = vMakeInput(view[adj].Value, vWitnessTypes[0], -1)
		view[adj] = vInView(ins[adj])
		weight, _ = calcSweepTxWeight(ins, [][]byte{addr.DeliveryAddress})
		fee = rate * int64(weight) / 1000
		var want int64
		switch r.intn(4) {
		case 0:
			want = r.rng(-1, 1)
		case 1:
			want = floor + r.rng(-1, 1)
		case 2:
			want = r.rng(0, 2*floor)
		default:
			want = r.rng(floor, 100_000)
		}
		others := tin - view[adj].Value
		nv := treq + fee + want - others
		if nv >= 1 {
			ins[adj] = vMakeInput(nv, vWitnessTypes[0], -1)
			view[adj] = vInView(ins[adj])
		}
		tin, treq = vSums(view)
	}
	// budget around the fee the tx will report
	budget := fee + r.rng(-2, 2)
	switch r.intn(4) {
	case 0:
		budget = r.rng(0, 2*fee+10)
	case 1:
		// dust-to-fee case: reported fee = fee + change
		ch := tin - treq - fee
		if ch >= 0 && ch < floor {
			budget = fee + ch + r.rng(-1, 1)
		}
	}
	if budget < 0 {
		budget = 0
	}
	w := &vWallet{verdicts: []int{[]int{0, 0, 0, 1, 2}[r.intn(5)]}}
	tp := vPublisher(&vEst{relay: 253, ans: 253}, w)
	tp.currentHeight.Store(800_000)
	req := &BumpRequest{
		Budget: btcutil.Amount(budget), Inputs: ins,
		DeliveryAddress: addr, DeadlineHeight: 800_100,
		MaxFeeRate: chainfee.SatPerKWeight(1 << 50),
	}
	rec := &monitorRecord{requestID: 1, req: req,
		feeFunction: &vFixedFee{rate: chainfee.SatPerKWeight(rate)}}
	sctx, err := tp.createAndCheckTx(rec)
	row := map[string]any{"kind": "tx", "case": ci, "ins": view,
		"weight": int64(weight), "rate": rate, "floor": floor,
		"budget": budget, "verdicts": w.cverdicts,
		"err": vErrCode(err)}
	if err != nil && vErrCode(err) == 99 && !errors.Is(err, chain.ErrInsufficientFee) {
		row["errstr"] = err.Error()
	}
	if errors.Is(err, chain.ErrInsufficientFee) {
		row["err"] = 9
	}
	if sctx != nil && sctx.tx != nil {
		row["fee"] = int64(sctx.fee)
		row["tx"] = vTxView(sctx.tx, ins)
	}
	out.emit(row)
}

// vPubCase drives the real TxPublisher end to end: Broadcast(Immediate) ->
// handleInitialBroadcast, then blocks via processRecords -> handleFeeBumpTx.
func vPubCase(r *vrng, out *vWriter, ci int, finding bool) {
	// some inputs commit to a tx locktime that has already been reached
	lock := int64(-1)
	if r.intn(3) == 0 {
		lock = r.rng(1, 99)
	}
	ins, view := vMakeInputsL(r, r.intn(3) == 0, lock)
	addr := lnwallet.AddrWithKey{DeliveryAddress: vP2TR}
	if r.bool() {
		addr = lnwallet.AddrWithKey{DeliveryAddress: vP2WKH}
	}
	floor := int64(lnwallet.DustLimitForSize(len(addr.DeliveryAddress)))
	weight, err := calcSweepTxWeight(ins, [][]byte{addr.DeliveryAddress})
	if err != nil {
		panic(err)
	}
	tin, treq := vSums(view)
	spendable := tin - treq
	if spendable < 0 {
		spendable = 0
	}
	budget := r.rng(0, spendable+10)
	switch r.intn(4) {
	case 0:
		budget = spendable / 2
	case 1:
		budget = r.rng(100, 5000)
	}
	maxrate := int64(250_000) // DefaultMaxFeeRate 1000 sat/vb
	switch r.intn(4) {
	case 0:
		maxrate = r.rng(253, 5000)
	case 1:
		// near the budget rate so both arms of MaxFeeRateAllowed occur
		maxrate = budget*1000/int64(weight) + r.rng(-2, 2)
	}
	if maxrate < 1 {
		maxrate = 1
	}
	h0 := int32(r.rng(100, 800_000))
	dl := int64(h0) + int64(vPickConf(r)%3000)
	if r.intn(12) == 0 {
		dl = int64(h0) - r.rng(0, 3)
	}
	relay := int64(253)
	if r.intn(6) == 0 {
		relay = r.rng(1, 2000)
	}
	est := &vEst{relay: chainfee.SatPerKWeight(relay)}
	switch r.intn(6) {
	case 0:
		est.ans = chainfee.SatPerKWeight(relay + r.rng(-1, 1))
	case 1:
		est.ans = chainfee.SatPerKWeight(r.rng(relay, 1<<22))
	case 2:
		est.fail = r.intn(3) == 0
		est.ans = chainfee.SatPerKWeight(relay)
	default:
		est.ans = chainfee.SatPerKWeight(r.rng(relay, relay+3000))
	}
	startOpt := fn.None[chainfee.SatPerKWeight]()
	hasStart := false
	var startV int64
	if r.intn(4) == 0 {
		hasStart = true
		startV = r.rng(relay, relay+2000)
	}
	if finding {
		// walletrpc.BumpFee passes SatPerVbyte as StartingFeeRate with
		// no clamp against the sweeper's MaxFeeRate.
		hasStart = true
		startV = maxrate + r.rng(1, maxrate)
		if budget*1000/int64(weight) <= startV {
			budget = (startV*int64(weight)/1000 + 10) * 2
			if budget > spendable {
				// give the set enough value to pay it
				need := budget - spendable + 1000
				view[len(view)-1].Value += need
				ins[len(ins)-1] = vMakeInput(
					view[len(view)-1].Value,
					vWitnessTypes[0], -1,
				)
				view[len(view)-1] = vInView(ins[len(ins)-1])
				weight, _ = calcSweepTxWeight(ins,
					[][]byte{addr.DeliveryAddress})
				tin, treq = vSums(view)
				budget = (startV*int64(weight)/1000 + 10) * 2
			}
		}
	}
	if hasStart {
		startOpt = fn.Some(chainfee.SatPerKWeight(startV))
	}
	nv := 1 + r.intn(6)
	var verdicts []int
	for i := 0; i < nv+40; i++ {
		v := 0
		switch r.intn(8) {
		case 0, 1:
			v = 1
		case 2:
			if r.intn(4) == 0 {
				v = 2
			}
		}
		verdicts = append(verdicts, v)
	}
	w := &vWallet{verdicts: verdicts}
	tp := vPublisher(est, w)
	tp.currentHeight.Store(h0)
	req := &BumpRequest{
		Budget: btcutil.Amount(budget), Inputs: ins,
		DeliveryAddress: addr, DeadlineHeight: int32(dl),
		MaxFeeRate:      chainfee.SatPerKWeight(maxrate),
		StartingFeeRate: startOpt, Immediate: true,
	}
	row := map[string]any{"kind": "pub", "case": ci, "ins": view,
		"weight": int64(weight), "floor": floor, "budget": budget,
		"maxrate": maxrate, "h0": h0, "deadline": dl, "relay": relay,
		"ans": vOpt(int64(est.ans), !est.fail),
		"start": vOpt(startV, hasStart), "finding_gen": finding}

	var events []map[string]any
	snap := func(h int32, ch <-chan *BumpResult) bool {
		ev := map[string]any{"h": h}
		var res *BumpResult
		select {
		case res = <-ch:
		default:
		}
		nc, np := len(w.checked), len(w.published)
		_ = nc
		ev["verdicts"] = append([]int{}, w.cverdicts...)
		w.cverdicts = nil
		var chk []any
		for _, tx := range w.checked {
			chk = append(chk, vTxView(tx, ins))
		}
		w.checked = nil
		ev["checked"] = chk
		var pubs []any
		for _, tx := range w.published {
			pubs = append(pubs, vTxView(tx, ins))
		}
		w.published = nil
		_ = np
		ev["published"] = pubs
		alive := false
		tp.records.ForEach(func(_ uint64, rec *monitorRecord) error {
			alive = true
			if rec.feeFunction != nil {
				ev["rate"] = int64(rec.feeFunction.FeeRate())
				if lf, ok := rec.feeFunction.(*LinearFeeFunction); ok {
					ev["pos"] = lf.position
					ev["end"] = int64(lf.endingFeeRate)
					ev["width"] = lf.width
					ev["delta"] = int64(lf.deltaFeeRate)
					ev["fstart"] = int64(lf.startingFeeRate)
				}
			}
			ev["recfee"] = int64(rec.fee)
			return nil
		})
		ev["alive"] = alive
		if res != nil {
			ev["event"] = res.Event.String()
			ev["reserr"] = vErrCode(res.Err)
			ev["resrate"] = int64(res.FeeRate)
			ev["resfee"] = int64(res.Fee)
		}
		events = append(events, ev)
		return alive
	}

	ch := tp.Broadcast(req)
	alive := snap(h0, ch)
	h := h0
	for b := 0; alive && b < 14; b++ {
		step := int32(1)
		switch r.intn(8) {
		case 0:
			step = int32(r.rng(2, 4)) // skipped heights
		case 1:
			if int64(h) < dl-1 {
				step = int32(dl-1) - h // jump to deadline-1
			}
		case 2:
			step = 0 // same height again
		}
		h += step
		tp.currentHeight.Store(h)
		tp.processRecords()
		tp.wg.Wait()
		alive = snap(h, ch)
	}
	// finish at deadline-1 and the deadline
	for _, hh := range []int64{dl - 1, dl} {
		if alive && int64(h) < hh && hh < 1<<31 {
			h = int32(hh)
			tp.currentHeight.Store(h)
			tp.processRecords()
			tp.wg.Wait()
			alive = snap(h, ch)
		}
	}
	row["events"] = events
	out.emit(row)
}

// vSetCase drives BudgetInputSet: NeedWalletInput / AddWalletInputs / Budget.
func vSetCase(r *vrng, out *vWriter, ci int) {
	n := 1 + r.intn(4)
	var sins []SweeperInput
	type bv struct {
		V int64 `json:"v"`
		B int64 `json:"b"`
		R bool  `json:"r"`
	}
	var view []bv
	for i := 0; i < n; i++ {
		val := r.rng(330, 100_000)
		budget := val / int64(1+r.intn(4))
		switch r.intn(6) {
		case 0:
			budget = val + r.rng(-1, 1)
		case 1:
			budget = val + r.rng(1, 50_000)
		case 2:
			budget = 0
		}
		if budget < 0 {
			budget = 0
		}
		req := int64(-1)
		if r.intn(2) == 0 {
			req = val
		}
		sins = append(sins, SweeperInput{
			Input:  vMakeInput(val, vWitnessTypes[r.intn(3)], req),
			params: Params{Budget: btcutil.Amount(budget)},
		})
		view = append(view, bv{val, budget, req >= 0})
	}
	set, err := NewBudgetInputSet(sins, 1000, fn.None[AuxSweeper]())
	if err != nil {
		panic(err)
	}
	// deficit of the set, to place utxo values at the boundary
	var needed, borrow int64
	for _, v := range view {
		if v.R {
			needed += v.B
		} else {
			borrow += v.V - v.B
		}
	}
	deficit := needed - borrow
	m := r.intn(5)
	var utxos []*lnwallet.Utxo
	var uvals []int64
	for i := 0; i < m; i++ {
		uv := r.rng(1, 60_000)
		if deficit > 0 && r.intn(2) == 0 {
			uv = deficit/int64(1+r.intn(2)) + r.rng(-1, 1)
		}
		if uv < 1 {
			uv = 1
		}
		vInputCount++
		var h chainhash.Hash
		h[0], h[1], h[2], h[31] = byte(vInputCount), byte(vInputCount>>8),
			byte(vInputCount>>16), 0xee
		utxos = append(utxos, &lnwallet.Utxo{
			AddressType: []lnwallet.AddressType{lnwallet.WitnessPubKey,
				lnwallet.NestedWitnessPubKey,
				lnwallet.TaprootPubkey}[r.intn(3)],
			Value:    btcutil.Amount(uv),
			PkScript: vP2WKH,
			OutPoint: wire.OutPoint{Hash: h},
		})
		uvals = append(uvals, uv)
	}
	w := &vWallet{utxos: utxos}
	need0 := set.NeedWalletInput()
	code := 0
	if need0 {
		code = vErrCode(set.AddWalletInputs(w))
	}
	var after []bv
	for _, in := range set.inputs {
		after = append(after, bv{in.SignDesc().Output.Value,
			int64(in.params.Budget), in.RequiredTxOut() != nil})
	}
	out.emit(map[string]any{"kind": "set", "case": ci, "ins": view,
		"utxos": uvals, "need0": need0, "err": code, "after": after,
		"need1": set.NeedWalletInput(), "budget": int64(set.Budget())})
}

// vWestCase drives the sweeper's weightEstimator directly: inputs of every
// weight class, some with unconfirmed parents (shared parent txs, parent fee
// rate below / equal / above the sweep's rate), fee() vs feeWithParent() with
// and without a max fee rate.
func vWestCase(r *vrng, out *vWriter, ci int) {
	rate := r.rng(1, 60_000)
	if r.intn(3) == 0 {
		rate = r.rng(253, 3000)
	}
	maxr := int64(0)
	switch r.intn(4) {
	case 0:
		maxr = rate + r.rng(-2, 2)
	case 1:
		maxr = r.rng(1, 2*rate)
	case 2:
		maxr = r.rng(rate, 100*rate)
	}
	if maxr < 0 {
		maxr = 0
	}
	we := newWeightEstimator(chainfee.SatPerKWeight(rate), chainfee.SatPerKWeight(maxr))
	n := 1 + r.intn(4)
	var ps []any
	var hashes []chainhash.Hash
	var keys []int64
	for i := 0; i < n; i++ {
		vInputCount++
		var h chainhash.Hash
		h[0], h[1], h[2], h[3], h[31] = byte(vInputCount), byte(vInputCount>>8),
			byte(vInputCount>>16), byte(vInputCount>>24), 0xd7
		key := int64(len(hashes))
		if len(hashes) > 0 && r.intn(3) == 0 {
			// a second output of an earlier input's parent tx
			j := r.intn(len(hashes))
			key, h = keys[j], hashes[j]
		}
		hashes = append(hashes, h)
		keys = append(keys, key)
		var parent *input.TxInfo
		if r.intn(3) != 0 {
			pw := r.rng(200, 5000)
			pr := rate + r.rng(-2, 2) // at the comparison boundary
			switch r.intn(3) {
			case 0:
				pr = r.rng(0, rate)
			case 1:
				pr = r.rng(rate, 4*rate+10)
			}
			if pr < 0 {
				pr = 0
			}
			pf := pr*pw/1000 + r.rng(0, 1)
			parent = &input.TxInfo{Fee: btcutil.Amount(pf), Weight: lntypes.WeightUnit(pw)}
			ps = append(ps, []int64{key, pf, pw})
		} else {
			ps = append(ps, nil)
		}
		wt := vWitnessTypes[r.intn(len(vWitnessTypes))]
		in := input.MakeBaseInput(&wire.OutPoint{Hash: h, Index: uint32(i)}, wt,
			&input.SignDescriptor{Output: &wire.TxOut{Value: 1000, PkScript: vP2WKH}},
			1, parent)
		if err := we.add(&in); err != nil {
			panic(err)
		}
	}
	we.addP2TROutput()
	out.emit(map[string]any{"kind": "west", "case": ci, "rate": rate, "maxr": maxr,
		"weight": int64(we.weight()), "parents": ps, "fee": int64(we.fee()),
		"feewp": int64(we.feeWithParent()), "pfee": int64(we.parentsFee),
		"pweight": int64(we.parentsWeight)})
}

func TestVerifFee(t *testing.T) {
	out := vOpenOut()
	defer out.close()
	master := vNewRng(vSeed())
	nff := vCases(260, 6000)
	nrate := vCases(120, 3000)
	ntx := vCases(160, 4000)
	npub := vCases(120, 3000)
	ci := 0
	for i := 0; i < nff; i++ {
		vFFCase(master.fork(uint64(ci)), out, ci)
		ci++
	}
	for i := 0; i < nrate; i++ {
		vRateCase(master.fork(uint64(ci)), out, ci)
		ci++
	}
	for i := 0; i < ntx; i++ {
		vTxCase(master.fork(uint64(ci)), out, ci)
		ci++
	}
	for i := 0; i < npub; i++ {
		// every 15th publisher case is a regression input for the
		// fixed finding C18-F1 (supplied start above MaxFeeRate)
		vPubCase(master.fork(uint64(ci)), out, ci, i%15 == 7)
		ci++
	}
	nset := vCases(100, 3000)
	for i := 0; i < nset; i++ {
		vSetCase(master.fork(uint64(ci)), out, ci)
		ci++
	}
	nwest := vCases(80, 2000)
	for i := 0; i < nwest; i++ {
		vWestCase(master.fork(uint64(ci)), out, ci)
		ci++
	}
	// composed sweeper -> aggregator -> input set -> publisher -> fee
	// function histories (verif_sweeper_test.go)
	vSweeperCases(master, out, &ci, 128, vCases(60, 2500))
	_ = fmt.Sprintf
}
