//go:build verif

package sweep

// C18 composed harness: the REAL UtxoSweeper + BudgetAggregator +
// BudgetInputSet + TxPublisher + LinearFeeFunction wired together exactly as
// in lnd's server (sweeper -> publisher per block), with a fake wallet /
// signer / notifier / store / estimator.  Multi-block histories with failed
// first attempts (ErrZeroFeeRateDelta, ErrTxNoOutput, PublishTransaction
// errors, mempool rejections, budget exhaustion), retries in later blocks
// (alone or re-clustered with newly offered inputs), immediate sweeps,
// exclusive inputs, required-output inputs with wallet top-ups, four wallet
// backends (no testmempoolaccept: neutrino / old btcd; scripted verdicts;
// min-relay enforcing).
//
// Every BumpRequest the sweeper hands to the publisher becomes one "pub" row
// (same schema as vPubCase, so the same predicate and the same Coq model
// check apply to it); the scenario as a whole becomes one "sw" row (offers,
// blocks, requests with the per-input starting fee rates the input set was
// built from, bump results, input states).

import (
	"errors"
	"sort"
	"time"

	"github.com/btcsuite/btcd/btcutil/v2"
	"github.com/btcsuite/btcd/chainhash/v2"
	"github.com/btcsuite/btcd/rpcclient"
	"github.com/btcsuite/btcd/wire/v2"
	"github.com/btcsuite/btcwallet/chain"
	"github.com/lightningnetwork/lnd/fn/v2"
	"github.com/lightningnetwork/lnd/input"
	"github.com/lightningnetwork/lnd/lntypes"
	"github.com/lightningnetwork/lnd/lnwallet"
	"github.com/lightningnetwork/lnd/lnwallet/chainfee"
)

var errVPublish = errors.New("verif: wallet refuses to publish")

// ---- fakes -------------------------------------------------------------

type vsStore struct{ txs map[chainhash.Hash]*TxRecord }

func (s *vsStore) IsOurTx(h chainhash.Hash) bool { _, ok := s.txs[h]; return ok }
func (s *vsStore) StoreTx(tr *TxRecord) error    { s.txs[tr.Txid] = tr; return nil }
func (s *vsStore) ListSweeps() ([]chainhash.Hash, error) {
	return nil, nil
}
func (s *vsStore) GetTx(h chainhash.Hash) (*TxRecord, error) {
	tr, ok := s.txs[h]
	if !ok {
		return nil, ErrTxNotFound
	}
	return tr, nil
}
func (s *vsStore) DeleteTx(h chainhash.Hash) error { delete(s.txs, h); return nil }

const (
	vsNeutrino = 0 // CheckMempoolAcceptance -> chain.ErrUnimplemented
	vsOldBtcd  = 1 // CheckMempoolAcceptance -> rpcclient.ErrBackendVersion
	vsScripted = 2 // verdict = f(salt, tx): accept / fee-related / other
	vsMinRelay = 3 // rejects (fee-related) any tx paying less than the relay fee
)

type vsWallet struct {
	Wallet
	h *vsHarness
}

func (w *vsWallet) BackEnd() string {
	if w.h.mode == vsNeutrino {
		return "neutrino"
	}
	return "bitcoind"
}
func (w *vsWallet) WithCoinSelectLock(f func() error) error { return f() }
func (w *vsWallet) CancelRebroadcast(chainhash.Hash)        {}
func (w *vsWallet) RemoveDescendants(*wire.MsgTx) error     { return nil }
func (w *vsWallet) ListUnspentWitnessFromDefaultAccount(int32, int32) (
	[]*lnwallet.Utxo, error) {

	// AddWalletInputs sorts the slice in place: hand out a copy
	return append([]*lnwallet.Utxo{}, w.h.utxos...), nil
}
func (w *vsWallet) CheckMempoolAcceptance(tx *wire.MsgTx) error {
	return w.h.onCheck(tx)
}
func (w *vsWallet) PublishTransaction(tx *wire.MsgTx, _ string) error {
	return w.h.onPublish(tx)
}

// vsAgg is the real BudgetAggregator; only the ORDER of the returned input sets
// (Go map iteration order in ClusterInputs, semantically irrelevant) is made
// deterministic so that a history replays exactly from (seed, case).
type vsAgg struct {
	inner *BudgetAggregator
	h     *vsHarness
}

func (a *vsAgg) ClusterInputs(inputs InputsMap) []InputSet {
	sets := a.inner.ClusterInputs(inputs)
	key := func(s InputSet) int {
		m := 1 << 20
		for _, in := range s.Inputs() {
			if i, ok := a.h.opIdx[in.OutPoint()]; ok && i < m {
				m = i
			}
		}
		return m
	}
	sort.SliceStable(sets, func(i, j int) bool { return key(sets[i]) < key(sets[j]) })
	return sets
}

// ---- scenario ------------------------------------------------------------

type vsOffer struct {
	At        int    `json:"at"` // block index at which it is offered
	Value     int64  `json:"v"`
	Req       *int64 `json:"r"`
	Budget    int64  `json:"budget"`
	Deadline  *int32 `json:"deadline"` // nil: none (sweeper default)
	Start     *int64 `json:"start"`    // Params.StartingFeeRate
	Immediate bool   `json:"immediate"`
	Excl      *int64 `json:"excl"`
	Parent    *[2]int64 `json:"parent"` // unconfirmed parent {fee, weight} (CPFP)
	Lock      *int64    `json:"lock"`   // required tx locktime
	WT        string    `json:"wt"`
	wt        input.WitnessType
}

type vsBlock struct {
	H    int32 `json:"h"`
	Ans  int64 `json:"ans"`
	Fail bool  `json:"estfail"`
}

type vsScenario struct {
	Family   string    `json:"family"`
	Mode     int       `json:"backend"`
	Relay    int64     `json:"relay"`
	MaxVB    int64     `json:"maxvb"`
	Salt     uint64    `json:"salt"`
	PubFail  int       `json:"pubfail_pct"`
	PubFail1 bool      `json:"pubfail_first"`
	FeeRej   int       `json:"feerej_pct"`
	OtherRej int       `json:"otherrej_pct"`
	PubFailH []int32   `json:"pubfail_heights"` // the wallet refuses every tx at these heights
	Utxos    []int64   `json:"utxos"`
	Offers   []vsOffer `json:"offers"`
	Blocks   []vsBlock `json:"blocks"`
}

// vsReq tracks one BumpRequest made by the sweeper.
type vsReq struct {
	id     int
	reqID  uint64
	req    *BumpRequest
	real   <-chan *BumpResult
	proxy  chan *BumpResult
	insIdx []int // scenario input index per req.Inputs entry, -1 wallet input
	view   []vIn
	weight int64
	row    map[string]any
	events []map[string]any
	cur    map[string]any
	dead   bool
	sw     map[string]any // entry of the scenario row
}

type vsHarness struct {
	sc    *vsScenario
	mode  int
	est   *vEst
	s     *UtxoSweeper
	tp    *TxPublisher
	utxos []*lnwallet.Utxo
	addr  lnwallet.AddrWithKey
	floor int64

	inputs  []input.Input
	opIdx   map[wire.OutPoint]int
	opValue map[wire.OutPoint]int64
	reqs    []*vsReq
	npub    int
	height  int32
	swReqs  []any // requests of the current block (scenario row)
	swRes   []any // results of the current block
	invalid int
}

// key identifies a request independently of the order in which the sweeper
// happens to create its input sets (Go map iteration): smallest scenario input
// it sweeps, and the height.
func (vr *vsReq) key(h *vsHarness) uint64 {
	m := 1 << 20
	for _, i := range vr.insIdx {
		if i >= 0 && i < m {
			m = i
		}
	}
	return uint64(m)<<32 | uint64(uint32(h.height))
}

func (h *vsHarness) hash(a, b, c uint64) uint64 {
	r := vNewRng(h.sc.Salt ^ a*0x9e3779b97f4a7c15 ^ b*0xc2b2ae3d27d4eb4f ^ c*0x165667b19e3779f9)
	return r.u64()
}

// find the latest request whose input set is exactly the tx's input set
func (h *vsHarness) reqOf(tx *wire.MsgTx) *vsReq {
	for i := len(h.reqs) - 1; i >= 0; i-- {
		vr := h.reqs[i]
		if len(vr.req.Inputs) != len(tx.TxIn) {
			continue
		}
		set := make(map[wire.OutPoint]bool)
		for _, in := range vr.req.Inputs {
			set[in.OutPoint()] = true
		}
		ok := true
		for _, ti := range tx.TxIn {
			if !set[ti.PreviousOutPoint] {
				ok = false
				break
			}
		}
		if ok {
			return vr
		}
	}
	return nil
}

func (h *vsHarness) txFee(tx *wire.MsgTx) int64 {
	var in, out int64
	for _, ti := range tx.TxIn {
		in += h.opValue[ti.PreviousOutPoint]
	}
	for _, o := range tx.TxOut {
		out += o.Value
	}
	return in - out
}

func (h *vsHarness) ev(vr *vsReq) map[string]any {
	if vr.cur == nil {
		vr.cur = map[string]any{"h": h.height, "verdicts": []int{},
			"checked": []any{}, "published": []any{}}
	}
	return vr.cur
}

func (h *vsHarness) onCheck(tx *wire.MsgTx) error {
	vr := h.reqOf(tx)
	if vr == nil {
		panic("verif: testmempoolaccept of a tx that matches no request")
	}
	fee := h.txFee(tx)
	v := 0
	var err error
	switch h.mode {
	case vsNeutrino:
		err = chain.ErrUnimplemented
	case vsOldBtcd:
		err = rpcclient.ErrBackendVersion
	case vsScripted:
		x := int(h.hash(vr.key(h), uint64(fee), 1) % 100)
		switch {
		case x < h.sc.FeeRej:
			v, err = 1, chain.ErrInsufficientFee
		case x < h.sc.FeeRej+h.sc.OtherRej:
			v, err = 2, errVMempool
		}
	case vsMinRelay:
		if fee < h.sc.Relay*vr.weight/1000 {
			v, err = 1, chain.ErrMinRelayFeeNotMet
		}
	}
	e := h.ev(vr)
	e["verdicts"] = append(e["verdicts"].([]int), v)
	e["checked"] = append(e["checked"].([]any), vTxView(tx, vr.req.Inputs))
	return err
}

func (h *vsHarness) snapRecord(vr *vsReq, into map[string]any) bool {
	rec, ok := h.tp.records.Load(vr.reqID)
	if !ok {
		return false
	}
	if rec.feeFunction != nil {
		into["rate"] = int64(rec.feeFunction.FeeRate())
		if lf, ok := rec.feeFunction.(*LinearFeeFunction); ok {
			into["pos"] = lf.position
			into["end"] = int64(lf.endingFeeRate)
			into["width"] = lf.width
			into["delta"] = int64(lf.deltaFeeRate)
			into["fstart"] = int64(lf.startingFeeRate)
		}
	}
	into["recfee"] = int64(rec.fee)
	return true
}

func (h *vsHarness) onPublish(tx *wire.MsgTx) error {
	vr := h.reqOf(tx)
	if vr == nil {
		panic("verif: publish of a tx that matches no request")
	}
	h.npub++
	view := vTxView(tx, vr.req.Inputs)
	// the fee function state at the moment the tx is handed to the wallet
	h.snapRecord(vr, view)
	e := h.ev(vr)
	e["published"] = append(e["published"].([]any), view)
	fail := int(h.hash(vr.key(h), uint64(h.txFee(tx)), 2)%100) < h.sc.PubFail
	if h.sc.PubFail1 && h.npub == 1 {
		fail = true
	}
	for _, fh := range h.sc.PubFailH {
		if fh == h.height {
			fail = true
		}
	}
	view["puberr"] = fail
	if fail {
		return errVPublish
	}
	return nil
}

func vOptRate(o fn.Option[chainfee.SatPerKWeight]) any {
	if o.IsNone() {
		return nil
	}
	return int64(o.UnwrapOr(0))
}

// Broadcast implements Bumper: it records the request and forwards it to the
// real TxPublisher.  The sweeper gets a proxy channel which the harness
// feeds synchronously (pump), so that bump results are handled in a
// deterministic order.
func (h *vsHarness) Broadcast(req *BumpRequest) <-chan *BumpResult {
	vr := &vsReq{id: len(h.reqs), req: req,
		proxy: make(chan *BumpResult, 1),
		reqID: h.tp.requestCounter.Load() + 1}
	var starts []any
	var budget int64
	for _, in := range req.Inputs {
		op := in.OutPoint()
		idx, ok := h.opIdx[op]
		if !ok {
			idx = -1
		}
		vr.insIdx = append(vr.insIdx, idx)
		v := vInView(in)
		vr.view = append(vr.view, v)
		// the per-input starting fee rate the input set was built from
		if pi, ok := h.s.inputs[op]; ok {
			starts = append(starts, vOptRate(pi.params.StartingFeeRate))
			budget += int64(pi.params.Budget)
		} else {
			starts = append(starts, nil)
		}
	}
	w, err := calcSweepTxWeight(req.Inputs, [][]byte{req.DeliveryAddress.DeliveryAddress})
	if err != nil {
		panic(err)
	}
	vr.weight = int64(w)
	vr.row = map[string]any{"kind": "pub", "via": "sweeper", "req": vr.id,
		"ins": vr.view, "weight": vr.weight, "floor": h.floor,
		"budget": int64(req.Budget), "maxrate": int64(req.MaxFeeRate),
		"deadline": int64(req.DeadlineHeight), "relay": h.sc.Relay,
		"start": vOptRate(req.StartingFeeRate), "finding_gen": false,
		"floor_applies": true, "backend": h.mode}
	vr.sw = map[string]any{"id": vr.id, "ins": vr.insIdx, "in_starts": starts,
		"start": vOptRate(req.StartingFeeRate), "budget": int64(req.Budget),
		"in_budgets": budget, "deadline": int64(req.DeadlineHeight),
		"maxrate": int64(req.MaxFeeRate), "immediate": req.Immediate,
		"weight": vr.weight, "h": h.height}
	h.swReqs = append(h.swReqs, vr.sw)
	h.reqs = append(h.reqs, vr)
	if req.Immediate {
		h.openInitial(vr)
	}
	vr.real = h.tp.Broadcast(req)
	if req.Immediate {
		h.closeEvent(vr)
	}
	return vr.proxy
}

func (h *vsHarness) openInitial(vr *vsReq) {
	vr.row["h0"] = h.height
	vr.row["ans"] = vOpt(int64(h.est.ans), !h.est.fail)
	h.ev(vr)
}

func (h *vsHarness) closeEvent(vr *vsReq) {
	e := h.ev(vr)
	vr.cur = nil
	alive := h.snapRecord(vr, e)
	e["alive"] = alive
	if !alive {
		// the record is gone: report the state at publish time, if any
		if ps := e["published"].([]any); len(ps) > 0 {
			last := ps[len(ps)-1].(map[string]any)
			for _, k := range []string{"rate", "pos", "end", "width", "delta", "fstart", "recfee"} {
				if v, ok := last[k]; ok {
					e[k] = v
				}
			}
		}
		vr.dead = true
	}
	vr.events = append(vr.events, e)
}

// pump hands every pending publisher result to the sweeper (through its
// monitorFeeBumpResult goroutine) and lets the sweeper handle it.
func (h *vsHarness) pump() {
	for _, vr := range h.reqs {
		select {
		case res := <-vr.real:
			ent := map[string]any{"id": vr.id, "event": res.Event.String(),
				"err": vErrCode(res.Err), "rate": int64(res.FeeRate),
				"fee": int64(res.Fee), "has_tx": res.Tx != nil}
			if errors.Is(res.Err, errVPublish) {
				ent["err"] = 10
			}
			h.swRes = append(h.swRes, ent)
			if len(vr.events) > 0 {
				last := vr.events[len(vr.events)-1]
				last["event"] = res.Event.String()
				last["reserr"] = ent["err"]
				last["resrate"] = int64(res.FeeRate)
				last["resfee"] = int64(res.Fee)
			}
			if res.Validate() != nil {
				h.invalid++
				ent["invalid"] = true
				continue
			}
			vr.proxy <- res
			select {
			case resp := <-h.s.bumpRespChan:
				if err := h.s.handleBumpEvent(resp); err != nil {
					ent["handle_err"] = err.Error()
				}
			case <-time.After(20 * time.Second):
				panic("verif: sweeper did not forward a bump result")
			}
		default:
		}
	}
}

func (h *vsHarness) inputStates() []any {
	var out []any
	for i, in := range h.inputs {
		pi, ok := h.s.inputs[in.OutPoint()]
		if !ok {
			continue
		}
		out = append(out, map[string]any{"i": i, "state": pi.state.String(),
			"start": vOptRate(pi.params.StartingFeeRate),
			"attempts": pi.publishAttempts,
			"last": int64(pi.lastFeeRate)})
	}
	return out
}

func vsRun(sc *vsScenario, out *vWriter, ci int) {
	h := &vsHarness{sc: sc, mode: sc.Mode,
		est:     &vEst{relay: chainfee.SatPerKWeight(sc.Relay)},
		opIdx:   make(map[wire.OutPoint]int),
		opValue: make(map[wire.OutPoint]int64),
		addr:    lnwallet.AddrWithKey{DeliveryAddress: vP2TR}}
	h.floor = int64(lnwallet.DustLimitForSize(len(h.addr.DeliveryAddress)))
	for _, uv := range sc.Utxos {
		vInputCount++
		var hh chainhash.Hash
		hh[0], hh[1], hh[2], hh[3], hh[31] = byte(vInputCount), byte(vInputCount>>8),
			byte(vInputCount>>16), byte(vInputCount>>24), 0xee
		// wallet top-up inputs of every address type (weight class)
		k := int(uv % 3)
		u := &lnwallet.Utxo{
			AddressType: []lnwallet.AddressType{lnwallet.WitnessPubKey,
				lnwallet.NestedWitnessPubKey, lnwallet.TaprootPubkey}[k],
			Value: btcutil.Amount(uv), PkScript: vP2WKH,
			OutPoint: wire.OutPoint{Hash: hh}}
		vWT[u.OutPoint] = []input.WitnessType{input.WitnessKeyHash,
			input.NestedWitnessKeyHash, input.TaprootPubKeySpend}[k]
		h.utxos = append(h.utxos, u)
		h.opValue[u.OutPoint] = uv
	}
	w := &vsWallet{h: h}
	h.tp = NewTxPublisher(TxPublisherConfig{
		Estimator: h.est, Signer: vSigner{}, Wallet: w,
		Notifier: vNotifier{}, AuxSweeper: fn.None[AuxSweeper](),
	})
	h.s = New(&UtxoSweeperConfig{
		FeeEstimator: h.est, Wallet: w, Notifier: vNotifier{},
		Store:      &vsStore{txs: make(map[chainhash.Hash]*TxRecord)},
		Signer:     vSigner{},
		MaxFeeRate: chainfee.SatPerVByte(sc.MaxVB),
		Aggregator: &vsAgg{h: h, inner: NewBudgetAggregator(h.est,
			DefaultMaxInputsPerTx, fn.None[AuxSweeper]())},
		Publisher: h,
		GenSweepScript: func() fn.Result[lnwallet.AddrWithKey] {
			return fn.Ok(h.addr)
		},
		NoDeadlineConfTarget: 1008,
	})
	defer func() {
		close(h.s.quit)
		h.s.wg.Wait()
	}()

	// materialise the inputs
	for i := range sc.Offers {
		o := &sc.Offers[i]
		req := int64(-1)
		if o.Req != nil {
			req = *o.Req
		}
		var parent *input.TxInfo
		if o.Parent != nil {
			parent = &input.TxInfo{Fee: btcutil.Amount(o.Parent[0]),
				Weight: lntypes.WeightUnit(o.Parent[1])}
		}
		lt := int64(-1)
		if o.Lock != nil {
			lt = *o.Lock
		}
		in := vMakeInputEx(o.Value, o.wt, req, parent, lt)
		o.WT = o.wt.String()
		h.inputs = append(h.inputs, in)
		h.opIdx[in.OutPoint()] = i
		h.opValue[in.OutPoint()] = o.Value
	}

	var blocks []any
	for bi, b := range sc.Blocks {
		h.height = b.H
		h.s.currentHeight = b.H
		h.tp.currentHeight.Store(b.H)
		h.est.ans = chainfee.SatPerKWeight(b.Ans)
		h.est.fail = b.Fail
		h.swReqs, h.swRes = nil, nil

		// new inputs offered in this block (before the block's sweep, as
		// contractcourt is upstream of the sweeper in the blockbeat order)
		for i := range sc.Offers {
			o := &sc.Offers[i]
			if o.At != bi {
				continue
			}
			p := Params{Budget: btcutil.Amount(o.Budget), Immediate: o.Immediate}
			if o.Deadline != nil {
				p.DeadlineHeight = fn.Some(*o.Deadline)
			}
			if o.Start != nil {
				p.StartingFeeRate = fn.Some(chainfee.SatPerKWeight(*o.Start))
			}
			if o.Excl != nil {
				g := uint64(*o.Excl)
				p.ExclusiveGroup = &g
			}
			err := h.s.handleNewInput(&sweepInputMessage{
				input: h.inputs[i], params: p,
				resultChan: make(chan Result, 1),
			})
			if err != nil {
				panic(err)
			}
			if o.Immediate {
				// collector(): an immediate input triggers a sweep
				// of all pending inputs right away
				h.s.sweepPendingInputs(h.s.updateSweeperInputs())
				h.pump()
			}
		}

		// the block: sweeper first ...
		h.s.sweepPendingInputs(h.s.updateSweeperInputs())
		h.pump()
		// ... then the publisher
		for _, vr := range h.reqs {
			if vr.dead {
				continue
			}
			if _, ok := vr.row["h0"]; !ok {
				h.openInitial(vr)
			} else {
				h.ev(vr)
			}
		}
		h.tp.processRecords()
		h.tp.wg.Wait()
		for _, vr := range h.reqs {
			if vr.cur != nil {
				h.closeEvent(vr)
			}
		}
		h.pump()
		blocks = append(blocks, map[string]any{"h": b.H, "ans": vOpt(b.Ans, !b.Fail),
			"reqs": h.swReqs, "results": h.swRes, "inputs": h.inputStates()})
	}

	nreq := 0
	for _, vr := range h.reqs {
		if len(vr.events) == 0 {
			continue
		}
		nreq++
		vr.row["case"] = ci
		vr.row["events"] = vr.events
		vr.row["ins_idx"] = vr.insIdx
		out.emit(vr.row)
	}
	out.emit(map[string]any{"kind": "sw", "case": ci, "scenario": sc,
		"blocks": blocks, "nreq": nreq, "invalid_results": h.invalid,
		"dust": h.floor})
}

// ---- generators ------------------------------------------------------------

func vsI32(v int32) *int32 { return &v }
func vsI64(v int64) *int64 { return &v }

// weight of a lone p2wkh input swept to the p2tr delivery address
func vsLoneWeight() int64 {
	in := vMakeInput(10_000, input.WitnessKeyHash, -1)
	w, err := calcSweepTxWeight([]input.Input{in}, [][]byte{vP2TR})
	if err != nil {
		panic(err)
	}
	return int64(w)
}

// vsDirected enumerates the "failed first attempt, then retry" class:
// backend x kind of first failure x retry shape x immediacy.
func vsDirected(d int, seed uint64) *vsScenario {
	r := vNewRng(seed ^ uint64(d+1)*0x9e3779b97f4a7c15)
	mode := d % 4
	fail := (d / 4) % 4
	shape := (d / 16) % 4
	imm := (d/64)%2 == 1
	h0 := int32(r.rng(1000, 700_000))
	relay := int64(253)
	if r.intn(4) == 0 {
		relay = r.rng(100, 1200)
	}
	ans := relay + r.rng(200, 3000)
	dl := h0 + int32(r.rng(5, 9))
	lw := vsLoneWeight()
	sc := &vsScenario{Family: "directed", Mode: mode, Relay: relay, MaxVB: 1000,
		Salt: r.u64()}
	a := vsOffer{At: 0, Value: r.rng(40_000, 90_000), Deadline: vsI32(dl),
		wt: input.WitnessKeyHash}
	switch fail {
	case 0:
		// budget/size between the relay fee and the estimate: the first
		// fee function has start == end: ErrZeroFeeRateDelta
		a.Budget = r.rng(relay*lw/1000+2, ans*lw/1000-1)
	case 1:
		// dust-change-only (lone anchor style): the estimate is below the
		// ceiling, the fee leaves a change below dust: ErrTxNoOutput
		ans = relay + r.rng(0, 100)
		a.Value = relay*lw/1000 + r.rng(150, 300)
		a.Budget = a.Value - r.rng(0, 40)
	case 2:
		// the wallet refuses the first tx: TxFailed carrying a fee rate
		a.Budget = r.rng(3000, 20_000)
		sc.PubFail1 = true
	case 3:
		// every candidate is rejected as fee-too-low until the budget is
		// used up (ErrMaxPosition) - only where testmempoolaccept exists
		a.Budget = r.rng(3000, 20_000)
		if mode == vsScripted {
			sc.FeeRej = 100
		} else {
			// no scripted mempool: every publish fails instead, the
			// retries chain through rising TxFailed fee rates
			sc.PubFail = 100
		}
	}
	sc.Offers = append(sc.Offers, a)
	if shape > 0 {
		b := vsOffer{At: 1, Value: r.rng(60_000, 150_000),
			Budget: r.rng(6000, 30_000), Deadline: vsI32(dl),
			Immediate: imm, wt: input.WitnessKeyHash}
		switch shape {
		case 2:
			b.Start = vsI64(0)
		case 3:
			b.Start = vsI64(relay + r.rng(0, 2500))
		}
		sc.Offers = append(sc.Offers, b)
	} else if imm {
		// an unrelated immediate input (other deadline) triggers the
		// retry of A right away in block 1
		sc.Offers = append(sc.Offers, vsOffer{At: 1, Value: r.rng(60_000, 150_000),
			Budget: r.rng(6000, 30_000), Deadline: vsI32(dl + 40),
			Immediate: true, wt: input.TaprootPubKeySpend})
	}
	jit := (ans - relay) / 2
	if jit > 150 {
		jit = 150
	}
	for h := h0; h <= dl; h++ {
		sc.Blocks = append(sc.Blocks, vsBlock{H: h, Ans: ans + r.rng(-jit, jit)})
		if h > h0+1 && r.intn(6) == 0 {
			h++ // a skipped height
		}
	}
	return sc
}

// vsAnchor enumerates anchor CPFP sweeps: a 330 sat commitment anchor whose
// parent (the still unconfirmed commitment tx) pays less than / about / more
// than the sweep offers, budget generous (MaxFeeRate binds) or small
// (budget/size binds), topped up from the wallet, on every backend.
func vsAnchor(d int, seed uint64) *vsScenario {
	r := vNewRng(seed ^ uint64(d+1)*0xc2b2ae3d27d4eb4f)
	mode := d % 4
	prate := []int64{r.rng(100, 253), r.rng(900, 1400), r.rng(20_000, 60_000)}[(d/4)%3]
	generous := (d/12)%2 == 0
	h0 := int32(r.rng(1000, 700_000))
	dl := h0 + int32(r.rng(4, 8))
	sc := &vsScenario{Family: "anchor-cpfp", Mode: mode, Relay: 253, Salt: r.u64(),
		MaxVB: r.rng(8, 14)}
	pw := r.rng(700, 2500)
	a := vsOffer{At: 0, Value: 330, Deadline: vsI32(dl), wt: input.CommitmentAnchor,
		Parent: &[2]int64{prate * pw / 1000, pw}}
	if generous {
		a.Budget = r.rng(20_000, 60_000)
	} else {
		a.Budget = r.rng(900, 1500)
	}
	if d%2 == 0 {
		a.Excl = vsI64(1)
	}
	sc.Offers = []vsOffer{a}
	sc.Utxos = []int64{r.rng(80_000, 200_000) * 3, r.rng(300_000, 500_000)*3 + 1}
	ans := r.rng(300, 1200)
	for h := h0; h <= dl; h++ {
		sc.Blocks = append(sc.Blocks, vsBlock{H: h, Ans: ans + r.rng(-40, 40)})
	}
	return sc
}

func vsRandom(r *vrng) *vsScenario {
	relay := int64(253)
	if r.intn(5) == 0 {
		relay = r.rng(1, 2000)
	}
	sc := &vsScenario{Family: "random", Mode: r.intn(4), Relay: relay,
		MaxVB: 1000, Salt: r.u64()}
	switch r.intn(5) {
	case 0:
		sc.MaxVB = r.rng(1, 30)
	case 1:
		sc.MaxVB = r.rng(2, 200)
	}
	if r.intn(3) == 0 {
		sc.PubFail = int(r.rng(5, 40))
	}
	if sc.Mode == vsScripted {
		sc.FeeRej = int(r.rng(0, 50))
		if r.intn(2) == 0 {
			sc.OtherRej = int(r.rng(1, 25))
		}
	}
	for i, n := 0, r.intn(4); i < n; i++ {
		// distinct values: AddWalletInputs sorts by value
		sc.Utxos = append(sc.Utxos, r.rng(2000, 120_000)*4+int64(i))
	}
	h0 := int32(r.rng(1000, 800_000))
	nb := 5 + r.intn(9)
	base := relay + r.rng(0, 3000)
	h := h0
	for i := 0; i < nb; i++ {
		b := vsBlock{H: h, Ans: base + r.rng(-200, 200)}
		switch r.intn(14) {
		case 0:
			b.Fail = true
		case 1:
			b.Ans = r.rng(relay, 1<<21) // fee spike
		case 2:
			b.Ans = relay + r.rng(-1, 1)
		}
		if b.Ans < 0 {
			b.Ans = 0
		}
		sc.Blocks = append(sc.Blocks, b)
		step := int32(1)
		if r.intn(7) == 0 {
			step = int32(r.rng(2, 4))
		}
		h += step
	}
	last := sc.Blocks[nb-1].H
	dls := []*int32{vsI32(h0 + int32(r.rng(2, int64(last-h0)+2))),
		vsI32(h0 + int32(r.rng(15, 300))), nil}
	if r.intn(10) == 0 {
		dls[0] = vsI32(h0 - int32(r.rng(0, 2))) // already at / past the deadline
	}
	lw := vsLoneWeight()
	no := 1 + r.intn(5)
	used := map[int64]bool{}
	for i := 0; i < no; i++ {
		o := vsOffer{At: r.intn(4), wt: vWitnessTypes[r.intn(len(vWitnessTypes))]}
		if o.At >= nb {
			o.At = 0
		}
		o.Deadline = dls[[]int{0, 0, 0, 1, 1, 2}[r.intn(6)]]
		switch r.intn(6) {
		case 0:
			o.Value = r.rng(331, 1200) // anchor-like
		case 1:
			o.Value = r.rng(100_000, 5_000_000)
		default:
			o.Value = r.rng(5000, 200_000)
		}
		ans := sc.Blocks[o.At].Ans
		switch r.intn(8) {
		case 0, 1:
			// budget/size at or just below the estimate (zero delta)
			o.Budget = r.rng(relay*lw/1000, ans*lw/1000+3)
		case 2:
			o.Budget = o.Value / 2
		case 3:
			o.Budget = r.rng(100, 5000)
		case 4:
			o.Budget = o.Value - r.rng(0, 400) // change at / below dust
		case 5:
			o.Budget = o.Value + r.rng(1, 20_000) // needs wallet inputs
		default:
			o.Budget = r.rng(o.Value/20, o.Value/3)
		}
		if o.Budget < 1 {
			o.Budget = 1
		}
		for used[o.Budget] {
			o.Budget++ // distinct budgets: deterministic order inside a set
		}
		used[o.Budget] = true
		if r.intn(9) == 0 {
			// second-level HTLC style: the value goes to a required output
			rq := o.Value
			o.Req = &rq
			o.wt = input.WitnessKeyHash
		}
		switch r.intn(12) {
		case 0:
			o.Start = vsI64(0)
		case 1, 2:
			o.Start = vsI64(relay + r.rng(0, 3000))
		}
		o.Immediate = r.intn(5) == 0
		if r.intn(10) == 0 {
			o.Excl = vsI64(int64(i + 1))
		}
		if r.intn(5) == 0 || (o.wt == input.CommitmentAnchor && r.intn(3) != 0) {
			p := vPickParent(r)
			o.Parent = &[2]int64{int64(p.Fee), int64(p.Weight)}
		}
		switch r.intn(12) {
		case 0:
			o.Lock = vsI64(int64(h0) - r.rng(0, 50)) // reached
		case 1:
			o.Lock = vsI64(int64(h0) + r.rng(1, 3)) // matures during the history
		}
		sc.Offers = append(sc.Offers, o)
	}
	sort.SliceStable(sc.Offers, func(i, j int) bool { return sc.Offers[i].At < sc.Offers[j].At })
	return sc
}

// vsProbe is the witness of the KNOWN finding C18-F2 (part of every run): the
// fee function reaches its ceiling early by rounding (ceiling = estimate + 2
// sat/kw), the wallet refuses the tx published AT the ceiling (TxFailed carrying
// 1002), the retry (start == end) fails with ErrZeroFeeRateDelta before a tx
// exists, whose TxFailed carries FeeRate 0 and OVERWRITES the stored 1002 with
// Some(0); the next attempt restarts from the estimator (1000, or 300 when the
// estimates dropped) although 1001 sat/kw was successfully published before.
func vsProbe(drop bool) *vsScenario {
	h0 := int32(500_000)
	dl := h0 + 21
	sc := &vsScenario{Family: "finding-C18-F2", Mode: vsNeutrino, Relay: 253, MaxVB: 1000,
		Salt: 7, PubFailH: []int32{h0 + 15}}
	lw := vsLoneWeight()
	budget := (1002*lw + 999) / 1000
	sc.Offers = []vsOffer{{At: 0, Value: 50_000, Budget: budget,
		Deadline: vsI32(dl), wt: input.WitnessKeyHash}}
	for h := h0; h <= dl; h++ {
		ans := int64(1000)
		if drop && h > h0+15 {
			ans = 300
		}
		sc.Blocks = append(sc.Blocks, vsBlock{H: h, Ans: ans})
	}
	return sc
}

// vSweeperCases runs the directed family and nrand random scenarios.
func vSweeperCases(master *vrng, out *vWriter, ci *int, ndir, nrand int) {
	for d := 0; d < ndir; d++ {
		vsRun(vsDirected(d, master.fork(uint64(*ci)).u64()), out, *ci)
		*ci++
	}
	for i := 0; i < nrand; i++ {
		vsRun(vsRandom(master.fork(uint64(*ci))), out, *ci)
		*ci++
	}
	for d := 0; d < 24; d++ {
		vsRun(vsAnchor(d, master.fork(uint64(*ci)).u64()), out, *ci)
		*ci++
	}
	// known finding C18-F2: fixed witnesses, same on every seed / tier
	vsRun(vsProbe(false), out, *ci)
	*ci++
	vsRun(vsProbe(true), out, *ci)
	*ci++
}
