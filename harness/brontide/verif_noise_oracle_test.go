//go:build verif

package brontide

// C11, independent oracle for the crypto brontide takes from outside
// (keychain ECDH wrappers, HKDF, ChaCha20-Poly1305 nonce encoding).  Kind
// "href": an HONEST handshake between real Machines whose static keys are
// served by different SingleKeyECDH implementations:
//   priv   keychain.PrivKeyECDH (what brontide also wraps every ephemeral in)
//   pub    keychain.PubKeyECDH over an ECDHRing implemented HERE (the shape of
//          the wallet key ring / remote signer of a running node)
//   ref    a SingleKeyECDH implemented HERE
// The harness implementations are BOLT-8's definition written out with btcec
// primitives only: scalar mult, SerializeCompressed, sha256 - no keychain.
// Keys are searched so that the shared points of es / ee / se have an x
// coordinate with a leading zero byte (forced per case), besides the natural
// spread of parity and high bit.  Emitted: the four private keys, the acts,
// (h, ck, tempKey) of the acting Machine after each of the six steps, the
// final cipher states, the first frame of each direction and the first frame
// after a key rotation.  props/c11.py recomputes ALL of it from the private
// keys with props/c11_ref.py (pure python) and compares.

import (
	"crypto/sha256"

	"github.com/btcsuite/btcd/btcec/v2"
	"github.com/lightningnetwork/lnd/keychain"
)

func vnRefShared(priv *btcec.PrivateKey, pub *btcec.PublicKey) *btcec.PublicKey {
	var pj, s btcec.JacobianPoint
	pub.AsJacobian(&pj)
	btcec.ScalarMultNonConst(&priv.Key, &pj, &s)
	s.ToAffine()
	return btcec.NewPublicKey(&s.X, &s.Y)
}

type vnRefECDH struct{ priv *btcec.PrivateKey }

func (e *vnRefECDH) PubKey() *btcec.PublicKey { return e.priv.PubKey() }
func (e *vnRefECDH) ECDH(pub *btcec.PublicKey) ([32]byte, error) {
	return sha256.Sum256(vnRefShared(e.priv, pub).SerializeCompressed()), nil
}

type vnRefRing struct{ priv *btcec.PrivateKey }

func (g *vnRefRing) ECDH(_ keychain.KeyDescriptor, pub *btcec.PublicKey) ([32]byte, error) {
	return sha256.Sum256(vnRefShared(g.priv, pub).SerializeCompressed()), nil
}

var vnImplNames = []string{"priv", "pub", "ref"}

func vnStaticImpl(kind int, k *btcec.PrivateKey) keychain.SingleKeyECDH {
	switch kind {
	case 0:
		return &keychain.PrivKeyECDH{PrivKey: k}
	case 1:
		return keychain.NewPubKeyECDH(keychain.KeyDescriptor{PubKey: k.PubKey()}, &vnRefRing{priv: k})
	default:
		return &vnRefECDH{priv: k}
	}
}

// a key k such that x(k * pub) starts with a zero byte (forced) - about 256
// draws; unforced: the first draw
func vnSearchKey(r *vrng, pub *btcec.PublicKey, forced bool) *btcec.PrivateKey {
	for i := 0; ; i++ {
		k := vnKey(r)
		if !forced || i > 20000 {
			return k
		}
		if vnRefShared(k, pub).SerializeCompressed()[1] == 0 {
			return k
		}
	}
}

func vnTriple(m *Machine) []string {
	return []string{vnHex(m.handshakeDigest[:]), vnHex(m.chainingKey[:]), vnHex(m.tempKey[:])}
}

func vnCipher(c *cipherState) []any {
	return []any{vnHex(c.secretKey[:]), vnHex(c.salt[:]), c.nonce}
}

type vnCapture struct{ b []byte }

func (w *vnCapture) Write(p []byte) (int, error) { w.b = append(w.b, p...); return len(p), nil }

func vnOracleCase(r *vrng, idx int) map[string]any {
	// all 9 pairings x all 8 forced subsets in the first 72 cases
	forced := (idx / 9) % 8 // bit 0: es, bit 1: ee, bit 2: se
	implR, implI := idx%3, (idx/3)%3
	if idx >= 72 {
		forced, implI, implR = r.intn(8), r.intn(3), r.intn(3)
	}
	rs := vnKey(r)
	ei := vnSearchKey(r, rs.PubKey(), forced&1 != 0)
	er := vnSearchKey(r, ei.PubKey(), forced&2 != 0)
	ls := vnSearchKey(r, er.PubKey(), forced&4 != 0)

	row := map[string]any{"kind": "href", "forced": forced,
		"impl": []string{vnImplNames[implI], vnImplNames[implR]},
		"ls":   vnHex(ls.Serialize()), "rs": vnHex(rs.Serialize()),
		"ei": vnHex(ei.Serialize()), "er": vnHex(er.Serialize())}
	ini := NewBrontideMachine(true, vnStaticImpl(implI, ls), rs.PubKey(), vnGen(ei))
	rsp := NewBrontideMachine(false, vnStaticImpl(implR, rs), nil, vnGen(er))
	codes := []int{}
	states := [][]string{}
	acts := []string{}
	row["codes"], row["states"], row["acts"] = &codes, &states, &acts

	a1, err := ini.GenActOne()
	codes = append(codes, vnCode(err))
	if err != nil {
		return row
	}
	acts, states = append(acts, vnHex(a1[:])), append(states, vnTriple(ini))
	err = rsp.RecvActOne(a1)
	codes = append(codes, vnCode(err))
	if err != nil {
		return row
	}
	states = append(states, vnTriple(rsp))
	a2, err := rsp.GenActTwo()
	codes = append(codes, vnCode(err))
	if err != nil {
		return row
	}
	acts, states = append(acts, vnHex(a2[:])), append(states, vnTriple(rsp))
	err = ini.RecvActTwo(a2)
	codes = append(codes, vnCode(err))
	if err != nil {
		return row
	}
	states = append(states, vnTriple(ini))
	a3, err := ini.GenActThree()
	codes = append(codes, vnCode(err))
	if err != nil {
		return row
	}
	acts, states = append(acts, vnHex(a3[:])), append(states, vnTriple(ini))
	err = rsp.RecvActThree(a3)
	codes = append(codes, vnCode(err))
	if err != nil {
		return row
	}
	states = append(states, vnTriple(rsp))
	row["completed"] = true
	row["ini_send"], row["ini_recv"] = vnCipher(&ini.sendCipher), vnCipher(&ini.recvCipher)
	row["rsp_send"], row["rsp_recv"] = vnCipher(&rsp.sendCipher), vnCipher(&rsp.recvCipher)
	if rsp.remoteStatic != nil {
		row["learnt"] = vnHex(rsp.remoteStatic.SerializeCompressed())
	}

	// framing: first frame of each direction; every fourth case also the
	// first frame after a key rotation (500 messages = 1000 nonces)
	msg := r.bytes(1 + r.intn(40))
	row["msg"] = vnHex(msg)
	frames := []string{}
	for _, m := range []*Machine{ini, rsp} {
		w := &vnCapture{}
		if m.WriteMessage(msg) != nil {
			return row
		}
		if _, err := m.Flush(w); err != nil {
			return row
		}
		frames = append(frames, vnHex(w.b))
	}
	if idx%4 == 0 {
		w := &vnCapture{}
		for i := 0; i < keyRotationInterval/2; i++ {
			w.b = w.b[:0]
			if ini.WriteMessage(msg) != nil {
				return row
			}
			if _, err := ini.Flush(w); err != nil {
				return row
			}
		}
		// the last of them is message number 500 of the initiator: it used
		// nonces 0, 1 of the rotated key
		frames = append(frames, vnHex(w.b))
	}
	row["frames"] = frames
	return row
}

