//go:build verif

package brontide

// C11, several sessions alive in ONE process.  brontide keeps process-wide
// state next to the per-session Machine (the header / body buffer pools), so
// "session A's stream is exactly what A wrote" also quantifies over what the
// OTHER sessions of the process do in between.  The model (Noise/Model.v) has
// no state shared between sessions: every session's trace is replayed by an
// independent model instance (Noise/Exec.v CTr / CCn) and checked by the
// per-session predicate, so any cross-talk is a mismatch.
//
// Three families, all emitted as kind "multi":
//   enum  two sessions with a fixed script  W F X W Fp Ff  (X = a redundant
//         release: no-op Flush / ClearPendingSend / both; Fp = a Flush cut
//         short inside the header or the body); ALL C(12,6) = 924 merges of
//         the two scripts are executed, for Machine/Machine, Conn/Conn and
//         Machine/Conn pairs.  The harness keeps the traces of the sequential
//         merge as reference and emits every merge whose session traces
//         differ from it.
//   rand  2..4 sessions (Machine level or brontide.Conn level), each an actor
//         with its own rng (WriteMessage / Conn.Write / partial, resumed,
//         redundant Flush / ClearPendingSend incl. dropping a half sent
//         record / write while pending / ReadMessage / Conn.Read /
//         ReadNextMessage / ReadNextHeader ... ReadNextBody), stepped in a
//         seeded order (uniform, bursts, or "switch away while a record is
//         half out").
//   conc  the same actors, one goroutine per session (-race in the thorough
//         tier).  A session's trace does not depend on the schedule on a
//         correct tree, so model and predicate apply unchanged.
// Every slice a read returned is kept and compared again at the end of the
// case (a returned message must not change afterwards).

import (
	"bytes"
	"encoding/json"
	"math/bits"
	"runtime"
	"sync"
)

type vnKept struct{ got, want []byte }

type vnMsActor interface {
	step()
	finish()
	anyPending() bool
	row() map[string]any
	keptBad() int
}

func vnKeptBad(ks []vnKept) int {
	n := 0
	for _, k := range ks {
		if !bytes.Equal(k.got, k.want) {
			n++
		}
	}
	return n
}

// completely established Machines are plain values (arrays + read-only key
// pointers, no pooled buffer yet): a copy is an independent session with the
// same keys
func vnCloneMachine(m *Machine) *Machine {
	c := *m
	return &c
}

// ------------------------------------------------------ Machine level actor

type vnMsTr struct {
	t    *vnTr
	r    *vrng
	dead [2]bool
	big  int
	keep []vnKept
}

func vnNewMsTr(r *vrng) *vnMsTr {
	a := &vnMsTr{t: vnNewTransport(r), r: r}
	if r.intn(3) != 0 {
		a.big = 1 // two sessions in three send no long message (model replay time)
	}
	return a
}

func (a *vnMsTr) clone(r *vrng) *vnMsTr {
	t := &vnTr{r: r}
	for d := 0; d < 2; d++ {
		o := a.t.dirs[d]
		t.dirs[d] = &vnDir{sKey: o.sKey, rKey: o.rKey}
	}
	ini, rsp := vnCloneMachine(a.t.dirs[1].snd), vnCloneMachine(a.t.dirs[0].snd)
	t.dirs[1].snd, t.dirs[1].rcv = ini, rsp
	t.dirs[0].snd, t.dirs[0].rcv = rsp, ini
	return &vnMsTr{t: t, r: r}
}

func (a *vnMsTr) pending(d int) bool {
	m := a.t.dirs[d].snd
	return len(m.nextHeaderSend) > 0 || len(m.nextBodySend) > 0
}

func (a *vnMsTr) anyPending() bool { return a.pending(0) || a.pending(1) }

// number of messages whose frame is completely in the pipe / was read
func (dir *vnDir) completed() int {
	c := 0
	for _, e := range dir.frames {
		if e <= len(dir.hist) {
			c++
		}
	}
	return c
}

func (a *vnMsTr) read(d int) {
	dir := a.t.dirs[d]
	pl := len(dir.pipe)
	p, err := dir.rcv.ReadMessage(&vnReader{d: dir})
	e, n := dir.rpos()
	var m any
	if err == nil {
		m = vnMsgSpec(p)
		dir.nRead++
		a.keep = append(a.keep, vnKept{p, append([]byte(nil), p...)})
	}
	a.t.ops = append(a.t.ops, vnOp{"r", vnB(d), vnCode(err), m, e, n, pl})
}

// Machine.releaseBuffers through its exported route Conn.ClearPendingSend
func (a *vnMsTr) clear(d int) {
	was := a.pending(d)
	(&Conn{noise: a.t.dirs[d].snd}).ClearPendingSend()
	a.t.ops = append(a.t.ops, vnOp{"c", vnB(d), was})
	if was {
		// the record is gone half way: the direction is torn for good
		a.dead[d] = true
	}
}

func (a *vnMsTr) noop(d int) { a.t.flush(d, vnUnlimited, vnUnlimited) }

// what peer.writeHandler (ClearPendingSend after every message) or a caller
// that flushes once more does after a record went out completely
func (a *vnMsTr) release(d int, how int) {
	switch how {
	case 0, 1, 2, 3, 4:
		a.clear(d)
	case 5, 6:
		a.noop(d)
	case 7:
		a.noop(d)
		a.clear(d)
	case 8:
		a.clear(d)
		a.clear(d)
	}
}

func (a *vnMsTr) flushStep(d int) {
	r, m := a.r, a.t.dirs[d].snd
	rh, rb := vnUnlimited, vnUnlimited
	if r.intn(100) < 55 {
		rh = a.t.pickResp(len(m.nextHeaderSend))
		rb = a.t.pickResp(len(m.nextBodySend))
		if r.intn(3) == 0 {
			rh = vnUnlimited
		}
	}
	if a.t.flush(d, rh, rb) {
		a.release(d, r.intn(10))
	}
}

func (a *vnMsTr) msg() []byte {
	r := a.r
	switch r.intn(12) {
	case 0:
		return []byte{}
	case 1:
		return r.bytes(1 + r.intn(3))
	case 2:
		return r.bytes(15 + r.intn(4))
	case 3:
		if a.big < 1 {
			a.big++
			n := []int{65535, 65534, 1000 + r.intn(9000), 20000 + r.intn(20000)}[r.intn(4)]
			return bytes.Repeat([]byte{byte(r.intn(256))}, n)
		}
		return r.bytes(300 + r.intn(300))
	case 4, 5, 6:
		return r.bytes(100 + r.intn(500))
	default:
		return r.bytes(r.intn(100))
	}
}

func (a *vnMsTr) step() {
	r := a.r
	d := r.intn(2)
	if a.dead[d] {
		d = 1 - d
		if a.dead[d] {
			return
		}
	}
	dir := a.t.dirs[d]
	avail := dir.completed() - dir.nRead
	if a.pending(d) {
		switch k := r.intn(40); {
		case k < 26:
			a.flushStep(d)
		case k < 30:
			a.t.write(d, r.bytes(r.intn(4))) // must be refused
		case k < 31:
			// give the record up half way (what writeHandler does on an
			// unrecoverable error); one more read, which must not yield data
			a.clear(d)
			for i := 0; i < avail; i++ {
				a.read(d)
			}
			a.read(d)
		default:
			if avail > 0 {
				a.read(d)
			} else {
				a.flushStep(d)
			}
		}
		return
	}
	switch k := r.intn(20); {
	case k < 9:
		a.t.write(d, a.msg())
	case k < 11:
		a.noop(d)
	case k < 13:
		a.clear(d)
	default:
		if avail > 0 || r.intn(6) == 0 {
			a.read(d)
		} else {
			a.t.write(d, a.msg())
		}
	}
}

func (a *vnMsTr) finish() {
	for d := 0; d < 2; d++ {
		if a.dead[d] {
			continue
		}
		dir := a.t.dirs[d]
		for a.pending(d) {
			if a.t.flush(d, vnUnlimited, vnUnlimited) {
				a.clear(d)
			}
		}
		for i := 0; i < 400 && dir.completed() > dir.nRead; i++ {
			a.read(d)
		}
		a.read(d)
	}
}

func (a *vnMsTr) keptBad() int { return vnKeptBad(a.keep) }

func (a *vnMsTr) row() map[string]any {
	return map[string]any{"kind": "tr", "ops": a.t.ops, "rotations": 0, "multi": true,
		"dead":     []bool{a.dead[0], a.dead[1]},
		"interval": keyRotationInterval, "mac": macSize, "hdr": encHeaderSize}
}

// --------------------------------------------------------- Conn level actor

type vnMsCn struct {
	t        *vnCn
	r        *vrng
	cur      [2][]byte // record being sent, nil when idle
	viaWrite [2]bool   // cur handed over with Conn.Write (counts matter), else WriteMessage
	before   [2]int
	complete [2]int // records completely on the wire
	consumed [2]int // records the reader has taken (header read / whole record read)
	hdr      [2]int // body length announced by an outstanding ReadNextHeader, -1 none
	dead     [2]bool
	big      int
	keep     []vnKept
}

func vnNewMsCn(r *vrng) *vnMsCn {
	a := &vnMsCn{t: vnNewConnPair(r), r: r, hdr: [2]int{-1, -1}}
	if r.intn(3) != 0 {
		a.big = 1
	}
	return a
}

func (a *vnMsCn) clone(r *vrng) *vnMsCn {
	ini, rsp := vnCloneMachine(a.t.conns[1].noise), vnCloneMachine(a.t.conns[0].noise)
	ab, ba := &bytes.Buffer{}, &bytes.Buffer{}
	t := &vnCn{r: r}
	t.conns[1] = &Conn{conn: &vnConn{r: r.fork(1), buf: ab, rbuf: ba}, noise: ini}
	t.conns[0] = &Conn{conn: &vnConn{r: r.fork(2), buf: ba, rbuf: ab}, noise: rsp}
	return &vnMsCn{t: t, r: r, hdr: [2]int{-1, -1}}
}

func (a *vnMsCn) anyPending() bool { return a.t.pending(0) || a.t.pending(1) }

func (a *vnMsCn) clear(d int) {
	was := a.t.pending(d)
	a.t.conns[d].ClearPendingSend()
	a.t.ops = append(a.t.ops, vnOp{"cc", vnB(d), was})
	if was {
		a.dead[d] = true
		a.t.torn[d] = true
		a.cur[d] = nil
	}
}

// Conn.Flush with the given net.Conn answers
func (a *vnMsCn) flush(d int, sc [][2]int) {
	t := a.t
	t.nc(d).install(sc)
	n, err := t.conns[d].Flush()
	t.acct[d] += n
	t.ops = append(t.ops, vnOp{"cf", vnB(d), vnScriptJSON(sc), n, vnConnCode(err),
		t.nc(d).calls, t.nc(d).took, t.pending(d)})
}

func (a *vnMsCn) noop(d int) { a.flush(d, nil) }

func (a *vnMsCn) release(d int, how int) {
	switch how {
	case 0, 1, 2, 3, 4:
		a.clear(d)
	case 5, 6:
		a.noop(d)
	case 7:
		a.noop(d)
		a.clear(d)
	case 8:
		a.clear(d)
		a.clear(d)
	}
}

// the record handed over as cur[d] is completely on the wire
func (a *vnMsCn) recordOut(d int) {
	p := a.cur[d]
	if a.viaWrite[d] {
		done := a.t.acct[d] - a.before[d]
		if done > len(p) || done < 0 {
			done = len(p) // impossible for correct counts; the predicate reports them
		}
		p = p[:done]
	}
	a.t.sent[d] = append(a.t.sent[d], p...)
	a.cur[d] = nil
	a.complete[d]++
}

func (a *vnMsCn) flushStep(d int, pclean int) {
	t, r := a.t, a.r
	var sc [][2]int
	if r.intn(100) >= pclean {
		m := t.conns[d].noise
		hl, bl := len(m.nextHeaderSend), len(m.nextBodySend)
		switch {
		case hl > 0 && r.intn(2) == 0:
			sc = [][2]int{t.pickK(hl)}
		case hl > 0:
			sc = [][2]int{{1 << 30, 0}, t.pickK(bl)}
		default:
			sc = [][2]int{t.pickK(bl)}
		}
	}
	a.flush(d, sc)
	if !t.pending(d) {
		a.recordOut(d)
		a.release(d, r.intn(10))
	}
}

func (a *vnMsCn) msg() []byte {
	r := a.r
	n := 1 + r.intn(100)
	switch r.intn(12) {
	case 0:
		n = 1
	case 1:
		n = 15 + r.intn(4)
	case 2:
		if a.big < 1 {
			a.big++
			n = []int{65535, 65534, 1000 + r.intn(9000), 20000 + r.intn(20000)}[r.intn(4)]
		}
	case 3, 4, 5, 6:
		n = 100 + r.intn(500)
	}
	if n > 48 {
		return vnSeq(n, r.intn(251))
	}
	return r.bytes(n)
}

func (a *vnMsCn) writeStep(d int) {
	t, r := a.t, a.r
	p := a.msg()
	if r.intn(2) == 0 {
		err := t.conns[d].WriteMessage(p)
		t.ops = append(t.ops, vnOp{"cwm", vnB(d), vnConnSpec(p), vnConnCode(err), t.pending(d)})
		if err == nil {
			a.cur[d], a.viaWrite[d] = p, false
		}
		return
	}
	sc := t.script(len(p), 50)
	t.nc(d).install(sc)
	a.before[d] = t.acct[d]
	n, err := t.conns[d].Write(p)
	t.acct[d] += n
	t.ops = append(t.ops, vnOp{"cw", vnB(d), vnConnSpec(p), vnScriptJSON(sc), n,
		vnConnCode(err), t.nc(d).calls, t.nc(d).took, t.pending(d)})
	if err != nil && vnConnCode(err) != 8 {
		return // reported by the predicate
	}
	a.cur[d], a.viaWrite[d] = p, true
	if !t.pending(d) {
		a.recordOut(d)
		a.release(d, r.intn(10))
	}
}

func (a *vnMsCn) keepRes(d int, p []byte) any {
	a.t.got[d] = append(a.t.got[d], p...)
	a.keep = append(a.keep, vnKept{p, append([]byte(nil), p...)})
	return vnConnSpec(p)
}

// one read call of the peer of direction d; only called when a complete
// record, a buffered rest or an announced body is there, or nothing at all
func (a *vnMsCn) readStep(d int) {
	t, r := a.t, a.r
	o := t.conns[1-d]
	if a.hdr[d] >= 0 {
		l := a.hdr[d]
		a.hdr[d] = -1
		p, err := o.ReadNextBody(make([]byte, l))
		var m any
		if err == nil {
			m = a.keepRes(d, p)
		}
		t.ops = append(t.ops, vnOp{"crb", vnB(d), l, vnConnCode(err), m})
		return
	}
	avail := a.complete[d] - a.consumed[d]
	if o.readBuf.Len() == 0 && avail > 0 && r.intn(2) == 0 {
		a.consumed[d]++
		if r.intn(2) == 0 {
			p, err := o.ReadNextMessage()
			var m any
			if err == nil {
				m = a.keepRes(d, p)
			}
			t.ops = append(t.ops, vnOp{"crn", vnB(d), vnConnCode(err), m})
			return
		}
		l, err := o.ReadNextHeader()
		t.ops = append(t.ops, vnOp{"crh", vnB(d), vnConnCode(err), int(l)})
		if err == nil {
			a.hdr[d] = int(l)
		}
		return
	}
	rem := o.readBuf.Len()
	if rem == 0 && avail > 0 {
		a.consumed[d]++
	}
	k := 1 + r.intn(400)
	switch r.intn(8) {
	case 0:
		k = 1
	case 1:
		if rem > 0 {
			k = rem
		}
	case 2:
		k = rem + 1
	case 3:
		k = 65535
	case 4:
		k = 70000 + r.intn(70000)
	}
	if rem > 2000 && k < rem/4 {
		k = rem/2 + r.intn(rem)
	}
	b := make([]byte, k)
	n, err := o.Read(b)
	var m any
	if err == nil {
		m = vnConnSpec(b[:n])
		t.got[d] = append(t.got[d], b[:n]...)
	}
	t.ops = append(t.ops, vnOp{"cr", vnB(d), k, vnConnCode(err), m})
}

// something the reader of direction d may take without running into a half
// sent record
func (a *vnMsCn) readable(d int) bool {
	return a.hdr[d] >= 0 || a.t.conns[1-d].readBuf.Len() > 0 || a.complete[d] > a.consumed[d]
}

func (a *vnMsCn) step() {
	t, r := a.t, a.r
	d := r.intn(2)
	if a.dead[d] {
		d = 1 - d
		if a.dead[d] {
			return
		}
	}
	if t.pending(d) {
		switch k := r.intn(40); {
		case k < 26:
			a.flushStep(d, 45)
		case k < 30:
			// a write while the record is pending must be refused
			q := r.bytes(1 + r.intn(5))
			if r.intn(2) == 0 {
				err := t.conns[d].WriteMessage(q)
				t.ops = append(t.ops, vnOp{"cwm", vnB(d), vnConnSpec(q), vnConnCode(err), t.pending(d)})
			} else {
				t.nc(d).install(nil)
				n, err := t.conns[d].Write(q)
				t.acct[d] += n
				t.ops = append(t.ops, vnOp{"cw", vnB(d), vnConnSpec(q), vnScriptJSON(nil), n,
					vnConnCode(err), t.nc(d).calls, t.nc(d).took, t.pending(d)})
			}
		case k < 31:
			a.clear(d)
			for i := 0; i < 2000 && a.readable(d); i++ {
				a.readStep(d)
			}
			a.readStep(d) // on the torn record: must not yield data
		default:
			if a.readable(d) {
				a.readStep(d)
			} else {
				a.flushStep(d, 45)
			}
		}
		return
	}
	switch k := r.intn(20); {
	case k < 9:
		a.writeStep(d)
	case k < 11:
		a.noop(d)
	case k < 13:
		a.clear(d)
	default:
		if a.readable(d) || r.intn(6) == 0 {
			a.readStep(d)
		} else {
			a.writeStep(d)
		}
	}
}

func (a *vnMsCn) finish() {
	for d := 0; d < 2; d++ {
		if a.dead[d] {
			continue
		}
		for a.t.pending(d) {
			a.flushStep(d, 100)
		}
		for i := 0; i < 4000 && a.readable(d); i++ {
			a.readStep(d)
		}
		a.readStep(d)
	}
}

func (a *vnMsCn) keptBad() int { return vnKeptBad(a.keep) }

func (a *vnMsCn) row() map[string]any {
	m := a.t.row()
	m["multi"] = true
	m["dead"] = []bool{a.dead[0], a.dead[1]}
	return m
}

// ------------------------------------------------------------- rand / conc

func vnMultiActors(r *vrng) []vnMsActor {
	k := 2 + r.intn(3)
	as := make([]vnMsActor, k)
	for i := range as {
		if r.intn(5) < 3 {
			as[i] = vnNewMsTr(r.fork(uint64(10 + i)))
		} else {
			as[i] = vnNewMsCn(r.fork(uint64(10 + i)))
		}
	}
	return as
}

func vnMultiRow(family string, mode any, as []vnMsActor, sched []int) map[string]any {
	ss := []any{}
	kept := []int{}
	for _, a := range as {
		ss = append(ss, a.row())
		kept = append(kept, a.keptBad())
	}
	return map[string]any{"kind": "multi", "family": family, "mode": mode, "sessions": ss,
		"sched": sched, "kept_bad": kept}
}

// seeded interleaving.  mode 0: uniform; 1: bursts; 2: leave a session as
// soon as it has a record half out and come back later
func vnMultiRandCase(r *vrng) map[string]any {
	as := vnMultiActors(r)
	k := len(as)
	mode := r.intn(3)
	total := k * (25 + r.intn(45))
	sched := make([]int, 0, total)
	cur, xp := 0, 0
	for i := 0; i < total; i++ {
		switch mode {
		case 0:
			cur = r.intn(k)
		case 1:
			if r.intn(5) == 0 {
				cur = r.intn(k)
			}
		default:
			if as[cur].anyPending() && r.intn(6) != 0 {
				cur = (cur + 1 + r.intn(k-1)) % k
			} else if r.intn(3) == 0 {
				cur = r.intn(k)
			}
		}
		for j, o := range as {
			if j != cur && o.anyPending() {
				xp++
				break
			}
		}
		as[cur].step()
		sched = append(sched, cur)
	}
	for _, a := range as {
		a.finish()
	}
	row := vnMultiRow("rand", mode, as, sched)
	row["steps_while_other_pending"] = xp
	return row
}

// one goroutine per session
func vnMultiConcCase(r *vrng) map[string]any {
	as := vnMultiActors(r)
	var wg sync.WaitGroup
	for i, a := range as {
		wg.Add(1)
		steps := 40 + r.intn(60)
		yr := r.fork(uint64(100 + i))
		go func(a vnMsActor) {
			defer wg.Done()
			for j := 0; j < steps; j++ {
				a.step()
				if yr.intn(3) == 0 {
					runtime.Gosched()
				}
			}
			a.finish()
		}(a)
	}
	wg.Wait()
	return vnMultiRow("conc", "goroutines", as, nil)
}

// --------------------------------------------------------------------- enum

// scripted session for the exhaustive merges: direction 1 only
type vnScripted interface {
	vnMsActor
	op(i int)
}

type vnEnumVar struct {
	m1, m2 []byte
	x      int // 5: no-op Flush, 0: ClearPendingSend, 7: both
	hdrCut bool
	k      int // bytes the cut Write call takes
}

func vnPickEnumVar(r *vrng, conn bool) vnEnumVar {
	v := vnEnumVar{x: []int{0, 5, 7}[r.intn(3)], hdrCut: r.intn(3) == 0}
	n1, n2 := 1+r.intn(300), 60+r.intn(500)
	if conn {
		v.m1, v.m2 = vnSeq(n1, r.intn(251)), vnSeq(n2, r.intn(251))
	} else {
		v.m1, v.m2 = r.bytes(n1), r.bytes(n2)
	}
	if v.hdrCut {
		v.k = r.intn(encHeaderSize)
	} else {
		v.k = []int{0, 1, 7, r.intn(n2), n2 / 2, n2 - 1, n2, n2 + 3}[r.intn(8)]
	}
	return v
}

type vnEnumTr struct {
	*vnMsTr
	v vnEnumVar
}

func (a *vnEnumTr) op(i int) {
	switch i {
	case 0:
		a.t.write(1, a.v.m1)
	case 1:
		a.t.flush(1, vnUnlimited, vnUnlimited)
	case 2:
		a.release(1, a.v.x)
	case 3:
		a.t.write(1, a.v.m2)
	case 4:
		if a.v.hdrCut {
			a.t.flush(1, [2]int{a.v.k, 0}, vnUnlimited)
		} else {
			a.t.flush(1, vnUnlimited, [2]int{a.v.k, 0})
		}
	default:
		a.t.flush(1, vnUnlimited, vnUnlimited)
		a.clear(1)
	}
}

type vnEnumCn struct {
	*vnMsCn
	v vnEnumVar
}

func (a *vnEnumCn) wm(p []byte) {
	t := a.t
	err := t.conns[1].WriteMessage(p)
	t.ops = append(t.ops, vnOp{"cwm", true, vnConnSpec(p), vnConnCode(err), t.pending(1)})
	if err == nil {
		a.cur[1], a.viaWrite[1] = p, false
	}
}

func (a *vnEnumCn) fl(sc [][2]int) {
	a.flush(1, sc)
	if !a.t.pending(1) && a.cur[1] != nil {
		a.recordOut(1)
	}
}

func (a *vnEnumCn) op(i int) {
	switch i {
	case 0:
		a.wm(a.v.m1)
	case 1:
		a.fl(nil)
	case 2:
		a.release(1, a.v.x)
	case 3:
		a.wm(a.v.m2)
	case 4:
		if a.v.hdrCut {
			a.fl([][2]int{{a.v.k, 0}})
		} else {
			a.fl([][2]int{{1 << 30, 0}, {a.v.k, 0}})
		}
	default:
		a.fl(nil)
		a.clear(1)
	}
}

const vnEnumOps = 6

// all merges of two 6-op scripts; pair 0: Machine/Machine, 1: Conn/Conn,
// 2: Machine/Conn
func vnMultiEnumGroup(r *vrng, pair int) map[string]any {
	tmplTr := [2]*vnMsTr{vnNewMsTr(r.fork(1)), vnNewMsTr(r.fork(2))}
	tmplCn := [2]*vnMsCn{vnNewMsCn(r.fork(3)), vnNewMsCn(r.fork(4))}
	isConn := [2]bool{pair == 1, pair >= 1}
	vars := [2]vnEnumVar{vnPickEnumVar(r.fork(5), isConn[0]), vnPickEnumVar(r.fork(6), isConn[1])}
	mk := func(i int) vnScripted {
		if isConn[i] {
			return &vnEnumCn{tmplCn[i].clone(r.fork(uint64(20 + i))), vars[i]}
		}
		return &vnEnumTr{tmplTr[i].clone(r.fork(uint64(20 + i))), vars[i]}
	}
	var ref [2][]byte
	var refRows []any
	merges, ndev, keptBad := 0, 0, 0
	dev := []any{}
	for mask := 0; mask < 1<<(2*vnEnumOps); mask++ {
		if bits.OnesCount(uint(mask)) != vnEnumOps {
			continue
		}
		as := [2]vnScripted{mk(0), mk(1)}
		var pos [2]int
		sched := make([]int, 0, 2*vnEnumOps)
		// mask bit i set: step i belongs to session 1; the first mask in
		// this order (low six bits) runs session 1 completely first
		for i := 0; i < 2*vnEnumOps; i++ {
			s := (mask >> i) & 1
			as[s].op(pos[s])
			pos[s]++
			sched = append(sched, s)
		}
		rows := []any{}
		same := true
		for s := 0; s < 2; s++ {
			as[s].finish()
			keptBad += as[s].keptBad()
			row := as[s].row()
			rows = append(rows, row)
			js, err := json.Marshal(row)
			if err != nil {
				panic(err)
			}
			if merges == 0 {
				ref[s] = js
			} else if !bytes.Equal(js, ref[s]) {
				same = false
			}
		}
		if merges == 0 {
			refRows = rows
		}
		if !same {
			ndev++
			if len(dev) < 4 {
				dev = append(dev, map[string]any{"sched": sched, "sessions": rows})
			}
		}
		merges++
	}
	xs := []any{}
	for _, v := range vars {
		xs = append(xs, map[string]any{"x": v.x, "hdr_cut": v.hdrCut, "k": v.k,
			"len1": len(v.m1), "len2": len(v.m2)})
	}
	return map[string]any{"kind": "multi", "family": "enum", "mode": pair, "sessions": refRows,
		"merges": merges, "n_deviating": ndev, "deviating": dev, "variants": xs,
		"kept_bad": []int{keptBad}, "sched": nil}
}
