//go:build verif

package brontide

// C11 correspondence harness: drives REAL brontide Machines (handshake acts,
// WriteMessage/Flush against a scripted faulty writer, ReadMessage from an
// in-memory pipe whose bytes are corrupted / truncated / spliced / replayed /
// reflected) and brontide.Conn pairs over scripted faulty net.Conns.
// Everything observable is written to VERIF_OUT as JSONL; the Coq model
// (Noise/Exec.v) replays the same operations and must agree; props/c11.py
// additionally evaluates the property predicate on this trace alone.

import (
	"bytes"
	"encoding/hex"
	"errors"
	"io"
	"math"
	"net"
	"strings"
	"testing"
	"time"

	"github.com/btcsuite/btcd/btcec/v2"
	"github.com/lightningnetwork/lnd/keychain"
)

type vnOp []any

func vnHex(b []byte) string { return hex.EncodeToString(b) }

func vnKey(r *vrng) *btcec.PrivateKey {
	for {
		b := r.bytes(32)
		b[0] &= 0x7f
		k, _ := btcec.PrivKeyFromBytes(b)
		if k != nil && !k.Key.IsZero() {
			return k
		}
	}
}

func vnGen(k *btcec.PrivateKey) func(*Machine) {
	return EphemeralGenerator(func() (*btcec.PrivateKey, error) { return k, nil })
}

// error classes shared with Noise/Exec.v err_code
func vnCode(err error) int {
	switch {
	case err == nil:
		return 0
	case errors.Is(err, io.EOF), errors.Is(err, io.ErrUnexpectedEOF):
		return 4
	case errors.Is(err, ErrMaxMessageLengthExceeded):
		return 5
	case errors.Is(err, ErrMessageNotFlushed):
		return 6
	case strings.Contains(err.Error(), "invalid handshake version"):
		return 1
	case strings.Contains(err.Error(), "message authentication failed"):
		return 3
	default:
		// btcec.ParsePubKey errors
		return 2
	}
}

var vnErrTimeout = errors.New("verif: write timeout")

// ---------------------------------------------------------------- handshake

type vnSession struct {
	rs, ls, ei, er *btcec.PrivateKey
	target         *btcec.PublicKey
}

func (s *vnSession) machines() (*Machine, *Machine) {
	init := NewBrontideMachine(true, &keychain.PrivKeyECDH{PrivKey: s.ls}, s.target, vnGen(s.ei))
	resp := NewBrontideMachine(false, &keychain.PrivKeyECDH{PrivKey: s.rs}, nil, vnGen(s.er))
	return init, resp
}

// honest acts of a session (nil where the handshake does not get that far)
func (s *vnSession) acts() (a1, a2, a3 []byte) {
	init, resp := s.machines()
	x1, err := init.GenActOne()
	if err != nil {
		return
	}
	a1 = x1[:]
	if resp.RecvActOne(x1) != nil {
		return
	}
	x2, err := resp.GenActTwo()
	if err != nil {
		return
	}
	a2 = x2[:]
	if init.RecvActTwo(x2) != nil {
		return
	}
	x3, err := init.GenActThree()
	if err != nil {
		return
	}
	a3 = x3[:]
	return
}

// one tamper step on an act; returns the JSON description
func vnTamperAct(r *vrng, act, orig []byte, which int, alt, refl []byte, allowAlt bool) []any {
	aeadFrom := 34
	if which == 3 {
		aeadFrom = 1
	}
	for {
		switch r.intn(7) {
		case 0:
			v := 1 + r.intn(255)
			if r.intn(6) == 0 {
				v = 0
			}
			act[0] = byte(v)
			return []any{"ver", v}
		case 1, 2:
			if which == 3 {
				continue
			}
			n := 1 + r.intn(3)
			for i := 0; i < n || bytes.Equal(act[1:34], orig[1:34]); i++ {
				act[1+r.intn(33)] ^= byte(1 + r.intn(255))
			}
			if _, err := btcec.ParsePubKey(act[1:34]); err != nil {
				return []any{"ephbad"}
			}
			return []any{"ephother"}
		case 3, 4:
			off := aeadFrom + r.intn(len(act)-aeadFrom)
			switch r.intn(4) {
			case 0:
				off = aeadFrom
			case 1:
				off = len(act) - 1
			}
			act[off] ^= byte(1 + r.intn(255))
			return []any{"flip", off}
		case 5:
			if !allowAlt || alt == nil {
				continue
			}
			copy(act, alt)
			return []any{"alt"}
		default:
			if which != 2 || refl == nil {
				continue
			}
			copy(act, refl)
			return []any{"reflect"}
		}
	}
}

type vnHsRow struct {
	Kind   string  `json:"kind"`
	Target int     `json:"target"` // 0: the responder's real static key, 1: another key
	T1     [][]any `json:"t1"`
	T2     [][]any `json:"t2"`
	T3     [][]any `json:"t3"`
	Obs    []int   `json:"obs"`
	Agree  bool    `json:"agree"`
	// information for the predicate only
	Tampered  bool `json:"tampered"`  // some act really differs from the honest one
	Completed bool `json:"completed"` // all three Recv calls returned nil
}

func vnHandshakeCase(r *vrng) vnHsRow {
	row := vnHsRow{Kind: "hs", T1: [][]any{}, T2: [][]any{}, T3: [][]any{}, Obs: []int{}}
	s := &vnSession{rs: vnKey(r), ls: vnKey(r), ei: vnKey(r), er: vnKey(r)}
	s.target = s.rs.PubKey()
	if r.intn(5) == 0 {
		row.Target = 1
		s.target = vnKey(r).PubKey()
	}
	altS := &vnSession{rs: s.rs, ls: s.ls, ei: vnKey(r), er: vnKey(r), target: s.target}
	b1, b2, b3 := altS.acts()

	// which acts get tampered: 35% none at all
	var tw [4]int
	if r.intn(100) >= 35 {
		tw[1+r.intn(3)] = 1
		if r.intn(10) < 3 {
			tw[1+r.intn(3)] = 2
		}
		if r.intn(6) == 0 {
			tw[1+r.intn(3)] = 1
		}
	}
	tamper := func(act []byte, which int, alt, refl []byte) [][]any {
		orig := append([]byte(nil), act...)
		out := [][]any{}
		for i := 0; i < tw[which]; i++ {
			out = append(out, vnTamperAct(r, act, orig, which, alt, refl, row.Target == 0))
		}
		if len(out) == 2 && out[0][0] == "flip" && out[1][0] == "flip" && bytes.Equal(orig, act) {
			// two flips that cancelled: make it a real change again
			act[len(act)-1] ^= 0x55
			out = append(out, []any{"flip", len(act) - 1})
		}
		if !bytes.Equal(orig, act) {
			row.Tampered = true
		}
		return out
	}

	init, resp := s.machines()
	a1, err := init.GenActOne()
	if err != nil {
		row.Obs = append(row.Obs, 100+vnCode(err))
		return row
	}
	row.T1 = tamper(a1[:], 1, b1, nil)
	a1r := append([]byte(nil), a1[:]...)
	err = resp.RecvActOne(a1)
	row.Obs = append(row.Obs, vnCode(err))
	if err != nil {
		return row
	}
	a2, err := resp.GenActTwo()
	if err != nil {
		row.Obs = append(row.Obs, 100+vnCode(err))
		return row
	}
	row.T2 = tamper(a2[:], 2, b2, a1r)
	err = init.RecvActTwo(a2)
	row.Obs = append(row.Obs, vnCode(err))
	if err != nil {
		return row
	}
	a3, err := init.GenActThree()
	if err != nil {
		row.Obs = append(row.Obs, 100+vnCode(err))
		return row
	}
	row.T3 = tamper(a3[:], 3, b3, nil)
	err = resp.RecvActThree(a3)
	row.Obs = append(row.Obs, vnCode(err))
	if err != nil {
		return row
	}
	row.Completed = true
	row.Agree = init.sendCipher.secretKey == resp.recvCipher.secretKey &&
		init.sendCipher.salt == resp.recvCipher.salt &&
		init.sendCipher.nonce == resp.recvCipher.nonce &&
		init.recvCipher.secretKey == resp.sendCipher.secretKey &&
		init.recvCipher.salt == resp.sendCipher.salt &&
		init.recvCipher.nonce == resp.sendCipher.nonce &&
		resp.remoteStatic != nil && resp.remoteStatic.IsEqual(s.ls.PubKey())
	return row
}

// ---------------------------------------------------------------- transport

// one direction of an established session
type vnDir struct {
	snd, rcv *Machine
	pipe     []byte // written by the writer, not yet consumed by the reader
	hist     []byte // everything the writer ever took
	// absolute end offset in hist of the frame of every message accepted by
	// WriteMessage, and the number of successful reads: the untampered pipe
	// would hold hist[frames[nRead-1]:]
	frames []int
	nRead  int
	// epoch tracking by watching secretKey
	sKey, rKey     [32]byte
	sEpoch, rEpoch int
}

func (d *vnDir) spos() (int, uint64) {
	if d.snd.sendCipher.secretKey != d.sKey {
		d.sKey = d.snd.sendCipher.secretKey
		d.sEpoch++
	}
	return d.sEpoch, d.snd.sendCipher.nonce
}

func (d *vnDir) rpos() (int, uint64) {
	if d.rcv.recvCipher.secretKey != d.rKey {
		d.rKey = d.rcv.recvCipher.secretKey
		d.rEpoch++
	}
	return d.rEpoch, d.rcv.recvCipher.nonce
}

// scripted writer: each Write call consumes one (k, e) response
type vnWriter struct {
	d      *vnDir
	script [][2]int
	calls  int
}

func (w *vnWriter) Write(p []byte) (int, error) {
	k, e := 1<<30, 0
	if w.calls < len(w.script) {
		k, e = w.script[w.calls][0], w.script[w.calls][1]
	}
	w.calls++
	n := k
	if n > len(p) {
		n = len(p)
	}
	w.d.pipe = append(w.d.pipe, p[:n]...)
	w.d.hist = append(w.d.hist, p[:n]...)
	if e != 0 || n < len(p) {
		return n, vnErrTimeout
	}
	return n, nil
}

// reader over the pipe that consumes what it returns
type vnReader struct{ d *vnDir }

func (r *vnReader) Read(p []byte) (int, error) {
	if len(r.d.pipe) == 0 {
		return 0, io.EOF
	}
	n := copy(p, r.d.pipe)
	r.d.pipe = r.d.pipe[n:]
	return n, nil
}

func vnMsgSpec(p []byte) []any {
	if len(p) > 48 {
		uni := true
		for _, b := range p {
			if b != p[0] {
				uni = false
				break
			}
		}
		if uni {
			return []any{"rep", len(p), int(p[0])}
		}
	}
	return []any{"lit", vnHex(p)}
}

type vnTr struct {
	r    *vrng
	dirs [2]*vnDir // index 1: initiator->responder (d=true), 0: responder->initiator
	ops  []vnOp
	big  int
}

func vnB(d int) bool { return d == 1 }

func (t *vnTr) write(d int, p []byte) int {
	dir := t.dirs[d]
	kf := vnHex(dir.snd.sendCipher.secretKey[:6])
	n0 := dir.snd.sendCipher.nonce
	err := dir.snd.WriteMessage(p)
	e, n := dir.spos()
	t.ops = append(t.ops, vnOp{"w", vnB(d), vnMsgSpec(p), vnCode(err), e, n, kf, n0})
	if err == nil {
		dir.frames = append(dir.frames, len(dir.hist)+encHeaderSize+len(p)+macSize)
	}
	return vnCode(err)
}

// flush with explicit responses for the header and the body Write
func (t *vnTr) flush(d int, rh, rb [2]int) bool {
	dir := t.dirs[d]
	w := &vnWriter{d: dir}
	if len(dir.snd.nextHeaderSend) > 0 {
		w.script = [][2]int{rh, rb}
	} else {
		w.script = [][2]int{rb}
	}
	h0 := len(dir.hist)
	n, err := dir.snd.Flush(w)
	t.ops = append(t.ops, vnOp{"f", vnB(d), []any{rh[0], rh[1] != 0}, []any{rb[0], rb[1] != 0},
		n, err != nil, w.calls, len(dir.hist) - h0})
	return err == nil
}

var vnUnlimited = [2]int{1000000, 0}

func (t *vnTr) pickResp(buflen int) [2]int {
	r := t.r
	k := 0
	switch r.intn(10) {
	case 0:
		k = 0
	case 1:
		k = 1
	case 2:
		k = buflen - 1
	case 3:
		k = buflen
	case 4:
		k = buflen - macSize
	case 5:
		k = buflen - macSize - 1 + r.intn(3)
	case 6:
		k = buflen - macSize + 1 + r.intn(macSize)
	case 7:
		k = r.intn(buflen + 1)
	default:
		k = 1000000
	}
	if k < 0 {
		k = 0
	}
	e := 0
	if k >= buflen && r.intn(12) == 0 {
		e = 1
	}
	return [2]int{k, e}
}

// flush until the message is out; the first flushes are faulty with
// probability pf
func (t *vnTr) flushAll(d int, pf int) {
	dir := t.dirs[d]
	for i := 0; i < 8; i++ {
		rh, rb := vnUnlimited, vnUnlimited
		if i < 6 && t.r.intn(100) < pf {
			rh = t.pickResp(len(dir.snd.nextHeaderSend))
			rb = t.pickResp(len(dir.snd.nextBodySend))
			if t.r.intn(3) == 0 {
				rh = vnUnlimited
			}
		}
		if t.flush(d, rh, rb) {
			return
		}
		// now and then try to write while the previous message is pending
		if t.r.intn(8) == 0 {
			t.write(d, t.r.bytes(t.r.intn(4)))
		}
	}
	for !t.flush(d, vnUnlimited, vnUnlimited) {
	}
}

func (t *vnTr) read(d int) int {
	dir := t.dirs[d]
	pl := len(dir.pipe)
	p, err := dir.rcv.ReadMessage(&vnReader{d: dir})
	e, n := dir.rpos()
	var m any
	if err == nil {
		m = vnMsgSpec(p)
		dir.nRead++
	}
	t.ops = append(t.ops, vnOp{"r", vnB(d), vnCode(err), m, e, n, pl})
	return vnCode(err)
}

func (t *vnTr) many(d int, cnt int, p []byte) {
	dir := t.dirs[d]
	okc := 0
	for i := 0; i < cnt; i++ {
		if dir.snd.WriteMessage(p) != nil {
			continue
		}
		dir.frames = append(dir.frames, len(dir.hist)+encHeaderSize+len(p)+macSize)
		w := &vnWriter{d: dir}
		_, ferr := dir.snd.Flush(w)
		q, err := dir.rcv.ReadMessage(&vnReader{d: dir})
		if err == nil {
			dir.nRead++
		}
		if err == nil && ferr == nil && bytes.Equal(p, q) {
			okc++
		}
	}
	se, sn := dir.spos()
	re, rn := dir.rpos()
	t.ops = append(t.ops, vnOp{"m", vnB(d), cnt, vnMsgSpec(p), okc, se, sn, re, rn})
}

// first message index whose bytes in the pipe differ from the untampered
// stream; -1 if the pipe is untouched
func (dir *vnDir) idealStart() int {
	if dir.nRead == 0 {
		return 0
	}
	if dir.nRead > len(dir.frames) {
		return len(dir.hist)
	}
	return dir.frames[dir.nRead-1]
}

func (dir *vnDir) affects() int {
	st := dir.idealStart()
	if st > len(dir.hist) {
		st = len(dir.hist)
	}
	ideal := dir.hist[st:]
	q := 0
	for q < len(dir.pipe) && q < len(ideal) && dir.pipe[q] == ideal[q] {
		q++
	}
	if q == len(dir.pipe) && q == len(ideal) {
		return -1
	}
	for i := dir.nRead; i < len(dir.frames); i++ {
		if st+q < dir.frames[i] {
			return i
		}
	}
	return len(dir.frames)
}

func (t *vnTr) tamper(d int) {
	r := t.r
	dir := t.dirs[d]
	n := len(dir.pipe)
	var spec []any
	// frame starts inside the pipe (valid while the pipe is untampered)
	starts := []int{0}
	var ends []int
	for i := dir.nRead; i < len(dir.frames); i++ {
		e := dir.frames[i] - dir.idealStart()
		ends = append(ends, e)
		if e > 0 && e < n {
			starts = append(starts, e)
		}
	}
	fs := starts[r.intn(len(starts))]
	switch k := r.intn(10); {
	case k < 3 && n > 0: // corrupt one byte: header ct, header mac, body ct, body mac
		off := r.intn(n)
		switch r.intn(5) {
		case 0:
			off = fs + r.intn(2)
		case 1:
			off = fs + 2 + r.intn(16)
		case 2:
			off = fs + 18
		case 3:
			off = n - 1 - r.intn(16)
		}
		if off < 0 || off >= n {
			off = r.intn(n)
		}
		dir.pipe[off] ^= byte(1 + r.intn(255))
		spec = []any{"flip", off}
	case k < 4 && n > 0: // truncate
		cut := r.intn(n)
		switch r.intn(4) {
		case 0:
			cut = fs
		case 1:
			cut = fs + 18
		case 2:
			cut = n - 1
		}
		if cut < 0 || cut >= n {
			cut = r.intn(n)
		}
		dir.pipe = dir.pipe[:cut]
		spec = []any{"trunc", cut}
	case k < 6 && n > 40: // drop bytes (a prefix, a whole frame, a header, a few bytes)
		off, l := fs, 18
		switch r.intn(4) {
		case 0:
			off, l = 0, 1+r.intn(20)
		case 1:
			// whole frame starting at fs
			for _, e := range ends {
				if e > fs {
					l = e - fs
					break
				}
			}
		case 2:
			off, l = r.intn(n-30), 1+r.intn(8)
		}
		if off+l > n-20 {
			// keep at least 20 bytes after the cut, else truncate
			dir.pipe = dir.pipe[:off]
			spec = []any{"trunc", off}
		} else {
			dir.pipe = append(append([]byte(nil), dir.pipe[:off]...), dir.pipe[off+l:]...)
			spec = []any{"cut", off, l}
		}
	default: // insert a segment of either direction's history: replay / reflection / splice
		src := d
		if r.intn(2) == 0 {
			src = 1 - d
		}
		h := t.dirs[src].hist
		if len(h) < 40 {
			src = d
			h = dir.hist
		}
		if len(h) < 40 {
			if n == 0 {
				return
			}
			off := r.intn(n)
			dir.pipe[off] ^= 0x80
			spec = []any{"flip", off}
			break
		}
		l := 18 + r.intn(40)
		switch r.intn(3) {
		case 0:
			l = 18
		case 1:
			l = 34 + r.intn(8)
		}
		if l > len(h) {
			l = len(h)
		}
		off := r.intn(len(h) - l + 1)
		if r.intn(2) == 0 {
			// align on the most recent bytes (frames still in flight)
			off = len(h) - n
			if off < 0 || off+l > len(h) {
				off = 0
			}
		}
		at := fs
		if r.intn(4) == 0 {
			at = r.intn(n + 1)
		}
		if r.intn(5) == 0 {
			at = n
		}
		seg := append([]byte(nil), h[off:off+l]...)
		np := append([]byte(nil), dir.pipe[:at]...)
		np = append(np, seg...)
		np = append(np, dir.pipe[at:]...)
		dir.pipe = np
		spec = []any{"ins", vnB(src), off, l, at}
	}
	var aff any
	if a := dir.affects(); a >= 0 {
		aff = a
	}
	t.ops = append(t.ops, vnOp{"t", vnB(d), spec, aff})
}

func (t *vnTr) pickMsg() []byte {
	r := t.r
	switch r.intn(14) {
	case 0:
		return []byte{}
	case 1:
		return r.bytes(1)
	case 2:
		return r.bytes(15 + r.intn(4))
	case 3:
		return r.bytes(255 + r.intn(3))
	case 4:
		if t.big < 2 {
			t.big++
			n := []int{65535, 65534, 65535 - 16, 40000 + r.intn(20000)}[r.intn(4)]
			return bytes.Repeat([]byte{byte(r.intn(256))}, n)
		}
		return r.bytes(2)
	case 5:
		if t.big < 3 && r.intn(3) == 0 {
			// too long: must be refused
			return bytes.Repeat([]byte{7}, 65536+r.intn(3))
		}
		return r.bytes(3)
	default:
		return r.bytes(r.intn(40))
	}
}

func vnNewTransport(r *vrng) *vnTr {
	s := &vnSession{rs: vnKey(r), ls: vnKey(r), ei: vnKey(r), er: vnKey(r)}
	s.target = s.rs.PubKey()
	init, resp := s.machines()
	a1, _ := init.GenActOne()
	if err := resp.RecvActOne(a1); err != nil {
		panic(err)
	}
	a2, _ := resp.GenActTwo()
	if err := init.RecvActTwo(a2); err != nil {
		panic(err)
	}
	a3, _ := init.GenActThree()
	if err := resp.RecvActThree(a3); err != nil {
		panic(err)
	}
	t := &vnTr{r: r}
	t.dirs[1] = &vnDir{snd: init, rcv: resp, sKey: init.sendCipher.secretKey, rKey: resp.recvCipher.secretKey}
	t.dirs[0] = &vnDir{snd: resp, rcv: init, sKey: resp.sendCipher.secretKey, rKey: init.recvCipher.secretKey}
	return t
}

func vnTransportCase(r *vrng, rotations int) map[string]any {
	t := vnNewTransport(r)

	dead := [2]bool{}
	phases := 2 + r.intn(3)
	if rotations > 0 {
		phases = 2*rotations + r.intn(3)
	}
	for ph := 0; ph < phases; ph++ {
		d := r.intn(2)
		if rotations > 0 {
			d = ph % 2
		}
		dir := t.dirs[d]
		if rotations > 0 {
			for i := 0; i < 64 && len(dir.pipe) > 0; i++ {
				t.read(d)
			}
		}
		// bring the send cipher close to the next rotation boundary
		if len(dir.pipe) == 0 && (rotations > 0 || r.intn(3) == 0) {
			pos := int(dir.snd.sendCipher.nonce) / 2
			cnt := (keyRotationInterval/2 - pos) - 1 - r.intn(4)
			if cnt < 0 {
				cnt = 0
			}
			if rotations == 0 && r.intn(2) == 0 {
				cnt = r.intn(30)
			}
			if cnt > 0 {
				t.many(d, cnt, r.bytes(r.intn(3)))
			}
		}
		// a burst of individually observed messages with faulty flushes
		nb := 2 + r.intn(6)
		for i := 0; i < nb; i++ {
			if t.write(d, t.pickMsg()) == 0 {
				t.flushAll(d, 60)
			}
			if r.intn(3) != 0 {
				t.read(d)
			}
		}
		for len(dir.pipe) > 0 && r.intn(4) != 0 {
			if t.read(d) != 0 {
				break
			}
		}
		// tampering: leave a few frames in flight, tamper, read
		if !dead[d] && r.intn(100) < 45 {
			k := 1 + r.intn(4)
			for i := 0; i < k; i++ {
				if t.write(d, t.pickMsg()) == 0 {
					if r.intn(6) == 0 && i == k-1 {
						// leave the last frame half flushed
						t.flush(d, t.pickResp(18), t.pickResp(len(dir.snd.nextBodySend)))
					} else {
						t.flushAll(d, 20)
					}
				}
			}
			nt := 1 + r.intn(2)
			for i := 0; i < nt; i++ {
				t.tamper(d)
			}
			for i := 0; i < k+2; i++ {
				t.read(d)
			}
			// the direction is most likely dead now; it is still used:
			// every later read must fail
			dead[d] = true
			for !t.flush(d, vnUnlimited, vnUnlimited) {
			}
			if t.write(d, r.bytes(5)) == 0 {
				t.flushAll(d, 0)
			}
			t.read(d)
			if r.intn(2) == 0 {
				t.many(d, 3, r.bytes(2))
			}
		}
	}
	// drain
	for d := 0; d < 2; d++ {
		for i := 0; i < 3 && len(t.dirs[d].pipe) > 0; i++ {
			t.read(d)
		}
		t.read(d)
	}
	return map[string]any{"kind": "tr", "ops": t.ops, "rotations": rotations,
		"interval": keyRotationInterval, "mac": macSize, "hdr": encHeaderSize}
}

// After a FAILED header read the Machine is not poisoned: the next read takes
// the 18-byte body of a 2-byte message as a header (same key chain, same nil
// associated data) and then returns the next header's plaintext as a message.
// lnd's peer drops the connection on the first read error, so this is not
// reachable there; the case pins the behaviour (model and code must agree).
func vnConfusionCase(r *vrng) map[string]any {
	t := vnNewTransport(r)
	t.write(1, []byte{0, 2})
	t.flushAll(1, 0)
	t.write(1, r.bytes(1+r.intn(60)))
	t.flushAll(1, 0)
	off := r.intn(18)
	t.dirs[1].pipe[off] ^= 0x01
	var aff any
	if a := t.dirs[1].affects(); a >= 0 {
		aff = a
	}
	t.ops = append(t.ops, vnOp{"t", true, []any{"flip", off}, aff})
	t.read(1)
	t.read(1)
	t.read(1)
	return map[string]any{"kind": "tr", "ops": t.ops, "rotations": 0, "confusion": true,
		"interval": keyRotationInterval, "mac": macSize, "hdr": encHeaderSize}
}

// ---------------------------------------------------------------- Conn level

// Scripted in-memory net.Conn.  Writing: the i-th Write call since the script
// was installed takes min(script[i][0], len(p)) bytes and reports a timeout
// iff script[i][1] != 0 or it took fewer than len(p) bytes; calls beyond the
// script take everything.  Reading: delivers the peer's bytes in seeded
// fragments, io.EOF when there are none (io.ReadFull then fails and has
// consumed what was there, like the model's reader).
type vnConn struct {
	r      *vrng
	buf    *bytes.Buffer // bytes this side's Write calls were taken
	rbuf   *bytes.Buffer // the peer's buf
	script [][2]int
	pos    int
	calls  int
	took   int
}

type vnTimeoutErr struct{}

func (vnTimeoutErr) Error() string   { return "verif: i/o timeout" }
func (vnTimeoutErr) Timeout() bool   { return true }
func (vnTimeoutErr) Temporary() bool { return true }

func (c *vnConn) install(script [][2]int) {
	c.script, c.pos, c.calls, c.took = script, 0, 0, 0
}

func (c *vnConn) Write(p []byte) (int, error) {
	k, e := 1<<30, 0
	if c.pos < len(c.script) {
		k, e = c.script[c.pos][0], c.script[c.pos][1]
	}
	c.pos++
	c.calls++
	n := k
	if n > len(p) {
		n = len(p)
	}
	c.buf.Write(p[:n])
	c.took += n
	if e != 0 || n < len(p) {
		return n, vnTimeoutErr{}
	}
	return n, nil
}
func (c *vnConn) Read(p []byte) (int, error) {
	// deliver in small fragments
	if len(p) > 1 {
		p = p[:1+c.r.intn(len(p))]
	}
	return c.rbuf.Read(p)
}
func (c *vnConn) Close() error                       { return nil }
func (c *vnConn) LocalAddr() net.Addr                { return nil }
func (c *vnConn) RemoteAddr() net.Addr               { return nil }
func (c *vnConn) SetDeadline(t time.Time) error      { return nil }
func (c *vnConn) SetReadDeadline(t time.Time) error  { return nil }
func (c *vnConn) SetWriteDeadline(t time.Time) error { return nil }

// error classes of the Conn calls: the Machine's classes plus 8 = the
// net.Conn's timeout
func vnConnCode(err error) int {
	var te vnTimeoutErr
	if errors.As(err, &te) {
		return 8
	}
	return vnCode(err)
}

// payloads: short random strings or a + i mod 251 sequences (so that a lost,
// duplicated or shifted chunk changes the bytes, and long strings have a short
// description for the model)
func vnSeq(n, a int) []byte {
	p := make([]byte, n)
	for i := range p {
		p[i] = byte((a + i) % 251)
	}
	return p
}

func vnConnSpec(p []byte) []any {
	if len(p) > 48 && p[0] < 251 {
		ok := true
		for i := range p {
			if p[i] != byte((int(p[0])+i)%251) {
				ok = false
				break
			}
		}
		if ok {
			return []any{"seq", len(p), int(p[0])}
		}
	}
	if len(p) > 4000 {
		// cannot happen with the payloads generated here (long ones are
		// sequences and a read never spans two records): keep the trace
		// small, the model will disagree
		return []any{"big", len(p)}
	}
	return []any{"lit", vnHex(p)}
}

func vnScriptJSON(s [][2]int) []any {
	out := []any{}
	for _, x := range s {
		out = append(out, []any{x[0], x[1] != 0})
	}
	return out
}

type vnCn struct {
	r      *vrng
	conns  [2]*Conn // index 1: initiator (writes direction d=1), 0: responder
	ops    []vnOp
	sent   [2][]byte // bytes completely handed over, per writing side
	got    [2][]byte // bytes the peer obtained from Read / ReadNext*
	acct   [2]int    // sum of the counts returned by Write / Flush
	torn   [2]bool
	nreads int
}

func (t *vnCn) nc(d int) *vnConn { return t.conns[d].conn.(*vnConn) }

func (t *vnCn) pending(d int) bool {
	m := t.conns[d].noise
	return len(m.nextHeaderSend) > 0 || len(m.nextBodySend) > 0
}

// a script with one faulty answer for a call sequence header, body, header, ...
// of a write of n payload bytes; clean with probability pclean percent
func (t *vnCn) script(n int, pclean int) [][2]int {
	r := t.r
	if r.intn(100) < pclean {
		return nil
	}
	chunks := (n + 65534) / 65535
	if chunks == 0 {
		chunks = 1
	}
	j := r.intn(2 * chunks)
	buflen := encHeaderSize
	if j%2 == 1 {
		cl := n - 65535*(j/2)
		if cl > 65535 {
			cl = 65535
		}
		if cl < 0 {
			cl = 0
		}
		buflen = cl + macSize
	}
	ke := t.pickK(buflen)
	k, e := ke[0], ke[1]
	s := make([][2]int, j+1)
	for i := range s {
		s[i] = [2]int{1 << 30, 0}
	}
	s[j] = [2]int{k, e}
	return s
}

// answer to a Write call of buflen bytes: boundaries of the buffer and of its MAC
func (t *vnCn) pickK(buflen int) [2]int {
	r := t.r
	k := 0
	switch r.intn(9) {
	case 0:
		k = 0
	case 1:
		k = 1
	case 2:
		k = buflen - 1
	case 3:
		k = buflen
	case 4:
		k = buflen - macSize
	case 5:
		k = buflen - macSize - 1 + r.intn(3)
	case 6:
		k = buflen - macSize + 1 + r.intn(macSize)
	default:
		k = r.intn(buflen + 1)
	}
	if k < 0 {
		k = 0
	}
	e := 0
	if k >= buflen && r.intn(3) == 0 {
		e = 1
	}
	return [2]int{k, e}
}

// Conn.Flush until it no longer times out
func (t *vnCn) flushAll(d int, pclean int) {
	for i := 0; t.pending(d); i++ {
		pc := pclean
		if i > 4 {
			pc = 100
		}
		var sc [][2]int
		if t.r.intn(100) >= pc {
			m := t.conns[d].noise
			hl, bl := len(m.nextHeaderSend), len(m.nextBodySend)
			switch {
			case hl > 0 && t.r.intn(2) == 0:
				sc = [][2]int{t.pickK(hl)}
			case hl > 0:
				sc = [][2]int{{1 << 30, 0}, t.pickK(bl)}
			default:
				sc = [][2]int{t.pickK(bl)}
			}
		}
		t.nc(d).install(sc)
		n, err := t.conns[d].Flush()
		t.acct[d] += n
		t.ops = append(t.ops, vnOp{"cf", vnB(d), vnScriptJSON(sc), n, vnConnCode(err),
			t.nc(d).calls, t.nc(d).took, t.pending(d)})
	}
}

// Conn.Write(p) by a caller that, on a timeout, retries Flush until the record
// is out and then writes the bytes not yet accounted for
func (t *vnCn) writeAll(d int, p []byte, pclean int) {
	for rounds := 0; rounds < 20; rounds++ {
		sc := t.script(len(p), pclean)
		t.nc(d).install(sc)
		before := t.acct[d]
		n, err := t.conns[d].Write(p)
		t.acct[d] += n
		t.ops = append(t.ops, vnOp{"cw", vnB(d), vnConnSpec(p), vnScriptJSON(sc), n,
			vnConnCode(err), t.nc(d).calls, t.nc(d).took, t.pending(d)})
		if err == nil {
			t.sent[d] = append(t.sent[d], p...)
			return
		}
		if vnConnCode(err) != 8 {
			return
		}
		if t.pending(d) && t.r.intn(4) == 0 {
			// a write while the record is pending must be refused
			q := t.r.bytes(1 + t.r.intn(5))
			if t.r.intn(3) == 0 {
				q = vnSeq(65536+t.r.intn(10), 3)
			}
			t.nc(d).install(nil)
			n2, err2 := t.conns[d].Write(q)
			t.ops = append(t.ops, vnOp{"cw", vnB(d), vnConnSpec(q), vnScriptJSON(nil), n2,
				vnConnCode(err2), t.nc(d).calls, t.nc(d).took, t.pending(d)})
		}
		t.flushAll(d, 50)
		done := t.acct[d] - before
		if done > len(p) || done < 0 {
			// impossible for a correct Flush; the predicate reports the counts
			done = len(p)
		}
		t.sent[d] = append(t.sent[d], p[:done]...)
		p = p[done:]
		if len(p) == 0 {
			return
		}
		pclean = 70
	}
}

func (t *vnCn) writeMessage(d int, p []byte, pclean int) {
	err := t.conns[d].WriteMessage(p)
	t.ops = append(t.ops, vnOp{"cwm", vnB(d), vnConnSpec(p), vnConnCode(err), t.pending(d)})
	if err != nil {
		return
	}
	t.flushAll(d, pclean)
	t.sent[d] = append(t.sent[d], p...)
}

// one read call on the receiving side of direction d
func (t *vnCn) read(d int) {
	r := t.r
	o := t.conns[1-d]
	t.nreads++
	if o.readBuf.Len() == 0 && r.intn(6) == 0 {
		if r.intn(2) == 0 {
			p, err := o.ReadNextMessage()
			var m any
			if err == nil {
				m = vnConnSpec(p)
				t.got[d] = append(t.got[d], p...)
			}
			t.ops = append(t.ops, vnOp{"crn", vnB(d), vnConnCode(err), m})
			return
		}
		l, err := o.ReadNextHeader()
		t.ops = append(t.ops, vnOp{"crh", vnB(d), vnConnCode(err), int(l)})
		if err != nil {
			return
		}
		p, err := o.ReadNextBody(make([]byte, l))
		var m any
		if err == nil {
			m = vnConnSpec(p)
			t.got[d] = append(t.got[d], p...)
		}
		t.ops = append(t.ops, vnOp{"crb", vnB(d), int(l), vnConnCode(err), m})
		return
	}
	k := 1 + r.intn(400)
	rem := o.readBuf.Len()
	switch r.intn(10) {
	case 0:
		k = 0
	case 1:
		k = 1
	case 2:
		if rem > 0 {
			k = rem
		}
	case 3:
		if rem > 1 {
			k = rem - 1
		}
	case 4:
		k = rem + 1
	case 5:
		k = 65535
	case 6:
		k = 70000 + r.intn(70000)
	}
	if rem > 2000 && k < rem/4 && r.intn(4) != 0 {
		// do not nibble at a big record for ever
		k = rem/2 + r.intn(rem)
	}
	b := make([]byte, k)
	n, err := o.Read(b)
	var m any
	if err == nil {
		m = vnConnSpec(b[:n])
		t.got[d] = append(t.got[d], b[:n]...)
	}
	t.ops = append(t.ops, vnOp{"cr", vnB(d), k, vnConnCode(err), m})
}

func (t *vnCn) available(d int) bool {
	o := t.conns[1-d]
	return o.readBuf.Len() > 0 || t.nc(1-d).rbuf.Len() > 0
}

// Conn.Write (one record and chunked) / WriteMessage / Flush retry against a
// net.Conn that takes part of a Write and times out, Conn.Read in odd buffer
// sizes, ReadNextMessage / ReadNextHeader+ReadNextBody.  Replayed by the model
// (Noise/Exec.v kop) and checked by the predicate (bytes out == bytes in).
func vnNewConnPair(r *vrng) *vnCn {
	s := &vnSession{rs: vnKey(r), ls: vnKey(r), ei: vnKey(r), er: vnKey(r)}
	s.target = s.rs.PubKey()
	init, resp := s.machines()
	a1, _ := init.GenActOne()
	resp.RecvActOne(a1)
	a2, _ := resp.GenActTwo()
	init.RecvActTwo(a2)
	a3, _ := init.GenActThree()
	if err := resp.RecvActThree(a3); err != nil {
		panic(err)
	}
	ab, ba := &bytes.Buffer{}, &bytes.Buffer{}
	t := &vnCn{r: r}
	t.conns[1] = &Conn{conn: &vnConn{r: r.fork(1), buf: ab, rbuf: ba}, noise: init}
	t.conns[0] = &Conn{conn: &vnConn{r: r.fork(2), buf: ba, rbuf: ab}, noise: resp}
	return t
}

func (t *vnCn) row() map[string]any {
	return map[string]any{"kind": "conn", "ops": t.ops,
		"equal": []bool{bytes.Equal(t.sent[0], t.got[0]), bytes.Equal(t.sent[1], t.got[1])},
		"sent":  []int{len(t.sent[0]), len(t.sent[1])}, "got": []int{len(t.got[0]), len(t.got[1])},
		"acct": []int{t.acct[0], t.acct[1]}, "torn": []bool{t.torn[0], t.torn[1]},
		"maxmsg": math.MaxUint16}
}

// thorough tier: Conn.Write of L bytes with the j-th net.Conn Write call
// answered (k, e); the caller retries Flush and writes the remainder; the peer
// reads everything
func vnConnSweepCase(r *vrng, L, j, k, e int) map[string]any {
	t := vnNewConnPair(r)
	d := 1
	p := vnSeq(L, L%251)
	sc := make([][2]int, j+1)
	for i := range sc {
		sc[i] = [2]int{1 << 30, 0}
	}
	sc[j] = [2]int{k, e}
	t.nc(d).install(sc)
	n, err := t.conns[d].Write(p)
	t.acct[d] += n
	t.ops = append(t.ops, vnOp{"cw", vnB(d), vnConnSpec(p), vnScriptJSON(sc), n,
		vnConnCode(err), t.nc(d).calls, t.nc(d).took, t.pending(d)})
	t.flushAll(d, 100)
	done := t.acct[d]
	if done > len(p) || done < 0 {
		done = len(p)
	}
	t.sent[d] = append(t.sent[d], p[:done]...)
	if done < len(p) {
		t.writeAll(d, p[done:], 100)
	}
	for i := 0; i < 600 && t.available(d); i++ {
		t.read(d)
	}
	t.read(d)
	return t.row()
}

func vnConnCase(r *vrng) map[string]any {
	t := vnNewConnPair(r)
	nw := 3 + r.intn(7)
	big := 0
	for i := 0; i < nw; i++ {
		d := r.intn(2)
		n := 1 + r.intn(300)
		switch r.intn(12) {
		case 0:
			n = 65534 + r.intn(2)
		case 1, 2:
			if big < 2 {
				big++
				n = []int{65536, 65535 * 2, 65535*2 + 1, 65535*2 - 1, 65537 + r.intn(70000),
					65535*3 + r.intn(3)}[r.intn(6)]
			}
		case 3:
			n = 1
		case 4:
			n = 0
		case 5:
			n = 15 + r.intn(4)
		}
		var p []byte
		if n > 48 {
			p = vnSeq(n, r.intn(251))
		} else {
			p = r.bytes(n)
		}
		pclean := 55
		if r.intn(3) == 0 {
			pclean = 100
		}
		if n <= 65535 && r.intn(3) == 0 {
			t.writeMessage(d, p, pclean)
		} else {
			t.writeAll(d, p, pclean)
		}
		// read what is available on the other side, in odd sizes; now and
		// then leave it for later or read once more at the end of the stream
		if r.intn(5) != 0 {
			for j := 0; j < 400 && t.available(d); j++ {
				t.read(d)
			}
			if r.intn(4) == 0 {
				t.read(d)
			}
		}
	}
	for d := 0; d < 2; d++ {
		for j := 0; j < 600 && t.available(d); j++ {
			t.read(d)
		}
	}
	// a torn record: the peer reads while a record is only partly out
	if r.intn(3) == 0 {
		d := r.intn(2)
		p := r.bytes(1 + r.intn(40))
		if err := t.conns[d].WriteMessage(p); err == nil {
			t.ops = append(t.ops, vnOp{"cwm", vnB(d), vnConnSpec(p), 0, true})
			sc := [][2]int{{1 << 30, 0}, {r.intn(len(p) + macSize), 0}}
			if r.intn(3) == 0 {
				sc = [][2]int{{r.intn(encHeaderSize), 0}}
			}
			t.nc(d).install(sc)
			n, err := t.conns[d].Flush()
			t.acct[d] += n
			t.ops = append(t.ops, vnOp{"cf", vnB(d), vnScriptJSON(sc), n, vnConnCode(err),
				t.nc(d).calls, t.nc(d).took, t.pending(d)})
			t.torn[d] = true
			t.read(d)
			t.read(d)
		}
	}
	return t.row()
}

func TestVerifNoise(t *testing.T) {
	out := vOpenOut()
	defer out.close()
	master := vNewRng(vSeed())
	nhs := int(vEnvInt("VERIF_N_HS", int64(vCases(150, 4000))))
	ntr := int(vEnvInt("VERIF_N_TR", int64(vCases(36, 600))))
	nrot := int(vEnvInt("VERIF_N_ROT", int64(vCases(6, 40))))
	ncn := int(vEnvInt("VERIF_N_CONN", int64(vCases(20, 400))))
	for i := 0; i < nhs; i++ {
		out.emit(vnHandshakeCase(master.fork(uint64(i))))
	}
	for i := 0; i < ntr; i++ {
		out.emit(vnTransportCase(master.fork(uint64(100000+i)), 0))
	}
	for i := 0; i < nrot; i++ {
		rot := 3
		if vTier() == "thorough" && i%4 == 0 {
			rot = 5
		}
		out.emit(vnTransportCase(master.fork(uint64(200000+i)), rot))
	}
	for i := 0; i < ncn; i++ {
		out.emit(vnConnCase(master.fork(uint64(300000 + i))))
	}
	if ntr > 0 {
		out.emit(vnConfusionCase(master.fork(400000)))
	}
	// independent crypto oracle (verif_noise_oracle_test.go)
	nor := int(vEnvInt("VERIF_N_HREF", int64(vCases(72, 1200))))
	for i := 0; i < nor; i++ {
		out.emit(vnOracleCase(master.fork(uint64(900000+i)), i))
	}
	// several sessions in one process (verif_noise_multi_test.go)
	nmr := int(vEnvInt("VERIF_N_MULTI", int64(vCases(16, 300))))
	nmc := int(vEnvInt("VERIF_N_MCONC", int64(vCases(4, 60))))
	nme := int(vEnvInt("VERIF_N_MENUM", int64(vCases(2, 12))))
	for i := 0; i < nme; i++ {
		for pair := 0; pair < 3; pair++ {
			out.emit(vnMultiEnumGroup(master.fork(uint64(600000+3*i+pair)), pair))
		}
	}
	for i := 0; i < nmr; i++ {
		out.emit(vnMultiRandCase(master.fork(uint64(700000 + i))))
	}
	for i := 0; i < nmc; i++ {
		out.emit(vnMultiConcCase(master.fork(uint64(800000 + i))))
	}
	if vEnvInt("VERIF_CONN_SWEEP", 0) != 0 {
		idx := uint64(500000)
		for _, L := range []int{65534, 65535, 65536, 65537, 2*65535 - 1, 2 * 65535, 2*65535 + 1,
			3 * 65535, 3*65535 + 1} {
			chunks := (L + 65534) / 65535
			for j := 0; j < 2*chunks; j++ {
				buflen := encHeaderSize
				if j%2 == 1 {
					cl := L - 65535*(j/2)
					if cl > 65535 {
						cl = 65535
					}
					buflen = cl + macSize
				}
				for _, ke := range [][2]int{{0, 0}, {buflen - macSize - 1, 0}, {buflen - macSize, 0},
					{buflen - 1, 0}, {buflen, 1}} {
					if ke[0] < 0 {
						continue
					}
					out.emit(vnConnSweepCase(master.fork(idx), L, j, ke[0], ke[1]))
					idx++
				}
			}
		}
	}
}
