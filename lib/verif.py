"""Shared machinery of the /verif checks (see DESIGN.md §2, §5).

A property module (props/cXX.py) defines `run(ctx)`; ctx is a Ctx object
giving it: tier/seed, Coq build + evaluation, Go harness injection via
`go test -overlay`, violation/known-finding reporting and evidence output.
"""
import fcntl
import glob
import hashlib
import json
import os
import re
import shutil
import subprocess
import sys
import time

ROOT = os.path.dirname(os.path.dirname(os.path.abspath(__file__)))
REPO = os.environ.get("VERIF_REPO", "/repo")
ALT = os.path.realpath(REPO) != "/repo"
# With VERIF_REPO pointing at a scratch worktree (mutation testing) everything
# mutable (build dir, regenerated Gen/*.v, .vo files) is private to that tree.
BUILD = os.path.join(ROOT, "build") if not ALT else \
    os.path.join(ROOT, "build", "alt_" + os.path.basename(os.path.realpath(REPO)))
COQ = os.path.join(ROOT, "coq") if not ALT else os.path.join(BUILD, "coq")
THEORIES = os.path.join(COQ, "theories")


def _sync_alt():
    if ALT:
        os.makedirs(COQ, exist_ok=True)
        subprocess.run(["rsync", "-a", "--delete", "--exclude", "theories/Gen/",
                        "--exclude", "Makefile*", "--exclude", ".Makefile.d",
                        os.path.join(ROOT, "coq") + "/", COQ + "/"], check=True)
NCPU = os.cpu_count() or 4

FORBIDDEN = re.compile(
    r"\b(Admitted|admit|Axiom|Axioms|Parameter|Parameters|Conjecture|Conjectures|"
    r"Abort All|Admit Obligations)\b|Unset Guard Checking|bypass_check|"
    r"type-in-type|impredicative-set|Unset Positivity|Unset Universe Checking|"
    r"Local Unset Guard")


def log(*a):
    print(*a, flush=True)


# --------------------------------------------------------------------------
# environment


def go_env(extra=None):
    env = dict(os.environ)
    # lnd needs go1.25.13 which is in the module cache as a toolchain: the
    # default GOTOOLCHAIN=auto selects it offline.  GOTOOLCHAIN=local or
    # GOSUMDB=off break that on this image (probed), so force them.
    env["GOTOOLCHAIN"] = "auto"
    env.pop("GOSUMDB", None)
    env["GOFLAGS"] = "-mod=mod"
    env["GOPROXY"] = "off"
    env.setdefault("GOCACHE", os.path.expanduser("~/.cache/go-build"))
    if extra:
        env.update({k: str(v) for k, v in extra.items()})
    return env


def sh(cmd, cwd=None, env=None, timeout=None, stdin=None):
    """Run; return (rc, combined output)."""
    try:
        p = subprocess.run(cmd, cwd=cwd, env=env, timeout=timeout, input=stdin,
                           stdout=subprocess.PIPE, stderr=subprocess.STDOUT,
                           shell=isinstance(cmd, str), text=True, errors="replace")
        return p.returncode, p.stdout
    except subprocess.TimeoutExpired as e:
        out = e.stdout or ""
        if isinstance(out, bytes):
            out = out.decode(errors="replace")
        return 124, out + "\n[timeout after %ss]" % timeout


class Lock:
    def __init__(self, name):
        os.makedirs(BUILD, exist_ok=True)
        self.path = os.path.join(BUILD, name + ".lock")

    def __enter__(self):
        self.f = open(self.path, "w")
        fcntl.flock(self.f, fcntl.LOCK_EX)
        return self

    def __exit__(self, *a):
        fcntl.flock(self.f, fcntl.LOCK_UN)
        self.f.close()


# --------------------------------------------------------------------------
# Coq


def write_if_changed(path, text):
    try:
        if open(path).read() == text:
            return False
    except FileNotFoundError:
        pass
    os.makedirs(os.path.dirname(path), exist_ok=True)
    with open(path, "w") as f:
        f.write(text)
    return True


def coq_project():
    """(Re)generate _CoqProject and Makefile from the .v files present."""
    vs = sorted(os.path.relpath(p, COQ) for p in
                glob.glob(os.path.join(THEORIES, "**", "*.v"), recursive=True))
    txt = ("-Q theories LV\n"
           "-arg -w -arg -notation-overridden,-deprecated-hint-without-locality,"
           "-deprecated-instance-without-locality,-deprecated-syntactic-definition\n"
           + "\n".join(vs) + "\n")
    changed = write_if_changed(os.path.join(COQ, "_CoqProject"), txt)
    if changed or not os.path.exists(os.path.join(COQ, "Makefile")):
        rc, out = sh(["coq_makefile", "-f", "_CoqProject", "-o", "Makefile"], cwd=COQ)
        if rc != 0:
            raise RuntimeError("coq_makefile failed:\n" + out)


def translate():
    """T1: regenerate coq/theories/Gen/*.v from /repo's working tree.
    Returns (ok, log)."""
    exe = os.path.join(BUILD, "translate")
    src = os.path.join(ROOT, "translate")
    if not os.path.exists(os.path.join(src, "main.go")):
        return True, "no translator"
    with Lock("translate"):
        newest = max(os.path.getmtime(p) for p in glob.glob(os.path.join(src, "*.go")))
        if not os.path.exists(exe) or os.path.getmtime(exe) < newest:
            env = go_env({"GOFLAGS": "", "GOTOOLCHAIN": "auto"})
            rc, out = sh(["go", "build", "-o", exe, "."], cwd=src, env=env, timeout=600)
            if rc != 0:
                return False, "translator build failed:\n" + out
        tmp = os.path.join(BUILD, "gen_tmp")
        shutil.rmtree(tmp, ignore_errors=True)
        os.makedirs(tmp)
        rc, out = sh([exe, "-repo", REPO, "-out", tmp], timeout=300)
        if rc != 0:
            return False, "translator failed:\n" + out
        gen = os.path.join(THEORIES, "Gen")
        os.makedirs(gen, exist_ok=True)
        for p in glob.glob(os.path.join(tmp, "*.v")):
            dstp = os.path.join(gen, os.path.basename(p))
            changed = write_if_changed(dstp, open(p).read())
            if ALT and not changed:
                # a scratch-tree build dir receives .vo files rsynced from the main tree with
                # their mtimes; make must never take a dependent of Gen/*.v as up to date there
                os.utime(dstp, None)
        return True, out


def coq_make(targets=None, timeout=3000, jobs=NCPU):
    """Full .vo build (never -vos) of the given targets (paths relative to
    coq/, e.g. 'theories/Shachain/Props.vo') or of everything."""
    with Lock("coq"):
        _sync_alt()
        coq_project()
        cmd = ["make", "-j%d" % jobs, "-k"] + (targets or [])
        rc, out = sh(cmd, cwd=COQ, timeout=timeout)
        return rc == 0, out


def coqc_eval(name, text, timeout=1200):
    """Compile a scratch .v under build/coq_eval/ against the built theories
    and return (rc, stdout)."""
    d = os.path.join(BUILD, "coq_eval")
    os.makedirs(d, exist_ok=True)
    path = os.path.join(d, name + ".v")
    with open(path, "w") as f:
        f.write(text)
    rc, out = sh(["coqc", "-Q", THEORIES, "LV", "-w", "none", path], cwd=d, timeout=timeout)
    for ext in (".vo", ".vok", ".vos", ".glob"):
        try:
            os.remove(os.path.join(d, name + ext))
        except FileNotFoundError:
            pass
    try:
        os.remove(os.path.join(d, "." + name + ".aux"))
    except FileNotFoundError:
        pass
    return rc, out


def print_assumptions(uid, module, theorems):
    """Returns {theorem: assumptions-text or None if the theorem is missing}.
    One coqc call per theorem set; a missing theorem does not hide others."""
    res = {}
    text = "Require Import %s.\n" % module
    for t in theorems:
        text += 'Goal True. idtac "@@BEGIN %s". Abort.\n' % t
        text += "Print Assumptions %s.\n" % t
        text += 'Goal True. idtac "@@END %s". Abort.\n' % t
    rc, out = coqc_eval("assump_" + uid, text)
    if rc == 0:
        for t in theorems:
            m = re.search(r"@@BEGIN %s\n(.*?)@@END %s" % (re.escape(t), re.escape(t)), out, re.S)
            res[t] = " ".join(m.group(1).split()) if m else None
        return res
    # some theorem missing / module broken: probe one by one
    for t in theorems:
        rc1, out1 = coqc_eval("assump_%s_1" % uid,
                              "Require Import %s.\nPrint Assumptions %s.\n" % (module, t))
        res[t] = " ".join(out1.split()) if rc1 == 0 else None
    return res


def _strip_comments(txt):
    out, depth, i = [], 0, 0
    while i < len(txt):
        if txt.startswith("(*", i):
            depth += 1
            i += 2
        elif txt.startswith("*)", i) and depth > 0:
            depth -= 1
            i += 2
        else:
            out.append(txt[i] if depth == 0 or txt[i] == "\n" else " ")
            i += 1
    return "".join(out)


def deps_closure(vo_targets):
    """.v files (absolute paths) the given .vo targets depend on inside this
    development, following `From LV Require … X.Y` / `Require … LV.X.Y` lines."""
    todo = [os.path.join(COQ, t[:-1]) for t in vo_targets]   # .vo -> .v
    seen = set()
    while todo:
        f = todo.pop()
        if f in seen or not os.path.exists(f):
            continue
        seen.add(f)
        body = _strip_comments(open(f, errors="replace").read())
        for sent in re.split(r"\.\s", body + " "):
            m = re.match(r"\s*(?:From\s+(\S+)\s+)?Require\s+(?:Import\s+|Export\s+)?(.*)$",
                         sent.strip(), re.S)
            if not m:
                continue
            for name in m.group(2).split():
                if name.startswith("LV."):
                    name = name[3:]
                elif m.group(1) != "LV":
                    continue
                cand = os.path.join(THEORIES, *name.split(".")) + ".v"
                if os.path.exists(cand):
                    todo.append(cand)
    return seen


def audit_sources(files=None):
    """grep the development (comments stripped) for anything that would declare
    an axiom or switch off a kernel check, and for Variable/Hypothesis outside a
    Section.  files=None audits every .v file.  Returns list of 'file:line: text'."""
    hits = []
    if files is None:
        files = glob.glob(os.path.join(THEORIES, "**", "*.v"), recursive=True)
    for p in sorted(files):
        body = _strip_comments(open(p, errors="replace").read())
        depth = 0
        for n, line in enumerate(body.split("\n"), 1):
            s = line.strip()
            if FORBIDDEN.search(line):
                hits.append("%s:%d: %s" % (os.path.relpath(p, ROOT), n, s))
            if re.match(r"Section\s+\w+\s*\.", s):
                depth += 1
            elif re.match(r"End\s+\w+\s*\.", s) and depth > 0:
                depth -= 1
            elif depth == 0 and re.match(r"(Variable|Variables|Hypothesis|Hypotheses|Context)\b", s):
                hits.append("%s:%d: top-level %s" % (os.path.relpath(p, ROOT), n, s))
    return hits


# ---- Coq term printers (for cases.v files) ----


def cN(n):
    return "%d%%N" % int(n)


def cZ(n):
    n = int(n)
    return "(%d)%%Z" % n


def cnat(n):
    return "%d%%nat" % int(n)


def cbool(b):
    return "true" if b else "false"


def clist(items):
    return "[" + "; ".join(items) + "]"


def cbytes(hexstr):
    b = bytes.fromhex(hexstr)
    return "[" + ";".join(str(x) for x in b) + "]%N"


def copt(x, f):
    return "None" if x is None else "(Some %s)" % f(x)


def parse_coq_list_result(out, name):
    """Extract the text after '<name> = ' up to the type annotation."""
    m = re.search(r"%s\s*=\s*(.*?)\n\s*:\s" % re.escape(name), out, re.S)
    return " ".join(m.group(1).split()) if m else None


# --------------------------------------------------------------------------
# Go harness injection


def _pkg_name(pkgdir):
    """Package clause of the non-test Go files of a /repo directory."""
    for p in sorted(glob.glob(os.path.join(REPO, pkgdir, "*.go"))):
        if p.endswith("_test.go"):
            continue
        for line in open(p, errors="replace"):
            m = re.match(r"package\s+(\w+)", line)
            if m:
                return m.group(1)
    raise RuntimeError("no package clause in " + pkgdir)


def run_harness(uid, pkgdir, files, test, env=None, timeout=1500, tags="verif",
                race=False, extra=None, moddir=""):
    """Inject harness files (paths under /verif/harness/) into /repo/<pkgdir>
    with -overlay and run `go test -run <test>`.  Nothing is written into
    /repo.  Returns (rc, trace_path, log)."""
    od = os.path.join(BUILD, "overlay", uid)
    os.makedirs(od, exist_ok=True)
    repl = {}
    pk = _pkg_name(pkgdir)
    util = open(os.path.join(ROOT, "harness", "_util", "verif_util_test.go.tmpl")).read()
    up = os.path.join(od, "verif_util_test.go")
    write_if_changed(up, util.replace("PKGNAME", pk))
    repl[os.path.join(REPO, pkgdir, "verif_util_test.go")] = up
    for f in files:
        src = os.path.join(ROOT, "harness", f)
        repl[os.path.join(REPO, pkgdir, os.path.basename(f))] = src
    ov = os.path.join(od, "overlay.json")
    with open(ov, "w") as fh:
        json.dump({"Replace": repl}, fh, indent=1)
    trace = os.path.join(BUILD, "trace_%s.jsonl" % uid)
    try:
        os.remove(trace)
    except FileNotFoundError:
        pass
    e = {"VERIF_OUT": trace}
    if env:
        e.update(env)
    cwd = os.path.join(REPO, moddir) if moddir else REPO
    rel = os.path.relpath(os.path.join(REPO, pkgdir), cwd)
    cmd = ["go", "test", "-overlay", ov, "-tags", tags, "-run", test, "-count=1",
           "-vet=off", "-timeout", "%ds" % timeout]
    if race:
        cmd.append("-race")
    if extra:
        cmd += extra
    cmd.append("./" + rel)
    rc, out = sh(cmd, cwd=cwd, env=go_env(e), timeout=timeout + 60)
    return rc, trace, out


def read_jsonl(path):
    rows = []
    if not os.path.exists(path):
        return rows
    with open(path) as f:
        for line in f:
            line = line.strip()
            if line:
                rows.append(json.loads(line))
    return rows


# --------------------------------------------------------------------------
# context: violations, known findings, evidence


class Ctx:
    def __init__(self, pid, tier, seed, replay=None):
        self.pid = pid
        self.tier = tier
        self.seed = seed
        self.replay = replay
        self.t0 = time.time()
        self.violations = []       # reported (unknown) violations
        self.known_hits = []       # matched known findings
        self.notes = []
        self.cov = {}
        self.assumptions = []
        try:
            self.known = [k for k in json.load(open(os.path.join(ROOT, "known_findings.json")))
                          ["findings"] if k.get("property") == pid]
        except FileNotFoundError:
            self.known = []
        # runs against a scratch worktree (VERIF_REPO) keep their outputs private
        self.outroot = ROOT if not ALT else BUILD
        os.makedirs(os.path.join(self.outroot, "replays"), exist_ok=True)
        os.makedirs(os.path.join(self.outroot, "evidence"), exist_ok=True)
        os.makedirs(BUILD, exist_ok=True)

    @property
    def thorough(self):
        return self.tier == "thorough"

    def uid(self, suffix=""):
        # per-process names: two runs of the same check at the same time must not share
        # trace / overlay / cases files
        return "%s_p%d%s" % (self.pid, os.getpid(), suffix)

    def _cleanup_scratch(self):
        """remove this run's per-process scratch files (kept when a violation was reported,
        for debugging)"""
        pat = "%s_p%d" % (self.pid, os.getpid())
        for path in glob.glob(os.path.join(BUILD, "trace_%s*.jsonl" % pat)) + \
                glob.glob(os.path.join(BUILD, "coq_eval", "*%s*" % pat)):
            try:
                os.remove(path)
            except OSError:
                pass
        for d in glob.glob(os.path.join(BUILD, "overlay", "%s*" % pat)):
            shutil.rmtree(d, ignore_errors=True)

    # -- reporting ---------------------------------------------------------
    def violation(self, kind, name, detail, signature=None, failing_input=True):
        """kind: impl_violates_predicate | correspondence_mismatch |
        proof_broken | translator_failed | harness_failed.
        signature: string matched against known_findings 'match' entries.
        failing_input: False => line ends with no-failing-input-found."""
        for k in self.known:
            if k.get("status") == "known" and signature is not None \
                    and re.search(k["match"], signature):
                msg = "KNOWN-FINDING: property=%s %s" % (self.pid, k["what"])
                if msg not in self.known_hits:
                    self.known_hits.append(msg)
                    log(msg)
                return
        n = len(self.violations)
        path = os.path.join(self.outroot, "replays", "%s-%d-%d.json" % (self.pid, self.seed, n))
        with open(path, "w") as f:
            json.dump({"property": self.pid, "seed": self.seed, "tier": self.tier,
                       "kind": kind, "name": name, "signature": signature,
                       "failing_input_found": bool(failing_input),
                       "detail": detail}, f, indent=1, default=str)
        self.violations.append(path)
        line = "VIOLATION property=%s replay=%s" % (self.pid, path)
        if not failing_input:
            line += " no-failing-input-found"
        log(line)

    def note(self, s):
        self.notes.append(s)
        log("  [%s] %s" % (self.pid, s))

    # -- proof stage -------------------------------------------------------
    def proof_stage(self, module, theorems, vo_targets, extra_trusted=None):
        """Regenerate Gen/*.v, build the .vo closure of the property's
        theorem file, audit, and collect Print Assumptions.
        Returns dict(ok=bool, broken=[names], log=str)."""
        res = {"ok": True, "broken": [], "log": ""}
        ok, tlog = translate()
        if not ok:
            res["ok"] = False
            res["broken"].append("translator")
            res["log"] += tlog
            res["translator_failed"] = True
        ok, mlog = coq_make(vo_targets)
        res["log"] += mlog[-6000:]
        if not ok:
            res["ok"] = False
        # the property's own dependency closure must be clean; hits elsewhere in the
        # development (another property's files) are recorded, not held against this one
        closure = deps_closure(vo_targets)
        hits = audit_sources(closure)
        if hits:
            res["ok"] = False
            res["broken"].append("audit: " + "; ".join(hits[:5]))
        other = [h for h in audit_sources() if h not in hits]
        self.cov["audit"] = {"files_in_closure": len(closure), "hits_in_closure": hits,
                             "hits_elsewhere_in_development": other[:10]}
        asm = print_assumptions(self.uid(), module, theorems)
        res["assumptions"] = asm
        for t, a in asm.items():
            if a is None:
                res["ok"] = False
                res["broken"].append(t)
        self.cov["obligations"] = len(theorems)
        self.cov["discharged"] = sum(1 for a in asm.values() if a is not None)
        self.cov["theorems"] = {t: (a if a is not None else "MISSING/BROKEN")
                                for t, a in asm.items()}
        self.cov["checker_cmd"] = ("coqc (Coq 8.16.1 kernel) via `make -C coq %s` "
                                   "+ Print Assumptions; coqchk -silent -o in the thorough tier"
                                   % " ".join(vo_targets))
        tb = ["Coq 8.16.1 kernel (coqc); vm_compute used, native_compute not used",
              "Go->Coq translator /verif/translate (only where Gen/*.v is in this property's closure: BOLT-3 script "
              "templates/witness shapes GenScripts.v for C04/C05; lnwire layouts GenWire.v/GenWireSym.v for C10; integer "
              "functions and constants GenArith.v/GenConsts.v with <Subsys>/GenBridge.v equalities for C01-C03, C06, "
              "C09, C10, C11, C14, C17, C18); its Go-type table (btcutil.Amount = int64, …) is trusted",
              "correspondence harness (Go test files injected with -overlay) + python driver lib/verif.py",
              "model evaluated inside Coq by vm_compute on the recorded implementation traces"]
        axs = sorted({a for a in asm.values() if a and "Closed under the global context" not in a})
        tb.append("axioms reported by Print Assumptions: " +
                  ("none (all theorems closed under the global context)" if not axs
                   else " | ".join(axs)))
        if extra_trusted:
            tb += extra_trusted
        self.cov["trusted_base"] = tb
        self.proof = res
        return res

    def coqchk(self, modules, timeout=3000):
        """Thorough tier: independent re-check of compiled files."""
        with Lock("coq"):
            rc, out = sh(["coqchk", "-silent", "-o", "-Q", "theories", "LV"] + modules,
                         cwd=COQ, timeout=timeout)
        self.cov["coqchk"] = {"rc": rc, "tail": out[-1500:]}
        return rc == 0, out

    # -- evidence ----------------------------------------------------------
    def finish(self):
        ev = {
            "property_id": self.pid,
            "tier": self.tier,
            "seed": self.seed,
            "level": "proof",
            "coverage": self.cov,
            "assumptions": self.assumptions,
            "wall_s": round(time.time() - self.t0, 2),
            "violations": len(self.violations),
        }
        ev["coverage"].setdefault("known_findings_hit", self.known_hits)
        ev["coverage"].setdefault("notes", self.notes)
        with open(os.path.join(self.outroot, "evidence", self.pid + ".json"), "w") as f:
            json.dump(ev, f, indent=1, default=str)
        if self.violations:
            return 1
        self._cleanup_scratch()
        log("OK property=%s tier=%s seed=%d wall=%.1fs" %
            (self.pid, self.tier, self.seed, time.time() - self.t0))
        return 0


def distinct_count(rows, key):
    return len({hashlib.sha1(json.dumps(key(r), sort_keys=True, default=str).encode()).hexdigest()
                for r in rows})


# --------------------------------------------------------------------------
# kernel-path model evaluation on recorded cases (cases.v, vm_compute)


def coq_mismatches(uid, imports, case_terms, shard=100, mism="mismatches",
                   timeout=1500, scope=None):
    """case_terms: list of Coq terms (one per case).  Evaluates
    `<mism> [cases] base` by vm_compute in parallel shards; the Coq function
    must return list (N * list N) = (case index, disagreeing op indices).
    Returns (ok, [(case_index, [op indices])], logs)."""
    from concurrent.futures import ThreadPoolExecutor
    # shards are bounded by case count AND by term text size (coqc's memory grows
    # with the size of the parsed term: a 60 GB box was OOM-killed by 16 shards
    # of several MB each); a shard that is killed or times out is split in two
    # and retried, so that memory pressure never turns into a verdict.
    MAXTXT = 1200000
    shards, cur, cur_sz, base0 = [], [], 0, 0
    for i, t in enumerate(case_terms):
        if cur and (len(cur) >= shard or cur_sz + len(t) > MAXTXT):
            shards.append((base0, cur))
            cur, cur_sz, base0 = [], 0, i
        cur.append(t)
        cur_sz += len(t)
    if cur:
        shards.append((base0, cur))

    def mem_workers():
        try:
            for ln in open("/proc/meminfo"):
                if ln.startswith("MemAvailable"):
                    return max(2, min(NCPU, int(ln.split()[1]) // (3 * 1024 * 1024)))
        except OSError:
            pass
        return NCPU

    def one_raw(base, terms, tmo):
        txt = imports + "\n"
        if scope:
            txt += "Local Open Scope %s.\n" % scope
        txt += "Definition cases := [\n" + ";\n".join(terms) + "\n].\n"
        txt += "Definition M := Eval vm_compute in %s cases %d%%N.\n" % (mism, base)
        txt += "Set Printing Width 1000000.\nSet Printing Depth 1000000.\nPrint M.\n"
        return coqc_eval("cases_%s_%d" % (uid, base), txt, timeout=tmo)

    def one(arg):
        base, terms = arg
        rc, out = one_raw(base, terms, timeout)
        if rc in (-9, 137, 124) or "Out of memory" in out or "Stack overflow" in out:
            if len(terms) > 1:
                h = len(terms) // 2
                b1, rc1, out1 = one((base, terms[:h]))
                b2, rc2, out2 = one((base + h, terms[h:]))
                if rc1 == 0 and rc2 == 0:
                    l1 = parse_coq_list_result(out1, "M")
                    l2 = parse_coq_list_result(out2, "M")
                    if l1 is not None and l2 is not None:
                        items = [x.strip()[1:-1].strip() for x in (l1, l2)]
                        return base, 0, "M = [" + "; ".join(x for x in items if x) + "]\n     : list"
                return base, (rc1 or rc2), out1[-1500:] + out2[-1500:]
        return base, rc, out

    bad, logs, ok = [], [], True
    with ThreadPoolExecutor(max_workers=mem_workers()) as ex:
        for base, rc, out in ex.map(one, shards):
            if rc != 0:
                ok = False
                logs.append("shard %d: coqc rc=%d\n%s" % (base, rc, out[-3000:]))
                continue
            body = parse_coq_list_result(out, "M")
            if body is None:
                ok = False
                logs.append("shard %d: unparsable output\n%s" % (base, out[-2000:]))
                continue
            if body.strip() == "[]":
                continue
            found = 0
            for m in re.finditer(r"\(\s*(\d+)%N\s*,\s*\[([^\]]*)\]\s*\)", body):
                found += 1
                bad.append((int(m.group(1)), [int(x) for x in re.findall(r"(\d+)%N", m.group(2))]))
            # every top-level pair must have been parsed: count "(n%N," openers
            if found == 0 or found != len(re.findall(r"\(\s*\d+%N\s*,\s*\[", body)):
                ok = False
                logs.append("shard %d: unexpected M = %s" % (base, body[:500]))
    return ok, bad, logs
