"""C11 — the transport delivers exactly the bytes sent, in order, or fails; never altered."""
import json

from lib.verif import *
from props import c11_ref as REF

THEOREMS = [
    "C11_handshake_agrees", "C11_handshake_rejects", "C11_stream_roundtrip",
    "C11_nonce_unique", "C11_tamper_rejected", "C11_conn_stream_roundtrip",
    "C11_sessions_independent",
]
MODULE = "LV.Noise.Props"
TARGETS = ["theories/Noise/Props.vo", "theories/Noise/Exec.vo", "theories/Noise/Examples.vo",
           "theories/Noise/GenBridge.vo"]
HARNESS = ["brontide/verif_noise_test.go", "brontide/verif_noise_multi_test.go",
           "brontide/verif_noise_oracle_test.go"]
WARM = [{"pkg": "brontide", "files": HARNESS}]
IMPORTS = ("From Coq Require Import List NArith Bool.\nImport ListNotations.\n"
           "From LV Require Import Noise.Model Noise.Exec.\n")
INF = 10 ** 12


# ---- Coq term printers ------------------------------------------------------

def cb(hexstr):
    return "[" + ";".join(str(x) for x in bytes.fromhex(hexstr)) + "]"


def cmsg(m):
    if m[0] == "lit":
        return "(MLit %s)" % cb(m[1])
    if m[0] == "seq":
        return "(MSeq %d %d)" % (m[1], m[2])
    if m[0] == "big":
        # a long read result that is not one of the generated sequences (only a misbehaving
        # implementation produces it): 255 never occurs in a generated long payload
        return "(MRep %d 255)" % m[1]
    return "(MRep %d %d)" % (m[1], m[2])


def comsg(m):
    return "None" if m is None else "(Some %s)" % cmsg(m)


def cscript(rs):
    return clist([cresp(r) for r in rs])


def ckop(o):
    k = o[0]
    if k == "cw":
        return "KWrite %s %s %s %d %d %d %d" % (cbool(o[1]), cmsg(o[2]), cscript(o[3]), o[4], o[5], o[6], o[7])
    if k == "cwm":
        return "KWriteMsg %s %s %d" % (cbool(o[1]), cmsg(o[2]), o[3])
    if k == "cf":
        return "KFlush %s %s %d %d %d %d" % (cbool(o[1]), cscript(o[2]), o[3], o[4], o[5], o[6])
    if k == "cr":
        return "KRead %s %d %d %s" % (cbool(o[1]), o[2], o[3], comsg(o[4]))
    if k == "crn":
        return "KReadNext %s %d %s" % (cbool(o[1]), o[2], comsg(o[3]))
    if k == "crh":
        return "KReadHdr %s %d %d" % (cbool(o[1]), o[2], o[3])
    if k == "crb":
        return "KReadBody %s %d %d %s" % (cbool(o[1]), o[2], o[3], comsg(o[4]))
    if k == "cc":
        return "KClear %s" % cbool(o[1])
    raise ValueError(k)


def ctamper(t):
    k = t[0]
    if k == "ver":
        return "TVersion %d" % t[1]
    if k == "ephbad":
        return "TEphBad"
    if k == "ephother":
        return "TEphOther"
    if k == "flip":
        return "TFlip %d" % t[1]
    if k == "alt":
        return "TAlt"
    if k == "reflect":
        return "TReflect"
    raise ValueError(k)


def cptamper(t):
    k = t[0]
    if k == "flip":
        return "(PFlip %d)" % t[1]
    if k == "trunc":
        return "(PTrunc %d)" % t[1]
    if k == "cut":
        return "(PCut %d %d)" % (t[1], t[2])
    if k == "ins":
        return "(PIns %s %d %d %d)" % (cbool(t[1]), t[2], t[3], t[4])
    raise ValueError(k)


def cresp(r):
    return "(%d, %s)" % (r[0], cbool(r[1]))


def ctop(o):
    k = o[0]
    if k == "w":
        return "TWrite %s %s %d %d %d" % (cbool(o[1]), cmsg(o[2]), o[3], o[4], o[5])
    if k == "f":
        return "TFlush %s %s %s %d %s %d %d" % (cbool(o[1]), cresp(o[2]), cresp(o[3]), o[4],
                                                cbool(o[5]), o[6], o[7])
    if k == "r":
        return "TRead %s %d %s %d %d" % (cbool(o[1]), o[2],
                                         "None" if o[3] is None else "(Some %s)" % cmsg(o[3]),
                                         o[4], o[5])
    if k == "m":
        return "TMany %s %d %s %d %d %d %d %d" % (cbool(o[1]), o[2], cmsg(o[3]), o[4],
                                                  o[5], o[6], o[7], o[8])
    if k == "t":
        return "TTamp %s %s" % (cbool(o[1]), cptamper(o[2]))
    if k == "c":
        return "TClear %s" % cbool(o[1])
    raise ValueError(k)


def case_term(c):
    if c["kind"] == "hs":
        return "CHs (mkHs 11 12 13 14 %d 15 16 %s %s %s %s %s)" % (
            11 if c["target"] == 0 else 17,
            clist([ctamper(t) for t in c["t1"]]), clist([ctamper(t) for t in c["t2"]]),
            clist([ctamper(t) for t in c["t3"]]),
            clist([str(x) for x in c["obs"]]), cbool(c["agree"]))
    if c["kind"] == "conn":
        return "CCn %s" % clist([ckop(o) for o in c["ops"]])
    return "CTr %s" % clist([ctop(o) for o in c["ops"]])


# ---- property predicate on the implementation's own trace --------------------

def mlen(m):
    return len(m[1]) // 2 if m[0] == "lit" else m[1]   # lit: hex; rep / seq / big: length


def pred_hs(c):
    f = []
    should = c["target"] == 0 and not c["tampered"]
    if c["completed"] != should:
        f.append("handshake %s although target=%s tampered=%s (codes %s)" % (
            "completed" if c["completed"] else "failed",
            "real key" if c["target"] == 0 else "other key", c["tampered"], c["obs"]))
    if c["completed"] and not c["agree"]:
        f.append("handshake completed but send/recv keys or learnt static key disagree")
    if any(x != 0 for x in c["obs"][:-1]) or len(c["obs"]) > 3:
        f.append("handshake continued after a failed act: %s" % c["obs"])
    return f


class Dir:
    def __init__(self):
        self.written = []       # messages accepted by WriteMessage; message i uses send positions 2i, 2i+1
        self.completed = 0      # messages whose bytes have all been handed to the writer
        self.pending = False
        self.flushed = 0
        self.remaining = 0
        self.failed_since_tamper = False
        self.broken = False     # some read failed after consuming bytes / a nonce
        self.affects = INF      # first message whose bytes in flight were tampered with
        self.slin = 0
        self.rlin = 0
        self.used = set()


def pred_tr(c, stats):
    """Predicate on the implementation trace of one transport case.
    * WriteMessage: refused iff too long or a message is pending; each accepted one moves the
      send position (epoch*interval+nonce) by exactly 2, nonce < interval, no (key, nonce) reuse.
    * Flush: returned counts of one message sum to its length.
    * ReadMessage: a successful read at receive position 2i returns exactly message i (so: the
      written messages, in order, never altered, never one that was not completely sent); the
      first message whose ciphertext was tampered with is not returned by the first read that
      reaches it (that read fails); a complete untampered
      message on an unbroken stream is delivered.  After a failed read (lnd drops the connection
      there) only authenticity is required of later reads."""
    f = []
    iv = c.get("interval", 1000)
    D = {True: Dir(), False: Dir()}

    def lin(e, n, what, i):
        if n >= iv:
            f.append("op %d: %s nonce %d >= rotation interval" % (i, what, n))
        return e * iv + n

    for i, o in enumerate(c["ops"]):
        k, d = o[0], D[o[1]]
        stats["ops"][k] = stats["ops"].get(k, 0) + 1
        if k == "w":
            m, code, e, n, kf, n0 = o[2], o[3], o[4], o[5], o[6], o[7]
            l = lin(e, n, "send", i)
            stats["wcodes"][code] = stats["wcodes"].get(code, 0) + 1
            if code == 0:
                if mlen(m) > 65535:
                    f.append("op %d: message of %d bytes accepted" % (i, mlen(m)))
                if d.pending:
                    f.append("op %d: WriteMessage accepted while a message is pending" % i)
                if l != d.slin + 2:
                    f.append("op %d: send position moved %d -> %d on a write" % (i, d.slin, l))
                for nn in (n0, n0 + 1):
                    if (kf, nn) in d.used:
                        f.append("op %d: (key %s, nonce %d) used twice to encrypt" % (i, kf, nn))
                    d.used.add((kf, nn))
                d.written.append(m)
                d.pending = True
                d.flushed = 0
                d.remaining = c.get("hdr", 18) + mlen(m) + c.get("mac", 16)
                stats["sizes"].append(mlen(m))
            else:
                if l != d.slin:
                    f.append("op %d: refused write moved the send position" % i)
                if mlen(m) <= 65535 and not d.pending:
                    f.append("op %d: write refused (code %d) without reason" % (i, code))
            d.slin = l
        elif k == "f":
            n, err, calls, took = o[4], o[5], o[6], o[7]
            stats["flush"]["err" if err else "ok"] += 1
            if not d.pending:
                stats["release"]["tr no-op Flush"] += 1
                if n != 0 or err or calls != 0 or took != 0:
                    f.append("op %d: Flush with nothing buffered did something" % i)
                continue
            d.flushed += n
            d.remaining -= took
            if d.remaining < 0:
                f.append("op %d: more bytes handed to the writer than the frame has" % i)
            if not err and d.remaining != 0:
                f.append("op %d: Flush reported success with %d bytes unwritten" % (i, d.remaining))
            if d.remaining == 0:
                if d.flushed != mlen(d.written[-1]):
                    f.append("op %d: Flush counts sum to %d for a %d byte message" % (
                        i, d.flushed, mlen(d.written[-1])))
                d.pending = False
                d.completed = len(d.written)
            elif d.flushed > mlen(d.written[-1]):
                f.append("op %d: Flush counts exceed the message length" % i)
        elif k == "r":
            code, m, e, n, pl = o[2], o[3], o[4], o[5], o[6]
            l = lin(e, n, "recv", i)
            stats["rcodes"][code] = stats["rcodes"].get(code, 0) + 1
            idx, odd = d.rlin // 2, d.rlin % 2
            if code == 0:
                if odd:
                    # header/body confusion after a failed header read; see notes/C11.md
                    stats["odd_position_reads"] += 1
                elif idx == d.affects and not d.failed_since_tamper:
                    f.append("op %d: read of message %d returned data although its ciphertext was "
                             "tampered with" % (i, idx))
                elif idx >= d.completed:
                    f.append("op %d: read returned data that was never (completely) sent" % i)
                elif m != d.written[idx]:
                    f.append("op %d: read returned %s, message %d sent was %s" % (
                        i, str(m)[:80], idx, str(d.written[idx])[:80]))
                if l != d.rlin + 2:
                    f.append("op %d: recv position moved %d -> %d on a read" % (i, d.rlin, l))
            else:
                if m is not None:
                    f.append("op %d: failed read returned data" % i)
                if not d.broken and idx < d.affects and idx < d.completed:
                    f.append("op %d: complete untampered message %d not delivered (code %d)" % (
                        i, idx, code))
                if idx >= d.affects:
                    stats["tamper_rejected"] += 1
                if pl > 0 or l != d.rlin:
                    d.broken = True
                    d.failed_since_tamper = True
                if not (d.rlin <= l <= d.rlin + 2):
                    f.append("op %d: recv position moved %d -> %d on a failed read" % (i, d.rlin, l))
            d.rlin = l
        elif k == "m":
            cnt, m, okc = o[2], o[3], o[4]
            sl, rl = lin(o[5], o[6], "send", i), lin(o[7], o[8], "recv", i)
            if sl != d.slin + 2 * cnt:
                f.append("op %d: %d writes moved the send position %d -> %d" % (i, cnt, d.slin, sl))
            clean = (not d.broken and d.affects == INF and not d.pending
                     and d.rlin == d.slin and d.completed == len(d.written))
            if clean:
                if okc != cnt:
                    f.append("op %d: only %d of %d clean messages delivered" % (i, okc, cnt))
                if rl != d.rlin + 2 * cnt:
                    f.append("op %d: %d reads moved the recv position %d -> %d" % (i, cnt, d.rlin, rl))
                stats["rotations"] += (sl // iv) - (d.slin // iv)
            elif okc:
                stats["bulk_after_break_delivered"] += okc
            if not (d.rlin <= rl <= d.rlin + 2 * cnt):
                f.append("op %d: recv position moved %d -> %d in %d reads" % (i, d.rlin, rl, cnt))
            d.written += [m] * cnt
            d.completed = len(d.written)
            d.slin, d.rlin = sl, rl
            stats["many_msgs"] += cnt
        elif k == "t":
            stats["tampers"][o[2][0]] = stats["tampers"].get(o[2][0], 0) + 1
            # o[3]: first message whose bytes in the pipe now differ from the untampered stream
            # (None: the pipe is - again - exactly the untampered stream, e.g. garbage appended
            # and then truncated away); only meaningful while no read has desynchronised the pipe
            if not d.broken:
                d.affects = INF if o[3] is None else o[3]
                d.failed_since_tamper = False
            elif o[3] is not None:
                d.affects = min(d.affects, o[3])
        elif k == "c":
            # ClearPendingSend / releaseBuffers.  Redundant when nothing is buffered; otherwise the
            # sender itself truncates its stream inside the last accepted message.
            stats["release"]["tr pending" if o[2] else "tr redundant"] += 1
            if o[2] != d.pending:
                f.append("op %d: ClearPendingSend found a buffered record: %s, the writes/flushes so far say %s"
                         % (i, o[2], d.pending))
            if d.pending:
                d.pending = False
                d.affects = min(d.affects, len(d.written) - 1)
    if c.get("multi"):
        # several sessions in one process, nobody touches the bytes in flight and the harness
        # reads everything at the end: every completely sent message has been delivered
        for b in (True, False):
            d = D[b]
            if not c["dead"][int(b)] and d.rlin != 2 * d.completed:
                f.append("direction %d: %d messages completely sent on an untampered stream, receive "
                         "position is %d at the end" % (int(b), d.completed, d.rlin))
    return f


def pred_conn(c, stats=None):
    """Predicate on the trace of one Conn case (two Conns over scripted faulty net.Conns):
    * the bytes obtained through Conn.Read / ReadNext* equal the bytes written through Conn.Write /
      WriteMessage(+Flush retries), per direction, in order;
    * Conn.Write without error returns len(b); the counts returned by Write and Flush add up to the
      bytes handed over; a write while a record is pending is refused with count 0;
    * Conn.Read returns at most len(b) bytes, never fails with a MAC error on a clean link; the only
      failures are io.EOF (nothing there / empty record) and, on a torn record, EOF."""
    f = []
    mx = c.get("maxmsg", 65535)
    torn = c.get("torn", [False, False])
    for d in (0, 1):
        if not c["equal"][d]:
            f.append("direction %d: Conn.Read bytes differ from Conn.Write bytes (sent %d got %d)" % (
                d, c["sent"][d], c["got"][d]))
        if not torn[d] and c["acct"][d] != c["sent"][d]:
            f.append("direction %d: counts returned sum to %d, %d bytes were handed over" % (
                d, c["acct"][d], c["sent"][d]))
    pend = {True: False, False: False}
    gotn = {True: 0, False: 0}
    for i, o in enumerate(c["ops"]):
        k, d = o[0], o[1]
        if stats is not None:
            stats["conn_ops"][k] = stats["conn_ops"].get(k, 0) + 1
        if k == "cw":
            n, code, l = o[4], o[5], mlen(o[2])
            if stats is not None:
                stats["conn_write_codes"][code] = stats["conn_write_codes"].get(code, 0) + 1
                stats["conn_write_sizes"].append(l)
            if pend[d]:
                if code != 6 or n != 0:
                    f.append("op %d: Conn.Write while a record is pending returned (%d, code %d)" % (i, n, code))
                continue
            if code == 0 and n != l:
                f.append("op %d: Conn.Write of %d bytes returned %d without error" % (i, l, n))
            if code not in (0, 8):
                f.append("op %d: Conn.Write failed with code %d" % (i, code))
            if n > l:
                f.append("op %d: Conn.Write of %d bytes returned %d" % (i, l, n))
            if code == 0 and o[8]:
                f.append("op %d: Conn.Write returned no error but a record is still buffered" % i)
            pend[d] = o[8]
            expect_calls = 2 * ((l + mx - 1) // mx if l else 1)
            if code == 0 and o[6] != expect_calls:
                f.append("op %d: Conn.Write of %d bytes made %d net.Conn writes, expected %d (records of "
                         "at most %d bytes)" % (i, l, o[6], expect_calls, mx))
        elif k == "cwm":
            if o[3] != 0 and not (pend[d] and o[3] == 6):
                f.append("op %d: WriteMessage failed with code %d" % (i, o[3]))
            pend[d] = o[4]
        elif k == "cc":
            if stats is not None:
                stats["release"]["conn pending" if o[2] else "conn redundant"] += 1
            if o[2] != pend[d]:
                f.append("op %d: ClearPendingSend found a buffered record: %s, the calls so far say %s" % (
                    i, o[2], pend[d]))
            pend[d] = False
        elif k == "cf":
            if not pend[d]:
                if stats is not None:
                    stats["release"]["conn no-op Flush"] += 1
                if o[3] != 0 or o[4] != 0 or o[5] != 0 or o[6] != 0:
                    f.append("op %d: Conn.Flush with nothing buffered did something" % i)
            if o[4] == 0 and o[7]:
                f.append("op %d: Flush returned no error but a record is still buffered" % i)
            if o[4] not in (0, 8):
                f.append("op %d: Flush failed with code %d" % (i, o[4]))
            pend[d] = o[7]
        elif k == "cr":
            kk, code, m = o[2], o[3], o[4]
            if stats is not None:
                stats["conn_read_codes"][code] = stats["conn_read_codes"].get(code, 0) + 1
            if code == 0:
                if mlen(m) > kk:
                    f.append("op %d: Conn.Read into %d bytes returned %d" % (i, kk, mlen(m)))
                gotn[d] += mlen(m)
            elif code != 4:
                f.append("op %d: Conn.Read failed with code %d on a clean link" % (i, code))
        elif k in ("crn", "crb"):
            code, m = (o[2], o[3]) if k == "crn" else (o[3], o[4])
            if code == 0:
                gotn[d] += mlen(m)
            elif code != 4:
                f.append("op %d: %s failed with code %d on a clean link" % (i, k, code))
        elif k == "crh":
            if o[2] not in (0, 4):
                f.append("op %d: ReadNextHeader failed with code %d on a clean link" % (i, o[2]))
    for d in (0, 1):
        if gotn[bool(d)] != c["got"][d]:
            f.append("direction %d: read results sum to %d bytes, harness collected %d" % (
                d, gotn[bool(d)], c["got"][d]))
    return f


def multi_units(c):
    """The per-session cases of a multi row: [(label, session case)].  For an enum group: the sessions
    of the reference (sequential) merge and of every emitted deviating merge."""
    u = [("s%d" % i, sc) for i, sc in enumerate(c["sessions"])]
    for j, dv in enumerate(c.get("deviating") or []):
        u += [("merge %s s%d" % ("".join(str(x) for x in dv["sched"]), i), sc)
              for i, sc in enumerate(dv["sessions"])]
    return u


def pred_multi(c, stats):
    """Several sessions alive in one process (enum: all merges of two scripts; rand: seeded
    interleaving of 2..4 actors; conc: one goroutine per session).  Nothing is tampered with, so for
    EVERY session the per-session predicate must hold with 'every completely sent message is
    delivered, in order, unaltered' (pred_tr / pred_conn, multi flag); a returned message must not
    change after the read returned; the trace of a session must not depend on the merge."""
    f = []
    fam = c["family"]
    stats["multi_families"][fam] = stats["multi_families"].get(fam, 0) + 1
    stats["multi_modes"]["%s/%s" % (fam, c["mode"])] = stats["multi_modes"].get("%s/%s" % (fam, c["mode"]), 0) + 1
    stats["multi_merges"] += c.get("merges", 1)
    stats["multi_steps_while_other_pending"] += c.get("steps_while_other_pending", 0)
    ks = "+".join(sorted(sc["kind"] for sc in c["sessions"]))
    stats["multi_session_mix"][ks] = stats["multi_session_mix"].get(ks, 0) + 1
    for v in c.get("variants") or []:
        key = "x=%s %s" % ({0: "clear", 5: "no-op flush", 7: "flush+clear"}.get(v["x"], v["x"]),
                           "header cut" if v["hdr_cut"] else "body cut")
        stats["multi_enum_variants"][key] = stats["multi_enum_variants"].get(key, 0) + 1
    for label, sc in multi_units(c):
        sub = pred_tr(sc, stats) if sc["kind"] == "tr" else pred_conn(sc, stats)
        f += ["session %s (%s): %s" % (label, sc["kind"], x) for x in sub[:4]]
    if any(c["kept_bad"]):
        f.append("a message returned by an earlier read was altered afterwards (%s per session)" % c["kept_bad"])
    if c.get("n_deviating"):
        f.append("the trace of a session depends on how it is interleaved with another session: %d of %d "
                 "merges deviate from the sequential run" % (c["n_deviating"], c["merges"]))
    return f


def pred_href(c, stats):
    """Honest handshake between real Machines whose static keys are served by different ECDH
    implementations (keychain.PrivKeyECDH / keychain.PubKeyECDH over a harness ring / a harness
    SingleKeyECDH written from BOLT-8), recomputed from the four private keys by the pure python
    reference props/c11_ref.py (secp256k1, HKDF, ChaCha20-Poly1305, BOLT-8 nonce encoding):
    the handshake completes; the acts, (h, ck, temp key) after every step on both sides, the final
    send / receive keys and salts, the learnt static key, the first frame of each direction and the
    first frame after a key rotation are byte for byte the reference's."""
    f = []
    ref = REF.handshake(*[int(c[k], 16) for k in ("ls", "rs", "ei", "er")])
    impl = "%s/%s" % tuple(c["impl"])
    stats["href_impl"][impl] = stats["href_impl"].get(impl, 0) + 1
    stats["href_forced"][str(c["forced"])] = stats["href_forced"].get(str(c["forced"]), 0) + 1
    for name, pt in zip(("es", "ee", "se"), ref["points"]):
        x = pt[0].to_bytes(32, "big")
        h = stats["ecdh_shared_x"]
        for key, cond in (("leading zero byte", x[0] == 0), ("two leading zero bytes", x[:2] == b"\0\0"),
                          ("high bit set", x[0] >= 0x80), ("y odd", pt[1] & 1 == 1), ("y even", pt[1] & 1 == 0)):
            if cond:
                h["%s %s" % (name, key)] = h.get("%s %s" % (name, key), 0) + 1
        if x[0] == 0:
            stats["ecdh_lz_cases"][impl] = stats["ecdh_lz_cases"].get(impl, 0) + 1
    if not ref["sym"]:
        f.append("reference ECDH is not symmetric (reference bug)")
    if not c.get("completed"):
        f.append("honest handshake refused (initiator dials the responder's real static key; static keys "
                 "served by %s): result codes of Gen/Recv act 1..3 %s" % (impl, c["codes"]))
    names = ("act one", "act two", "act three")
    for i, a in enumerate(c["acts"]):
        if a != ref["acts"][i].hex():
            f.append("%s differs from the BOLT-8 reference computed from the private keys" % names[i])
            break
    steps = ("GenActOne", "RecvActOne", "GenActTwo", "RecvActTwo", "GenActThree", "RecvActThree")
    for i, st in enumerate(c["states"]):
        want = [x.hex() for x in ref["states"][i // 2]]
        for j, nm in enumerate(("handshake digest h", "chaining key ck", "temp key")):
            if st[j] != want[j]:
                f.append("after %s: %s differs from the reference" % (steps[i], nm))
                break
        else:
            continue
        break
    if c.get("completed"):
        sk, rk, ck = ref["sk"].hex(), ref["rk"].hex(), ref["ck"].hex()
        for nm, want in (("ini_send", [sk, ck, 0]), ("ini_recv", [rk, ck, 0]),
                         ("rsp_send", [rk, ck, 0]), ("rsp_recv", [sk, ck, 0])):
            if c[nm] != want:
                f.append("%s cipher state (key, salt, nonce) differs from the reference" % nm)
        if c.get("learnt") != ref["ls_pub"].hex():
            f.append("responder learnt a static key other than the initiator's")
        msg = bytes.fromhex(c["msg"])
        fr = c.get("frames") or []
        want = [REF.frame(ref["sk"], 0, msg).hex(), REF.frame(ref["rk"], 0, msg).hex()]
        if len(fr) == 3:
            salt, key = REF.rotate(ref["ck"], ref["sk"])
            want.append(REF.frame(key, 0, msg).hex())
            stats["href_rotation_frames"] += 1
        if len(fr) < 2:
            f.append("first frames missing (WriteMessage / Flush failed)")
        for i, (g, w) in enumerate(zip(fr, want)):
            if g != w:
                f.append("%s differs from the reference (ChaCha20-Poly1305, nonce encoding, length "
                         "header, HKDF rotation)" % ("first frame initiator->responder",
                                                     "first frame responder->initiator",
                                                     "first frame after the key rotation")[i])
    return f


def size_hist_conn(sizes):
    h = {}
    for x in sizes:
        b = ("0" if x == 0 else "1-65533" if x < 65534 else "65534-65535" if x <= 65535
             else "65536-131070" if x <= 131070 else ">131070")
        h[b] = h.get(b, 0) + 1
    return h


def run_once(ctx, suffix="", env=None, race=False):
    rc, trace, out = run_harness(ctx.uid(suffix), "brontide", HARNESS, "^TestVerifNoise$",
                                 env=env, timeout=1500, race=race)
    return rc, read_jsonl(trace), out


def predicate_all(ctx, rows, stats, limit=3, env=None):
    nfail = 0
    for ci, c in enumerate(rows):
        if c["kind"] == "hs":
            f, th = pred_hs(c), ("C11_handshake_agrees" if (c["target"] == 0 and not c["tampered"]) else "C11_handshake_rejects")
        elif c["kind"] == "tr":
            f, th = pred_tr(c, stats), "C11_stream_roundtrip"
            if f and ("tamper" in f[0] or "position" in f[0] or "twice" in f[0]):
                th = "C11_tamper_rejected" if "tamper" in f[0] else "C11_nonce_unique"
        elif c["kind"] == "href":
            f, th = pred_href(c, stats), "C11_handshake_agrees"
        elif c["kind"] == "multi":
            f = pred_multi(c, stats)
            th = "C11_conn_stream_roundtrip" if f and "(conn)" in f[0] else "C11_stream_roundtrip"
        else:
            f, th = pred_conn(c, stats), "C11_conn_stream_roundtrip"
        if f:
            nfail += 1
            if nfail <= limit:
                small = c if len(json.dumps(c)) < 200000 else {"kind": c["kind"], "case_index": ci,
                                                               "note": "case too large; rerun with the seed"}
                ctx.violation("impl_violates_predicate", th,
                              {"case_index": ci, "fails": f[:10], "case": small,
                               "harness_env": env or {"VERIF_SEED": str(ctx.seed)}},
                              signature="noise %s %s" % (c["kind"], f[0][:60]))
    return nfail


def new_stats():
    return {"ops": {}, "wcodes": {}, "rcodes": {}, "flush": {"ok": 0, "err": 0}, "tampers": {},
            "sizes": [], "rotations": 0, "many_msgs": 0, "tamper_rejected": 0,
            "odd_position_reads": 0, "bulk_after_break_delivered": 0,
            "conn_ops": {}, "conn_write_codes": {}, "conn_read_codes": {}, "conn_write_sizes": [],
            "release": {"tr no-op Flush": 0, "tr redundant": 0, "tr pending": 0,
                        "conn no-op Flush": 0, "conn redundant": 0, "conn pending": 0},
            "href_impl": {}, "href_forced": {}, "ecdh_shared_x": {}, "ecdh_lz_cases": {},
            "href_rotation_frames": 0,
            "multi_families": {}, "multi_modes": {}, "multi_merges": 0, "multi_session_mix": {},
            "multi_enum_variants": {}, "multi_steps_while_other_pending": 0}


def run(ctx):
    pr = ctx.proof_stage(MODULE, THEOREMS, TARGETS, extra_trusted=[
        "AEAD (ChaCha20-Poly1305), HKDF-SHA256, SHA-256 digest chaining, secp256k1 ECDH and point "
        "(de)serialisation are Section variables.  Hypotheses, each stated in the theorem using it: "
        "functional AEAD (Open(Seal)=plaintext, |Seal p| = |p|+16) and dh a (pub b) = dh b (pub a), "
        "parse(ser p)=p for C11_handshake_agrees / C11_stream_roundtrip; ideal AEAD (Open succeeds only on "
        "the Seal output for the same key/nonce/ad; for the handshake also key- and ad-binding), "
        "injectivity of dh in the public key and of hkdf in the input, and (act three) Open(Seal p)=p and "
        "'a 33-byte string parses to at most one point' for C11_handshake_rejects; functional AEAD for "
        "C11_conn_stream_roundtrip and C11_sessions_independent; ideal "
        "AEAD + 'no ciphertext valid under a session (key, nonce) other than the honest one appears in the "
        "stream' (INT-CTXT stated symbolically) for C11_tamper_rejected; C11_nonce_unique needs nothing",
        "io.Writer contract (a short write returns an error) is built into the writer model; the net.Conn "
        "under a brontide.Conn is a list of answers to successive Write calls (writing) and an in-memory "
        "byte stream ending in EOF (reading); deadlines themselves are runtime",
        "the header / body buffer pools of noise.go (sync.Pool, process-wide) are NOT in the model: in the "
        "model nothing is shared between two sessions (C11_sessions_independent); that the real code "
        "behaves like that is established by the multi-session correspondence cases only (tested, not proved)",
        "execution uses a tagging AEAD and a toy 61-bit mixing function for HKDF/SHA/ECDH (Noise/Exec.v)"])
    env = {}
    if ctx.replay:
        try:
            rp = json.load(open(ctx.replay))
            env["VERIF_SEED"] = str(rp.get("seed", ctx.seed))
            env.update({k: str(v) for k, v in (rp.get("detail", {}).get("harness_env") or {}).items()})
        except Exception:
            pass
    if not REF.selftest():
        ctx.violation("harness_failed", "props/c11_ref.py selftest (BOLT-8 vectors)", {},
                      signature="reference-selftest", failing_input=False)
        return
    rc, rows, out = run_once(ctx, env=env, race=False)
    if rc != 0 or not rows:
        ctx.violation("harness_failed", "TestVerifNoise", {"log": out[-4000:]},
                      signature="harness", failing_input=False)
        return
    stats = new_stats()
    nfail = predicate_all(ctx, rows, stats)

    # correspondence: spread the heavy cases over the shards
    # units replayed by the model: every hs / tr / conn row, and every session of a multi row by its
    # own independent model instance (identical session traces, e.g. of an enum group, once)
    units, seen = [], set()
    for i, c in enumerate(rows):
        if c["kind"] in ("hs", "tr", "conn"):
            units.append((i, "", c))
        elif c["kind"] == "multi":
            for label, sc in multi_units(c):
                key = json.dumps(sc["ops"])
                if key not in seen:
                    seen.add(key)
                    units.append((i, label, sc))
    nsh = 12
    order = [u for s in range(nsh) for u in units[s::nsh]]
    terms = ["(%s)%%N" % case_term(u[2]) for u in order]
    per = (len(terms) + nsh - 1) // nsh
    ok, bad, logs = coq_mismatches(ctx.uid(), IMPORTS, terms, shard=max(1, per), timeout=2400)
    if not ok:
        ctx.violation("correspondence_mismatch", "Noise.Exec (model evaluation failed)",
                      {"logs": logs}, signature="model-eval", failing_input=False)
    if bad and nfail == 0:
        # the code no longer behaves like the model: directed search for an input on which the
        # property predicate itself fails (same generators, many more cases of the kinds that
        # disagreed, other seeds)
        kinds_bad = {rows[order[ti][0]]["kind"] for ti, _ in bad}
        for extra in (1, 2, 3):
            mu = "multi" in kinds_bad
            env2 = {"VERIF_SEED": str(ctx.seed * 7919 + extra),
                    "VERIF_N_CONN": "300" if "conn" in kinds_bad else "0",
                    "VERIF_N_HS": "4000" if "hs" in kinds_bad else "0",
                    "VERIF_N_TR": "400" if "tr" in kinds_bad else "0",
                    "VERIF_N_ROT": "8" if "tr" in kinds_bad else "0",
                    "VERIF_N_MULTI": "300" if mu else "0", "VERIF_N_MCONC": "30" if mu else "0",
                    "VERIF_N_MENUM": "8" if mu else "0", "VERIF_N_HREF": "0"}
            rc2, rows2, _ = run_once(ctx, suffix="d%d" % extra, env=env2)
            if rc2 == 0 and predicate_all(ctx, rows2, new_stats(), limit=1, env=env2):
                ctx.note("directed search found a failing input with seed %s" % env2["VERIF_SEED"])
                break
    for ti, opsidx in bad[:3]:
        ci, label, c = order[ti]
        top = rows[ci]
        detail = {"case_index": ci, "kind": top["kind"], "op_indices": opsidx[:20]}
        if top["kind"] == "multi":
            detail.update({"family": top["family"], "mode": top["mode"], "session": label,
                           "session_kind": c["kind"], "sched": top.get("sched"),
                           "variants": top.get("variants"),
                           "harness_env": {"VERIF_SEED": str(ctx.seed)}})
        if c["kind"] in ("tr", "conn"):
            lo = max(0, opsidx[0] - 6)
            detail["ops_before_and_at_first_disagreement"] = c["ops"][lo:opsidx[0] + 1]
        else:
            detail["case"] = c
        fails = (pred_hs(c) if c["kind"] == "hs" else pred_conn(c) if c["kind"] == "conn"
                 else pred_tr(c, new_stats()))
        ctx.violation("correspondence_mismatch", "Noise.Exec.check_case", detail,
                      signature="noise mismatch %s" % top["kind"], failing_input=bool(fails))
    if not pr["ok"] and not ctx.violations:
        # directed search: more cases under other seeds, predicate only
        for extra in (1, 2):
            rc2, rows2, _ = run_once(ctx, suffix="s%d" % extra,
                                     env={"VERIF_SEED": str(ctx.seed * 7919 + extra)})
            if rc2 == 0 and predicate_all(ctx, rows2, new_stats()):
                break
        if not ctx.violations:
            ctx.violation("proof_broken", ", ".join(pr["broken"]) or "Noise build",
                          {"log": pr["log"][-4000:]}, signature="proof", failing_input=False)
    if ctx.thorough:
        ctx.coqchk(["LV.Noise.Props", "LV.Noise.Exec", "LV.Noise.Examples"])
        # Conn.Write loop boundaries: every length around 1x/2x/3x 65535 with a fault at every
        # net.Conn call index (harness VERIF_CONN_SWEEP), predicate + correspondence
        rc4, rows4, out4 = run_once(ctx, suffix="sweep", env={
            "VERIF_N_HS": "0", "VERIF_N_TR": "0", "VERIF_N_ROT": "0", "VERIF_N_CONN": "0",
            "VERIF_CONN_SWEEP": "1"})
        if rc4 != 0 or not rows4:
            ctx.violation("harness_failed", "TestVerifNoise sweep", {"log": out4[-3000:]},
                          signature="harness-sweep", failing_input=False)
        else:
            st4 = new_stats()
            predicate_all(ctx, rows4, st4, env={"VERIF_CONN_SWEEP": "1", "VERIF_SEED": str(ctx.seed)})
            t4 = ["(%s)%%N" % case_term(c) for c in rows4 if c["kind"] == "conn"]
            ok4, bad4, logs4 = coq_mismatches(ctx.uid("sweep"), IMPORTS, t4,
                                              shard=max(1, (len(t4) + 11) // 12), timeout=2400)
            if not ok4:
                ctx.violation("correspondence_mismatch", "Noise.Exec (sweep evaluation failed)",
                              {"logs": logs4}, signature="model-eval-sweep", failing_input=False)
            for ti, opsidx in bad4[:3]:
                ctx.violation("correspondence_mismatch", "Noise.Exec.check_case",
                              {"sweep_case": ti, "op_indices": opsidx[:20], "ops": rows4[ti]["ops"][:12]},
                              signature="noise mismatch conn sweep", failing_input=True)
            ctx.cov["conn_sweep_cases"] = len(rows4)
        rc3, rows3, out3 = run_once(ctx, suffix="race", env={"VERIF_CASES": "40", "VERIF_N_MENUM": "3", "VERIF_N_MCONC": "150"}, race=True)
        if rc3 != 0:
            ctx.violation("harness_failed", "TestVerifNoise -race", {"log": out3[-3000:]},
                          signature="harness-race", failing_input=False)

    kinds = {}
    for c in rows:
        kinds[c["kind"]] = kinds.get(c["kind"], 0) + 1
    hs = [c for c in rows if c["kind"] == "hs"]
    tr = [c for c in rows if c["kind"] == "tr"]
    hist = {}
    for s in stats["sizes"]:
        b = ("0" if s == 0 else "1-15" if s < 16 else "16-17" if s < 18 else "18-255" if s < 256
             else "256-65533" if s < 65534 else "65534-65535")
        hist[b] = hist.get(b, 0) + 1
    hs_out = {}
    for c in hs:
        key = "target=%d tampered=%s -> %s" % (c["target"], c["tampered"], c["obs"])
        hs_out[key] = hs_out.get(key, 0) + 1
    ctx.cov.update({
        "evaluations": len(rows) + stats["multi_merges"] - sum(1 for c in rows if c["kind"] == "multi"),
        "distinct_nontrivial": distinct_count(
            [c for c in rows if c["kind"] != "hs" or c["tampered"] or c["target"]],
            lambda c: c),
        "rule": "handshake cases (seeded keys; wrong static key; version / ephemeral / MAC / ciphertext "
                "corruption, replayed and reflected acts), transport cases (WriteMessage + Flush against "
                "a scripted short-writing io.Writer, ReadMessage from a pipe that is flipped / truncated / "
                "cut / spliced with earlier or other-direction ciphertext; bulk phases bring each cipher "
                "to within 4 messages of a rotation boundary), Conn cases (two brontide.Conn over scripted "
                "net.Conns: Conn.Write of 0..3x65535+2 bytes incl. 65534/65535/65536/2x65535+-1, a partial "
                "or failing net.Conn Write at a seeded call index (header / body / inside the MAC), a Write "
                "while a record is pending, WriteMessage + Flush retries, Conn.Read with buffer sizes 0, 1, "
                "rest-1, rest, rest+1, 65535, 70000+, ReadNextMessage / ReadNextHeader+Body, reads at end of "
                "stream and on a torn record; model replays every call), oracle cases (kind href: honest "
                "handshakes whose static keys are served by keychain.PrivKeyECDH / keychain.PubKeyECDH over "
                "a harness ring / a harness ECDH written from BOLT-8, all 9 pairings x all 8 subsets of "
                "{es, ee, se} forced to a shared point whose x starts with a zero byte (key search); acts, "
                "(h, ck, temp key) after each of the six steps, final keys, first frames and the first frame "
                "after a rotation compared byte for byte with a pure python BOLT-8 reference computed from "
                "the private keys), multi-session cases (2..4 sessions, "
                "Machine level or brontide.Conn level, alive in one process: 'enum' = ALL 924 merges of two "
                "scripts W F X W Fp Ff (X a redundant release, Fp a Flush cut inside header or body) for "
                "Machine/Machine, Conn/Conn, Machine/Conn pairs, the harness compares every merge's session "
                "traces with the sequential merge and emits the deviating ones; 'rand' = seeded interleaving "
                "of actors doing WriteMessage / Conn.Write / partial, resumed, no-op Flush / ClearPendingSend "
                "(also on a half sent record) / write while pending / ReadMessage / Conn.Read / ReadNextMessage "
                "/ ReadNextHeader..ReadNextBody; 'conc' = one goroutine per session; every session is replayed "
                "by its own model instance and checked by the per-session predicate; results of reads are "
                "re-compared at the end of the case).  evaluations counts every executed merge.  "
                "non-trivial = not an untampered handshake; distinct by full case",
        "traces_validated_against_impl": len(units),
        "case_kinds": kinds,
        "oracle_handshakes_static_key_impl (initiator/responder: priv = keychain.PrivKeyECDH, pub = "
        "keychain.PubKeyECDH over a harness ring, ref = harness SingleKeyECDH)": stats["href_impl"],
        "oracle_forced_leading_zero_mask (bit0 es, bit1 ee, bit2 se)": stats["href_forced"],
        "ecdh_shared_x_leading_zero_cases": stats["ecdh_lz_cases"],
        "ecdh_shared_point_classes": dict(sorted(stats["ecdh_shared_x"].items())),
        "oracle_rotation_frames_checked": stats["href_rotation_frames"],
        "multi_session_families": stats["multi_families"],
        "multi_session_family_modes (enum: 0 Machine/Machine 1 Conn/Conn 2 Machine/Conn; rand: 0 uniform "
        "1 bursts 2 switch-away-while-pending)": stats["multi_modes"],
        "multi_session_interleavings_executed": stats["multi_merges"],
        "multi_session_kind_mix": stats["multi_session_mix"],
        "multi_enum_script_variants": stats["multi_enum_variants"],
        "multi_rand_steps_while_another_session_has_a_record_half_out": stats["multi_steps_while_other_pending"],
        "release_ops (no-op Flush / ClearPendingSend with nothing buffered / with a record buffered)": stats["release"],
        "transport_op_kinds": stats["ops"],
        "write_codes": stats["wcodes"], "read_codes": stats["rcodes"], "flush": stats["flush"],
        "pipe_tampers": stats["tampers"], "tampered_reads_rejected": stats["tamper_rejected"],
        "message_size_hist": hist, "bulk_messages": stats["many_msgs"],
        "reads_at_odd_position": stats["odd_position_reads"],
        "bulk_delivered_after_break": stats["bulk_after_break_delivered"],
        "rotations_crossed_in_bulk_phases": stats["rotations"],
        "conn_op_kinds": stats["conn_ops"], "conn_write_codes": stats["conn_write_codes"],
        "conn_read_codes": stats["conn_read_codes"],
        "conn_write_size_hist": size_hist_conn(stats["conn_write_sizes"]),
        "handshake_outcomes": dict(sorted(hs_out.items(), key=lambda kv: -kv[1])[:25]),
        "samples": [tr[0]["ops"][:8] if tr else None, {k: hs[0][k] for k in ("target", "t1", "obs")} if hs else None],
        "predicate_failures": nfail,
        "correspondence_mismatches": len(bad),
    })
    ctx.assumptions += [
        "ChaCha20-Poly1305, HKDF, SHA-256, secp256k1 ECDH are ideal/symbolic (hypotheses listed in trusted_base)",
        "keys of different rotation epochs / directions are distinct (an equality would be an HKDF collision): "
        "hypothesis honest_consistent of C11_tamper_rejected",
        "deadline/timing behaviour of brontide.Conn and Listener (goroutines, real sockets) is runtime: a "
        "deadline appears in the model only as 'the net.Conn took k bytes of this Write and returned a timeout'",
    ]
