"""Python side shared by the channel state-machine checks C01 / C02 / C03 / C06b.

* run_chan_harness(ctx, env) -> rows : runs harness/lnwallet/verif_chan_test.go
  (TestVerifChan) on the tree under test and returns the decoded cases, with the
  "=" party-dump compression of the trace undone (see notes/chan_trace_format.md).
* implementation-side predicates, evaluated on the dumps of the REAL code alone
  (no model involved).  Every predicate returns a list of human readable failure
  strings (empty = holds).  `all_predicates(row)` runs them all on one case.

Terminology: a *party dump* is {"ltail","ltip","rtail","rtip","own_idx",...,"disk"},
a *commit dump* is {"h","ours","theirs","our_bal","their_bal","fee","fee_per_kw",
"htlcs":[[incoming,amt,idx,expiry,hash_id,on_tx]...],"outs","n_out"}.
"""
import json
import os

from lib.verif import run_harness, read_jsonl

PKG = "lnwallet"
FILES = ["lnwallet/verif_chan_test.go", "lnwallet/verif_chan_sqlite_test.go"]
TEST = "^TestVerifChan$"
# kvdb_sqlite links lnd's sqlite-backed kvdb backend (pure Go, builds offline): a share of
# the schedules keeps both channel DBs on it (VERIF_CHAN_BACKEND / VERIF_CHAN_SQLITE_PCT)
TAGS = "verif kvdb_sqlite"
WARM = [{"pkg": PKG, "files": FILES, "tags": TAGS}]
CORPUS_DIR = os.path.join(os.path.dirname(os.path.dirname(os.path.abspath(__file__))),
                          "corpus", "chan")
CORPUS_BASE = 1000000        # case numbers of corpus / script rows start here
PARTIES = ("a", "b")
RESOLVE = ("settle", "fail", "malformed")
# step kinds that end with both sides restarting from disk + channel_reestablish
RESTARTS = ("cut", "crashin")

# error classes that are a property failure between two honest peers
HARD_CLASSES = ("sig_invalid", "data_loss", "commit_sync")
# outcomes of validateCommitmentSanity: a constraint said no; never a property failure
CONSTRAINT_CLASSES = ("below_reserve", "max_htlcs", "max_pending", "below_min", "invalid_amt",
                      "fee_floor", "no_window")


def peer(p):
    return "b" if p == "a" else "a"


# ---------------------------------------------------------------------------
# running the harness


def expand_row(row):
    """Undo the trace compression: a party dump written as "=" equals that
    party's dump of the previous step (the object is shared, not copied)."""
    prev = {p: row["init"][p] for p in PARTIES}
    for st in row["steps"]:
        for p in PARTIES:
            if st.get(p) == "=":
                st[p] = prev[p]
            else:
                prev[p] = st[p]
    # C01view: the height-log dumps (step key "hl", row key "init_hl") use the same
    # compression; st["hl_same"][p] remembers that p's logs did not change in the step
    if row.get("init_hl"):
        prev_hl = dict(row["init_hl"])
        for st in row["steps"]:
            hl = st.get("hl")
            if not isinstance(hl, dict):
                continue
            st["hl_same"] = {}
            for p in PARTIES:
                st["hl_same"][p] = hl.get(p) == "="
                if hl.get(p) == "=":
                    hl[p] = prev_hl[p]
                else:
                    prev_hl[p] = hl[p]
    return row


def iter_chan_rows(trace):
    """Stream the cases of a trace file one at a time (thorough tier: the file is
    several hundred MB)."""
    if not os.path.exists(trace):
        return
    with open(trace) as f:
        for line in f:
            line = line.strip()
            if line:
                yield expand_row(json.loads(line))


def run_chan_harness(ctx, env=None, suffix="", timeout=1500, race=False, report=True,
                     stream=False, corpus=True):
    """Run TestVerifChan on the tree under test (VERIF_REPO aware through lib.verif).
    env: VERIF_SEED/VERIF_TIER/VERIF_CASES/VERIF_CHAN_TYPES/VERIF_CRASH/VERIF_CUT/
    VERIF_MAXSTEPS/VERIF_FIRST_CASE/VERIF_CHAN_SCRIPT/VERIF_CHAN_FREE_REV/VERIF_CRASHIN/
    VERIF_CHAN_BACKEND (bbolt|sqlite|mix)/VERIF_CHAN_SQLITE_PCT.
    corpus=True (default): the explicit schedules of every /verif/corpus/chan/*.json are
    run FIRST in the same test process (VERIF_CHAN_CORPUS); their rows come first, have
    "script": true, "corpus": "<file>#<i>", "expect_last" and case >= CORPUS_BASE.
    Returns the list of cases (or a generator with stream=True).  rc/trace/log of the
    run are left in run_chan_harness.last.  With report=True a failed run is reported
    as ctx.violation("harness_failed", ...)."""
    e = {}
    if ctx is not None:
        e["VERIF_SEED"] = ctx.seed
        e["VERIF_TIER"] = ctx.tier
    if corpus and os.path.isdir(CORPUS_DIR):
        e["VERIF_CHAN_CORPUS"] = CORPUS_DIR
    if env:
        e.update(env)
    uid = (ctx.uid() if ctx is not None else "chan") + suffix
    rc, trace, out = run_harness(uid, PKG, FILES, TEST, env=e, timeout=timeout, race=race,
                                 tags=TAGS)
    run_chan_harness.last = {"rc": rc, "trace": trace, "log": out}
    if stream:
        return iter_chan_rows(trace)
    rows = [expand_row(r) for r in read_jsonl(trace)]
    if (rc != 0 or not rows) and report and ctx is not None:
        ctx.violation("harness_failed", "TestVerifChan", {"rc": rc, "log": out[-4000:]},
                      signature="harness", failing_input=False)
    return rows


run_chan_harness.last = None


# ---------------------------------------------------------------------------
# helpers on dumps


def commits_of(d):
    """[(name, commit)] of the non-null commitments of a party dump."""
    return [(k, d[k]) for k in ("ltail", "ltip", "rtail", "rtip") if d.get(k) is not None]


def last_local(d):
    return d["ltip"] if d["ltip"] is not None else d["ltail"]


def last_remote(d):
    return d["rtip"] if d["rtip"] is not None else d["rtail"]


def owes(d):
    """LightningChannel.oweCommitment(Local) recomputed from a dump."""
    return d["own_idx"] != last_remote(d)["ours"] or \
        last_local(d)["theirs"] != last_remote(d)["theirs"]


def needs(d):
    """LightningChannel.oweCommitment(Remote) recomputed from a dump."""
    return d["peer_idx"] != last_local(d)["theirs"] or \
        last_remote(d)["ours"] != last_local(d)["ours"]


def quiescent(st):
    """Both queues empty, no pending commitment anywhere, nobody owes a signature."""
    if st.get("qa", 0) or st.get("qb", 0):
        return False
    for p in PARTIES:
        d = st[p]
        if d["ltip"] is not None or d["rtip"] is not None or owes(d):
            return False
    return True


def _step_dumps(i, st):
    for p in PARTIES:
        if isinstance(st.get(p), dict) and "ltail" in st[p]:
            yield "step %d" % i, p, st[p]
    ex = st.get("extra") or {}
    rel = ex.get("reloaded")
    if st["op"][0] == "crash" and rel:
        yield "step %d reloaded" % i, st["op"][1], rel
    if st["op"][0] in RESTARTS and rel:
        for p in PARTIES:
            if rel.get(p):
                yield "step %d reloaded" % i, p, rel[p]


def _step_fails_sig(st):
    """The step (or a delivery inside a cut) rejected a commit_sig."""
    ex = st.get("extra") or {}
    if st["op"][0] == "deliver" and ex.get("kind") == "sig" and st["res"] != "ok":
        return True
    return any(d[1] == "sig" and d[2] != "ok" for d in ex.get("delivered") or [])


def dumps_of_case(row):
    """Yield (where, party, dump) for every party dump of a case, including the
    reloaded ones of crash / cut steps."""
    for p in PARTIES:
        yield "init", p, row["init"][p]
    for i, st in enumerate(row["steps"]):
        for x in _step_dumps(i, st):
            yield x


def _flip(htlcs):
    return sorted([1 - h[0]] + list(h[1:]) for h in htlcs)


# ---------------------------------------------------------------------------
# C01 conservation


def conservation(commit, cfg):
    """our_bal + their_bal + sum(htlc amounts, dust included) + 1000*fee
    (+ 1000*2*anchor_size with anchors) == 1000*capacity, and the outputs of the
    transaction plus the fee never exceed the capacity."""
    fails = []
    cap = cfg["capacity_sat"]
    total = commit["our_bal"] + commit["their_bal"] + sum(h[1] for h in commit["htlcs"]) \
        + 1000 * commit["fee"]
    if cfg["anchors"]:
        total += 1000 * 2 * cfg["anchor_size"]
    if total != 1000 * cap:
        fails.append("height %d: balances+htlcs+fee(+anchors) = %d msat != capacity %d msat (diff %d)"
                     % (commit["h"], total, 1000 * cap, total - 1000 * cap))
    # The height-0 transactions come from the test fixture (CreateTestChannels builds
    # them with both full balances, fee not deducted); only commitments built by the
    # state machine are subject to the output clause.
    if commit["h"] > 0 and commit["outs"] + commit["fee"] > cap:
        fails.append("height %d: outputs %d + fee %d > capacity %d"
                     % (commit["h"], commit["outs"], commit["fee"], cap))
    if commit["fee_per_kw"] < cfg["fee_floor"]:
        fails.append("height %d: fee_per_kw %d below floor" % (commit["h"], commit["fee_per_kw"]))
    return fails


def conservation_case(row):
    fails, seen = [], set()
    for where, p, d in dumps_of_case(row):
        for name, c in commits_of(d):
            key = (p, name[0], json.dumps(c, sort_keys=True))
            if key in seen:
                continue
            seen.add(key)
            for f in conservation(c, row["cfg"]):
                fails.append("%s %s.%s %s" % (where, p, name, f))
    return fails


# ---------------------------------------------------------------------------
# C01 mirror / agreement


def mirror_commit(x, y):
    """x: a commitment of one party's LOCAL chain, y: the peer's REMOTE-chain view
    of the same transaction.  Heights, fee, fee rate, outputs equal; balances and
    message indices swapped; same HTLC multiset with the direction flipped."""
    fails = []
    if x is None or y is None:
        if x is not y:
            fails.append("one side has no commitment (%s vs %s)" %
                         ("null" if x is None else "h=%d" % x["h"],
                          "null" if y is None else "h=%d" % y["h"]))
        return fails
    for k in ("h", "fee", "fee_per_kw", "outs", "n_out"):
        if x[k] != y[k]:
            fails.append("%s differs: %s vs %s" % (k, x[k], y[k]))
    for kx, ky in (("our_bal", "their_bal"), ("their_bal", "our_bal"),
                   ("ours", "theirs"), ("theirs", "ours")):
        if x[kx] != y[ky]:
            fails.append("%s=%s but peer's %s=%s" % (kx, x[kx], ky, y[ky]))
    if sorted(map(list, x["htlcs"])) != _flip(y["htlcs"]):
        fails.append("HTLC sets differ: %s vs (flipped) %s" %
                     (sorted(map(list, x["htlcs"])), _flip(y["htlcs"])))
    return fails


def mirror(a_dump, b_dump):
    """To be used when both queues are empty and nobody owes a commitment."""
    fails = []
    for f in mirror_commit(a_dump["ltail"], b_dump["rtail"]):
        fails.append("a.ltail vs b.rtail: " + f)
    for f in mirror_commit(b_dump["ltail"], a_dump["rtail"]):
        fails.append("b.ltail vs a.rtail: " + f)
    for ka, kb in (("own_idx", "peer_idx"), ("peer_idx", "own_idx"),
                   ("own_htlc", "peer_htlc"), ("peer_htlc", "own_htlc")):
        if a_dump[ka] != b_dump[kb]:
            fails.append("a.%s=%s but b.%s=%s" % (ka, a_dump[ka], kb, b_dump[kb]))
    return fails


def mirror_case(row):
    fails = []
    for f in mirror(row["init"]["a"], row["init"]["b"]):
        fails.append("init: " + f)
    n = 0
    for i, st in enumerate(row["steps"]):
        if not _has_dumps(st) or not quiescent(st):
            continue
        n += 1
        for f in mirror(st["a"], st["b"]):
            fails.append("step %d %s (quiescent): %s" % (i, st["op"], f))
    mirror_case.quiescent_states = n
    return fails


mirror_case.quiescent_states = 0


def _has_dumps(st):
    return all(isinstance(st.get(p), dict) and "ltail" in st[p] for p in PARTIES)


def agreement(row):
    """Whenever p accepts a commit_sig, the commitment p computed for its own chain
    (new ltip) is the mirror image of what the signer stored as its remote tip."""
    fails = []
    n = 0
    for i, st in enumerate(row["steps"]):
        if st["op"][0] != "deliver" or st["res"] != "ok" or not _has_dumps(st):
            continue
        if (st.get("extra") or {}).get("kind") != "sig":
            continue
        p = st["op"][1]
        n += 1
        mine, theirs = st[p]["ltip"], st[peer(p)]["rtip"]
        if mine is None or theirs is None:
            fails.append("step %d: %s accepted a commit_sig but %s" %
                         (i, p, "has no local tip" if mine is None else "the signer has no remote tip"))
            continue
        for f in mirror_commit(mine, theirs):
            fails.append("step %d: %s.ltip vs %s.rtip: %s" % (i, p, peer(p), f))
    agreement.sigs_checked = n
    return fails


agreement.sigs_checked = 0


# ---------------------------------------------------------------------------
# C01 balances move only by HTLC amounts


def _chains(row):
    """{(party, 'l'|'r'): {height: (first step index, commit)}} + stability failures."""
    chains, fails = {}, []

    def see(i, p, d):
        for name, c in commits_of(d):
            ch = chains.setdefault((p, name[0]), {})
            old = ch.get(c["h"])
            if old is None:
                ch[c["h"]] = (i, c)
            elif old[1] != c:
                fails.append("%s %s-chain height %d changed content between step %d and %d: %s -> %s"
                             % (p, name[0], c["h"], old[0], i, old[1], c))
                ch[c["h"]] = (old[0], c)

    for p in PARTIES:
        see(-1, p, row["init"][p])
    for i, st in enumerate(row["steps"]):
        ex = st.get("extra") or {}
        rel = ex.get("reloaded")
        if st["op"][0] in RESTARTS and rel:
            for p in PARTIES:
                if rel.get(p):
                    see(i, p, rel[p])
        if st["op"][0] == "crash" and rel:
            see(i, st["op"][1], rel)
        for p in PARTIES:
            if isinstance(st.get(p), dict) and "ltail" in st[p]:
                see(i, p, st[p])
    return chains, fails


def _last_resolution(row, upto, resolver, idx):
    kind = None
    for st in row["steps"][:max(upto, 0) + 1]:
        if st["op"][0] in RESOLVE and st["res"] == "ok" and st["op"][1] == resolver \
                and st["op"][2] == idx:
            kind = st["op"][0]
    return kind


def balance_moves_only_by_htlc(row):
    """Between consecutive commitments of one chain the change of each side's
    balance (commit fee added back for the opener) equals the signed sum of the
    amounts of the HTLCs added / settled / failed in between."""
    fails = []
    chains, stab = _chains(row)
    fails += stab
    init = row["cfg"].get("initiator", "a")
    pairs = 0
    for (p, ch), byh in sorted(chains.items()):
        for h in sorted(byh):
            if h + 1 not in byh:
                continue
            (_, c0), (i1, c1) = byh[h], byh[h + 1]
            pairs += 1
            g0 = [c0["our_bal"], c0["their_bal"]]
            g1 = [c1["our_bal"], c1["their_bal"]]
            k = 0 if init == p else 1
            g0[k] += 1000 * c0["fee"]
            g1[k] += 1000 * c1["fee"]
            key = lambda x: (x[0], x[2])
            old = {key(x): x for x in c0["htlcs"]}
            new = {key(x): x for x in c1["htlcs"]}
            exp = [0, 0]  # expected delta of (p, peer)
            why = []
            for kk, x in new.items():
                if kk in old:
                    if old[kk][:5] != x[:5]:
                        why.append("htlc %s changed: %s -> %s" % (kk, old[kk], x))
                    continue
                exp[x[0]] -= x[1]          # offered by p (incoming=0) -> leaves p's balance
            for kk, x in old.items():
                if kk in new:
                    continue
                resolver = p if x[0] == 1 else peer(p)
                kind = _last_resolution(row, i1, resolver, x[2])
                if kind is None:
                    why.append("htlc %s disappeared without a successful settle/fail by %s"
                               % (x, resolver))
                elif kind == "settle":
                    exp[1 - x[0]] += x[1]  # goes to the receiver
                else:
                    exp[x[0]] += x[1]      # back to the offerer
            got = [g1[0] - g0[0], g1[1] - g0[1]]
            if got != exp or why:
                fails.append("%s %s-chain %d->%d (first seen at step %d): balance delta (own, peer) %s, "
                             "HTLC movements say %s %s" % (p, ch, h, h + 1, i1, got, exp, "; ".join(why)))
    balance_moves_only_by_htlc.pairs = pairs
    return fails


balance_moves_only_by_htlc.pairs = 0


# ---------------------------------------------------------------------------
# C01 window


def window(row):
    """Never a second successful sign while an unrevoked remote commitment exists,
    and never a commit_sig accepted on top of an unrevoked local tip."""
    fails = []
    prev = {p: row["init"][p] for p in PARTIES}
    for i, st in enumerate(row["steps"]):
        op = st["op"]
        if op[0] == "sign" and st["res"] == "ok" and prev[op[1]]["rtip"] is not None:
            fails.append("step %d: %s signed while its remote chain already had an unrevoked tip (h=%d)"
                         % (i, op[1], prev[op[1]]["rtip"]["h"]))
        if op[0] == "sign" and st["res"] == "no_window" and prev[op[1]]["rtip"] is None:
            fails.append("step %d: %s refused to sign (no_window) without an unrevoked tip" % (i, op[1]))
        if op[0] == "deliver" and st["res"] == "ok" and (st.get("extra") or {}).get("kind") == "sig" \
                and prev[op[1]]["ltip"] is not None:
            fails.append("step %d: %s accepted a second commit_sig before revoking" % (i, op[1]))
        for p in PARTIES:
            if isinstance(st.get(p), dict) and "ltail" in st[p]:
                d = st[p]
                prev[p] = d
                for tail, tip in (("ltail", "ltip"), ("rtail", "rtip")):
                    if d[tip] is not None and d[tip]["h"] != d[tail]["h"] + 1:
                        fails.append("step %d: %s.%s height %d is not %s height %d + 1"
                                     % (i, p, tip, d[tip]["h"], tail, d[tail]["h"]))
    return fails


# ---------------------------------------------------------------------------
# C06b / C02 release rule


def release_rule(row):
    """Every released secret belongs to a height strictly below the persisted local
    commitment height; no reload ever resurrects a revoked commitment; the released
    heights of each side are exactly 0,1,2,... ."""
    fails = []
    released = {p: [] for p in PARTIES}

    def check_reload(i, p, d, what):
        if released[p] and d["ltail"]["h"] < released[p][-1] + 1:
            fails.append("step %d: %s %s has local commitment height %d but the secret of height %d "
                         "was already released" % (i, p, what, d["ltail"]["h"], released[p][-1]))
        if (d.get("revstate") or {}).get("store_ok") is False:
            fails.append("step %d: %s %s lost revocation secrets of the peer (remote height %d)"
                         % (i, p, what, d["disk"]["remote_h"]))

    for i, st in enumerate(row["steps"]):
        op, ex = st["op"], st.get("extra") or {}
        if op[0] == "revoke" and st["res"] == "ok":
            p, h = op[1], ex["rev_height"]
            if h != len(released[p]):
                fails.append("step %d: %s released the secret of height %d, expected height %d "
                             "(released so far %s)" % (i, p, h, len(released[p]), released[p]))
            released[p].append(h)
            if ex.get("secret_matches") is not True:
                fails.append("step %d: %s's revocation does not carry the secret of height %d" % (i, p, h))
            if _has_dumps(st) and not h < st[p]["disk"]["local_h"]:
                fails.append("step %d: %s released height %d but its persisted local height is %d"
                             % (i, p, h, st[p]["disk"]["local_h"]))
        if op[0] == "crash" and ex.get("reloaded"):
            check_reload(i, op[1], ex["reloaded"], "reloaded copy")
        if op[0] == "crashin" and op[2] == "revoke" and (ex.get("reloaded") or {}).get(op[1]):
            # the node died inside RevokeCurrentCommitment: the revoke_and_ack was never
            # handed out, but if the new local commitment reached the disk the old height
            # counts as revoked from now on (the secret goes out with the retransmission)
            p = op[1]
            if ex["reloaded"][p]["ltail"]["h"] == len(released[p]) + 1:
                released[p].append(len(released[p]))
        if op[0] in RESTARTS:
            for p in PARTIES:
                if (ex.get("reloaded") or {}).get(p):
                    check_reload(i, p, ex["reloaded"][p], "restarted channel")
                if _has_dumps(st):
                    check_reload(i, p, st[p], "channel after resync")
                    if "rev" in (ex.get("sync_" + p) or []) and \
                            st[p]["ltail"]["h"] - 1 not in released[p]:
                        fails.append("step %d: %s retransmitted a revocation for height %d it never released"
                                     % (i, p, st[p]["ltail"]["h"] - 1))
        if _has_dumps(st):
            for p in PARTIES:
                d = st[p]
                if d["disk"]["local_h"] != d["ltail"]["h"]:
                    fails.append("step %d: %s persisted local height %d != in-memory tail height %d"
                                 % (i, p, d["disk"]["local_h"], d["ltail"]["h"]))
                if d["ltail"]["h"] != len(released[p]):
                    fails.append("step %d: %s is at local height %d after releasing %d secrets"
                                 % (i, p, d["ltail"]["h"], len(released[p])))
    release_rule.released = {p: len(v) for p, v in released.items()}
    return fails


release_rule.released = {}


def _reload_dumps(row):
    """Yield (where, party, dump) for every dump of a channel object REBUILT FROM DISK."""
    for i, st in enumerate(row["steps"]):
        op, ex = st["op"], st.get("extra") or {}
        rel = ex.get("reloaded")
        if op[0] == "crash" and rel:
            yield "step %d crash" % i, op[1], rel
        if op[0] == "crashin" and ex.get("reload_before"):
            yield "step %d crashin (before the call)" % i, op[1], ex["reload_before"]
        if op[0] in RESTARTS and rel:
            for p in PARTIES:
                if rel.get(p):
                    yield "step %d %s" % (i, op[0]), p, rel[p]
        for p in PARTIES:
            d = ((ex.get("sync1") or {}).get("reloaded") or {}).get(p)
            if d:
                yield "step %d crashin (interrupted restart)" % i, p, d


def _flat(d, pre=""):
    out = {}
    for k, v in d.items():
        if isinstance(v, dict):
            out.update(_flat(v, pre + k + "."))
        else:
            out[pre + k] = v
    return out


def params_survive_reload(row):
    """CHANNEL PARAMETERS SURVIVE EVERY RELOAD: every persisted OpenChannel / ChannelConfig
    field that is fixed at funding time and feeds commitment construction, verification, the
    scripts or the resync (channel type bits, thaw height, csv delays, dust limits, reserves,
    min HTLC, max pending, max HTLCs, keys, flags, scid, initial balances, shutdown scripts,
    revocation key locator, memo, tapscript root, custom blob ...; harness: vchParams) reads
    back from the channel DB exactly as the live object had it when the channel was stored
    (row init_params) - at every object rebuilt from disk, field by field."""
    fails = []
    init = row.get("init_params")
    n = 0
    if not init:
        params_survive_reload.reloads = 0
        return fails
    seen = set()
    for where, p, d in _reload_dumps(row):
        if "params" not in d:
            continue
        n += 1
        want, got = _flat(init[p]), _flat(d["params"])
        for k in sorted(set(want) | set(got)):
            if want.get(k) != got.get(k) and (p, k) not in seen:
                seen.add((p, k))
                fails.append("%s: %s's channel parameter %s was %r when the channel was stored and is %r after "
                             "the reload (chan_type %s, bits %s)"
                             % (where, p, k, want.get(k), got.get(k), row.get("chan_type"),
                                init[p].get("chan_type")))
    params_survive_reload.reloads = n
    return fails


params_survive_reload.reloads = 0


def live_release_rule(row):
    """LIVE-RESYNC PROBE (terminal `liveprobe` step: channel_reestablish processed by the
    LIVE in-memory objects, which may hold an accepted but not yet revoked = not durable
    commitment).  C06 release rule on reconnect: every per-commitment secret a returned
    revoke_and_ack carries belongs to a height h with a NEWER commitment already durable
    (LocalCommitment.CommitHeight of a fresh DB fetch right after the call > h), and it is a
    retransmission of the LATEST release (h = number of own revocations so far - 1) - a
    resync never releases a new secret.  Between two honest peers the probe must not end in
    a data-loss / cannot-sync verdict; other errors are only counted (live_release_rule.errors)."""
    fails = []
    st_ = live_release_rule.stats
    prev = {p: row["init"][p] for p in PARTIES}
    for i, st in enumerate(row["steps"]):
        if st["op"][0] == "liveprobe":
            pr = (st.get("extra") or {}).get("probe") or {}
            st_["probes"] = st_.get("probes", 0) + 1
            for p in PARTIES:
                x = pr.get(p)
                if not x:
                    continue
                n_rel = prev[p]["ltail"]["h"]       # own revocations so far = local tail height
                for h in x.get("rev_heights") or []:
                    st_["revs"] = st_.get("revs", 0) + 1
                    dur = x.get("durable_after")
                    what = "%s (%s object, local tip-tail=%s) answered the peer's channel_reestablish %s " \
                           "with a revoke_and_ack carrying the secret of height %s" \
                           % (p, "live" if x.get("live") else "reloaded", x.get("tip_minus_tail"),
                              (pr.get(peer(p)) or {}).get("sync"), h)
                    if h < 0:
                        fails.append("step %d: %s - not a secret of its own chain" % (i, what))
                    elif dur is None or not dur > h:
                        fails.append("step %d: %s while its durable local commitment height is %s: the secret "
                                     "of its only durable commitment is released" % (i, what, dur))
                    elif h != n_rel - 1:
                        fails.append("step %d: %s, but it has revoked %d commitments so far (expected a "
                                     "retransmission for height %d)" % (i, what, n_rel, n_rel - 1))
                e = x.get("err")
                if e:
                    live_release_rule.errors[e] = live_release_rule.errors.get(e, 0) + 1
                    if _hard(e):
                        fails.append("step %d: live resync probe: %s (%s object, local tip-tail=%s, peer sent %s): %s"
                                     % (i, p, "live" if x.get("live") else "reloaded", x.get("tip_minus_tail"),
                                        (pr.get(peer(p)) or {}).get("sync"), e))
        for p in PARTIES:
            if isinstance(st.get(p), dict) and "ltail" in st[p]:
                prev[p] = st[p]
    return fails


live_release_rule.stats = {}
live_release_rule.errors = {}


# ---------------------------------------------------------------------------
# honest peers never see these


def _hard(cls):
    return isinstance(cls, str) and (cls.startswith(HARD_CLASSES) or cls.startswith("panic:")
                                     or "reload" in cls or "sig_invalid" in cls
                                     or "data_loss" in cls or "commit_sync" in cls
                                     or "HTLC signatures" in cls or "htlc sig" in cls)


# results an API call made by the SENDER of an update may legitimately give: the
# constraint classes plus the rejections the malformed stream provokes on purpose
SENDER_REJECTIONS = CONSTRAINT_CLASSES + ("unknown_htlc", "dup_modify", "fee_not_initiator",
                                          "other:invalid_preimage", "other:fee_exceeds_balance",
                                          "no_pending")
# results a sign / revoke / delivery / resync step may legitimately give
PROTOCOL_OUTCOMES = CONSTRAINT_CLASSES + ("no_pending",)


def _bad_result(op, res):
    """Is `res` of a step with this op a property failure?  add/settle/fail/malformed/fee:
    only hard classes and panics (they are refusals without a state change, checked by
    rejected_no_change).  sign / revoke / deliver: EVERYTHING that is not ok or a documented
    constraint outcome - in particular any `other:...` (e.g. SignNextCommitment's 'parent
    entry ... had zero ... add height')."""
    if res == "ok":
        return False
    if _hard(res):
        return True
    k = op[0]
    if k in ("add", "fee") + RESOLVE:
        return res not in SENDER_REJECTIONS
    if k in ("sign", "revoke", "deliver"):
        return res not in PROTOCOL_OUTCOMES
    if k in RESTARTS:
        return res in ("reload_failed", "sync_failed")
    if k in ("crash", "side", "liveprobe"):
        return True
    return False


def no_errors(row):
    """Between the two honest peers: no invalid signature, no data-loss / commit-sync
    verdict, no reload error, no panic, and NO error of any other kind from sign, revoke,
    a delivery or the resync.  The only tolerated non-ok results are the documented
    constraint outcomes of validateCommitmentSanity (below_reserve, max_htlcs, max_pending,
    below_min, invalid_amt, fee_floor), no_window / no_pending, and - for the calls that
    create an update - the refusals the malformed stream provokes (see soft_abort())."""
    fails = []
    for i, st in enumerate(row["steps"]):
        ex = st.get("extra") or {}
        if _bad_result(st["op"], st["res"]):
            fails.append("step %d %s: %s" % (i, st["op"], st["res"]))
        for d in ex.get("delivered") or []:
            if d[2] != "ok" and d[2] not in PROTOCOL_OUTCOMES:
                fails.append("step %d cut: delivering %s to %s: %s" % (i, d[1], d[0], d[2]))
        if st["op"][0] == "crashin" and str(ex.get("call_res", "")).startswith("panic:"):
            fails.append("step %d %s: the interrupted call panicked: %s" % (i, st["op"], ex["call_res"]))
        for k in ("err_a", "err_b", "err"):
            # ProcessChanSyncMsg may sign (owed revocation + owed commitment); a
            # constraint refusal there is the same outcome as a refused plain sign.
            if ex.get(k) and ex[k] not in CONSTRAINT_CLASSES:
                fails.append("step %d %s: %s=%s" % (i, st["op"], k, ex[k]))
        for p in PARTIES:
            if isinstance(st.get(p), dict) and "dump_failed" in st[p]:
                fails.append("step %d: dump of %s failed: %s" % (i, p, st[p]["dump_failed"]))
    ab = row.get("aborted")
    if ab and not fails and not _soft_reason(ab):
        fails.append("case aborted: %s" % ab)
    return fails


def _soft_reason(ab):
    """Abort reasons that are constraint outcomes: '<op>:<constraint class>' of a sign or a
    delivery, and 'sync_error' (its class is judged through err_a / err_b)."""
    if ab == "sync_error":
        return True
    head, _, cls = ab.partition(":")
    return (head == "sign" or head.startswith(("deliver_", "cut_deliver_"))) \
        and cls in CONSTRAINT_CLASSES


def known_signature(row):
    """Signature of a failure that is a registered, still OPEN lnd defect, else None.
    Both defects found with this harness (corpus/chan/fresh_fee_restart.json,
    corpus/chan/fee_restore_order.json) are repaired in /repo, so nothing is recognised:
    every predicate failure is a violation."""
    return None


def soft_abort(row):
    """Abort reason that is not by itself a property failure (e.g. 'sign:below_reserve'
    after an unaffordable fee update, or the receiver refusing a racing add), else None."""
    ab = row.get("aborted")
    if ab and not no_errors(row):
        return ab
    return None


# ---------------------------------------------------------------------------
# rejected operations leave the state untouched


def rejected_no_change(row):
    fails = []
    prev = {p: row["init"][p] for p in PARTIES}
    for i, st in enumerate(row["steps"]):
        op = st["op"]
        rejected = st["res"] != "ok" and (op[0] in ("add", "fee", "sign", "revoke") + RESOLVE
                                          or (op[0] == "deliver" and st["res"] == "no_pending"))
        observe = op[0] in ("crash", "side")
        for p in PARTIES:
            if not (isinstance(st.get(p), dict) and "ltail" in st[p]):
                continue
            if (rejected or observe) and st[p] != prev[p] and not st["res"].startswith("panic:"):
                fails.append("step %d: %s %s (%s) changed %s's state" %
                             (i, "rejected" if rejected else "observation", op, st["res"], p))
            prev[p] = st[p]
    return fails


# ---------------------------------------------------------------------------
# C02: what a restart would see


def _reload_vs_live(rel, live, who):
    """A channel restored from disk must show exactly the signed part of the live
    state: same local tail, remote tail, pending remote tip, heights and revocation
    state; no local tip; log counters cut back to what signatures cover."""
    fails = []
    for k in ("ltail", "rtail", "rtip", "disk", "revstate"):
        if k in live and rel.get(k) != live[k]:
            fails.append("%s.%s restored as %s, live %s" % (who, k, rel.get(k), live[k]))
    if rel["ltip"] is not None:
        fails.append("%s restored with a local tip" % who)
    if rel["own_idx"] != last_remote(live)["ours"]:
        fails.append("%s.own_idx restored as %d, signed own updates = %d"
                     % (who, rel["own_idx"], last_remote(live)["ours"]))
    if rel["peer_idx"] != live["ltail"]["theirs"]:
        fails.append("%s.peer_idx restored as %d, acked peer updates = %d"
                     % (who, rel["peer_idx"], live["ltail"]["theirs"]))
    if rel["own_htlc"] > live["own_htlc"] or rel["peer_htlc"] > live["peer_htlc"]:
        fails.append("%s restored HTLC counters exceed the live ones" % who)
    if (rel.get("revstate") or {}).get("store_ok") is False:
        fails.append("%s restored revocation store cannot reproduce the last revoked secret" % who)
    return fails


def _side_before(row, i, p):
    """Description of the most recent side write of p at or before step i (for messages)."""
    for j in range(i, -1, -1):
        st = row["steps"][j]
        if st["op"][0] == "side" and st["op"][1] == p and st["op"][2] not in ("refresh", "refetch"):
            return " [last side write of %s: step %d %s stale_by=%s]" % (
                p, j, st["op"][2], (st.get("extra") or {}).get("stale_by"))
    return ""


def reload_consistent(row):
    """What a restart sees (crash observation: second object restored from p's database;
    cut: both channels restored after the prefix deliveries, compared with the dumps of
    the live objects taken just before) is exactly the signed part of the live state.
    This also covers the `side` writers: a metadata write through a stale OpenChannel
    instance must not roll back anything the state machine persisted."""
    fails = []
    n = 0
    for i, st in enumerate(row["steps"]):
        ex = st.get("extra") or {}
        if st["op"][0] == "crash" and _has_dumps(st):
            p = st["op"][1]
            rel = ex.get("reloaded")
            if not rel:
                fails.append("step %d: reload of %s failed: %s%s" % (i, p, ex.get("err"),
                                                                      _side_before(row, i, p)))
                continue
            n += 1
            for f in _reload_vs_live(rel, st[p], p):
                fails.append("step %d crash: %s%s" % (i, f, _side_before(row, i, p)))
        if st["op"][0] in RESTARTS and ex.get("pre_reload") and ex.get("reloaded"):
            for p in PARTIES:
                # (crashin: the party that died inside a call has no live reference state;
                # what its reload must look like is judged by crashin_atomic)
                if not ex["reloaded"].get(p) or not ex["pre_reload"].get(p):
                    continue
                n += 1
                for f in _reload_vs_live(ex["reloaded"][p], ex["pre_reload"][p], p):
                    fails.append("step %d cut: %s%s" % (i, f, _side_before(row, i, p)))
    reload_consistent.reloads = n
    return fails


reload_consistent.reloads = 0


# ---------------------------------------------------------------------------
# C02: persisted side tables, write-level crashes


class _Kind(str):
    """kind of an own-log entry; resolutions additionally carry .htlc, .src (AddRef
    (height, index) of the answered Add), .dest (SettleFailRef (height, index)), .has_refs."""
    htlc = None
    src = None
    dest = None
    has_refs = False


def _log_kinds(row):
    """Per step i and party p: {log index: kind} of p's OWN update log as of AFTER step i
    (kind = add | settle | fail | malformed | fee), reconstructed from the successful
    update calls (an update gets index own_idx-before-the-call; a restart cuts the log
    back to own_idx and later updates overwrite).  Yields (i, st, kinds_before, kinds_after)."""
    kinds = {p: {} for p in PARTIES}
    prev = {p: row["init"][p] for p in PARTIES}
    for i, st in enumerate(row["steps"]):
        before = {p: dict(kinds[p]) for p in PARTIES}
        op = st["op"]
        if op[0] in ("add", "fee") + RESOLVE and st["res"] == "ok":
            k = _Kind(op[0])
            if op[0] in RESOLVE:
                # forwarding-package references the resolver handed in (None: not recorded)
                ex = st.get("extra") or {}
                k.htlc = op[2]
                k.has_refs = "src_ref" in ex
                k.src = tuple(ex["src_ref"]) if ex.get("src_ref") else None
                k.dest = tuple(ex["dest_ref"]) if ex.get("dest_ref") else None
            kinds[op[1]][prev[op[1]]["own_idx"]] = k
        for p in PARTIES:
            if isinstance(st.get(p), dict) and "ltail" in st[p]:
                prev[p] = st[p]
                for k in [k for k in kinds[p] if k >= st[p]["own_idx"]]:
                    del kinds[p][k]
        yield i, st, before, kinds


def _tables_ok(d, who, own_kinds):
    """Side tables of a reload dump (`diskx`) against the commitments of the same dump:
    * revocation log: an entry for remote height-1 (the last revoked state), none for the
      current / a future height;
    * forwarding packages: exactly one per received revocation (heights 1..remote_h);
    * unsignedAckedUpdates = the peer's updates our local commitment includes and our
      remote TAIL commitment does not: exactly the log indexes [rtail.theirs, ltail.theirs)
      (as a set: the list is in update-log order);
    * remoteUnsignedLocalUpdates = our non-add updates the remote tail commitment
      includes and our local commitment does not: indexes in [ltail.ours, rtail.ours)."""
    x = d.get("diskx")
    if not x:
        return []
    fails = []
    rh = d["disk"]["remote_h"]
    for k in ("revlog_err", "fwdpkgs_err"):
        if x.get(k):
            fails.append("%s: %s=%s" % (who, k, x[k]))
    want = [rh - 1] if rh > 0 else []
    if x["revlog"] != want:
        fails.append("%s: revocation log has entries for heights %s among %s, expected %s (remote height %d)"
                     % (who, x["revlog"], [rh - 1, rh, rh + 1], want, rh))
    heights = [f[0] for f in x["fwdpkgs"]]
    if heights != list(range(1, rh + 1)):
        fails.append("%s: forwarding packages at heights %s, expected 1..%d" % (who, heights, rh))
    # (both lists are stored in update-LOG order, which after a restart is not index order:
    # restoreStateLogs puts the commitment's adds first; compared as sets, no duplicates)
    ua = x["unsigned_acked"]
    want = list(range(d["rtail"]["theirs"], d["ltail"]["theirs"]))
    if not isinstance(ua, list) or sorted(ua) != want:
        fails.append("%s: persisted unsignedAckedUpdates %s, expected the peer updates %s "
                     "(acked by local height %d, not in the remote tail)" % (who, ua, want, d["ltail"]["h"]))
    fails += _fwd_bits_ok(d, x, who, own_kinds)
    ru = x["remote_unsigned"]
    lo, hi = d["ltail"]["ours"], d["rtail"]["ours"]
    if not isinstance(ru, list) or any(not (lo <= i < hi) for i in ru):
        fails.append("%s: persisted remoteUnsignedLocalUpdates %s outside [%d, %d)" % (who, ru, lo, hi))
    elif own_kinds is not None:
        want = [i for i in range(lo, hi) if own_kinds.get(i) not in (None, "add")]
        unknown = [i for i in range(lo, hi) if i not in own_kinds]
        if not unknown and sorted(ru) != want:
            fails.append("%s: persisted remoteUnsignedLocalUpdates %s, expected %s (own non-add "
                         "updates in [%d, %d))" % (who, ru, want, lo, hi))
    return fails


def _fwd_bits_ok(d, x, who, own_kinds):
    """Forwarding-package ack bits against the persisted signatures of the same reload dump.
    The AckFilter bit of an Add (and the SettleFailFilter bit of the response's origin in the
    other channel's package) says "a response to this Add is committed towards the peer; never
    look at it again after a restart".  It must be set IF AND ONLY IF the settle / fail that
    answers the Add is covered by a persisted signature of ours, i.e. its log index is below
    the `ours` of the persisted pending (CommitDiff) or else current remote commitment."""
    if own_kinds is None or "destpkgs" not in x or len(x["fwdpkgs"]) == 0 and not x["destpkgs"]:
        return []
    if any(len(f) < 6 for f in x["fwdpkgs"]):
        return []
    signed = last_remote(d)["ours"]
    fails = []
    exp_ack, exp_sf, unknown = {}, {}, False
    for idx, k in own_kinds.items():
        if k in RESOLVE:
            if not getattr(k, "has_refs", False):
                unknown = True
            if idx < signed:
                if k.src:
                    exp_ack[k.src] = (idx, k)
                if k.dest:
                    exp_sf[k.dest] = (idx, k)
    if unknown:
        return []
    act_ack = {(f[0], b) for f in x["fwdpkgs"] for b in f[4]}
    act_sf = {(f[0], b) for f in x["destpkgs"] for b in f[5]}
    for (h, b) in sorted(act_ack - set(exp_ack)):
        pend = [(idx, str(k), k.htlc) for idx, k in own_kinds.items() if k in RESOLVE and k.src == (h, b)]
        fails.append("%s: forwarding package %d marks Add #%d as responded to (AckFilter), but no persisted "
                     "signature covers a response to it (persisted remote commitments cover own updates "
                     "< %d; response in the live log: %s) - a restarted link never resolves that HTLC"
                     % (who, h, b, signed, pend or "none"))
    for (h, b) in sorted(set(exp_ack) - act_ack):
        idx, k = exp_ack[(h, b)]
        fails.append("%s: the %s of HTLC %s (own update %d) is covered by the persisted remote commitment "
                     "(own updates < %d) but the AckFilter bit of Add #%d in forwarding package %d is not set"
                     % (who, k, k.htlc, idx, signed, b, h))
    for (h, b) in sorted(act_sf - set(exp_sf)):
        fails.append("%s: the other channel's package %d has SettleFailFilter bit %d set, but no persisted "
                     "signature covers the response it stands for (own updates < %d)" % (who, h, b, signed))
    for (h, b) in sorted(set(exp_sf) - act_sf):
        idx, k = exp_sf[(h, b)]
        fails.append("%s: the %s of HTLC %s (own update %d) is covered by the persisted remote commitment "
                     "but SettleFailFilter bit %d of the other channel's package %d is not set"
                     % (who, k, k.htlc, idx, b, h))
    return fails


def disk_tables(row):
    """Every reload (crash observation, both sides of a cut / crashin, the reference reload
    before a crashin) finds the channel's persisted side tables consistent with the
    persisted commitments (see _tables_ok)."""
    fails = []
    n = 0
    for i, st, kb, ka in _log_kinds(row):
        ex = st.get("extra") or {}
        op = st["op"]
        if op[0] == "crash" and ex.get("reloaded"):
            n += 1
            fails += ["step %d crash: %s" % (i, f) for f in _tables_ok(ex["reloaded"], op[1], kb[op[1]])]
        if op[0] == "crashin" and ex.get("reload_before"):
            n += 1
            fails += ["step %d crashin (before the call): %s" % (i, f)
                      for f in _tables_ok(ex["reload_before"], op[1], kb[op[1]])]
        if op[0] in RESTARTS and ex.get("reloaded"):
            for p in PARTIES:
                if ex["reloaded"].get(p):
                    n += 1
                    fails += ["step %d %s: %s" % (i, op[0], f)
                              for f in _tables_ok(ex["reloaded"][p], p, kb[p])]
        for p in PARTIES:
            d = ((ex.get("sync1") or {}).get("reloaded") or {}).get(p)
            if d:
                n += 1
                fails += ["step %d crashin (interrupted restart): %s" % (i, f) for f in _tables_ok(d, p, kb[p])]
        if len(fails) > 20:
            break
    disk_tables.reloads = n
    return fails


disk_tables.reloads = 0


def _kstr(k):
    """crash point of a crashin op: k >= 0 = the (k+1)-th transaction is refused up front;
    k < 0 = the (-k)-th transaction is executed and ROLLED BACK by the backend."""
    return "%d" % k if k >= 0 else "%d+rollback" % (-k - 1)


def _minus(d, keys):
    return {k: v for k, v in d.items() if k not in keys}


def _complete_call(call, rb, ra, live, who):
    """Failures of 'ra is rb + the COMPLETE persisted effect of `call`' (rb / ra: reload
    dumps of the party before the call / after the crash; live: its live dump before)."""
    fails = []

    def same(keys_excluded, what):
        a, b = _minus(ra, keys_excluded), _minus(rb, keys_excluded)
        for k in sorted(set(a) | set(b)):
            if a.get(k) != b.get(k):
                fails.append("%s: %s changed by %s: %s -> %s" % (who, k, what, b.get(k), a.get(k)))

    xa, xb = ra.get("diskx") or {}, rb.get("diskx") or {}
    if call == "sign":
        same(("rtip", "own_idx", "own_htlc", "disk", "diskx", "own_fee_sorted"), "a sign")
        if rb["rtip"] is not None or ra["rtip"] is None or ra["rtip"]["h"] != rb["rtail"]["h"] + 1:
            fails.append("%s: no new pending remote commitment at height %d" % (who, rb["rtail"]["h"] + 1))
        else:
            if ra["own_idx"] != ra["rtip"]["ours"]:
                fails.append("%s: own_idx %d != signed own updates %d" % (who, ra["own_idx"], ra["rtip"]["ours"]))
            if ra["disk"] != dict(rb["disk"], pending_remote_h=ra["rtip"]["h"]):
                fails.append("%s: disk heights %s -> %s" % (who, rb["disk"], ra["disk"]))
        pk = ("fwdpkgs", "destpkgs")
        if _minus(xa, pk) != dict(_minus(xb, pk), lwr=False):
            fails.append("%s: side tables after a sign %s, expected those before with LastWasRevoke=false %s"
                         % (who, _minus(xa, pk), _minus(xb, pk)))
        for k in pk:
            # a sign may only ADD ack bits (which ones: disk_tables / _fwd_bits_ok)
            a, b = xa.get(k) or [], xb.get(k) or []
            if [f[:4] for f in a] != [f[:4] for f in b] or any(
                    not (set(fb[4]) <= set(fa[4]) and set(fb[5]) <= set(fa[5]))
                    for fa, fb in zip(a, b) if len(fa) >= 6 and len(fb) >= 6):
                fails.append("%s: %s changed by a sign other than by new ack bits: %s -> %s" % (who, k, b, a))
    elif call == "revoke":
        same(("ltail", "peer_idx", "peer_htlc", "disk", "diskx", "peer_fee_sorted"), "a revoke")
        if ra["ltail"] != live.get("ltip"):
            fails.append("%s: persisted local commitment %s is not the received one %s"
                         % (who, ra["ltail"], live.get("ltip")))
        if ra["peer_idx"] != ra["ltail"]["theirs"]:
            fails.append("%s: peer_idx %d != acked peer updates %d" % (who, ra["peer_idx"], ra["ltail"]["theirs"]))
        if ra["disk"] != dict(rb["disk"], local_h=rb["disk"]["local_h"] + 1):
            fails.append("%s: disk heights %s -> %s" % (who, rb["disk"], ra["disk"]))
        for k in ("revlog", "fwdpkgs"):
            if xa.get(k) != xb.get(k):
                fails.append("%s: %s changed by a revoke: %s -> %s" % (who, k, xb.get(k), xa.get(k)))
        if xa.get("lwr") is not True:
            fails.append("%s: LastWasRevoke is %s after a revoke" % (who, xa.get("lwr")))
    elif call == "deliver":
        same(("rtail", "rtip", "disk", "diskx", "revstate"), "a received revocation")
        if rb["rtip"] is None or ra["rtip"] is not None or ra["rtail"] != rb["rtip"]:
            fails.append("%s: remote tail %s is not the formerly pending commitment %s"
                         % (who, ra["rtail"]["h"], rb["rtip"] and rb["rtip"]["h"]))
        if ra["disk"] != dict(rb["disk"], remote_h=rb["disk"]["remote_h"] + 1, pending_remote_h=None):
            fails.append("%s: disk heights %s -> %s" % (who, rb["disk"], ra["disk"]))
        ca, cb = ra.get("revstate") or {}, rb.get("revstate") or {}
        if ca.get("cur") != cb.get("next") or ca.get("store_ok") is not True or ca.get("next") in (None, cb.get("next")):
            fails.append("%s: revocation state %s -> %s" % (who, cb, ca))
        if xa and xb:
            h = ra["disk"]["remote_h"]
            if [f[0] for f in xa["fwdpkgs"]] != [f[0] for f in xb["fwdpkgs"]] + [h]:
                fails.append("%s: forwarding packages %s -> %s" % (who, xb["fwdpkgs"], xa["fwdpkgs"]))
            if xa.get("lwr") != xb.get("lwr"):
                fails.append("%s: LastWasRevoke changed by a received revocation" % who)
    else:
        fails.append("%s: unknown call %s" % (who, call))
    return fails


def crashin_atomic(row):
    """WRITE-LEVEL crash (`crashin`): the node died inside one state-machine call after the
    k-th transaction of that call.  What it finds on disk afterwards is either exactly what
    it would have found before the call (the call did not happen) or that plus the complete
    persisted effect of the call - never something in between; with 0 committed
    transactions it is the former, after a call that returned ok the latter.  (The
    generic consistency of the tables is disk_tables, the behaviour after the restart is
    judged by no_errors / agreement / release_rule / the model correspondence.)"""
    fails = []
    stats = crashin_atomic.stats = {}
    torn = crashin_atomic.torn = []
    prev = {p: row["init"][p] for p in PARTIES}
    for i, st in enumerate(row["steps"]):
        op, ex = st["op"], st.get("extra") or {}
        if op[0] == "crashin" and ex.get("reload_before") and (ex.get("reloaded") or {}).get(op[1]):
            p, call = op[1], op[2]
            rb, ra = ex["reload_before"], ex["reloaded"][p]
            m, refused, cres = ex.get("committed"), ex.get("refused"), ex.get("call_res")
            key = "%s k=%s committed=%s %s" % (call if call != "deliver" else "deliver_" + str(ex.get("kind")),
                                              _kstr(op[3]), m, "completed" if not refused else "cut short")
            stats[key] = stats.get(key, 0) + 1
            if refused and cres == "ok":
                fails.append("step %d %s: a transaction was refused but the call returned ok" % (i, op))
            untouched = ra == rb
            complete = None
            if not untouched:
                # (the only write of a resync is the signature ProcessChanSyncMsg makes when it
                # owes a commitment on top of a retransmitted revocation)
                complete = _complete_call("sign" if call == "sync" else call, rb, ra, prev[p], p)
            verdict = "before" if untouched else ("after" if not complete else "torn")
            stats["-> " + verdict] = stats.get("-> " + verdict, 0) + 1
            if verdict == "torn":
                torn.append((i, op, m, refused, "; ".join(complete[:3])))
                fails.append("step %d %s (committed %s of the call's transactions, %s refused): the reloaded "
                             "state is neither the state before the call nor the state after it: %s"
                             % (i, op, m, refused, "; ".join(complete[:4])))
            elif m == 0 and verdict != "before":
                fails.append("step %d %s: no transaction committed but the disk changed" % (i, op))
            elif not refused and cres == "ok" and verdict != "after" and call in ("sign", "revoke"):
                fails.append("step %d %s: the call completed (ok) but the disk shows no effect" % (i, op))
            elif not refused and cres == "ok" and call == "deliver" and ex.get("kind") == "rev" \
                    and verdict != "after":
                fails.append("step %d %s: the revocation was processed (ok) but the disk shows no effect" % (i, op))
        for p in PARTIES:
            if isinstance(st.get(p), dict) and "ltail" in st[p]:
                prev[p] = st[p]
    return fails


crashin_atomic.stats = {}
crashin_atomic.torn = []


def _call_kind(st):
    op, ex = st["op"], st.get("extra") or {}
    if op[0] == "crashin":
        return op[2] if op[2] != "deliver" else "deliver_" + str(ex.get("kind"))
    return op[0] if op[0] != "deliver" else "deliver_" + str(ex.get("kind"))


def tx_counts(row):
    """{call kind: most read-write transactions ONE call of that kind was seen to commit or
    attempt in this case} (sign / revoke / deliver_<kind> from extra.ntx, crashed calls from
    committed + refused, restarts as 'sync')."""
    out = {}
    for st in row["steps"]:
        ex = st.get("extra") or {}
        n = None
        if "ntx" in ex:
            n = ex["ntx"]
        elif st["op"][0] == "crashin" and "committed" in ex:
            n = (ex.get("committed") or 0) + (ex.get("refused") or 0)
        if n is not None:
            k = _call_kind(st)
            out[k] = max(out.get(k, 0), n)
        for n in (ex.get("ntx_sync") or {}).values():
            out["sync"] = max(out.get("sync", 0), n)
    return out


def call_atomicity(row):
    """Every state-machine call is ONE durable write.  Not judged on the count alone: it
    fails when a call was measured to commit (or attempt) more than one read-write
    transaction AND a crash between them was observed to leave a torn state (neither the
    state before the call nor the state after it, see crashin_atomic)."""
    fails = []
    crashin_atomic(row)
    torn = list(crashin_atomic.torn)
    if not torn:
        return fails
    counts = tx_counts(row)
    for i, op, m, refused, detail in torn:
        kind = _call_kind(row["steps"][i])
        n = max(counts.get(kind, 0), (m or 0) + (refused or 0))
        if n > 1:
            fails.append("step %d %s: one %s call performs %d separate read-write transactions; the node "
                         "stopping after the %s. of them leaves a state that is neither 'before' nor "
                         "'after' the call: %s" % (i, op, kind, n, m, detail))
    return fails


def logs_ordered(row):
    """In every (live or restored) update log the FeeUpdate entries appear in log-index
    order - evaluateHTLCView takes the LAST one in list order as the fee rate."""
    fails = []
    for where, p, d in dumps_of_case(row):
        for k in ("own_fee_sorted", "peer_fee_sorted"):
            if d.get(k) is False:
                fails.append("%s: %s.%s is false (fee updates out of log-index order)" % (where, p, k))
                if len(fails) > 3:
                    return fails
    return fails


def side_harmless(row):
    """`side` ops (metadata writers of other subsystems, invoked on a stale OpenChannel
    instance of the live channel) succeed and leave both live channels untouched; their
    effect on disk is judged by reload_consistent / release_rule at the next reload."""
    fails = []
    prev = {p: row["init"][p] for p in PARTIES}
    n = 0
    for i, st in enumerate(row["steps"]):
        if st["op"][0] == "side":
            n += 1
            if st["res"] != "ok":
                fails.append("step %d %s: %s" % (i, st["op"], st["res"]))
            for p in PARTIES:
                if _has_dumps(st) and st[p] != prev[p]:
                    fails.append("step %d %s changed the live channel of %s" % (i, st["op"], p))
        for p in PARTIES:
            if isinstance(st.get(p), dict) and "ltail" in st[p]:
                prev[p] = st[p]
    side_harmless.side_ops = n
    return fails


side_harmless.side_ops = 0


def drained(row):
    """A case that was not aborted ends clean (queues empty, no pending commitment,
    nobody owes a signature) - i.e. the resync after every cut converged."""
    if row.get("aborted") or row.get("script"):
        return []
    if not row.get("final_clean"):
        return ["case did not drain to a clean state"]
    return []


def corpus_expect(row):
    """Corpus / script rows: the result class of the LAST step is the recorded one
    ("ok" for regression scripts, the failure class for API-hazard witnesses)."""
    if not row.get("script") or row.get("expect_last") is None:
        return []
    last = row["steps"][-1]["res"] if row["steps"] else None
    if last != row["expect_last"]:
        return ["%s: last step %s ended with %r, expected %r"
                % (row.get("corpus"), row["steps"][-1]["op"] if row["steps"] else None,
                   last, row["expect_last"])]
    if row["expect_last"] == "ok":
        bad = [(i, st["op"], st["res"]) for i, st in enumerate(row["steps"])
               if st["res"] != "ok" and not (st.get("extra") or {}).get("mal")]
        if bad:
            return ["%s: step %d %s -> %s in a script expected to pass" % ((row.get("corpus"),) + bad[0])]
    return []


def expected_failure(row):
    """True for a corpus row that documents a failing schedule (API-level hazard outside
    the protocol-following schedules): only corpus_expect applies to it."""
    return bool(row.get("script")) and row.get("expect_last") not in (None, "ok")


# ---------------------------------------------------------------------------
# C01view: the incremental bookkeeping, model-free


def _hl_dumps(row):
    """Yield (where, party, kind, {"own": rows, "peer": rows}, party dump) for every
    height-log dump of a case; kind = "live" (init, every step), "observed" (second
    object of a crash observation) or "restart" (objects rebuilt by a cut / crashin;
    yielded BEFORE the live dumps of that step)."""
    ih = row.get("init_hl") or {}
    for p in PARTIES:
        if ih.get(p):
            yield "init", p, "live", ih[p], row["init"][p]
    for i, st in enumerate(row["steps"]):
        ex = st.get("extra") or {}
        rh, rel = ex.get("hl_reloaded"), ex.get("reloaded")
        if st["op"][0] == "crash" and rh and rel:
            yield "step %d reloaded" % i, st["op"][1], "observed", rh, rel
        if st["op"][0] in RESTARTS and rh and rel:
            for p in PARTIES:
                if rh.get(p) and rel.get(p):
                    yield "step %d reloaded" % i, p, "restart", rh[p], rel[p]
        hl = st.get("hl") or {}
        for p in PARTIES:
            if isinstance(hl.get(p), dict) and isinstance(st.get(p), dict) and "ltail" in st[p]:
                yield "step %d" % i, p, "live", hl[p], st[p]


def heights_sane(row):
    """Model-free sanity of the add/remove commit heights of every log entry
    (rows [type, LogIndex, HtlcIndex, ParentIndex, Amount, addL, addR, rmL, rmR]):
    * no height above the tip of its chain (Local: ltip/ltail, Remote: rtip/rtail);
    * per chain add height <= remove height: a resolution's remove height on a chain is
      not below its parent add's add height there, and never set while the parent's is 0
      (FeeUpdate: add == remove on each chain);
    * a height, once set on a live object, never changes while the entry stays in the log
      (monotone: 0 -> h exactly once; restarts rebuild the logs and are judged per dump);
    * an entry whose two remove heights are set and <= the respective chain tails is
      compacted by the owner's next received revocation (it never survives one)."""
    fails = []
    last = {}          # (party, log, LogIndex, is_add) -> heights on the live object
    for where, p, kind, hl, d in _hl_dumps(row):
        live = kind == "live"
        if kind == "restart":
            # a restart replaces the live objects: forget what they carried
            for k in [k for k in last if k[0] == p]:
                del last[k]
        tipL = (d.get("ltip") or d["ltail"])["h"]
        tipR = (d.get("rtip") or d["rtail"])["h"]
        tailL, tailR = d["ltail"]["h"], d["rtail"]["h"]
        for lname, other in (("own", "peer"), ("peer", "own")):
            adds = {e[2]: e for e in hl[other] if e[0] == 0}
            for e in hl[lname]:
                t, li, aL, aR, rL, rR = e[0], e[1], e[5], e[6], e[7], e[8]
                tag = "%s: %s.%s_log[%d]" % (where, p, lname, li)
                if max(aL, rL) > tipL or max(aR, rR) > tipR:
                    fails.append("%s height above its chain tip (%s, tips %d/%d)" % (tag, e[5:], tipL, tipR))
                if t == 4 and (aL != rL or aR != rR):
                    fails.append("%s fee update with add != remove heights %s" % (tag, e[5:]))
                if t in (1, 2, 3):
                    par = adds.get(e[3])
                    if par is None:
                        fails.append("%s resolves HTLC %d which is not in the %s log" % (tag, e[3], other))
                    else:
                        for nm, rm, ad in (("local", rL, par[5]), ("remote", rR, par[6])):
                            if rm and (ad == 0 or ad > rm):
                                fails.append("%s removed at %s height %d but its add has %s add height %d"
                                             % (tag, nm, rm, nm, ad))
                if live:
                    key = (p, lname, li, t == 0)
                    old = last.get(key)
                    if old:
                        for nm, o, n in zip(("addL", "addR", "rmL", "rmR"), old, (aL, aR, rL, rR)):
                            if o and o != n:
                                fails.append("%s %s changed %d -> %d" % (tag, nm, o, n))
                    last[key] = (aL, aR, rL, rR)
        if len(fails) > 6:
            return fails
    # compaction: after a successfully delivered revocation to p no non-add entry of p's
    # logs may have both remove heights set and <= the tails
    for i, st in enumerate(row["steps"]):
        ex = st.get("extra") or {}
        if st["op"][0] == "deliver" and st["res"] == "ok" and ex.get("kind") == "rev":
            p = st["op"][1]
            hl, d = (st.get("hl") or {}).get(p), st.get(p)
            if not isinstance(hl, dict) or not isinstance(d, dict) or "ltail" not in d:
                continue
            for lname in ("own", "peer"):
                for e in hl[lname]:
                    if e[0] != 0 and e[7] and e[8] and e[7] <= d["ltail"]["h"] and e[8] <= d["rtail"]["h"]:
                        fails.append("step %d: %s.%s_log[%d] survived the compaction of a received "
                                     "revocation (remove heights %d/%d, tails %d/%d)"
                                     % (i, p, lname, e[1], e[7], e[8], d["ltail"]["h"], d["rtail"]["h"]))
    return fails[:8]


PREDICATES = [
    ("heights_sane", heights_sane),
    ("conservation", conservation_case),
    ("mirror", mirror_case),
    ("agreement", agreement),
    ("balance_moves_only_by_htlc", balance_moves_only_by_htlc),
    ("window", window),
    ("release_rule", release_rule),
    ("live_release_rule", live_release_rule),
    ("no_errors", no_errors),
    ("rejected_no_change", rejected_no_change),
    ("reload_consistent", reload_consistent),
    ("params_survive_reload", params_survive_reload),
    ("disk_tables", disk_tables),
    ("call_atomicity", call_atomicity),
    ("crashin_atomic", crashin_atomic),
    ("side_harmless", side_harmless),
    ("logs_ordered", logs_ordered),
    ("drained", drained),
    ("corpus_expect", corpus_expect),
]


def all_predicates(row, only=None):
    """{predicate name: [failure strings]} for the predicates that FAIL on this case."""
    out = {}
    for name, fn in PREDICATES:
        if only and name not in only:
            continue
        if expected_failure(row) and name != "corpus_expect":
            continue
        f = fn(row)
        if f:
            out[name] = f
    return out


def histograms(rows):
    """op / result / chan-type / cut statistics for ctx.cov."""
    ops, types, aborted, kinds, sync = {}, {}, {}, {}, {}
    backends, ntx, crashin = {}, {}, {}
    lp_states, lp_out = {}, {}
    retried, retry_cases = {}, {}
    db_opts = {}
    heights = []
    nsteps = 0
    for r in rows:
        types[r["chan_type"]] = types.get(r["chan_type"], 0) + 1
        backends[r.get("backend", "bbolt")] = backends.get(r.get("backend", "bbolt"), 0) + 1
        for p_, o in sorted((r.get("db_opts") or {}).items()):
            k = ",".join(sorted(k for k, v in o.items() if v)) or "-"
            db_opts[k] = db_opts.get(k, 0) + 1
        if r.get("kvdb_retry"):
            retry_cases[r.get("backend", "bbolt")] = retry_cases.get(r.get("backend", "bbolt"), 0) + 1
        if r.get("aborted"):
            aborted[r["aborted"]] = aborted.get(r["aborted"], 0) + 1
        nsteps += len(r["steps"])
        for st in r["steps"]:
            k = "%s:%s" % (st["op"][0], st["res"])
            ops[k] = ops.get(k, 0) + 1
            ex = st.get("extra") or {}
            if st["op"][0] == "deliver" and "kind" in ex:
                kinds[ex["kind"]] = kinds.get(ex["kind"], 0) + 1
            if st["op"][0] in RESTARTS:
                for p in PARTIES:
                    k = ",".join(ex.get("sync_" + p) or []) or "-"
                    sync[k] = sync.get(k, 0) + 1
            for p, n in sorted((ex.get("ntx_sync") or {}).items()):
                k = "restart+resync(%s):%d" % (",".join(ex.get("sync_" + p) or []) or "-", n)
                ntx[k] = ntx.get(k, 0) + 1
            if ex.get("nretry"):
                k = st["op"][0] if st["op"][0] != "deliver" else "deliver_" + str(ex.get("kind"))
                retried[k] = retried.get(k, 0) + ex["nretry"]
            for n in (ex.get("nretry_sync") or {}).values():
                retried["restart+resync"] = retried.get("restart+resync", 0) + n
            if "ntx" in ex and st["res"] == "ok":
                k = st["op"][0] if st["op"][0] != "deliver" else "deliver_" + str(ex.get("kind"))
                k = "%s:%d" % (k, ex["ntx"])
                ntx[k] = ntx.get(k, 0) + 1
            if st["op"][0] == "liveprobe" and ex.get("probe"):
                pr = ex["probe"]
                k = "%s A tip-tail=%s B tip-tail=%s queues %s" % (
                    st["op"][1] if len(st["op"]) > 1 else "ll", (pr.get("a") or {}).get("tip_minus_tail"),
                    (pr.get("b") or {}).get("tip_minus_tail"),
                    "empty" if not any(ex.get("queues") or []) else "non-empty")
                lp_states[k] = lp_states.get(k, 0) + 1
                for p in PARTIES:
                    x = pr.get(p) or {}
                    k = "err:%s" % x["err"] if x.get("err") else (",".join(x.get("kinds") or []) or "-")
                    lp_out[k] = lp_out.get(k, 0) + 1
            if st["op"][0] == "crashin" and "committed" in ex:
                k = "%s%s k=%s committed=%s%s [%s]" % (
                    st["op"][2], "_" + ex["kind"] if ex.get("kind") else "", _kstr(st["op"][3]),
                    ex["committed"], " (cut short)" if ex.get("refused") else "",
                    r.get("backend", "bbolt"))
                crashin[k] = crashin.get(k, 0) + 1
        last = r["steps"][-1] if r["steps"] else None
        if last and _has_dumps(last):
            heights.append(min(last["a"]["ltail"]["h"], last["b"]["ltail"]["h"]))
    heights.sort()
    return {"cases": len(rows), "steps": nsteps, "chan_types": types, "op_results": ops,
            "delivered_kinds": kinds, "resync_retransmissions": sync, "aborted": aborted,
            "liveprobe_states": lp_states, "liveprobe_answers": lp_out,
            "db_opts": db_opts, "kvdb_retry_cases": retry_cases, "retried_transactions": retried,
            "kvdb_backends": backends, "rw_transactions_per_call": ntx, "write_level_crashes": crashin,
            "min_final_height_median": heights[len(heights) // 2] if heights else None,
            "min_final_height_min": heights[0] if heights else None}
