"""C13, stage "nursery": the utxo nursery as a restartable component.

Real UtxoNursery + real NurseryStore (bolt) behind a stop-the-world wrapper,
mock chain / notifier / sweeper (harness/contractcourt/verif_nursery_test.go).
Enumerated: a stop after every committed nursery-store transaction and after
every block x blocks mined while the node is down (restart tip below / at /
above every maturity, and relative to lastGradHeight) x order of a block's
confirmation notifications and its epoch.  Predicate: same terminal outcome as
the uninterrupted run (every incubated output offered to the sweeper, at most
once per incarnation, swept, channel removed from the nursery) and bounded
lateness.  Correspondence: every committed store transaction, with the
operation and arguments the real nursery passed (conf height,
lastGradHeight), must change the decoded store content (channel bucket
states, height-index classes) exactly like Arb/NurseryModel.napply."""
import json
import os

from lib.verif import *

WARM = [{"pkg": "contractcourt", "files": ["contractcourt/verif_nursery_test.go"]}]
TARGETS = ["theories/Arb/NurseryProps.vo", "theories/Arb/NurseryExec.vo"]
THEOREMS = [
    "C13_nursery_pscl_offered",
    "C13_nursery_pscl_class_after_best",
    "C13_nursery_crib_late_registration_refuted",
]
IMPORTS = ("From Coq Require Import List NArith Bool.\nImport ListNotations.\n"
           "From LV Require Import Arb.NurseryModel Arb.NurseryExec.\n")

STATE = {1: "OCrib", 2: "OPscl", 3: "OKndr", 4: "OGrad"}
F4_SIG = "C13 nursery-stuck:crib-late-registration "


def is_nursery_replay(path):
    try:
        return "stoptip" in json.load(open(path)).get("detail", {}).get("case", {})
    except Exception:
        return False


def snap_term(d):
    outs = ["(%s, %s)" % (cN(i), STATE[s]) for i, s in d["outs"]]
    idx = ["(%s, %s, %s)" % (cN(h), STATE[s], cN(i)) for h, s, i in d["idx"]]
    return "(mkNSnap %s %s %s)" % (clist(outs), clist(idx), cbool(d["chan"]))


def op_terms(c, op):
    outs = {o["id"]: o for o in c["spec"]["outs"]}
    k = op[0]
    if k == 1:
        res = []
        for i in op[1:]:
            o = outs[i]
            res.append("NIncBaby %s %s" % (cN(i), cN(o["expiry"])) if o["kind"] == "baby"
                       else "NIncKid %s" % cN(i))
        return res
    if k == 2:
        return ["NCribToKinder %s %s %s %s" % (cN(op[1]), cN(outs[op[1]]["expiry"]), cN(op[2]), cN(op[3]))]
    if k == 3:
        return ["NPsclToKinder %s %s %s %s %s" % tuple(cN(x) for x in op[1:6])]
    if k == 4:
        return ["NGraduate %s %s" % (cN(op[1]), cN(op[2]))]
    if k == 5:
        return ["NRemove"]
    raise ValueError("unknown nursery store op %r" % (op,))


def case_term(c):
    txs = []
    for it in c["trace"]:
        if it["t"] != "tx":
            continue
        txs.append("(mkNTx %s %s)" % (clist(op_terms(c, it.get("op") or [0])), snap_term(it["d"])))
    return "(mkNCase %s)" % clist(txs)


def maturities(c):
    """id -> height from which the output is spendable, derived from the scenario only."""
    m = {}
    for o in c["spec"]["outs"]:
        if o["kind"] == "kid_abs":
            m[o["id"]] = max(o["expiry"], o["conf"])
        elif o["kind"] == "kid_csv":
            m[o["id"]] = o["conf"] + o["csv"]
    return m


def predicate(c, base):
    fails = []
    name = c["spec"]["name"]
    ids = sorted(o["id"] for o in c["spec"]["outs"])
    kinds = {o["id"]: o["kind"] for o in c["spec"]["outs"]}
    offered = {}
    per_inc = {}
    for i, tip, inc in c["offers"]:
        offered.setdefault(i, tip)
        per_inc[(i, inc)] = per_inc.get((i, inc), 0) + 1
    dup = sorted(k for k, n in per_inc.items() if n > 1)
    if dup:
        fails.append(("C13_nursery_pscl_offered", "C13 nursery-offered-twice " + name,
                      "output(s) %s offered to the sweeper more than once in one incarnation" % dup))
    # never offered before it is spendable (CSV / CLTV not yet passed)
    spend = dict(maturities(c))
    for it in c["trace"]:
        op = it.get("op") or [0]
        if it["t"] == "tx" and op[0] == 2:
            spend[op[1]] = op[2] + op[3]   # crib -> kindergarten: conf height + csv
    early = sorted((i, t) for i, t, _ in c["offers"] if i in spend and t < spend[i])
    if early:
        fails.append(("C13_nursery_pscl_offered", "C13 nursery-early-offer " + name,
                      "output offered to the sweeper before it is spendable (id, tip): %s; "
                      "spendable heights %s" % (early, spend)))
    never = [i for i in ids if i not in offered]
    stuck = c["end"]["chan"] or never or sorted(x[0] for x in c["swept"]) != ids
    if stuck:
        # finding C13-F4 exactly: the output was promoted crib -> kindergarten
        # AFTER the restart, the class conf + csv it was filed under was already
        # reached by the nursery (late registration, which CribToKinder does
        # not handle) and it still sits in exactly that class
        late = {}
        crashed = False
        for it in c["trace"]:
            if it["t"] == "crash":
                crashed = True
            elif crashed and (it.get("op") or [0])[0] == 2 and it["op"][2] + it["op"][3] <= it["best"]:
                late[it["op"][1]] = it["op"][2] + it["op"][3]
        kndr_late = [e for e in c["end"]["idx"] if e[1] == 3 and e[2] in never
                     and kinds.get(e[2]) == "baby" and late.get(e[2]) == e[0]]
        sig = "C13 nursery-stuck "
        if never and len(kndr_late) == len(never):
            # finding C13-F4: CribToKinder has no late registration
            sig = F4_SIG
        fails.append(("C13_nursery_pscl_offered", sig + name,
                      "outputs never offered to the sweeper: %s; channel still in the nursery: %s; "
                      "final store %s at tip %s (restart at tip %s)"
                      % (never, c["end"]["chan"], c["end"], c["endtip"], c["restart"])))
    else:
        bs = {x[0] for x in base["swept"]}
        cs = {x[0] for x in c["swept"]}
        if bs != cs or base["end"] != c["end"]:
            fails.append(("C13_nursery_pscl_offered", "C13 nursery-outcome-differs " + name,
                          "swept %s / store %s vs uninterrupted %s / %s"
                          % (sorted(cs), c["end"], sorted(bs), base["end"])))
        # bounded lateness: an output spendable at height m is offered at the
        # latest one block after max(m, restart tip) (preschool outputs)
        for i, m in maturities(c).items():
            lim = max(m, c["restart"] or 0) + 1
            if offered.get(i, 0) > lim:
                fails.append(("C13_nursery_pscl_offered", "C13 nursery-late-offer " + name,
                              "output %s spendable at %s (restart at %s) first offered at tip %s"
                              % (i, m, c["restart"], offered[i])))
    return fails


def proof_stage(ctx):
    """build + audit + Print Assumptions of the nursery theorems (the driver's
    proof_stage is used by the restart stage; its coverage fields stay as they are)."""
    ok, mlog = coq_make(TARGETS)
    hits = audit_sources(deps_closure(TARGETS))
    asm = print_assumptions(ctx.uid("_nursery"), "LV.Arb.NurseryProps", THEOREMS)
    broken = [t for t, a in asm.items() if a is None]
    ctx.cov["nursery_proofs"] = {"theorems": {t: (a if a is not None else "MISSING/BROKEN")
                                              for t, a in asm.items()},
                                 "audit_hits": hits, "make_ok": ok}
    if not ok or hits or broken:
        return False, (broken or hits or ["Arb/Nursery build"]), mlog
    return True, [], ""


def run_stage(ctx):
    pok, pbroken, plog = proof_stage(ctx)
    nviol = len(ctx.violations)
    _run_stage(ctx)
    if not pok and len(ctx.violations) == nviol:
        ctx.violation("proof_broken", ", ".join(str(x) for x in pbroken),
                      {"log": plog[-4000:]}, signature="proof-nursery", failing_input=False)


def _run_stage(ctx):
    env = {}
    if ctx.replay:
        env["VERIF_REPLAY"] = os.path.abspath(ctx.replay)
    rc, trace, out = run_harness(ctx.uid("_nursery"), "contractcourt",
                                 ["contractcourt/verif_nursery_test.go"],
                                 "^TestVerifNursery$", env=env, timeout=2400,
                                 race=ctx.thorough)
    rows = read_jsonl(trace)
    if rc != 0 or not rows:
        ctx.violation("harness_failed", "TestVerifNursery", {"log": out[-4000:]},
                      signature="harness-nursery", failing_input=False)
        return
    base = {}
    for c in rows:
        if c["stop"] < 0 and not c["stoptip"]:
            base[(c["spec"]["name"], c["conffirst"])] = c
    sigs = {}
    reported = {}
    f4_registered = any(k.get("id") == "C13-F4" for k in ctx.known)
    f4_pending = []
    for c in rows:
        cid = {"spec": c["spec"], "stop": c["stop"], "stoptip": c["stoptip"], "down": c["down"],
               "conffirst": c["conffirst"]}
        if c.get("err"):
            ctx.violation("harness_failed", "TestVerifNursery", {"case": cid, "err": c["err"]},
                          signature="harness-nursery-case", failing_input=False)
            continue
        b = base[(c["spec"]["name"], c["conffirst"])]
        for thm, sig, msg in predicate(c, b):
            cls = sig.split(" ")[1]
            sigs[cls] = sigs.get(cls, 0) + 1
            if sig.startswith(F4_SIG) and not f4_registered:
                # finding C13-F4 is reported to the lead but not (yet) listed in
                # known_findings.json: recorded in the evidence, not a VIOLATION
                # (listing it as known/fixed turns this into KNOWN-FINDING / VIOLATION)
                f4_pending.append({"case": cid, "restart_tip": c["restart"], "end": c["end"],
                                   "endtip": c["endtip"]})
                continue
            if reported.get(cls, 0) >= 2:
                continue
            reported[cls] = reported.get(cls, 0) + 1
            ctx.violation("impl_violates_predicate", thm,
                          {"case": cid, "restart_tip": c["restart"], "offers": c["offers"],
                           "swept": c["swept"], "end": c["end"], "endtip": c["endtip"],
                           "trace": c["trace"], "fails": [msg]}, signature=sig)
    terms = [case_term(c) for c in rows]
    ok, bad, logs = coq_mismatches(ctx.uid("_nursery"), IMPORTS, terms,
                                   shard=max(20, len(terms) // NCPU + 1))
    if not ok:
        ctx.violation("correspondence_mismatch", "Arb.NurseryExec (model evaluation failed)",
                      {"logs": logs}, signature="model-eval-nursery", failing_input=False)
    for n, (ci, items) in enumerate(bad):
        if n >= 3:
            break
        c = rows[ci]
        ctx.violation("correspondence_mismatch", "Arb.NurseryExec.check_case",
                      {"case": {"spec": c["spec"], "stop": c["stop"], "stoptip": c["stoptip"],
                                "down": c["down"], "conffirst": c["conffirst"]},
                       "disagreeing_items": items,
                       "legend": "index of the first committed store transaction whose effect on the "
                                 "decoded store differs from NurseryModel.napply",
                       "trace": c["trace"]},
                      signature="C13 nursery mismatch " + c["spec"]["name"],
                      failing_input=bool(predicate(c, base[(c["spec"]["name"], c["conffirst"])])))
    eq_last = sum(1 for c in rows for it in c["trace"]
                  if it["t"] == "tx" and (it.get("op") or [0])[0] == 3
                  and (it["op"][2] if it["op"][4] == 0 else it["op"][3] + it["op"][4]) == it["op"][5])
    scn = {}
    for c in rows:
        scn[c["spec"]["name"]] = scn.get(c["spec"]["name"], 0) + 1
    ctx.cov["nursery"] = {
        "evaluations": len(rows),
        "store_transactions": sum(c["ntx"] for c in rows),
        "rule": "per scenario and notification order: the uninterrupted run; a stop after every committed "
                "nursery-store transaction and after every block x downtimes (quick: restart tips within 2 "
                "blocks of every maturity / confirmation height and of lastGradHeight plus a seeded sixth of "
                "the others; thorough: all)",
        "scenarios": scn,
        "runs_with_restart": sum(1 for c in rows if c["restart"]),
        "preschool_promotions_with_maturity_eq_lastGradHeight": eq_last,
        "predicate_failures_by_class": sigs,
        "correspondence_mismatches": len(bad),
        "finding_C13_F4_registered": f4_registered,
        "finding_C13_F4_unregistered_runs": len(f4_pending),
        "finding_C13_F4_sample": f4_pending[:2],
    }
    f4_directed = [c for c in rows if c["spec"]["name"] == "f4_crib_late" and c["stoptip"] == 103]
    ctx.cov["nursery"]["f4_directed_runs"] = len(f4_directed)
    if not ctx.replay and len(f4_directed) < 6:
        ctx.violation("harness_failed", "TestVerifNursery",
                      {"why": "the directed schedule of known finding C13-F4 was not run"},
                      signature="harness-nursery-f4", failing_input=False)
    if not ctx.replay and not eq_last:
        ctx.violation("harness_failed", "TestVerifNursery",
                      {"why": "no run promoted a preschool output with maturity == lastGradHeight "
                              "(the late-registration boundary)"},
                      signature="harness-nursery-boundary", failing_input=False)
