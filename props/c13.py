"""C13 — contract resolution survives restarts: same outcome, nothing skipped
or repeated."""
import os

from lib.verif import *
from props import c13_nursery

THEOREMS = [
    "C13_resolved_only_when_done",
    "C13_outputs_sound",
    "C13_no_contradiction",
    "C13_same_outcome",
    "C13_same_outcome_as_uninterrupted",
    "C13_progress",
    "C13_resolved_contract_recovered",
    "C13_dust_failback_lost_refuted",
    "C13_no_lost_progress_refuted",
    "C13_incoming_no_contradiction",
    "C13_incoming_outcome_caused",
    "C13_incoming_refines_script",
    "C13_incoming_progress",
    "C13_incoming_preimage_wins",
    "C13_incoming_same_outcome",
]
MODULE = "LV.Arb.RestartProps"
TARGETS = ["theories/Arb/RestartProps.vo", "theories/Arb/RestartExec.vo",
           "theories/Arb/RestartExamples.vo"]
WARM = [{"pkg": "contractcourt", "files": ["contractcourt/verif_restart_test.go"]}] + c13_nursery.WARM
IMPORTS = ("From Coq Require Import List NArith Bool.\nImport ListNotations.\n"
           "From LV Require Import Arb.RestartModel Arb.RestartIncModel Arb.RestartExec.\n")

KINDS = {"coop": "KCoop", "local": "KLocal", "remote": "KRemote", "pending": "KRemote",
         "breach": "KBreach"}


def out_term(o):
    k = o[0]
    if k == 1:
        return "OFail %s" % cN(o[1])
    if k == 2:
        return "OSettle %s" % cN(o[1])
    if k == 3:
        return "OFinal %s %s" % (cN(o[1]), cbool(o[2]))
    if k == 4:
        return "OForceClose"
    if k == 5:
        return "OPublish"
    if k == 6:
        return "ONotify"
    raise ValueError("unknown output %r" % (o,))


def rep_term(r):
    return "(%s, %s)" % (cN(r[0]), cN(r[1]))


def scen_term(sp):
    res = []
    for r in sp["resolvers"]:
        stages = ["mkStage %s %s %s" % (clist([out_term(o) for o in s["outs"]]),
                                        clist([rep_term(x) for x in s["rep"]]), cN(wl))
                  for s, wl in zip(r["stages"], r["watch"])]
        res.append("mkSpec %s %s" % (cN(r["key"]), clist(stages)))
    return "(mkScen %s %s %s %s %s %s %s %s %s)" % (
        KINDS[sp["kind"]], cbool(sp["userfc"]), cbool(sp["empty"]), cbool(sp["anchor"]),
        cbool(sp["csacts"]),
        clist([cN(i) for i in sp["fails_default"]]), clist([cN(i) for i in sp["fails_closed"]]),
        clist([cN(i) for i in sp["finals_closed"]]), clist(res))


def con_key(typ, inc, res, pre):
    """persisted resolver -> key of the scenario's stage table; for the
    received-htlc resolvers (success 1, incoming contest 3) the key also says
    whether the preimage is persisted inside the resolver."""
    if typ in (1, 3):
        return "%d,%d,%d,%d" % (typ, inc, res, pre)
    return "%d,%d,%d" % (typ, inc, res)


class Unmapped(Exception):
    pass


def snap_term(sp, d):
    ptabs = {r["key"]: r["ptab"] for r in sp["resolvers"]}
    con = []
    for key, typ, inc, res, pre in d["con"]:
        tab = ptabs.get(key)
        k = con_key(typ, inc, res, pre)
        if tab is None or k not in tab:
            raise Unmapped("persisted resolver key=%s (type,incubating,resolved)=%s is not a "
                           "stage of the scenario's resolver script" % (key, k))
        con.append("(%s, %s)" % (cN(key), cnat(tab[k])))
    return "(mkSnap %s %s %s %s %s %s %s %s)" % (
        cN(d["st"]), cbool(d["res"]), cbool(d["cs"]), cbool(d["bc"]), cbool(d["cl"]),
        cbool(d["full"]), clist(con), clist([rep_term(r) for r in d["rep"]]))


def case_term(c):
    sp = c["spec"]
    items = []
    for it in c["trace"]:
        if it["t"] == "crash":
            items.append("ICrash")
        else:
            items.append("ISnap " + snap_term(sp, it["d"]))
    return "(mkCase %s %s %s %s %s %s)" % (scen_term(sp), clist(items), snap_term(sp, c["end"]),
                                           clist([out_term(o) for o in c["outs"] if o[0] != 8]),
                                           clist(inc_terms(sp)), clist(watch_terms(c)))


def watch_terms(c):
    """real waits of the implementation: (key, persisted progress, level)."""
    ptabs = {r["key"]: r["ptab"] for r in c["spec"]["resolvers"]}
    res = set()
    for key, typ, inc, rs, pre, level in c.get("watch", []):
        tab = ptabs.get(key)
        k = con_key(typ, inc, rs, pre)
        if tab is None or k not in tab:
            raise Unmapped("a resolver goroutine waits on an outpoint (level %s) that belongs to "
                           "no persisted contract of the scenario (key=%s, contract=%s)"
                           % (level, key, k))
        res.add("(%s, %s, %s)" % (cN(key), cnat(tab[k]), cN(level)))
    return sorted(res)


# received-htlc resolver kinds -> (two-stage, claim branch, output index of ClaimOutpoint)
INC_KINDS = {"in_claim_remote": (False, True, None), "in_expire_remote": (False, False, None),
             "in_claim_local2": (True, True, "pos"), "in_expire_local2": (True, False, 77)}


def inc_terms(sp):
    """(iparams, branch) of every received-htlc resolver of the scenario: the
    model checks that the scenario's script IS RestartIncModel.inc_script."""
    res = []
    for r in sp["resolvers"]:
        if r["kind"] in INC_KINDS:
            two, claim, cidx = INC_KINDS[r["kind"]]
            res.append("(mkIP %s %s %s %s, %s)" % (cbool(two), cN(r["key"]), cN(r["idx"]),
                                                   cN(r["key"] if cidx is None else
                                                      r["pos"] if cidx == "pos" else cidx),
                                                   cbool(claim)))
    return res


# ---------------------------------------------------------------------------
# property predicate on the implementation's own traces (no model involved)


def progress_of(sp, d):
    """key -> (stages completed) using the scenario tables; None if unknown."""
    ptabs = {r["key"]: r["ptab"] for r in sp["resolvers"]}
    res = {}
    for key, typ, inc, rs, pre in d["con"]:
        res[key] = ptabs.get(key, {}).get(con_key(typ, inc, rs, pre))
    return res


def f3_window(c):
    """Regression for the repaired finding C13-F3 (commit 276b5b1): the run has a
    stop while the arbitrator log says StateContractClosed in a scenario with NO
    htlc within the broadcast delta at the closing height (before the fix the
    restarted node re-ran the state with chainTrigger, for which
    checkCommitChainActions yields no actions: no htlc resolver, no dust
    fail-back)."""
    if not c["spec"].get("farexp"):
        return False
    prev = None
    for it in c["trace"]:
        if it["t"] == "snap":
            prev = it["d"]
        elif prev is not None and prev["st"] == 3:
            return True
    return False


def predicate(c, base):
    """c: a run with stops; base: the uninterrupted run of the same scenario.
    Returns list of (theorem, signature, message)."""
    fails = []
    sp = c["spec"]
    name = sp["name"]
    # resolved only when done: in every database content the channel is
    # marked fully closed only with no contract left, and it is marked while
    # the log says FullyResolved.
    prev = None
    for it in c["trace"]:
        if it["t"] != "snap":
            continue
        d = it["d"]
        if d["full"] and d["con"]:
            fails.append(("C13_resolved_only_when_done", "C13 resolved-with-contracts " + name,
                          "channel marked fully closed with contracts %s" % d["con"]))
        if d["full"] and (prev is None or not prev["full"]) and d["st"] != 5:
            fails.append(("C13_resolved_only_when_done", "C13 resolved-before-state " + name,
                          "channel marked fully closed in arbitrator state %d" % d["st"]))
        if d["st"] == 5 and d["con"]:
            fails.append(("C13_resolved_only_when_done", "C13 fullyresolved-with-contracts " + name,
                          "StateFullyResolved committed with contracts %s" % d["con"]))
        prev = d
    # no contradictory upstream resolutions
    fl = {o[1] for o in c["outs"] if o[0] == 1}
    st = {o[1] for o in c["outs"] if o[0] == 2}
    if fl & st:
        fails.append(("C13_no_contradiction", "C13 contradiction " + name,
                      "htlc(s) %s both failed and settled upstream" % sorted(fl & st)))
    # no received htlc is both finally settled (claimed with the preimage) and
    # finally failed (abandoned / timed out); no resolver reports both
    fs = {o[1] for o in c["outs"] if o[0] == 3 and o[2] == 1}
    ff = {o[1] for o in c["outs"] if o[0] == 3 and o[2] == 0}
    if fs & ff:
        fails.append(("C13_incoming_no_contradiction", "C13 contradiction-final " + name,
                      "htlc(s) %s have both a settled and a failed final outcome" % sorted(fs & ff)))
    for r in sp["resolvers"]:
        if not r["kind"].startswith("in_"):
            continue
        mine = {tuple(x) for st in r["stages"] for x in st["rep"]} | {(r["key"], 0), (r["key"], 3)}
        got = {tuple(x) for x in c["end"]["rep"]} & mine
        if any(x[1] == 0 for x in got) and any(x[1] == 3 for x in got):
            fails.append(("C13_incoming_no_contradiction", "C13 contradiction-report " + name,
                          "received htlc %s reported both claimed and timed out: %s"
                          % (r["idx"], sorted(got))))
    # every outpoint a resolver is parked on at quiescence exists on chain
    # with the script it was registered with (kind 8: reported by the chain)
    for o in c["outs"]:
        if o[0] == 8:
            what = {1: "waits on nonexistent outpoint", 2: "waits on an outpoint with another pkScript"}
            fails.append(("C13_progress", "C13 waits-on-nonexistent-outpoint " + name,
                          "resolver %s %s (the spend notification can never fire)"
                          % (o[2], what.get(o[1], o[1]))))
    # nothing the uninterrupted run does not do
    # (ForceCloseChan / PublishTx calls, kinds 4 and 5, are compared with the
    # model only: a restart may legitimately re-publish)
    bo = {tuple(o) for o in base["outs"] if o[0] not in (4, 5, 8)}
    co = {tuple(o) for o in c["outs"] if o[0] not in (4, 5, 8)}
    if co - bo:
        fails.append(("C13_outputs_sound", "C13 extra-output " + name,
                      "outputs %s never happen in the uninterrupted run" % sorted(co - bo)))
    # same terminal outcome
    if not c["end"]["full"]:
        sig = "C13 stuck:other %s" % name
        msg = "never marked fully resolved; final database %s" % c["end"]
        fails.append(("C13_progress", sig, msg))
    else:
        if co != bo:
            missing = bo - co
            spurious = (not sp["userfc"]) and any(o[0] == 4 for o in c["outs"])
            if missing and spurious and all(o[0] == 1 and o[1] in sp["fails_default"]
                                            for o in missing):
                sig = "C13 lost:dust-failback-after-spurious-broadcast " + name
            else:
                sig = "C13 outcome-differs " + name
            fails.append(("C13_same_outcome", sig,
                          "outputs missing w.r.t. uninterrupted run: %s; outputs the uninterrupted "
                          "run never produces: %s" % (sorted(missing), sorted(co - bo))))
        br = {tuple(r) for r in base["end"]["rep"]}
        cr = {tuple(r) for r in c["end"]["rep"]}
        if br != cr:
            fails.append(("C13_same_outcome", "C13 reports-differ " + name,
                          "reports %s vs uninterrupted %s" % (sorted(cr), sorted(br))))
    return fails


def lost_progress(c):
    """Informational: a persisted resolver whose recorded progress went
    backwards (checkpoint overwritten / resolved contract resurrected)."""
    n = 0
    sp = c["spec"]
    prev = None
    for it in c["trace"]:
        if it["t"] != "snap":
            continue
        cur = progress_of(sp, it["d"])
        if prev is not None:
            for k, p in cur.items():
                q = prev.get(k)
                if p is not None and q is not None and p < q:
                    n += 1
        prev = cur
    return n


def f1_window(c):
    """Regression for the repaired finding C13-F1: number of stops of this run
    that hit the window "contract persisted with resolved=true, not yet
    deleted by log.ResolveContract" (the last database content before the
    stop contains such a contract)."""
    n = 0
    prev = None
    for it in c["trace"]:
        if it["t"] == "snap":
            prev = it["d"]
        elif prev is not None and any(x[3] == 1 for x in prev["con"]):
            n += 1
    return n


def run(ctx):
    # second stage: the utxo nursery as a restartable component (props/c13_nursery.py)
    if ctx.replay and c13_nursery.is_nursery_replay(ctx.replay):
        c13_nursery.run_stage(ctx)
        return
    run_restart(ctx)
    if not ctx.replay:
        c13_nursery.run_stage(ctx)


def run_restart(ctx):
    pr = ctx.proof_stage(MODULE, THEOREMS, TARGETS, extra_trusted=[
        "which chain actions / resolvers a close produces is an input of the model "
        "(classification is property C12); resolvers are staged scripts given per scenario",
        "one kvdb transaction = one atomic step (bbolt atomicity assumed)"])
    env = {}
    if ctx.replay:
        env["VERIF_REPLAY"] = os.path.abspath(ctx.replay)
    rc, trace, out = run_harness(ctx.uid(), "contractcourt",
                                 ["contractcourt/verif_restart_test.go"],
                                 "^TestVerifRestart$", env=env, timeout=2400,
                                 race=ctx.thorough)
    rows = read_jsonl(trace)
    if rc != 0 or not rows:
        ctx.violation("harness_failed", "TestVerifRestart", {"log": out[-4000:]},
                      signature="harness", failing_input=False)
        return
    base = {}
    for c in rows:
        if not c["crashes"] and not c.get("envcrash") and c["spec"]["name"] not in base:
            base[c["spec"]["name"]] = c
    sigs = {}
    reported = set()
    lost = 0
    f1_runs = f1_term = 0
    for c in rows:
        if not c.get("err") and f1_window(c):
            f1_runs += 1
            f1_term += 1 if c["end"]["full"] else 0
    if not ctx.replay and not f1_runs:
        ctx.violation("harness_failed", "TestVerifRestart",
                      {"why": "no run stopped between a final Checkpoint(resolved) and "
                              "log.ResolveContract: the C13-F1 regression case was not exercised"},
                      signature="harness-f1-window", failing_input=False)
    if not ctx.replay and not any(f3_window(c) for c in rows):
        ctx.violation("harness_failed", "TestVerifRestart",
                      {"why": "no run stopped in StateContractClosed in a scenario without an htlc "
                              "near its expiry: the C13-F3 regression case was not exercised"},
                      signature="harness-f3-window", failing_input=False)
    for c in rows:
        if c.get("err"):
            ctx.violation("harness_failed", "TestVerifRestart", {"case": c}, signature="harness-case",
                          failing_input=False)
            continue
        b = base[c["spec"]["name"]]
        if not c["crashes"] and not c.get("envcrash") and not c["end"]["full"]:
            ctx.violation("impl_violates_predicate", "C13_same_outcome",
                          {"case": c, "fails": ["uninterrupted run does not terminate"]},
                          signature="C13 base-not-terminal " + c["spec"]["name"])
            continue
        lost += lost_progress(c)
        for thm, sig, msg in predicate(c, b):
            cls = sig.split(" ")[1]
            sigs[cls] = sigs.get(cls, 0) + 1
            key = (thm, sig)
            if key in reported or sum(1 for k in reported if k[1].split(" ")[1] == cls) >= 2:
                continue
            reported.add(key)
            ctx.violation("impl_violates_predicate", thm,
                          {"case": {"spec": c["spec"], "crashes": c["crashes"], "id": c["id"],
                                    "envcrash": c.get("envcrash", False)},
                           "end": c["end"], "outs": c["outs"], "uninterrupted_outs": b["outs"],
                           "fails": [msg]}, signature=sig)
    # correspondence with the model
    terms, idx = [], []
    unmapped = 0
    for i, c in enumerate(rows):
        try:
            terms.append(case_term(c))
            idx.append(i)
        except Unmapped as e:
            unmapped += 1
            if unmapped > 3:
                continue
            ctx.violation("correspondence_mismatch", "Arb.RestartExec (resolver script)",
                          {"case": {"spec": c["spec"], "crashes": c["crashes"],
                                    "envcrash": c.get("envcrash", False)}, "why": str(e)},
                          signature="C13 unmapped " + c["spec"]["name"],
                          failing_input=bool(predicate(c, base[c["spec"]["name"]])))
    ok, bad, logs = coq_mismatches(ctx.uid(), IMPORTS, terms, shard=max(4, len(terms) // NCPU + 1))
    if not ok:
        ctx.violation("correspondence_mismatch", "Arb.RestartExec (model evaluation failed)",
                      {"logs": logs}, signature="model-eval", failing_input=False)
    nb = 0
    for ci, items in bad:
        c = rows[idx[ci]]
        nb += 1
        if nb > 3:
            break
        ctx.violation("correspondence_mismatch", "Arb.RestartExec.check_case",
                      {"case": {"spec": c["spec"], "crashes": c["crashes"], "id": c["id"],
                                    "envcrash": c.get("envcrash", False)},
                       "disagreeing_items": items,
                       "legend": "index of the first database snapshot that is not a model step; "
                                 "9000 final database, 9001 output set, 9002 scenario ill-formed, "
                                 "9003 received-htlc script differs from RestartIncModel.inc_script, "
                                 "9004 a resolver waited on another outpoint than the model's stage says "
                                 "(case.watch: key, contract, level 0 commitment output / 1 its "
                                 "second-level output / 8 wrong script / 9 not on chain)",
                       "trace": c["trace"], "outs": c["outs"]},
                      signature="C13 restart mismatch " + c["spec"]["name"],
                      failing_input=bool(predicate(c, base[c["spec"]["name"]])))
    if not pr["ok"] and not ctx.violations:
        ctx.violation("proof_broken", ", ".join(pr["broken"]) or "Arb/Restart build",
                      {"log": pr["log"][-4000:]}, signature="proof", failing_input=False)
    scn, ncr, pos = {}, {}, {}
    for c in rows:
        scn[c["spec"]["name"]] = scn.get(c["spec"]["name"], 0) + 1
        ncr[len(c["crashes"])] = ncr.get(len(c["crashes"]), 0) + 1
        for n in c["crashes"][:1]:
            pos[n] = pos.get(n, 0) + 1
    ctx.cov.update({
        "evaluations": len(rows),
        "distinct_nontrivial": distinct_count([c for c in rows if c["crashes"] or c.get("envcrash")],
                                              lambda c: (c["spec"]["name"], c["crashes"],
                                                         c.get("envcrash", False))),
        "rule": "per close scenario: the uninterrupted run, a stop after EVERY committed kvdb "
                "transaction (n = 0..N-1), seeded repeated stops (all pairs + random triples.. in "
                "thorough); non-trivial = at least one stop; distinct by (scenario, stop schedule)",
        "traces_validated_against_impl": len(rows),
        "transactions_total": sum(c["ntx"] for c in rows),
        "incarnations_total": sum(c["incs"] for c in rows),
        "scenarios": scn, "stops_per_case": ncr, "first_stop_position": pos,
        "spurious_own_force_close_runs": sum(
            1 for c in rows if not c["spec"]["userfc"] and any(o[0] == 4 for o in c["outs"])),
        "runs_not_terminal": sum(1 for c in rows if not c["end"]["full"]),
        "f1_window_runs": f1_runs, "f1_window_runs_terminal": f1_term,
        "f3_window_runs": sum(1 for c in rows if f3_window(c)),
        "env_crash_runs": sum(1 for c in rows if c.get("envcrash")),
        "received_htlc_final_outcomes": {
            "settled": sum(1 for c in rows for o in c["outs"] if o[0] == 3 and o[2] == 1),
            "failed": sum(1 for c in rows for o in c["outs"] if o[0] == 3 and o[2] == 0)},
        "progress_regressions_observed": lost,
        "predicate_failures_by_class": sigs,
        "samples": [{"scenario": rows[0]["spec"]["name"], "crashes": rows[0]["crashes"]}],
        "correspondence_mismatches": len(bad) + unmapped,
    })
    ctx.assumptions += [
        "chain, sweeper, switch and breach arbitrator are deterministic mocks that re-deliver "
        "what the real subsystems would (confirmed spends persist across restarts)",
        "goroutine scheduling of the real run is observed (snapshot order), not enumerated",
    ]
    if ctx.thorough:
        ctx.coqchk(["LV.Arb.RestartProps", "LV.Arb.NurseryProps"])
