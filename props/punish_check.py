"""Common driver of C04 / C05 (channel-history side): proof stage for Channel/Props_C04.v or
Props_C05.v, the script stage of props/c0405_script.py (if present) in parallel with the Go
harness, implementation-side predicates, correspondence (Channel/PunishExec.v by vm_compute),
coverage."""
import os
import threading
import time

from lib.verif import *
from props import punish_common as pc
from props import hint_sort as hs
from props import brarflow as bf

WARM = pc.WARM

SPEC = {
    "C04": {
        "module": "LV.Channel.Props_C04",
        "targets": ["theories/Channel/Props_C04.vo"] + pc.TARGETS_COMMON + hs.TARGETS + bf.TARGETS,
        "theorems": ["C04_wrapper_is_conservative", "C04_wrapper_covers_every_state",
                     "C04_log_matches_revoked_descriptor", "C04_every_output_claimed",
                     "C04_every_revoked_state_punishable",
                     "C04_hint_roundtrip", "C04_hint_fields", "C04_hint_rejects_large",
                     "C04_hint_injective"] + bf.THEOREMS,
        "mism": "mismatches04",
    },
    "C05": {
        "module": "LV.Channel.Props_C05",
        "targets": ["theories/Channel/Props_C05.vo"] + pc.TARGETS_COMMON + hs.TARGETS,
        "theorems": ["C05_claimable_value", "C05_claimable_value_reachable",
                     "C05_claimable_value_after_resync", "C05_own_outputs_not_dust",
                     "C05_commit_sort_canonical", "C05_htlc_sig_index"],
        "mism": "mismatches05",
    },
}

TRUSTED = [
    "channel modelled at cut level (Channel/Model.v): a commitment DESCRIPTOR (balances, fee, HTLC list "
    "with on-transaction flags, output sum and count) stands for the transaction; transactions, "
    "scripts, key derivation, sighashes and signatures are decided by the REAL code and the REAL btcd "
    "script engine in the harness (every justice / sweep / second-level input is executed), and by "
    "the Script/ layer for the modelled opcode subset",
    "revocation log and local-tail history are ghost lists of the wrapper machine (Punish.wsys); their "
    "tie to channeldb's revocation log is the correspondence run (entry h vs the transaction the "
    "cheater held at height h) and the RevocationLog-vs-transaction predicate",
    "the justice transaction is assembled by the harness with a COPY of contractcourt."
    "newRetributionInfo's witness-type table and breachedOutput.BlocksToMaturity (contractcourt cannot "
    "be imported into an lnwallet in-package test); the witness generators, sign descriptors and "
    "scripts are the real ones",
    "height-0 commitments are the test fixture's (dummy signature, fee not deducted in the "
    "transaction): amounts of height 0 are not compared",
    "state hint (Channel/StateHint.v): the obfuscator is a 48-bit value (6 bytes read big-endian); its "
    "derivation from the payment base points (DeriveStateHintObfuscator, sha256) is not modelled - the "
    "harness feeds the real obfuscator of every channel into the model",
    "commitment sort / HTLC signature index (Channel/CommitSort.v): outputs are (satoshi value, pkScript "
    "BYTES, cltv) compared exactly as sortableCommitOutputSlice.Less; how an HTLC's pkScript is derived "
    "from (hash, expiry, direction, keys) is an INPUT of the model. C05_htlc_sig_index assumes "
    "(CommitSort.pk_facts): equal HTLC pkScripts imply equal payment hashes, an offered-HTLC script "
    "never equals a received-HTLC script (collision resistance of the script hash / BOLT-3 templates: "
    "Script/ layer), and that both parties hold the same two per-direction HTLC lists in the same order "
    "(update-log order; C01 cut-level agreement; measured per run: per_direction_order_differs = 0); "
    "sort.Sort / slices.SortFunc (unstable) are modelled by insertion sorts - justified by "
    "C05_commit_sort_canonical (the order is total on outputs) and by the injectivity clause of "
    "C05_htlc_sig_index (output indexes of jobs are pairwise distinct); signature validity itself is "
    "decided by the real code (ReceiveNewCommitment) and by the btcd engine on every second-level tx",
    "breach-arbiter flow (Channel/BrarFlow.v, C04 only): a breached output is (commitment output index, kind, "
    "amount), the chain is a ghost status per output (unspent / advanced to the second level (amount) / spent at "
    "the first level / second level spent); outpoints, scripts, tap tweaks, signatures, input.IsHtlcSpendRevoke, "
    "the RetributionStore encoding, fee estimation and the goroutine plumbing of waitForSpendEvent are decided by "
    "the REAL code in harness/contractcourt/verif_justiceflow_test.go and judged by the btcd engine against the "
    "outputs of the simulated chain; witness layouts are compared as SHAPES (stack-element lengths) of the real "
    "signed transactions; the C04_rebuild_* theorems assume batches with distinct slice indexes (one goroutine per "
    "index in waitForSpendEvent) that report only spends which are on chain; the simulated chain of the harness "
    "(confirmation = a map from outpoints to outputs / spenders, lntest/mock.SpendNotifier in the live driver) "
    "stands for the chain notifier",
]


def run_prop(ctx, pid):
    sp = SPEC[pid]
    t0 = time.time()
    pr = ctx.proof_stage(sp["module"], sp["theorems"], sp["targets"], extra_trusted=TRUSTED)
    t_proof = time.time() - t0
    # everything below collects into `cov` and is merged into ctx.cov at the end: the script
    # stage (other thread) saves / restores ctx.cov around its own proof stage
    cov = {}
    script = {"res": None, "err": None, "s": 0.0}

    def script_stage():
        t = time.time()
        try:
            from props import c0405_script
        except ImportError:
            script["err"] = "script stage unavailable"
            return
        try:
            script["res"] = c0405_script.run_script_stage(ctx)
        except Exception:
            import traceback
            script["err"] = traceback.format_exc()
        script["s"] = round(time.time() - t, 1)

    # C04 only: the chain watcher (its own OpenChannel snapshot) must recognise every revoked
    # commitment as a breach (props/breachwatch.py, harness/contractcourt)
    bw = {"res": None, "err": None}

    def breachwatch_stage():
        try:
            from props import breachwatch
            bw["res"] = breachwatch.run_stage(ctx)
        except Exception:
            import traceback
            bw["err"] = traceback.format_exc()

    th = None
    if not os.environ.get("VERIF_PUNISH_NO_SCRIPT"):
        th = threading.Thread(target=script_stage)
        th.start()
    th2 = None
    if pid == "C04" and not os.environ.get("VERIF_PUNISH_NO_BREACHWATCH"):
        th2 = threading.Thread(target=breachwatch_stage)
        th2.start()
    try:
        _history_stage(ctx, pid, sp, pr, cov)
    finally:
        if th is not None:
            th.join()
        if th2 is not None:
            th2.join()
    if bw["err"]:
        ctx.violation("harness_failed", "breachwatch stage crashed", {"traceback": bw["err"]},
                      signature="breachwatch-stage-crashed", failing_input=False)
    elif bw["res"] is not None:
        # the breach arbiter's multi-step retribution flow (props/brarflow.py) runs inside the
        # breachwatch stage's `go test` invocation; it gets its own coverage entry
        bfc = bw["res"].pop("brarflow", None)
        if bfc is not None:
            cov["brarflow_stage"] = bfc
        cov["breachwatch_stage"] = bw["res"]
        import glob as _glob
        for f in _glob.glob(os.path.join(BUILD, "coq_eval", "cases_%s_*.v" % ctx.uid("p%d" % os.getpid()))) + \
                _glob.glob(os.path.join(BUILD, "punish_replay_%s_p%d.json" % (pid, os.getpid()))):
            try:
                os.remove(f)
            except OSError:
                pass
    if script["err"]:
        if script["err"] == "script stage unavailable":
            cov["script_stage"] = "script stage unavailable"
        else:
            ctx.violation("harness_failed", "script stage crashed", {"traceback": script["err"]},
                          signature="script-stage-crashed", failing_input=False)
    elif script["res"] is not None:
        r = script["res"]
        cov["script_stage"] = {"ok": r.get("ok"), "violations": r.get("violations"),
                               "wall_s": script["s"], "cov": r.get("cov")}
        # the script layer's theorems and trusted base belong to the evidence of this property
        pcov = (r.get("cov") or {}).get("proof") or {}
        if pcov.get("theorems"):
            mine = {t: a for t, a in pcov["theorems"].items() if t.startswith(pid) or t.startswith("C0405")}
            cov["script_theorems"] = mine
        if pcov.get("trusted_base"):
            cov["script_trusted_base"] = [t for t in pcov["trusted_base"] if t.startswith("script layer")]
    elif th is None:
        cov["script_stage"] = "skipped (VERIF_PUNISH_NO_SCRIPT)"
    cov["timing_s"] = dict(cov.get("timing_s", {}), proof=round(t_proof, 1), script=script["s"])
    if isinstance(cov.get("script_stage"), dict) and cov.get("script_theorems"):
        ctx.cov["obligations"] = ctx.cov.get("obligations", 0) + len(cov["script_theorems"])
        ctx.cov["discharged"] = ctx.cov.get("discharged", 0) + sum(
            1 for a in cov["script_theorems"].values() if a and a != "MISSING/BROKEN")
    ctx.cov.update(cov)
    ctx.assumptions += [
        "settle/fail are issued only for HTLCs locked in on both sides; a revoke_and_ack is processed "
        "only when no received commitment awaits revocation (lnd link discipline) - generator only: "
        "the C04 history theorems hold for EVERY schedule, C05_claimable_value_after_resync assumes "
        "the discipline",
        "the victim knows the preimage of every HTLC it received (the harness supplies it) and the "
        "chain has passed the expiry of every HTLC it offered: resolutions exist for both kinds "
        "unconditionally (extractHtlcResolutions), which of them is USABLE is the resolvers' business "
        "(C12 / C13)",
        "one kvdb transaction = one atomic step; revocation-log reads go through the real channeldb "
        "(live object and a second object restored from the same database)"]


def _extra_stage(ctx, pid, rows, info, cov):
    """C04: state hint; C05: commitment sort and HTLC signature index.  Implementation-side
    predicates, then correspondence with Channel/StateHint.v / Channel/CommitSort.v."""
    uid = ctx.uid("x%d" % os.getpid())
    if pid == "C04":
        probe = info.get("hint_probe")
        nbad = 0
        pf = hs.pred_hint_probe(probe)
        if probe is None:
            pf = ["the harness emitted no state-hint probe row"]
        if pf:
            nbad += 1
            ctx.violation("impl_violates_predicate", "C04_hint_roundtrip/C04_hint_fields/C04_hint_rejects_large",
                          {"fails": pf[:8], "n_fails": len(pf)}, signature="c04 hint probe " + pf[0][:120])
        for row in rows:
            fails = hs.pred_hint_row(row)
            if fails:
                nbad += 1
                if nbad <= 3:
                    ctx.violation("impl_violates_predicate", "C04_hint_roundtrip/C04_hint_fields",
                                  {"case": row.get("case"), "chan_type": row.get("chan_type"),
                                   "fails": fails[:8], "script": pc.script_of(row)},
                                  signature="c04 hint " + fails[0][:120])
        terms, metas = hs.hint_terms(rows, probe)
        ok, bad, logs = coq_mismatches(uid, hs.IMPORTS, terms, mism="mismatches_hint",
                                       shard=max(1, (len(terms) + 3) // 4), timeout=1200)
        if not ok:
            ctx.violation("correspondence_mismatch", "Channel.HintSortExec (model evaluation failed)",
                          {"logs": [l[-2500:] for l in logs[:3]]}, signature="hint-model-eval",
                          failing_input=False)
        for ci, idxs in bad[:3]:
            ctx.violation("correspondence_mismatch", "Channel.HintSortExec.mismatches_hint",
                          {"entries": [metas[ci][i] for i in idxs[:6] if i < len(metas[ci])],
                           "format": "(obfuscator, height, #inputs, code, sequence, locktime, GetStateNumHint)",
                           "meaning": "SetStateNumHint / GetStateNumHint of the real code differ from "
                                      "StateHint.set_hint_tx / get_hint"},
                          signature="c04 hint mismatch")
        n_ent = sum(len(m) for m in metas)
        cov["state_hint"] = {"commitments": n_ent - len(metas[-1]), "probes": len(metas[-1]),
                             "probe_outcomes": _count(p[3] for p in (probe or [])),
                             "predicate_failing": nbad, "correspondence_mismatches": len(bad),
                             "max_height": max([h for r in rows for (_, h, *_x) in hs.hint_entries(r)] or [0])}
    else:
        nbad = 0
        for row in rows:
            fails = hs.pred_sort_row(row)
            if fails:
                nbad += 1
                if nbad <= 3:
                    ctx.violation("impl_violates_predicate", "C05_htlc_sig_index",
                                  {"case": row.get("case"), "seed": row.get("seed"),
                                   "chan_type": row.get("chan_type"), "fails": fails[:8],
                                   "n_fails": len(fails), "script": pc.script_of(row)},
                                  signature="c05 sigindex " + fails[0][:120])
        terms, metas = hs.sort_terms(rows)
        ok, bad, logs = coq_mismatches(uid, hs.IMPORTS, terms, mism="mismatches_sort",
                                       shard=max(1, (len(terms) + NCPU - 1) // NCPU), timeout=2400)
        if not ok:
            ctx.violation("correspondence_mismatch", "Channel.HintSortExec (model evaluation failed)",
                          {"logs": [l[-2500:] for l in logs[:3]]}, signature="sort-model-eval",
                          failing_input=False)
        for ci, codes in bad[:3]:
            row = rows[ci]
            what = []
            for cde in codes[:6]:
                base, i = (cde // 200) * 200, cde % 200
                m = metas[ci][i] if i < len(metas[ci]) else None
                what.append("%s @ %s" % (hs.SORT_CODES.get(base, "code %d" % cde), m))
            ctx.violation("correspondence_mismatch", "Channel.HintSortExec.mismatches_sort",
                          {"case": row.get("case"), "chan_type": row.get("chan_type"), "codes": codes,
                           "meaning": what, "script": pc.script_of(row)},
                          signature="c05 sigindex mismatch codes=%s" % sorted({c // 200 * 200 for c in codes[:6]}))
        h = hs.sort_histograms(rows)
        h.update({"predicate_failing_cases": nbad, "correspondence_mismatches": len(bad)})
        cov["htlc_sig_index"] = h
    for f in __import__("glob").glob(os.path.join(BUILD, "coq_eval", "cases_%s_*.v" % uid)):
        try:
            os.remove(f)
        except OSError:
            pass


def _count(it):
    d = {}
    for x in it:
        d[str(x)] = d.get(str(x), 0) + 1
    return d


def _history_stage(ctx, pid, sp, pr, cov):
    t1 = time.time()
    henv = {}
    if ctx.replay:
        # re-run exactly the recorded schedule on the current tree
        import json as _json
        rep = _json.load(open(ctx.replay))
        sc = (rep.get("detail") or {}).get("script")
        if isinstance(sc, dict) and sc.get("ops"):
            path = os.path.join(BUILD, "punish_replay_%s_p%d.json" % (pid, os.getpid()))
            with open(path, "w") as f:
                _json.dump({"chan_type": sc["chan_type"], "ops": sc["ops"]}, f)
            henv["VERIF_CHAN_SCRIPT"] = path
            henv["VERIF_PUNISH_NOAMT"] = "1" if sc.get("no_amt_data") else "0"
            if rep.get("seed") is not None:
                henv["VERIF_SEED"] = str(rep["seed"])
        else:
            ctx.note("replay file has no recorded schedule (kind=%s): running the normal check"
                     % rep.get("kind"))
    rows, info = pc.run_punish_harness(ctx, env=henv, use_cache=not henv)
    cov["harness"] = info
    if rows is None:
        return
    t2 = time.time()
    pred = pc.pred_c04 if pid == "C04" else pc.pred_c05
    theorem = ("C04_every_revoked_state_punishable/C04_log_matches_revoked_descriptor" if pid == "C04"
               else "C05_claimable_value/C05_own_outputs_not_dust")
    nviol, nbad, evals = 0, 0, 0
    kinds = {}
    for row in rows:
        fails = pred(row)
        evals += (sum(1 for e in row.get("revoked", []) if e.get("acked")) if pid == "C04"
                  else len(pc.c05_reports(row)))
        if not fails:
            continue
        nbad += 1
        key = fails[0].split(":", 1)[-1].strip()[:60]
        kinds[key] = kinds.get(key, 0) + 1
        if nviol < 3:
            nviol += 1
            ctx.violation("impl_violates_predicate", theorem,
                          {"case": row.get("case"), "seed": row.get("seed"), "chan_type": row.get("chan_type"),
                           "no_amt_data": row["cfg"].get("no_amt_data"),
                           "fails": fails[:8], "n_fails": len(fails),
                           "replay": "VERIF_CHAN_SCRIPT=<file with this script> ./check %s" % pid,
                           "script": pc.script_of(row)},
                          signature="%s %s" % (pid.lower(), fails[0][:140]))
    # ---- follow-up layers: state hint (C04) / commit sort + HTLC signature index (C05) ----
    _extra_stage(ctx, pid, rows, info, cov)
    t3 = time.time()
    # ---- correspondence ---------------------------------------------------
    terms, metas, reasons = [], [], {}
    for row in rows:
        if pid == "C04":
            t, meta, why = pc.case04_term(row)
            if why:
                reasons[why] = reasons.get(why, 0) + 1
        else:
            t, meta = pc.case05_term(row)
        terms.append(t)
        metas.append(meta)
    ok, bad, logs = coq_mismatches(ctx.uid("p%d" % os.getpid()), pc.IMPORTS, terms, mism=sp["mism"],
                                   shard=max(1, len(terms) // NCPU + (1 if len(terms) % NCPU else 0)),
                                   timeout=2400)
    if not ok:
        ctx.violation("correspondence_mismatch", "Channel.PunishExec (model evaluation failed)",
                      {"logs": [l[-2500:] for l in logs[:3]]}, signature="model-eval", failing_input=False)
    for ci, codes in bad[:3]:
        row = rows[ci]
        what = []
        for cde in codes[:6]:
            base, i = (cde // 500) * 500, cde % 500
            m = metas[ci][i] if i < len(metas[ci]) else None
            what.append({2000: "revocation-log entry of the model differs from the descriptor the cheater held",
                         2500: "model has no revocation-log entry for a height the implementation punished",
                         3000: "Punish.retribution differs from the breached outputs of NewBreachRetribution",
                         4000: "Punish.resolutions differs from the resolutions of the close summary",
                         5000: "Punish.claimable differs from the value the resolutions cover",
                         0: "model could not be initialised"}.get(base, "code %d" % cde) + " @ %s" % (m,))
        ctx.violation("correspondence_mismatch", "Channel.PunishExec.%s" % sp["mism"],
                      {"case": row.get("case"), "chan_type": row.get("chan_type"), "codes": codes,
                       "meaning": what, "script": pc.script_of(row)},
                      signature="%s mismatch codes=%s" % (pid.lower(), [c // 500 * 500 for c in codes[:4]]),
                      failing_input=False)
    t4 = time.time()
    if not pr["ok"] and not ctx.violations:
        # directed search for a concrete failing input before reporting the broken proof:
        # more schedules from a different seed, every schedule punished / sampled as usual
        found = 0
        rows2, info2 = pc.run_punish_harness(
            ctx, env={"VERIF_SEED": str(ctx.seed + 1000), "VERIF_CASES": "140"}, suffix="_search",
            use_cache=False)
        for row in rows2 or []:
            fails = pred(row) + (hs.pred_hint_row(row) if pid == "C04" else hs.pred_sort_row(row))
            if fails and found < 2:
                found += 1
                ctx.violation("impl_violates_predicate", theorem,
                              {"case": row.get("case"), "seed": row.get("seed"),
                               "chan_type": row.get("chan_type"), "fails": fails[:8],
                               "script": pc.script_of(row)},
                              signature="%s %s" % (pid.lower(), fails[0][:140]))
        cov["directed_search_cases"] = len(rows2 or [])
        if not found:
            ctx.violation("proof_broken", ", ".join(map(str, pr["broken"])) or "Channel/Punish build",
                          {"log": pr["log"][-4000:], "searched_cases": len(rows) + len(rows2 or [])},
                          signature="proof", failing_input=False)
    if ctx.thorough and pr["ok"]:
        okc, outc = ctx.coqchk([sp["module"]])
        cov["coqchk"] = ctx.cov.get("coqchk")
        if not okc:
            ctx.violation("proof_broken", "coqchk " + sp["module"], {"log": outc[-3000:]},
                          signature="coqchk", failing_input=False)
    h = pc.histograms(rows)
    if pid == "C04":
        nontrivial = [r for r in rows if sum(1 for e in r.get("revoked", []) if e.get("acked")) >= 3]
        rule = ("schedules of the channel generator on two real LightningChannels; non-trivial = at least 3 "
                "revoked-and-acked heights punished; distinct by op list")
    else:
        nontrivial = [r for r in rows if len(pc.c05_reports(r)) >= 6]
        rule = ("schedules of the channel generator on two real LightningChannels; non-trivial = at least 6 "
                "close reports (own / counterparty-current / counterparty-pending commitment); distinct by op list")
    cov.update({
        "evaluations": len(rows),
        "distinct_nontrivial": distinct_count(nontrivial, lambda r: [s["op"] for s in r["steps"]]),
        "rule": rule,
        "traces_validated_against_impl": len(rows),
        "predicate_evaluations": evals,
        "predicate_failing_cases": nbad, "predicate_failure_kinds": kinds,
        "correspondence_mismatches": len(bad),
        "model_replay_stopped_early": reasons,
        "capture_gaps": h["gaps"],
        "histograms": h,
        "samples": [[s["op"] for s in rows[0]["steps"][:12]]] if rows else [],
    })
    cov["timing_s"] = {"harness": round(t2 - t1, 1), "predicates": round(t3 - t2, 1),
                       "correspondence": round(t4 - t3, 1)}
