"""Common driver of the channel state-machine checks C01 / C02 / C03:
proof stage (Channel/*.v), real-code schedules (harness/lnwallet/verif_chan_test.go),
implementation-side predicates (props/chan_common.py), model correspondence
(Channel/Exec.v evaluated by vm_compute)."""
import json
import os

from lib.verif import *
from props import chan_common as cc
from props import chan_model as cm

WARM = cc.WARM

SPEC = {
    "C01": {
        "module": "LV.Channel.Props_C01",
        "targets": ["theories/Channel/Props_C01.vo", "theories/Channel/Exec.vo",
                    "theories/Channel/Examples.vo", "theories/Channel/GenBridge.vo"],
        "view_stage": True,
        "theorems": ["C01_conservation", "C01_conservation_inflight", "C01_conservation_cut",
                     "C01_balance_formula", "C01_agreement", "C01_mirror_at_quiescence",
                     "C01_window", "C01_wf_reachable", "C01_wf_only_money",
                     "C01_sign_refusal_is_money"],
        "env": {"VERIF_CRASH": "0", "VERIF_CUT": "0"},
        "predicates": ["conservation", "mirror", "agreement",
                       "balance_moves_only_by_htlc", "window", "no_errors",
                       "rejected_no_change", "logs_ordered", "drained", "heights_sane"],
        "with_reload": False, "with_cut": False,
    },
    "C02": {
        "module": "LV.Channel.Props_C02",
        "targets": ["theories/Channel/Props_C02.vo", "theories/Channel/Exec.vo",
                    "theories/Channel/GenBridge.vo"],
        "theorems": ["C02_restore_idempotent", "C02_restore_keeps_signed",
                     "C02_revoke_advances_tail", "C02_tail_height_monotone",
                     "C02_restore_keeps_tail"],
        "env": {"VERIF_CRASH": "1", "VERIF_CUT": "1"},
        "predicates": ["reload_consistent", "params_survive_reload", "call_atomicity", "disk_tables", "crashin_atomic", "release_rule", "live_release_rule",
                       "side_harmless", "no_errors", "conservation", "agreement", "heights_sane"],
        "view_stage": True,
        "with_reload": True, "with_cut": True,
    },
    # release-rule half of C06, decided on real channels (called from props/c06.py)
    "C06": {
        "module": "LV.Channel.Props_C02",
        "targets": ["theories/Channel/Props_C02.vo", "theories/Channel/Exec.vo",
                    "theories/Channel/GenBridge.vo"],
        "theorems": ["C02_revoke_advances_tail", "C02_tail_height_monotone",
                     "C02_restore_keeps_tail", "C02_restore_keeps_signed"],
        "env": {"VERIF_CRASH": "1", "VERIF_CUT": "1"},
        "predicates": ["release_rule", "live_release_rule", "reload_consistent", "params_survive_reload", "crashin_atomic", "side_harmless",
                       "no_errors"],
        "with_reload": True, "with_cut": True,
    },
    "C03": {
        "module": "LV.Channel.Props_C03",
        "targets": ["theories/Channel/Props_C03.vo", "theories/Channel/Exec.vo",
                    "theories/Channel/ResyncExamples.vo", "theories/Channel/GenBridge.vo"],
        "theorems": ["C03_no_sync_error", "C03_no_sync_error_free", "C03_xinv_reachable",
                     "C03_resync_xinv", "C03_resync_inv", "C03_agreement_after_resync",
                     "C03_cut_refusal_is_money", "C03_free_rev_refuted"],
        "env": {"VERIF_CRASH": "0", "VERIF_CUT": "1"},
        "predicates": ["no_errors", "params_survive_reload", "agreement", "mirror", "conservation",
                       "release_rule", "live_release_rule", "crashin_atomic", "drained", "logs_ordered"],
        "with_reload": False, "with_cut": True,
    },
}


VIEW_MODULE = "LV.Channel.Props_C01view"
VIEW_TARGETS = ["theories/Channel/Props_C01view.vo", "theories/Channel/ViewExec.vo",
                "theories/Channel/ViewExamples.vo"]
VIEW_THEOREMS = None      # filled from Props_C01view.v (every "Theorem C01view_..." of the file)


def _view_theorems():
    import re
    path = os.path.join(os.path.dirname(os.path.dirname(os.path.abspath(__file__))),
                        "coq", "theories", "Channel", "Props_C01view.v")
    try:
        return re.findall(r"^Theorem\s+(C01view_\w+)", open(path).read(), re.M)
    except OSError:
        return []


def run_view_stage(ctx, pid, sp, rows):
    """C01view: the INCREMENTAL bookkeeping of lnwallet (add/remove commit heights per log
    entry, evaluateHTLCView, compactLogs, restoreStateLogs) replayed through Channel/View.v
    and compared per step with the real logs (Channel/ViewExec.v).  Returns a cov dict."""
    if not os.path.exists(os.path.join(os.path.dirname(os.path.dirname(os.path.abspath(__file__))),
                                       "coq", "theories", "Channel", "ViewExec.v")):
        return {}
    terms, idx, used, reasons = [], [], 0, {}
    for ri, row in enumerate(rows):
        is_corpus = bool(row.get("script"))
        t, n, why = cm.view_case_term(row, with_reload=sp["with_reload"] or is_corpus,
                                      with_cut=sp["with_cut"] or is_corpus,
                                      expect_fail=cc.expected_failure(row))
        if why:
            reasons[why] = reasons.get(why, 0) + 1
        if t is None:
            continue
        terms.append(t)
        idx.append(ri)
        used += n
    if not terms:
        ctx.violation("harness_failed", "TestVerifChan emitted no height-log dumps (key \"hl\")",
                      {"rows": len(rows)}, signature="view-no-hl", failing_input=False)
        return {}
    ok, bad, logs = coq_mismatches(ctx.uid("view"), cm.VIEW_IMPORTS, terms, mism="vmismatches",
                                   shard=max(2, len(terms) // NCPU + 1), timeout=2400)
    if not ok:
        ctx.violation("correspondence_mismatch", "Channel.ViewExec (model evaluation failed)",
                      {"logs": logs[:3]}, signature="view-eval", failing_input=False)
    for ci, codes in bad[:3]:
        row = rows[idx[ci]]
        loc = cm.view_locate(row, codes)
        stepi = loc["step_index"]
        loc.update({"case": row.get("case"), "chan_type": row.get("chan_type"),
                    "code_meaning": cm.VIEW_CODES,
                    "script": {"chan_type": row.get("chan_type"),
                               "ops": [s["op"] for s in row["steps"][:stepi + 1]]}})
        ctx.violation("correspondence_mismatch", "Channel.ViewExec.check_case (incremental height bookkeeping)",
                      loc, signature="chan view mismatch code=%s" % (codes[1:2] if len(codes) > 1 else "?"),
                      failing_input=False)
    nent = 0
    for row in rows:
        for st in row["steps"]:
            hl = st.get("hl") or {}
            for p in ("a", "b"):
                if isinstance(hl.get(p), dict):
                    nent += len(hl[p]["own"]) + len(hl[p]["peer"])
    return {"view_stage": {"cases": len(terms), "steps_checked_against_incremental_model": used,
                           "log_entries_compared(4 heights each)": nent,
                           "truncation_reasons": reasons, "mismatches": len(bad)}}


def run_prop(ctx, pid, nested=False):
    """nested=True: run as an additional stage of another property's check (C06's
    release rule): coverage goes under ctx.cov["channel_stage"], the proof-stage
    numbers of the caller are added to, not replaced."""
    sp = SPEC[pid]
    saved = dict(ctx.cov) if nested else None
    view_on = bool(sp.get("view_stage")) and not nested and bool(_view_theorems())
    pr = ctx.proof_stage(sp["module"], sp["theorems"],
                         sp["targets"] + (VIEW_TARGETS if view_on else []), extra_trusted=[
        "channel modelled at cut level (two append-only update logs + declarative commit_of); the "
        "incremental add/remove-height bookkeeping of lnwallet is " +
        ("modelled by Channel/View.v (hand translation of evaluateHTLCView / computeView / compactLogs / "
         "restoreStateLogs), tied to the real code per step and per log entry by Channel/ViewExec.v; the "
         "refinement View -> cut model is proved only in part (notes/C01view.md)" if view_on
         else "tied by correspondence only"),
        "transactions, scripts, sighashes and signatures are not modelled: the real code signs and "
        "verifies every commitment and HTLC signature in the harness (sig_invalid = failure)"])
    if view_on:
        # the theorems of the incremental layer live in their own module
        vthms = _view_theorems()
        vasm = print_assumptions(ctx.uid("viewpa"), VIEW_MODULE, vthms)
        ctx.cov["obligations"] = (ctx.cov.get("obligations") or 0) + len(vthms)
        ctx.cov["discharged"] = (ctx.cov.get("discharged") or 0) + \
            sum(1 for a in vasm.values() if a is not None)
        ctx.cov.setdefault("theorems", {}).update(
            {t: (a if a is not None else "MISSING/BROKEN") for t, a in vasm.items()})
        for t, a in vasm.items():
            if a is None:
                pr["ok"] = False
                pr["broken"].append(t)
    env = dict(sp["env"])
    if ctx.thorough:
        env["VERIF_MAXSTEPS"] = "120"
    rows = cc.run_chan_harness(ctx, env=env, suffix="")
    if rows is None:
        return
    # ---- implementation-side predicates --------------------------------
    # (corpus scripts run first; an expected-failure witness is judged only by
    # corpus_expect: the real code must still fail exactly as recorded)
    nviol = 0
    pred_evals = 0
    only = set(sp["predicates"]) | {"corpus_expect"}
    for row in rows:
        pred_evals += len(only)
        failed = cc.all_predicates(row, only=only)
        for name, fails in failed.items():
            if nviol >= 3:
                break
            nviol += 1
            ctx.violation("impl_violates_predicate", "%s/%s" % (pid, name),
                          {"case": row.get("case"), "chan_type": row.get("chan_type"),
                           "corpus": row.get("corpus"), "fails": fails[:5],
                           "script": {"chan_type": row.get("chan_type"),
                                      "ops": [s["op"] for s in row["steps"]]}},
                          signature="chan %s %s" % (name, fails[0][:120]))
    # ---- correspondence ---------------------------------------------------
    terms, used, reasons = [], 0, {}
    for row in rows:
        is_corpus = bool(row.get("script"))
        t, n, why = cm.case_term(row, with_reload=sp["with_reload"] or is_corpus,
                                 with_cut=sp["with_cut"] or is_corpus,
                                 expect_fail=cc.expected_failure(row))
        terms.append(t)
        used += n
        if why:
            reasons[why] = reasons.get(why, 0) + 1
    ok, bad, logs = coq_mismatches(ctx.uid(), cm.IMPORTS, terms,
                                   shard=max(2, len(terms) // NCPU + 1), timeout=2400)
    if not ok:
        ctx.violation("correspondence_mismatch", "Channel.Exec (model evaluation failed)",
                      {"logs": logs[:3]}, signature="model-eval", failing_input=False)
    for ci, codes in bad[:3]:
        row = rows[ci]
        stepi = codes[0] if codes else -1
        st = row["steps"][stepi] if 0 <= stepi < len(row["steps"]) else None
        ctx.violation("correspondence_mismatch", "Channel.Exec.check_case",
                      {"case": row.get("case"), "chan_type": row.get("chan_type"),
                       "step_index": stepi, "code": codes[1:] if len(codes) > 1 else None,
                       "code_meaning": "1 result; 2-7 A.ltail/ltip/rtail/rtip/own/peer; 12-17 same for B; "
                                       "20+ init; 30+ reload projection; 40/41 retransmission kinds; "
                                       "50 write-level crash: [50, code if the call completed, code if it "
                                       "did not happen]",
                       "step": st and {"op": st["op"], "res": st["res"], "extra": st.get("extra")},
                       "script": {"chan_type": row.get("chan_type"),
                                  "ops": [s["op"] for s in row["steps"][:stepi + 1]]}},
                      signature="chan mismatch code=%s" % (codes[1:] if len(codes) > 1 else "?"),
                      failing_input=False)
    view_cov = {}
    if view_on:
        view_cov = run_view_stage(ctx, pid, sp, rows)
    if ctx.thorough and pr["ok"] and not nested:
        okc, outc = ctx.coqchk([sp["module"]])
        if not okc:
            ctx.violation("proof_broken", "coqchk " + sp["module"], {"log": outc[-3000:]},
                          signature="coqchk", failing_input=False)
    if not pr["ok"] and not ctx.violations:
        ctx.violation("proof_broken", ", ".join(map(str, pr["broken"])) or "Channel build",
                      {"log": pr["log"][-4000:]}, signature="proof", failing_input=False)
    h = cc.histograms(rows)
    nsteps = sum(len(r["steps"]) for r in rows)
    if nested:
        stage = {k: ctx.cov.get(k) for k in ("obligations", "discharged", "theorems", "audit")}
        ctx.cov.clear()
        ctx.cov.update(saved)
        ctx.cov["obligations"] = saved.get("obligations", 0) + (stage["obligations"] or 0)
        ctx.cov["discharged"] = saved.get("discharged", 0) + (stage["discharged"] or 0)
        ctx.cov.setdefault("theorems", {}).update(stage["theorems"] or {})
        target = ctx.cov.setdefault("channel_stage", {})
    else:
        target = ctx.cov
    target.update({
        "evaluations": len(rows),
        "distinct_nontrivial": distinct_count([r for r in rows if len(r["steps"]) >= 8],
                                              lambda r: [s["op"] for s in r["steps"]]),
        "rule": "seeded asynchronous schedules on two real LightningChannels (harness-owned FIFOs); "
                "non-trivial = at least 8 steps; distinct by op list",
        "traces_validated_against_impl": len(rows),
        "steps_total": nsteps, "steps_checked_against_model": used,
        "model_truncation_reasons": reasons,
        "predicate_evaluations": pred_evals,
        "histograms": h,
        "samples": [[s["op"] for s in rows[0]["steps"][:12]]] if rows else [],
        "correspondence_mismatches": len(bad),
    })
    target.update(view_cov)
    ctx.assumptions += [
        "settle/fail are issued only for HTLCs locked in on both sides (BOLT-2 / lnd link discipline)",
        "a revoke_and_ack is processed only when no received commitment is awaiting revocation "
        "(lnd link discipline; the free variant is refuted: C03_free_rev_refuted)",
        "add/fee accept-or-reject decisions of validateCommitmentSanity are taken from the "
        "implementation (constraint outcomes, not part of the property)"]
    if sp["with_cut"]:
        ctx.assumptions += [
            "a node crash is taken at kvdb read-write-transaction granularity: a transaction of the "
            "channel DB either commits completely or leaves no trace (atomicity of bbolt / sqlite-kvdb "
            "is trusted; the rollback path of both backends is exercised by the harness); crash points "
            "= before/inside and after every transaction of SignNextCommitment, RevokeCurrentCommitment, "
            "ReceiveRevocation and ProcessChanSyncMsg, plus every op boundary",
            "kvdb backends exercised: bbolt and lnd's sqlite-backed kvdb (kvdb/sqlite); postgres and "
            "etcd are not available offline"]
