"""Conversion of channel-harness traces (notes/chan_trace_format.md) into Coq
terms for Channel/Exec.v, shared by C01/C02/C03."""
from lib.verif import cZ, cnat, cbool, clist, copt, cN

IMPORTS = ("From Coq Require Import List ZArith NArith Bool.\nImport ListNotations.\n"
           "From LV Require Import Channel.Model Channel.Resync Channel.Exec.\n")

KIND = {"add": 1, "settle": 2, "fail": 3, "malformed": 3, "fee": 4, "sig": 5, "rev": 6}


def pb(p):
    return "true" if p == "a" else "false"


def commit_term(k, owner, viewer):
    va = viewer == "a"
    nA, nB = (k["ours"], k["theirs"]) if va else (k["theirs"], k["ours"])
    bA, bB = (k["our_bal"], k["their_bal"]) if va else (k["their_bal"], k["our_bal"])
    hs = []
    for h in k["htlcs"]:
        incoming, amt, idx, exp, hid, ontx = h[:6]
        frm = viewer if not incoming else ("b" if va else "a")
        hs.append((frm, amt, idx, exp, hid, ontx))
    hs.sort(key=lambda h: (0 if h[0] == "a" else 1, h[2]))
    ht = clist(["mkHtlc %s %s %s %s %s %s" % (pb(h[0]), cZ(h[1]), cnat(h[2]), cZ(h[3]), cZ(h[4]),
                                                cbool(h[5])) for h in hs])
    return "(mkCommit %s %s %s %s %s %s %s %s %s %s %s)" % (
        pb(owner), cZ(k["h"]), cnat(nA), cnat(nB), cZ(bA), cZ(bB), cZ(k["fee"]),
        cZ(k["fee_per_kw"]), ht, cZ(k["outs"]), cZ(k["n_out"]))


def obs_term(d, p):
    o = "b" if p == "a" else "a"
    return "(mkObs %s %s %s %s %s %s)" % (
        commit_term(d["ltail"], p, p),
        copt(d.get("ltip"), lambda k: commit_term(k, p, p)),
        commit_term(d["rtail"], o, p),
        copt(d.get("rtip"), lambda k: commit_term(k, o, p)),
        cnat(d["own_idx"]), cnat(d["peer_idx"]))


def cfg_term(case):
    c = case["cfg"]
    ia = case["init"]["a"]["ltail"]
    opener_a = c.get("opener", "a") == "a"
    g_a = ia["our_bal"] + (ia["fee"] * 1000 if opener_a else 0)
    g_b = ia["their_bal"] + (0 if opener_a else ia["fee"] * 1000)
    return "(mkCfg %s %s %s %s %s %s %s %s (mkSide %s %s) (mkSide %s %s) %s %s %s)" % (
        cZ(c["capacity_sat"]), cbool(c["anchors"]), cZ(c["commit_weight"]), cZ(c["htlc_weight"]),
        cZ(c["htlc_timeout_weight"]), cZ(c["htlc_success_weight"]), cZ(c["anchor_size"]),
        cbool(opener_a), cZ(c["a"]["dust"]), cZ(c["a"]["reserve"]), cZ(c["b"]["dust"]),
        cZ(c["b"]["reserve"]), cZ(g_a), cZ(g_b), cZ(ia["fee_per_kw"]))


def step_terms(case, with_reload=True, with_cut=True, expect_fail=False):
    """Returns (terms, n_used, truncated_reason).  The trace is cut short at the
    first step the model does not cover (protocol error on delivery etc.); what
    that means for the property is decided by the python predicates."""
    out = []
    reason = None
    for st in case["steps"]:
        op, res = st["op"], st["res"]
        k = op[0]
        if k == "liveprobe":
            # terminal LIVE-RESYNC PROBE (resync on the live objects, not a schedule of the
            # model): judged by the implementation-side live_release_rule only
            break
        t = None
        if k == "add":
            t = ("TOp (OSend %s (UAdd %s %s %s)) Ok" % (pb(op[1]), cZ(op[2]), cZ(op[3]), cZ(op[4]))
                 if res == "ok" else "TSkip")
        elif k in ("settle", "fail", "malformed"):
            u = "USettle" if k == "settle" else "UFail"
            if res == "ok":
                t = "TOp (OSend %s (%s %s)) Ok" % (pb(op[1]), u, cnat(op[2]))
            else:
                t = "TSkip"
        elif k == "fee":
            t = "TOp (OSend %s (UFee %s)) Ok" % (pb(op[1]), cZ(op[2])) if res == "ok" else "TSkip"
        elif k == "sign":
            if res == "ok":
                t = "TOp (OSign %s) Ok" % pb(op[1])
            elif res == "no_window":
                t = "TOp (OSign %s) ErrNoWindow" % pb(op[1])
            else:
                t = "TSkip"
        elif k == "revoke":
            if res == "ok":
                t = "TOp (ORevoke %s) Ok" % pb(op[1])
            elif res == "no_pending":
                t = "TOp (ORevoke %s) ErrNothing" % pb(op[1])
            else:
                reason = "revoke error %s" % res
                break
        elif k == "deliver":
            if res == "ok":
                t = "TOp (ODeliver %s) Ok" % pb(op[1])
            elif res == "no_pending":
                t = "TOp (ODeliver %s) ErrNothing" % pb(op[1])
            elif expect_fail and st is case["steps"][-1] and \
                    st.get("extra", {}).get("kind") == "sig":
                # documented API-hazard witness: the model must ALSO reject this
                # retransmitted signature (C03_free_rev_refuted)
                t = "TOp (ODeliver %s) ErrSigInvalid" % pb(op[1])
            else:
                reason = "deliver %s error %s" % (st.get("extra", {}).get("kind"), res)
                break
        elif k == "side":
            # a side writer of another subsystem on a stale OpenChannel instance: must be
            # invisible to the channel state machine (model state unchanged)
            t = "TSkip"
        elif k == "crash":
            ex = st.get("extra", {})
            if not with_reload or ex.get("err") or "reloaded" not in ex:
                if ex.get("err"):
                    reason = "reload error"
                    break
                t = "TSkip"
            else:
                t = "TReload %s %s" % (pb(op[1]), obs_term(ex["reloaded"], op[1]))
        elif k == "cut":
            ex = st.get("extra", {})
            if not with_cut:
                reason = "cut"
                break
            if ex.get("err_a") or ex.get("err_b") or any(d[2] != "ok" for d in ex.get("delivered", [])):
                reason = "cut error"
                break
            ka = sum(1 for d in ex.get("delivered", []) if d[0] == "a")
            kb = sum(1 for d in ex.get("delivered", []) if d[0] == "b")
            t = "TCut %s %s %s %s" % (
                cnat(ka), cnat(kb),
                clist([cN(KIND[x]) for x in ex.get("sync_a", [])]),
                clist([cN(KIND[x]) for x in ex.get("sync_b", [])]))
        elif k == "crashin":
            # write-level crash inside a state-machine call of op[1]: the model accepts the
            # reloaded dump + resync outcome iff they match "call did not happen" or "call
            # completed" (Exec.TCrashIn); a disabled call (script replay) is a no-op
            ex = st.get("extra", {})
            if res == "no_pending":
                t = "TSkip"
            else:
                if not with_cut:
                    reason = "crashin"
                    break
                rel = (ex.get("reloaded") or {}).get(op[1])
                if ex.get("err_a") or ex.get("err_b") or not rel or res != "ok":
                    reason = "crashin error"
                    break
                if op[2] == "sync":
                    call = "CCSync"
                else:
                    call = "(CCOp (%s %s))" % ({"sign": "OSign", "revoke": "ORevoke",
                                               "deliver": "ODeliver"}[op[2]], pb(op[1]))
                t = "TCrashIn %s %s %s %s %s" % (
                    call, pb(op[1]), obs_term(rel, op[1]),
                    clist([cN(KIND[x]) for x in ex.get("sync_a", [])]),
                    clist([cN(KIND[x]) for x in ex.get("sync_b", [])]))
        else:
            reason = "unknown op %s" % k
            break
        out.append("(%s, %s, %s)" % (t, obs_term(st["a"], "a"), obs_term(st["b"], "b")))
    return out, len(out), reason


def case_term(case, **kw):
    steps, n, reason = step_terms(case, **kw)
    ia = obs_term(case["init"]["a"], "a")
    ib = obs_term(case["init"]["b"], "b")
    return "(%s, (%s, %s), %s)" % (cfg_term(case), ia, ib, clist(steps)), n, reason


# ---------------------------------------------------------------------------
# C01view: terms for Channel/ViewExec.v (the incremental machine of Channel/View.v)

VIEW_IMPORTS = ("From Coq Require Import List ZArith NArith Bool.\nImport ListNotations.\n"
                "From LV Require Import Channel.Model Channel.Resync Channel.Exec Channel.View "
                "Channel.ViewExec.\n")

VIEW_CODES = ("1 result; 2-7 A.ltail/ltip/rtail/rtip/own_idx/peer_idx of the INCREMENTAL machine's "
              "evaluated views; 12-17 same for B; 20+ init; 30+ commitments of a reloaded party; 40/41 "
              "retransmission kinds; [61|62|63, pos, LogIndex] A's own log: presence|identity|heights of "
              "the entry at list position pos; [64|65|66,..] A's peer log; [71..76,..] B; [161../171..] "
              "the same on a party RESTORED from disk; [50, x, y] write-level crash")


def hl_term(h):
    def rows(l):
        return "[" + ";".join("[" + ";".join(str(int(x)) for x in e) + "]" for e in l) + "]%Z"
    return "(hl_of %s %s)" % (rows(h["own"]), rows(h["peer"]))


def view_step_terms(case, with_reload=True, with_cut=True, expect_fail=False):
    """Same schedule -> term mapping as step_terms (kept in step with it), for
    ViewExec.vtstep; every step additionally carries the height-log dumps."""
    out = []
    reason = None
    prev_dump = {"a": case["init"]["a"], "b": case["init"]["b"]}
    for st in case["steps"]:
        op, res = st["op"], st["res"]
        k = op[0]
        if k == "liveprobe":
            # terminal LIVE-RESYNC PROBE (resync on the live objects, not a schedule of the
            # model): judged by the implementation-side live_release_rule only
            break
        ex = st.get("extra") or {}
        hl = st.get("hl")
        if not isinstance(hl, dict) or not all(isinstance(hl.get(p), dict) for p in ("a", "b")):
            reason = "no height-log dump"
            break
        t = None
        if k == "add":
            t = ("VTOp (VOp (OSend %s (UAdd %s %s %s))) Ok" % (pb(op[1]), cZ(op[2]), cZ(op[3]), cZ(op[4]))
                 if res == "ok" else "VTSkip")
        elif k in ("settle", "fail"):
            u = "USettle" if k == "settle" else "UFail"
            t = "VTOp (VOp (OSend %s (%s %s))) Ok" % (pb(op[1]), u, cnat(op[2])) if res == "ok" else "VTSkip"
        elif k == "malformed":
            t = "VTOp (VMalformed %s %s) Ok" % (pb(op[1]), cnat(op[2])) if res == "ok" else "VTSkip"
        elif k == "fee":
            t = "VTOp (VOp (OSend %s (UFee %s))) Ok" % (pb(op[1]), cZ(op[2])) if res == "ok" else "VTSkip"
        elif k == "sign":
            if res == "ok":
                t = "VTOp (VOp (OSign %s)) Ok" % pb(op[1])
            elif res == "no_window":
                t = "VTOp (VOp (OSign %s)) ErrNoWindow" % pb(op[1])
            else:
                # a refused sign: fetchCommitmentView may have marked heights before failing
                reason = "sign error %s" % res
                break
        elif k == "revoke":
            if res == "ok":
                t = "VTOp (VOp (ORevoke %s)) Ok" % pb(op[1])
            elif res == "no_pending":
                t = "VTOp (VOp (ORevoke %s)) ErrNothing" % pb(op[1])
            else:
                reason = "revoke error %s" % res
                break
        elif k == "deliver":
            if res == "ok":
                t = "VTOp (VOp (ODeliver %s)) Ok" % pb(op[1])
            elif res == "no_pending":
                t = "VTOp (VOp (ODeliver %s)) ErrNothing" % pb(op[1])
            elif expect_fail and st is case["steps"][-1] and ex.get("kind") == "sig":
                t = "VTOp (VOp (ODeliver %s)) ErrSigInvalid" % pb(op[1])
            else:
                reason = "deliver %s error %s" % (ex.get("kind"), res)
                break
        elif k == "side":
            t = "VTSkip"
        elif k == "crash":
            if not with_reload or ex.get("err") or "reloaded" not in ex or not ex.get("hl_reloaded"):
                if ex.get("err"):
                    reason = "reload error"
                    break
                t = "VTSkip"
            else:
                t = "VTReload %s %s %s" % (pb(op[1]), obs_term(ex["reloaded"], op[1]),
                                          hl_term(ex["hl_reloaded"]))
        elif k == "cut":
            if not with_cut:
                reason = "cut"
                break
            if ex.get("err_a") or ex.get("err_b") or any(d[2] != "ok" for d in ex.get("delivered", [])):
                reason = "cut error"
                break
            ka = sum(1 for d in ex.get("delivered", []) if d[0] == "a")
            kb = sum(1 for d in ex.get("delivered", []) if d[0] == "b")
            rh = ex.get("hl_reloaded") or {}
            rel = "None"
            if rh.get("a") and rh.get("b"):
                rel = "(Some (%s, %s))" % (hl_term(rh["a"]), hl_term(rh["b"]))
            t = "VTCut %s %s %s %s %s" % (
                cnat(ka), cnat(kb),
                clist([cN(KIND[x]) for x in ex.get("sync_a", [])]),
                clist([cN(KIND[x]) for x in ex.get("sync_b", [])]), rel)
        elif k == "crashin":
            if res == "no_pending":
                t = "VTSkip"
            else:
                if not with_cut:
                    reason = "crashin"
                    break
                rel = (ex.get("reloaded") or {}).get(op[1])
                rh = (ex.get("hl_reloaded") or {}).get(op[1])
                if ex.get("err_a") or ex.get("err_b") or not rel or not rh or res != "ok":
                    reason = "crashin error"
                    break
                if op[2] == "sync":
                    call = "VCCSync"
                else:
                    call = "(VCCOp (VOp (%s %s)))" % ({"sign": "OSign", "revoke": "ORevoke",
                                                       "deliver": "ODeliver"}[op[2]], pb(op[1]))
                t = "VTCrashIn %s %s %s %s %s %s" % (
                    call, pb(op[1]), obs_term(rel, op[1]), hl_term(rh),
                    clist([cN(KIND[x]) for x in ex.get("sync_a", [])]),
                    clist([cN(KIND[x]) for x in ex.get("sync_b", [])]))
        else:
            reason = "unknown op %s" % k
            break
        same = st.get("hl_same") or {}
        ha = "None" if same.get("a") else "(Some %s)" % hl_term(hl["a"])
        hb = "None" if same.get("b") else "(Some %s)" % hl_term(hl["b"])
        # a party dump the trace wrote as "=" is the SAME object as in the previous step
        # (chan_common.expand_row shares it): emit None, ViewExec keeps the previous one
        oa = "None" if st["a"] is prev_dump["a"] else "(Some %s)" % obs_term(st["a"], "a")
        ob = "None" if st["b"] is prev_dump["b"] else "(Some %s)" % obs_term(st["b"], "b")
        prev_dump = {"a": st["a"], "b": st["b"]}
        out.append("(%s, %s, %s, %s, %s)" % (t, oa, ob, ha, hb))
    return out, len(out), reason


def view_case_term(case, **kw):
    """None when the trace carries no height logs (older harness / other test)."""
    ih = case.get("init_hl")
    if not ih or not ih.get("a") or not ih.get("b"):
        return None, 0, "no height-log dump"
    steps, n, reason = view_step_terms(case, **kw)
    ia = obs_term(case["init"]["a"], "a")
    ib = obs_term(case["init"]["b"], "b")
    return "(%s, (%s, %s), (%s, %s), %s)" % (cfg_term(case), ia, ib, hl_term(ih["a"]), hl_term(ih["b"]),
                                            clist(steps)), n, reason


def view_locate(row, codes):
    """Human-readable location of a ViewExec mismatch: (step index, description, entry)."""
    stepi = codes[0] if codes else -1
    code = codes[1] if len(codes) > 1 else None
    info = {"step_index": stepi, "code": codes[1:]}
    if code is None or not (0 <= stepi < len(row["steps"])):
        return info
    st = row["steps"][stepi]
    info["step"] = {"op": st["op"], "res": st["res"]}
    c = code % 100
    if 61 <= c <= 66 or 71 <= c <= 76:
        p = "a" if c < 70 else "b"
        kind = (c % 10 - 1) % 3
        lname = "own" if (c % 10) <= 3 else "peer"
        pos = codes[2] if len(codes) > 2 else None
        restored = code >= 100
        src = None
        if restored:
            rh = (st.get("extra") or {}).get("hl_reloaded") or {}
            src = rh if "own" in rh else rh.get(p)
        else:
            src = (st.get("hl") or {}).get(p)
        ent = None
        if isinstance(src, dict) and pos is not None and pos < len(src[lname]):
            ent = src[lname][pos]
        info.update({"party": p, "log": lname, "restored_object": restored,
                     "what": ("presence (compaction / restore)", "identity", "commit heights")[kind],
                     "list_position": pos, "log_index": codes[3] if len(codes) > 3 else None,
                     "impl_entry[type,LogIndex,HtlcIndex,ParentIndex,Amount,addL,addR,rmL,rmR]": ent})
    return info
