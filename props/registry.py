"""Per-property registration data used by tools/gen_manifest.py.
Only properties listed in CLAIMED appear under MANIFEST.checks; every other
property of properties.jsonl is listed under not_applicable with the reason
given in NOT_CLAIMED (default: not built yet)."""

CLAIMED = {
    "C06": {
        "design_ref": "DESIGN.md §4 C06",
        "text": "Coq theorems over an arbitrary hash function: every accepted secret sequence is "
                "reproduced exactly by lookup, inconsistent secrets are rejected leaving the store "
                "unchanged, at most 48 buckets, codec round-trip; producer sequence always accepted. "
                "Model tied to shachain/*.go by byte-exact differential runs (Gallina SHA-256) "
                "incl. far positions reached through the codec.",
        "note": "Trusted: Coq kernel, harness, python driver, Gallina SHA-256 (tested vs crypto/sha256 "
                "each run). Release-rule conjunct is decided on the channel model (C02 check).",
        "technique": "Coq proof (induction/invariant over insert sequences) + differential correspondence",
    },
}

CLAIMED["C16"] = {
    "design_ref": "DESIGN.md §4 C16, notes/C16.md",
    "text": "Coq theorems over every history of the nine payment-store operations on both backends: settled "
            "plus in-flight attempt amounts never exceed the payment amount (amounts < 2^63 msat); RegisterAttempt "
            "and InitPayment gates; reported status equals the documented table and every returned MPPayment is "
            "the stored state; Succeeded and Failed are stable; SQL's in-flight query equals KV's. KV and SQL "
            "refine one store on histories with fresh attempt ids and owner-addressed settle/fail; Coq witnesses "
            "show they differ otherwise (known findings C16-F1..F3). Model tied to the real KVStore (bbolt) and "
            "SQLStore (sqlite) by answer-by-answer differential runs of the same seeded histories, a "
            "model-independent predicate on each backend's trace and a direct KV-vs-SQL comparison.",
    "note": "Trusted: Coq kernel, harness, python driver, bbolt/sqlite transaction atomicity (one model step per "
            "API call). Refinement is partial (discipline hypothesis). Concurrent callers are covered through "
            "linearisation only (theorems quantify over all op orders); no concurrent harness. uint64 wrap excluded "
            "by a stated domain guard. Fees, sequence index, bulk DeletePayments not modelled.",
    "technique": "Coq proof (invariant by induction over op histories, two-backend refinement) + three-way "
                 "differential correspondence KV/SQL/model",
}

NOT_CLAIMED = {}
