"""Per-property registration data used by tools/gen_manifest.py.
Only properties listed in CLAIMED appear under MANIFEST.checks; every other
property of properties.jsonl is listed under not_applicable with the reason
given in NOT_CLAIMED (default: not built yet)."""

CLAIMED = {
    "C06": {
        "design_ref": "DESIGN.md §4 C06",
        "text": "Coq theorems over an arbitrary hash function: every accepted secret sequence is "
                "reproduced exactly by lookup, inconsistent secrets are rejected leaving the store "
                "unchanged, at most 48 buckets, codec round-trip; producer sequence always accepted. "
                "Model tied to shachain/*.go by byte-exact differential runs (Gallina SHA-256) "
                "incl. far positions reached through the codec.",
        "note": "Trusted: Coq kernel, harness, python driver, Gallina SHA-256 (tested vs crypto/sha256 "
                "each run). Release-rule conjunct is decided on the channel model (C02 check).",
        "technique": "Coq proof (induction/invariant over insert sequences) + differential correspondence",
    },
}

NOT_CLAIMED = {}
