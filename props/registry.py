"""Per-property registration data used by tools/gen_manifest.py.
Only properties listed in CLAIMED appear under MANIFEST.checks; every other
property of properties.jsonl is listed under not_applicable with the reason
given in NOT_CLAIMED (default: not built yet)."""

CLAIMED = {
    "C06": {
        "design_ref": "DESIGN.md §4 C06, notes/C06.md",
        "text": "Coq theorems for ANY hash function: every sequence of per-commitment secrets accepted by the revocation "
                "store (k <= 2^48-1, unbounded) is reproduced exactly by LookUp, also after further inserts and across "
                "Encode/Decode reloads; the producer's own sequence is always accepted and the store then answers like the "
                "producer; the (k+1)-th secret is rejected iff some lower bucket b < ctz(2^48-1-k) is not reproduced (a "
                "wrong secret at an index without trailing zeros is accepted: C06_leaf_unchecked — checked against the "
                "commitment point by ReceiveRevocation instead); at most 48 buckets / 9+40n bytes are ever held. Tied to "
                "shachain/*.go on every run by byte-exact differential execution with a Gallina SHA-256 (incl. far "
                "positions via the codec and a per-bucket tamper sweep) plus independent hashlib predicates on the "
                "implementation trace. The release-rule half (secrets released only when a newer commitment is durable, "
                "no gaps/repeats) is decided by a channel stage of this same check: seeded schedules with reloads, "
                "reconnects and stale-instance side writers on two real LightningChannels, judged by the release_rule / "
                "reload_consistent / side_harmless predicates and tied to C02_revoke_advances_tail / "
                "C02_tail_height_monotone / C02_restore_keeps_tail on the channel model.",
        "note": "Trusted: Coq kernel, harness, python driver, Gallina SHA-256 (tested vs crypto/sha256 each run). The "
                "2^48-th insert (Go array index 48) is outside the guard."
                "",
        "technique": "Coq proof (induction/invariant over insert sequences, arithmetic characterisation of derivability) "
                     "+ byte-exact differential correspondence + trace predicates",
    },
}

CLAIMED["C16"] = {
    "design_ref": "DESIGN.md §4 C16, notes/C16.md",
    "text": "Coq theorems over every history of the nine payment-store operations on both backends: settled "
            "plus in-flight attempt amounts never exceed the payment amount (amounts < 2^63 msat); RegisterAttempt "
            "and InitPayment gates; reported status equals the documented table and every returned MPPayment is "
            "the stored state; Succeeded and Failed are stable; SQL's in-flight query equals KV's. KV and SQL "
            "refine one store on histories with fresh attempt ids and owner-addressed settle/fail; Coq witnesses "
            "show they differ otherwise (known findings C16-F1..F3). Model tied to the real KVStore (bbolt) and "
            "SQLStore (sqlite) by answer-by-answer differential runs of the same seeded histories, a "
            "model-independent predicate on each backend's trace and a direct KV-vs-SQL comparison. Concurrency: "
            "seeded programs of 2-4 goroutines (barrier start, global atomic clock) run on both real stores; every "
            "recorded history must be linearisable to the Coq model (WGL search on the extracted step; each witness "
            "order re-validated by the Coq kernel; checker proved sound w.r.t. Herlihy-Wing linearisability), so the "
            "all-histories theorems apply to the concurrent runs; model-independent safety predicates (never overpay, "
            "single successful Init between Fail/Delete, Succeeded final, single resolution) on the concurrent traces.",
    "note": "Trusted: Coq kernel, harness, python driver; for a 'not linearisable' verdict also Coq extraction + "
            "ocaml/c16_lin.ml (positive verdicts are kernel-checked; extraction cross-checked against vm_compute on "
            "the sequential and on perturbed histories). Refinement is partial (discipline hypothesis). Concurrent "
            "schedules are those the Go scheduler / bbolt batcher / sqlite lock produce (sampled, not enumerated); "
            "linearisability is checked on disciplined programs, undisciplined ones only through the safety "
            "predicates; sqlite only (no postgres), no -race. A returned sqlite serialization/busy/retries-exceeded "
            "error counts as 'did not happen' (ExecTx rolls back; none observed). uint64 wrap excluded by a stated "
            "domain guard. Fees, sequence index, bulk DeletePayments not modelled.",
    "technique": "Coq proof (invariant by induction over op histories, two-backend refinement, soundness of the "
                 "linearisation-witness checker) + three-way differential correspondence KV/SQL/model + "
                 "linearisability checking of concurrent runs against the extracted Coq model",
}

_CHAN_NOTE = ("Trusted: Coq kernel, Go harness (harness-owned FIFOs over two real LightningChannels from "
              "CreateTestChannels, all 7 channel types), python driver. The channel is modelled at cut level (two "
              "update logs + declarative commit_of); lnwallet's incremental add/remove-height bookkeeping, log "
              "compaction, transaction/script/sighash construction and signatures are NOT modelled: they are tied by "
              "the per-step differential correspondence and by the real code signing and verifying every commitment "
              "and HTLC signature in the harness. Hypotheses stated in the theorems: removals only for locked-in "
              "HTLCs (BOLT-2), and for C03 the link discipline (no revoke_and_ack processed while a received "
              "commitment awaits revocation; refuted without it). Aux/custom channels outside the model.")

CLAIMED["C01"] = {
    "design_ref": "DESIGN.md §4 C01, notes/C01-proofs.md",
    "text": "Coq theorems over EVERY asynchronous schedule of sends, signs, revokes and in-order deliveries between "
            "two parties (two-party invariant Inv proved inductive, incl. lnd's in-place fee-update merging): every "
            "commitment held or in flight conserves value to the msat (balances + HTLCs + fee + anchors = capacity; "
            "outputs + fee <= capacity), balances move only by HTLC amounts (fee on the opener), every commitment "
            "signature in flight is accepted because the receiver derives the identical descriptor (agreement), "
            "mirror images at quiescence, at most one unacked commitment, cuts always well-formed (a sign can only be "
            "refused for balance/fee reasons). Model tied to lnwallet by replaying seeded schedules on two real "
            "channels and comparing all four commitments + log counters of both sides after every step, plus "
            "model-independent predicates (conservation, mirror, agreement, no sig_invalid) on the real dumps.",
    "note": _CHAN_NOTE,
    "technique": "Coq proof (two-party inductive invariant over all interleavings, cut algebra) + per-step "
                 "differential correspondence on real channels + implementation-side predicates",
}
CLAIMED["C02"] = {
    "design_ref": "DESIGN.md §4 C02, notes/C01-proofs.md",
    "text": "Coq theorems: restore (what NewLightningChannel rebuilds) is idempotent, keeps all signature-covered "
            "commitments with their cuts inside the kept logs and commit_of over the kept logs reproduces them exactly; "
            "the commitment a restarted node would broadcast (local tail) only ever advances, by exactly one per "
            "revocation, and restore never lowers it (never a revoked one); continuation after restart is C03. Tied "
            "to the real code by re-opening each side from its DB after every step (pure observation) and at every "
            "reconnect, comparing the reloaded projection with restore(model), plus predicates (reload consistent, "
            "release rule: every released secret's height < durable local height, no gaps/repeats). Two genuine "
            "defects found by this check were repaired in /repo (fixed: C02-F1, C02-F2).",
    "note": _CHAN_NOTE + " channeldb serialisation is exercised by the reloads, not modelled byte-for-byte. Crashes are "
            "taken at kvdb-transaction granularity (backend atomicity trusted; bbolt and lnd's sqlite-kvdb are run, "
            "postgres/etcd are not available offline); every writing call commits exactly one transaction today "
            "(measured every run); side tables (revocation log, forwarding packages, LastWasRevoke, unsigned-update "
            "lists) are checked exactly at every reload. The 'did not happen' state of a crashed resync is tied by "
            "correspondence only.",
    "technique": "Coq proof (restore refinement lemmas, monotone tail) + reload-at-every-step differential "
                 "correspondence + implementation-side predicates; every writing call (sign / revoke / "
                 "receive-revocation / resync-sign) is additionally crashed after each prefix of its kvdb transactions, "
                 "with refuse and real-backend rollback modes, on bbolt and sqlite-kvdb; Exec.TCrashIn accepts only "
                 "'did not happen' or 'completed'",
}
CLAIMED["C03"] = {
    "design_ref": "DESIGN.md §4 C03, notes/C01-proofs.md",
    "text": "Coq theorems over every disciplined schedule with any number of disconnects (any delivered prefix per "
            "direction, both sides restart, channel_reestablish ladders of ProcessChanSyncMsg incl. LastWasRevoke "
            "ordering and the re-sign-after-revocation edge): a reconnect never reports (false) data loss — proved "
            "even for free schedules —, after a successful reconnect the C01 invariant holds again so every "
            "retransmitted signature is accepted and conservation/mirror continue to hold, a refused reconnect is a "
            "pure balance/fee refusal; without the link discipline the property is refuted by a Coq witness that the "
            "real code reproduces (corpus/chan/free_rev_resync.json). Tied by seeded schedules with cuts on real "
            "channels (retransmitted message kinds and all commitments compared with the model after each reconnect).",
    "note": _CHAN_NOTE,
    "technique": "Coq proof (invariant XInv preserved by the reconnect step; refutation witness) + differential "
                 "correspondence with cuts on real channels",
}
CLAIMED["C09"] = {
    "design_ref": "DESIGN.md §4 C09, notes/C09.md",
    "text": "Coq theorems: on an explicit realistic domain D (amounts <= 2^42 msat, rates <= 100%, |inbound rate| <= "
            "100%, heights < 2^31) the link's fixed-width decision (uint64/int64/uint32 with wrap, truncating "
            "division, check order) equals the unbounded rule; accept <=> every clause (no loss, fee incl. signed "
            "inbound fee, min/max, expiry window, bandwidth, cltv delta <= max), every rejection names a violated rule "
            "and carries the right value; same for CheckHtlcTransit; the switch forwards only over an eligible link "
            "whose check returned nil. Witness theorems show the verdict flips outside D (uint32 height wrap; int64 "
            "overflow in CalcFee at |rate| = 10^7 and >= 9.2 BTC). Model tied to htlcswitch/link.go, "
            "graph/db/models/inbound_fee.go and switch.go by ~69k (quick) / ~430k (thorough) differential cases on "
            "real channelLinks incl. exhaustive small universes, boundary +-1 at every comparison and overflow "
            "neighbourhoods, plus a text-derived unbounded-integer predicate on every in-domain answer.",
    "note": "Trusted: Coq kernel (coqchk in thorough), extraction ExtrOcamlBasic (cross-checked vs vm_compute each "
            "run), Go harness, python predicate. Environment answers (bandwidth, traffic shaper, channel-update "
            "availability) are model inputs.",
    "technique": "Coq proof (machine arithmetic = unbounded spec on a stated domain; exhaustive case analysis) + "
                 "differential correspondence (extracted OCaml + kernel slice) + implementation-side predicate",
}
CLAIMED["C07"] = {
    "design_ref": "DESIGN.md §4 C07, notes/C07.md",
    "text": "Coq theorems over all interleavings of the memory/disk phases of concurrent circuit-map calls: an incoming "
            "HTLC is decided Add at most once between deletes and returned only after its durable write; at most one "
            "Close/Fail per circuit succeeds per run; a failed Commit/Open/Delete transaction leaves memory and disk "
            "unchanged (Delete under wf_out) and TrimOpenCircuits provably has no rollback; restart restores exactly the "
            "durable circuits (closed-channel purge rule), keeps open exactly the surviving keystones below "
            "NextLocalHtlcIndex, rolls the others back in memory and on disk, and never re-forwards a restored circuit "
            "(Drop/Fail) - under the link's contiguity discipline, which is proved necessary by a refuted witness "
            "replayed on the real code. A discipline theorem shows that sequential link/switch-disciplined histories "
            "keep the map coherent (wf_out). Tied to the real circuitMap over a real bbolt DB with a gated kvdb backend "
            "fixing commit/abort and the exact interleaving of 1-3 goroutines; return values and 24-key lookups compared "
            "after every step; every theorem hypothesis is evaluated on the implementation's state in every run.",
    "note": "Trusted: Coq kernel, harness (gated kvdb backend), python predicate, bbolt transaction atomicity. "
            "Hypotheses carried: contiguous_on_disk, single_keystone, wf_out, seq_disciplined (sequential histories); "
            "call-site argument in notes/C07.md. Five API-level hazards are modelled, witnessed in Coq and replayed on "
            "the real code; one (failed Trim transaction, link.go Start) is reachable only under a surviving kvdb write "
            "error, low impact (robustness note, not a C07 violation). Switch-level settle/fail plumbing is C08's.",
    "technique": "Coq proof (invariants over phase-interleaved runs, exact restart refinement, discipline invariant) + "
                 "deterministic-schedule differential correspondence + refuted-witness replay + switch stage (three-hop "
                 "fixture with directed disconnect-in-batch and bounce scenarios, random fault batches and closing "
                 "restarts; at-most-once hand-over / no forward after a response / one response per run evaluated on "
                 "the forwarder's trace; harness and predicate shared with C08)",
}
CLAIMED["C14"] = {
    "design_ref": "DESIGN.md §4 C14, notes/C14.md",
    "text": "Proved in Coq on an executable per-request model of TxNotifier (mirroring /repo incl. repair af6371e), for "
            "all call sequences, clients, confirmation depths and reorg shapes within the reorg safety limit: the "
            "confirm/spend height hint never exceeds the confirmation/spend height on the active chain; cached details are "
            "always the active chain's block/spender, with or without registered clients; for every registered client the "
            "dispatched flag equals 'last Confirmed/Spend not followed by NegativeConf/Reorg', its latest un-negated "
            "Confirmed / un-reorged Spend names the active chain's block/spender, it has been told whenever the tx has "
            ">= N confirmations (the outpoint is spent) on the active chain with the rescan finished and no NotifyHeight "
            "pending, every Confirmed is emitted only with >= N confirmations on the active chain, and no client ever gets "
            "two Confirmed/Spend without a NegativeConf/Reorg in between. The former C14-F1 history (rescan result "
            "arriving with zero clients, then reorg; found by this check, repaired in /repo) is proved to end clean. "
            "Refuted with a Coq witness replayed on the real code: '>= N confirmations' does not persist after a partial "
            "reorg (no NegativeConf; pinned by lnd's own TestTxNotifierReorgPartialConfirmation; documented, not a "
            "finding). Tied per run by differential correspondence against the real TxNotifier + bbolt HeightHintCache "
            "(0 mismatches; exhaustive depth-4 histories in thorough) and an independent predicate on the implementation trace. "
            "Outdated historical-rescan results arriving after the details were found at tip are inside the theorems' "
            "hypotheses and proved to be ignored; every run additionally replays a restart on the same hint cache "
            "(re-register with the cached hint, truthful rescan): a client must be notified iff the tx has >= N "
            "confirmations / the outpoint is spent on the final chain. 26 theorems.",
    "note": "Hypotheses of the theorems: client "
            "hints <= actual height, truthful rescan answers, ConnectTip/NotifyHeight pairing, single inclusion per chain, "
            "reorg depth < safety limit, unwatched inclusions at or above the cached hint; model-predicted Go panics "
            "excluded. Trusted: Coq kernel, harness, python predicate. No axioms.",
    "technique": "Coq invariants (state / event-log / confirm-height-queue layers) by induction over call sequences + "
                 "go test -overlay differential correspondence + implementation-trace predicate",
}

CLAIMED["C10"] = {
    "design_ref": "DESIGN.md §4 C10, notes/C10.md",
    "text": "Coq theorems: BigSize round-trip and accept-iff-minimal; tlv DecodeP2P accepts a byte string exactly when "
            "it is the canonical concatenation of strictly-increasing records (lengths <= 65535, known records valid) "
            "and then decode-encode is the identity (exact BigSize-length exception characterised); decoder total; "
            "generic layout laws (round-trip, canonical fixpoint, byte-exact losslessness for exact layouts, 65535-byte "
            "bound, framing) instantiated for the layouts GENERATED on every run from lnwire's Encode/Decode methods by "
            "the Go->Coq translator (37 of 42 message types, all 25 onion failure codes - plain, channel_update-embedding, "
            "EOF-tolerant; Encode-layout = Decode-layout asserted per message; C10_gen_coverage pins the fragment so a "
            "message dropping out of it breaks the build). Messages of the shape fixed fields ++ TLV extension (14 types incl. OpenChannel, "
            "AcceptChannel, Funding*, ChannelReady, Shutdown, ClosingSigned, UpdateAddHTLC, CommitSig, ChannelUpdate1 with "
            "its flag-conditional field): every complete valid value round-trips; whatever Decode accepts re-encodes to a "
            "canonical fixpoint after one re-encode; exactly the unknown records are lost and only by the messages whose "
            "Encode re-packs (finding C10-F1, modelled); onion failure packet framing round-trips to exactly 260 bytes. "
            "Tied per run by byte-exact differential runs of tlv.ReadVarInt/WriteVarInt/Stream.Decode/DecodeP2P/Encode "
            "and, for 40 of the 45 harness message types and all 25 failure codes, verdict, field values, ExtraData and re-encoded bytes of the "
            "real ReadMessage/WriteMessage/DecodeFailure/EncodeFailure vs the model incl. crafted TLV extensions; plus "
            "implementation-only predicates (independent BOLT-1 parser, fixpoint, size, no panic, bounded time) over all "
            "45 registered message types and 25 failure codes. Known findings C10-F1..F3 (Coq witnesses replayed on the code).",
    "note": "partial: 5 message types (AnnounceSignatures2, ChannelAnnouncement2, NodeAnnouncement2, ChannelUpdate2, "
            "ReplyChannelRange) have no full layout model: harness, sweeps and predicates only, but their default-elision "
            "side conditions are translated and tied (C10_gen_elisions_ok); zlib id encoding is harness-only; failure "
            "payloads have the value round trip, no bytes fixpoint; allocation/panic/time are exercised only. The "
            "'never grows' clause is refuted for always-produced records (OpenChannel/AcceptChannel gain 2 bytes) and for "
            "the empty plain scid list (C10_scids_empty_grows). A message leaving the translator's fragment breaks "
            "C10_gen_coverage and triggers a directed 5x search plus byte sweep of exactly that type, which reports "
            "concrete inputs when a codec asymmetry exists, otherwise proof_broken with no-failing-input-found. lnwire compiles against tlv v1.4.0 from the module cache (no replace), so tlv-tree changes "
            "are seen only by the tlv-module harness. Trusted: Coq kernel, translator codec tables, python secp256k1 "
            "oracle and BOLT-1 parser, harnesses.",
    "technique": "Coq proof (induction over streams/layouts, accept-iff-canonical equivalence) + T1 Go->Coq layout "
                 "translator with Encode/Decode symmetry check + differential correspondence + spec predicate on traces",
}

CLAIMED["C18"] = {
    "design_ref": "DESIGN.md §4 C18, notes/C18.md",
    "text": "Coq theorems over a Flocq binary64 model of sweep's LinearFeeFunction and sweep-tx arithmetic. For ANY "
            "non-negative starting rate, relay fee, estimator answers and conf targets, the offered fee rate never "
            "exceeds min(budget/size, MaxFeeRate) and never decreases over any Increment/IncreaseFeeRate sequence; it is "
            "on the ceiling at deadline-1 (also after skipped heights); it starts >= relay fee when floor <= ceiling, and "
            "a start above the ceiling is capped to it. Every tx passing createAndCheckTx has fee = in-out <= budget, "
            "spends exactly the requested inputs and has no change below dust. The published (rate, tx) sequence of the "
            "publisher model is within bounds for any estimator answers, mempool verdicts and heights. BudgetInputSet "
            "top-up covers the budget. IEEE rounding monotonicity is proved, not assumed. Model tied float-for-float to "
            "NewLinearFeeFunction/feeRateAtPosition/NewSatPerKWeight, createAndCheckTx, the real TxPublisher and "
            "BudgetInputSet. Finding C18-F1 (start above ceiling => published above MaxFeeRate, then decreasing) was "
            "found by this check and repaired in /repo (1567bc7).",
    "note": "Trusted: Coq kernel, Flocq (stdlib real-number axioms ClassicalDedekindReals.sig_not_dec/sig_forall_dec, "
            "Classical_Prop.classic, functional_extensionality_dep), harness and python driver; weight estimator and "
            "dust limit are model inputs; publisher goroutines, aux sweeper and locktimes are not modelled. Domain "
            "rates <= 2^30 sat/kw, widths < 2^32, budgets <= 2^62.",
    "technique": "Coq proof (invariant by induction over op/block/verdict sequences; Flocq round_le for float "
                 "monotonicity) + float-for-float differential correspondence (vm_compute) + predicate on implementation traces",
}
CLAIMED["C08"] = {
    "design_ref": "DESIGN.md §4 C08, notes/C08.md",
    "text": "partial by nature (goroutines): the forwarder's logic is an executable Coq state machine (per-circuit "
            "state: incoming HTLC, FwdFilter bit, circuit-map state, packet in flight, outgoing twin, mailbox response; "
            "per-channel ledger; events incl. the CommitCircuits Add/Drop/Fail table, pipelined settles, locked-in fails, "
            "one-response arbitration, whole-node restart ERestart, single-link restart ELinkRestart, abandoned forward "
            "AAbandon). Proved for every event order: an incoming HTLC is settled only with a preimage received on its "
            "outgoing twin that hashes to the payment hash; it is failed back only if the twin was never committed or is "
            "irrevocably removed, and a signed fail-back is final; at quiescence hops settled together, nothing dangles "
            "(NumPending = NumOpen = 0), forwarder total = initial + fees of succeeded forwards, sender debits = receiver "
            "credits + fees. Tie: trace recogniser (vm_compute, SHA-256) over events observed on the real three-hop "
            "fixture (wire interceptors, HtlcNotifier, CircuitMap proxy) under SEEDED FAULT INJECTION on the real code "
            "(link stop/start with channel_reestablish, switch restart on the same DB, message loss followed by "
            "reconnect, delays, channel down time) plus four directed scenarios in every run; model-independent predicate "
            "on the real wire trace (preimage provenance, reconnect-tolerant fail-back lock-in, no late or duplicate "
            "outgoing HTLC, stable forwarding-package references) and on the quiescent end state of all four channel "
            "ends (balances, fees, circuits, invoices). Two genuine defects found by this check were repaired in /repo "
            "(C08-F1 f141912 forwarding-package index on replay; C08-F2 c1f1bbb packets abandoned at link stop).",
    "note": "Every run contains four directed disconnect/bounce/replay scenarios and every batch is closed by "
            "restarting every link and the forwarder's switch and re-checking the quiescent state. "
            "Goroutine schedules and fault points are sampled, not enumerated; restarts are graceful stops, not "
            "crashes inside a handler; onion processing, mailbox timers, transport and the commitment dance are exercised "
            "by the harness only. The fixture keeps one database per channel end. Trusted: Coq kernel, harness, python predicate.",
    "technique": "Coq proof (per-circuit and ledger invariants over all event sequences) + trace recogniser on the real "
                 "three-hop fixture under seeded fault injection + implementation-side wire-trace and quiescence predicates",
}

CLAIMED["C20"] = {
    "design_ref": "DESIGN.md §4 C20, notes/C20.md",
    "text": "Proved on the Gallina model of remote gossip-v1 handling (ProcessRemoteAnnouncement, "
            "handleChanAnnouncement/Update/NodeAnnouncement, validateFundingTransaction, netann validation, "
            "graph.Builder AddEdge/UpdateEdge/AddNode staleness, reject/premature/rate-limit/ban caches), for all "
            "oracles, states, messages and histories: a channel enters only with four valid signatures and an unspent "
            "2-of-2 funding output of the stated bitcoin keys; a policy changes only by an update signed by the "
            "direction's node of a known channel, strictly newer, with consistent fields; a node changes only by a newer "
            "self-signed announcement of a node that has a channel; rejection or an unchanged graph implies nothing is "
            "relayed; updates parked before their channel are fully re-validated on replay. Tie: the real "
            "AuthenticatedGossiper with a real graph.Builder over a real graph DB (bbolt AND sqlite in every run) on "
            "really signed and corrupted messages, incl. seeded restarts on cold store caches and small cache sizes, whole graph + verdicts + broadcast counts compared "
            "after every step (vm_compute) with harness-recomputed btcec/chain oracle tables, plus an independent "
            "authenticity predicate on the implementation trace.",
    "note": "Signatures, digests, chain answers and the funding-script constructor are oracles; theorems are "
            "implications over them with no hypothesis on them. Funding clause for AssumeChannelValid=false. Goroutine "
            "structure, batching, timers exercised only. Block-height premature re-injection, local announcements, v2 "
            "gossip out of scope; self-channels (NodeID1 == NodeID2) outside the tie. Trusted: Coq kernel, harness, "
            "python predicate.",
    "technique": "Coq proof (handler characterisation, replay induction, history invariant) + differential "
                 "correspondence on the real gossiper + independent trace predicate",
}
CLAIMED["C15"] = {
    "design_ref": "DESIGN.md §4 C15, notes/C15.md",
    "text": "Proved in Coq (9 theorems, any hash function, any AMP reconstruction oracle) for any sequence of registry "
            "calls (AddInvoice, NotifyExitHopHtlc incl. replays, MPP and AMP sets, spontaneous keysend/AMP, "
            "SettleHodlInvoice, CancelInvoice, set timeouts): the registry orders settlement of an HTLC only when it is "
            "recorded settled, the released preimage hashes to that HTLC's payment hash (AMP: its own reconstructed "
            "preimage, checked by the code against the HTLC's hash), it carried the invoice's payment address where "
            "required, left both final-CLTV margins, and the HTLCs settled with it declare one common total >= the invoice "
            "value and sum to at least that total (AMP: per set id, per settling step). States and records only move "
            "forward and no HTLC is both settled and canceled (AMP HTLC records: SQL store; refuted on the KV store, "
            "known finding C15-F2). A settled non-AMP invoice's AmtPaid is the sum of its settled HTLCs. Replays get the "
            "recorded verdict when no JIT pre-check applies (refuted with it: C15-F1, keysend and AMP). Tied on every run "
            "by a differential run of the real InvoiceRegistry on the KV and sqlite stores (every resolution incl. hodl "
            "deliveries, LookupInvoice incl. per-HTLC AMP fields and AMPState after every event; oracle table from the "
            "real amp.ReconstructChildren) plus a sha256-checking predicate on the implementation trace.",
    "note": "AMP reconstruction is a Section oracle without hypothesis; AMP AmtPaid/AMPState are tied by differential run "
            "and trace predicate only (no theorem). The HTLC interceptor and concurrent notifiers (serialised by the "
            "registry mutex) are not exercised. Link invariants 'one payment hash / one payload per circuit key' assumed. "
            "KV/SQL divergences modelled via a store flag. Trusted: Coq kernel, harness, python predicate.",
    "technique": "Coq invariant proof over all event sequences + differential correspondence (KV + sqlite) + trace predicate",
}
CLAIMED["C11"] = {
    "design_ref": "DESIGN.md §4 C11, notes/C11.md",
    "text": "Noise_XK transport and brontide.Conn (brontide/noise.go, conn.go), Coq theorems with symbolic crypto: the "
            "handshake completes with matching send/recv keys when the initiator dials the responder's real static key, "
            "and is refused for any other key, a bad version byte, a modified act one/two, and any act three that is not "
            "byte for byte the honest act three of the static key the responder then records; any interleaving of "
            "WriteMessage and partial Flush calls puts exactly the honest encoding on the wire and the peer reads the "
            "same messages in order across any number of key rotations; (epoch, nonce) pairs strictly increase, hence "
            "are never reused; under an ideal AEAD the first read reaching any modified, truncated, reordered, replayed "
            "or reflected ciphertext fails and every earlier read returns exactly what was sent; for every sequence of "
            "Conn.Write (any length; 65535-byte chunking loop proved terminating) / WriteMessage / Flush against a "
            "net.Conn that takes any number of bytes per call and may time out anywhere, the wire carries the honest "
            "encoding of a prefix-exact record sequence, returned counts add up to the plaintext committed, and "
            "Conn.Read with ANY sequence of buffer sizes returns those bytes in order, never across a record boundary. "
            "Tie: real Machine pairs and real Conn pairs with seeded keys, scripted short-writing writers / net.Conns "
            "(faults at every call index and MAC boundary, sizes around 1x/2x/3x 65535), >= 3 rotations each way, "
            "tampered pipes; per-call results, counts, plaintexts and (epoch, nonce) counters compared with a "
            "tagging-AEAD instantiation (vm_compute) + independent trace predicates.",
    "note": "Crypto is symbolic: functional/ideal AEAD, key binding, no_forgery (INT-CTXT), ECDH/HKDF injectivity, parse "
            "injective on 33-byte strings are stated hypotheses of the theorems that use them. Reads after a failed read "
            "are not claimed (Machine is not poisoned; lnd disconnects). The net.Conn is a list of answers to Write calls "
            "and an in-memory byte stream; real deadlines, Listener, Dial, goroutines are runtime (exercised only). "
            "Trusted: Coq kernel, harness, python predicate.",
    "technique": "Coq proofs (induction, simulation, loop invariant) over an executable model with symbolic crypto + "
                 "differential correspondence against a tagging-AEAD instantiation + trace predicate",
}

CLAIMED["C12"] = {
    "design_ref": "DESIGN.md §4 C12, notes/C12.md",
    "text": "Proved on an executable model of the ChannelArbitrator's decision logic (shouldGoOnChain with uint32 "
            "arithmetic, check{Local,Remote,RemoteDangling,RemoteDiff}ChainActions, the StateDefault/ContractClosed "
            "consumers, prepContractResolutions): a block at or past the cut-off of an HTLC the node must act on gives "
            "exactly one force close (also over any list of block epochs), no force close without a justifying HTLC and "
            "never for unclaimable received HTLCs; when a commitment confirms without a prior broadcast every HTLC output "
            "gets one resolver, received dust is closed out once and every must-fail offered HTLC is failed back exactly "
            "once; no fail-back for an HTLC with an output on the confirmed commitment. On the broadcast path the full "
            "classification is REFUTED for current lnd (Coq witness replayed on the real arbitrator: known finding "
            "C12-F1); the remaining conjuncts and at-most-once are proved. Tie: real ChannelArbitrator + real bolt log "
            "with mock chain/switch/registry on seeded and exhaustive small universes of HTLC-set triples x heights x "
            "preimage knowledge x triggers; states, ForceCloseChan calls, fail-backs, final outcomes and inserted "
            "resolvers compared per operation + independent predicate from the property text. The shape hypotheses of "
            "the classification theorems (unique indexes per commitment/direction; every offered HTLC on our commitment is "
            "also on the peer's current and pending commitment) are DERIVED from the channel state machine "
            "(C12_shape_reachable / _resync over the two-party channel model of C01/C03, new cut-order invariant), the "
            "*_reachable theorems carry no shape hypothesis, and the shape predicate is evaluated on every party dump "
            "(live and reloaded) of seeded real LightningChannel schedules.",
    "note": "Resolver progress after insertion belongs to C13. Remaining stated hypothesis: one resolution per HTLC "
            "output supplied by lnwallet (res_complete); local_sub_conf for the pending kind only when a pending "
            "commitment exists. Reachable states where current and pending commitments disagree on an HTLC's dust-ness "
            "exist (C12_shape_dust_disagreement_reachable); there checkRemoteDanglingActions depends on Go map order and "
            "the model keeps the first record. Harness does not start the arbitrator goroutine. Trusted: Coq kernel, "
            "harness, python predicate.",
    "technique": "Coq proof over the decision model + differential correspondence on the real ChannelArbitrator + "
                 "predicate on the implementation trace",
}
CLAIMED["C19"] = {
    "design_ref": "DESIGN.md §4 C19, notes/C19.md",
    "text": "Proved on the Route model: the executable checker route_valid is sound for every clause of the property "
            "(connected over existing enabled policies; per-hop min/max/capacity/first-hop bandwidth; each forwarding "
            "node keeps >= outbound+inbound fee floored at 0 and >= its delta; fee/CLTV limits, outgoing-channel, last-hop, "
            "ignore restrictions; payload fits), newRoute's amounts and time locks add up to its totals, every "
            "forwarding hop of an accepted route passes the C09 forwarding rule (Policy model, machine and spec), "
            "getEdge soundness, and the relaxation invariant. The search loop is modelled as well (Route/Dijkstra.v: "
            "distance map, heap as 'pop any minimal entry w.r.t. distanceHeap.Less', processEdge with Go int64 "
            "edgeWeight, improvement test, source never expanded, chain unravelling) and it is proved for every run "
            "(C19_chain_stable, C19_pops_sorted) that a popped entry is never rewritten or re-pushed and pops are "
            "key-sorted, hence (C19_findpath_sound / C19_findpath_route_ok) the route newRoute builds from the chain "
            "findPath returns passes the checker and every clause of the property. Tie: real findPath + newRoute + "
            "edgeUnifier.getEdge on seeded multigraphs with boundary-directed variants; every returned route is checked "
            "by route_valid, compared with the model's new_route and relax replay; the finalisation order and every "
            "processEdge call of ~2800 (thorough 17k) real searches are replayed on the Dijkstra model with real float64 "
            "(Coq primitive floats) incl. the unravelled chain; independent python predicates (every clause on the real "
            "route incl. the real sphinx payload size; no node expanded twice, route amounts are validated amounts, "
            "termination).",
    "note": "The chain-stability theorems hold under explicit guards: probability answers in [0,1], amt*delta*15 and "
            "accumulated weight < 2^63, unsigned policy fields; and they assume keyops_ok = monotone IEEE float64 "
            "arithmetic (a hypothesis, proved for an exact instance and checked on every replayed step). Outside the "
            "guards two _refuted examples show a finalised entry being rewritten; the int64 one was reproduced on real "
            "code at ~100 BTC / delta 65535 (domain boundary, not listed as a finding). Optimality and probability not "
            "claimed. "
            "Trusted: Coq kernel (primitive floats only in the replay file, in no theorem), harness, python predicate.",
    "technique": "Coq proof (induction over paths, fold invariants, invariant over a nondeterministic transition system "
                 "of the Dijkstra loop, link to the C09 model) + differential harness on real findPath/newRoute/getEdge "
                 "with search-trace replay + predicate on every returned route",
}

CLAIMED["C17"] = {
    "design_ref": "DESIGN.md §4 C17, notes/C17.md",
    "text": "Coq theorems for all HTLC-free channel views, fees, script pairs, payer overrides and sequence/locktime "
            "options: both parties derive the identical close transaction or the same error; each output equals the "
            "owner's exact balance (msat truncated, commit fee + anchors credited to the opener, fee charged to the "
            "payer), is present iff it reaches the owner's dust limit, BIP69 order; refused iff the payer cannot afford "
            "the fee; outputs+fee <= capacity with at most 1 sat of truncation loss when nothing is trimmed. Legacy fee "
            "negotiation between two honest closers with ideal fees >= 100 sat within cap/affordability terminates on a "
            "common, doubly-signed fee within n+4 messages where 100*max*1000^n <= 129*min*1091^n (<= 8*log2(max/min)+4); "
            "taproot in 3; below 10 sat non-termination is proved (witness replayed on real ChanClosers each run). Model "
            "tied to lnwallet/chancloser by differential runs: pure-function grids, real CreateCloseProposal/"
            "CompleteCooperativeClose on 7 channel types (ECDSA and MuSig2 signatures, script-engine verdict, byte "
            "equality of both sides' txs), and two real ChanClosers negotiating over real channels. RBF cooperative close "
            "(rbf_coop_transitions/states/msg_mapper): every ProcessEvent + protofsm event queue modelled per party plus "
            "a two-party FIFO system. Proved: (safety, no assumption on the peer) a party only countersigns/broadcasts "
            "the transaction its own wallet builds with the CLOSER paying and that the peer's selected signature is on; "
            "(completeness) between mirrored honest parties every affordable offer is answered and both broadcast the "
            "same tx with closer-pays exact balances; any sequence of such rounds from either side leaves nothing in "
            "flight and identical broadcast sequences; shutdown (either/both initiators) and flush establish mirrored "
            "terms; the announced signature field matches the outputs under stated dust/credit hypotheses. Witness "
            "theorems replayed on lnd every run: no fee-monotonicity on RBF bumps, signature-field mislabelling "
            "(DustLimitForSize vs channel dust limit), BlockHeight != 0 breaks the close (latent). Tie: two real RBF state "
            "machines over real channels (4 types incl. taproot/MuSig2), seeded interleavings, tampered messages; full "
            "state + every emitted message/tx compared with the model, engine verdict + byte equality + closer-pays predicates.",
    "note": "Trusted: Coq kernel, harness, python driver. Signatures/sighash/serialisation/script engine not modelled "
            "(exercised on every channel case; one Section hypothesis verify-sign). Negotiation machine abstracts the "
            "channel as 'proposal succeeds iff fee <= opener balance + credit'. RBF: ideal signatures, ValidateUpfrontShutdown oracle, MuSig2 nonce "
            "handling and protofsm goroutine plumbing not modelled (ProcessEvents driven through a synchronous applyEvents "
            "copy); progress proved for sequences of complete rounds (overlap covered per round + by harness). Aux/extra "
            "outputs, custom sort, cached-ClosingSigned path not modelled.",
    "technique": "Coq proof (symmetry/algebra, potential-function termination measure, cycle invariant for the "
                 "refutation) + differential correspondence on real channels and ChanClosers + implementation-side predicates",
}

CLAIMED["C13"] = {
    "design_ref": "DESIGN.md §4 C13, notes/C13.md",
    "text": "Proved on the restart model of the channel arbitrator (disk = everything lnd persists for one channel's "
            "arbitration; threads = channelAttendant, one resolveContract goroutine per contract, anchor resolver, "
            "ChainArbitrator.ResolveContract; one micro step per kvdb transaction in code order; crash at any instant), "
            "for ALL histories with any number of stops: (1) every history that marks the channel fully resolved has "
            "exactly the upstream resolutions per HTLC, final outcomes, NotifyChannelResolved and resolver reports of the "
            "uninterrupted run; (2) every upstream output ever produced is one of the uninterrupted run, hence no "
            "fail+settle contradiction; (3) the channel is marked resolved only with an empty contract set and from "
            "StateFullyResolved; (4) progress: every history can be extended without a further stop to one that marks the "
            "channel resolved, with the repaired F1 window proved recovered. Exception F2 (dust fail-back lost after a "
            "stop between InsertConfirmedCommitSet and MarkChannelClosed with a dangling HTLC; known finding, shares its "
            "root cause with C12-F1) is the exact hypothesis of (1) and refuted by a witness. Tie: the real "
            "ChannelArbitrator on the real bolt arbitrator log behind a stop-the-world kvdb wrapper, 22 close scenarios "
            "(two with different HTLCs at the same output index on different commitments of the persisted commit set), "
            "a stop after EVERY committed transaction plus repeated stops; every database snapshot sequence must be a "
            "model path, final database and output sets equal, and the implementation is compared with its own "
            "uninterrupted run. Received HTLCs: the incoming-contest/success resolver pair is modelled as a machine whose branch (claim "
            "with the preimage, or abandon at expiry) is decided by environment events (beacon learns the preimage / "
            "expiry height reached) at any point of the history. Proved for ALL histories: never both a settled and a "
            "failed final outcome nor both Claimed and Timeout reports; settled only if the preimage was known, failed "
            "only if the expiry was reached; the machine is at all times a state of one staged script of the "
            "whole-channel model; progress; a preimage that reached the beacon before expiry is never lost by a "
            "restart. Scenarios include received HTLCs with the preimage known at close, learned later, learned then "
            "stopped before any subscriber saw it, and never learned, on remote and own two-stage commitments, mixed "
            "with offered HTLCs and dust, plus three scenarios with no HTLC near expiry at the closing height. Findings "
            "C13-F1 (2099ea4) and C13-F3 (276b5b1, restart in StateContractClosed used chainTrigger and dropped all "
            "HTLC actions) were found by this check and repaired in /repo.",
    "note": "Which chain actions/resolvers a close yields is an input (C12); resolvers are staged scripts validated "
            "against persisted resolver bytes. Not modelled: exit-hop (invoice registry) received HTLCs, "
            "checkpointForeignSpend, taproot, sweeper persistence, reorgs, DB write errors other "
            "than the stop. The whole-channel model runs a received-HTLC resolver as the staged script of the branch the "
            "scenario's environment selects; that the real resolver is always a state of one of the two scripts is "
            "proved on the single-resolver machine (C13_incoming_refines_script). The environment advances only at "
            "quiescence (blocks slow compared to a restart). Progress = existence of a terminating "
            "crash-free schedule from every reachable state, not fairness. bbolt transaction atomicity assumed. Trusted: "
            "Coq kernel, harness mocks, python predicate.",
    "technique": "Coq proof (two inductive invariants over all interleavings and crash points + lexicographic "
                 "termination measure) + stop-the-world differential correspondence on the real arbitrator/bolt log + "
                 "implementation-vs-uninterrupted-run predicate + environment-driven branching machine for received "
                 "HTLCs with a refinement-to-staged-script theorem; preimage-validating mock sweeper/chain; durable "
                 "beacon store",
}

_PUNISH_NOTE = ("partial by nature (crypto, script engine): key tweaks, sighash, taproot commitments and the full "
                "script engine are exercised by the real txscript engine on every justice / resolution input of every "
                "run, not proved; the Script layer models btcd's witness-v0/tapscript interpreter for the BOLT-3 opcode "
                "subset with symbolic crypto and is differential-tested against txscript; P2WSH/taproot commitments and "
                "key-path spends are decided by the real engine only. The witness-type table of contractcourt's breach "
                "arbitrator is copied into the harness. Lease channels run with ThawHeight 0 (fixture). Trusted: Coq "
                "kernel, translator (script templates/witness shapes), harnesses, python predicates.")
CLAIMED["C04"] = {
    "design_ref": "DESIGN.md §4 C04, notes/C04.md, notes/SCRIPT.md",
    "text": "Proved on the cut-level channel model for EVERY schedule incl. disconnects/restarts (ghost-history wrapper "
            "over the resync machine): the revocation log is exactly the list of commitments the counterparty held "
            "(height = index, each produced by commit_of, i.e. the one that was signed: C01 agreement), and the "
            "retribution decision table claims every non-anchor output of such a commitment exactly once with its "
            "amount (dust HTLCs skipped). Script layer (regenerated from input/script_utils.go by the Go->Coq "
            "translator on every run): every revocation witness template is accepted by the Gallina script interpreter "
            "for all keys/hashes/delays given a valid revocation signature, and rejected without it. Tie: seeded "
            "schedules on two real LightningChannels (7 channel types, both sides as victim, with/without stored "
            "amount data, live and reloaded from disk): for every revoked height the real NewBreachRetribution (with "
            "and without the spend tx), a justice transaction assembled like the breach arbitrator, EVERY input run "
            "through the real txscript engine against the real revoked outputs (~5 800 inputs per quick run), the "
            "second-level variant, GetStateNumHint == height, and the revocation-log record vs the actual transaction; "
            "model revocation-log entries and retribution lists compared with the observed ones (vm_compute). State hint "
            "(Channel/StateHint.v, exact uint32/uint64 bit ops): the 48-bit hint (height XOR obfuscator split into "
            "nSequence = 0x80||upper 24 bits and nLockTime = 2^29 + lower 24 bits) is accepted exactly for heights < 2^48, "
            "decodes back to the height, leaves the sequence lock disabled and the locktime a past timestamp, and is "
            "injective per channel; tied on every captured commitment plus 324 boundary probes of the real "
            "SetStateNumHint/GetStateNumHint.",
    "note": _PUNISH_NOTE + " Obfuscator derivation (sha256) not modelled. Chain-watcher stage: every revoked "
            "commitment handed to a real contractcourt chainWatcher over its own early-loaded OpenChannel snapshot is "
            "recognised as a breach and its real justice tx (real newRetributionInfo/createJusticeTx) validates under txscript.",
    "technique": "Coq invariant proof (ghost-history wrapper over the resync machine) + Coq script-interpreter theorems "
                 "over regenerated templates (T1) + differential harness with the real NewBreachRetribution and script engine",
}
CLAIMED["C05"] = {
    "design_ref": "DESIGN.md §4 C05, notes/C05.md, notes/SCRIPT.md",
    "text": "Proved: for every commitment a party holds in every reachable state (own tail/tip, counterparty's "
            "current/pending; also after resync) the resolutions cover every output that is the party's exactly once: "
            "claimable = own balance (if >= dust) + all on-transaction HTLCs = outputs - counterparty output - anchors, "
            "with the exact msat ledger equation incl. dust loss; own to_local and second-level outputs are never dust. "
            "Script layer (templates regenerated from input/script_utils.go on every run): all 22 local/remote spend "
            "paths (to_local after CSV, HTLC timeout/success, second-level, to_remote confirmed/lease, preimage claim, "
            "CLTV timeout, anchors, taproot leaves) are accepted by the Gallina interpreter with the exact "
            "nSequence/nLockTime lnd sets; success needs the preimage, timeout needs nLockTime >= expiry, delayed paths "
            "need BIP-112. Tie: at every local tail and at sampled states (pending remote commitment, unrevoked local "
            "tip, reloaded channels) of seeded schedules on two real LightningChannels: own signed commitment vs the "
            "funding output, NewLocalForceCloseSummary / NewUnilateralCloseSummary (current and pending), every "
            "SignedTimeoutTx/SignedSuccessTx and every sweep run through the real txscript engine (~2 300 close reports, "
            "~2 900 HTLC resolutions per quick run); resolutions and claimable totals compared with the model. HTLC "
            "signature index (Channel/CommitSort.v on real pkScript bytes): both parties build the same BIP69+CLTV-ordered "
            "transaction (the sort has one possible result), assign every non-dust HTLC incl. exact duplicates the same "
            "distinct output, and the signer's HTLC-signature send order equals the verifier's consumption order "
            "(C05_commit_sort_canonical, C05_htlc_sig_index, under pk_facts evaluated on every observed commitment); tied "
            "on ~240 signed commitments per quick run on both sides incl. the real signature consumption order.",
    "note": _PUNISH_NOTE + " pk_facts (equal HTLC scripts imply equal payment hash; offered script never equals "
            "received script) is a stated hypothesis of C05_htlc_sig_index, checked on the real script bytes of every case.",
    "technique": "Coq proof (ledger equations on the channel model, script-interpreter theorems over regenerated "
                 "templates) + differential harness with real force-close summaries and the real script engine",
}

NOT_CLAIMED = {}


# T1 arithmetic: functions/constants regenerated from the Go source on every run (translate/gen_arith*.go ->
# Gen/GenArith.v, Gen/GenConsts.v) and proved equal to the model functions in <Subsys>/GenBridge.v
_T1 = {
    "C01": "FeeForWeight, HtlcTimeoutFee, HtlcSuccessFee, CommitWeight, HtlcIsDust, ToSatoshis",
    "C02": "FeeForWeight, HtlcTimeoutFee, HtlcSuccessFee, CommitWeight, HtlcIsDust, ToSatoshis",
    "C03": "FeeForWeight, HtlcTimeoutFee, HtlcSuccessFee, CommitWeight, HtlcIsDust, ToSatoshis",
    "C06": "getBit, getPrefix, countTrailingZeros, maxHeight",
    "C09": "ExpectedFee, InboundFee.CalcFee, maxFeeRate, feeRateParts",
    "C10": "MaxMsgBody, MaxRecordSize",
    "C11": "keyRotationInterval, macSize, lengthHeaderSize, encHeaderSize",
    "C14": "ReorgSafetyLimit (>= 1)",
    "C17": "CoopCloseBalance, feeInAcceptableRange, ratchetFee, calcCompromiseFee, ToSatoshis, AnchorSize",
    "C18": "calcCurrentConfTarget, FeeForWeight, FeePerKwFloor",
}
for _pid, _fns in _T1.items():
    CLAIMED[_pid]["technique"] += (" + T1: %s regenerated from the Go source on every run with explicit fixed-width "
                                   "wraps and proved equal to the model's functions (GenBridge.v), so a source edit "
                                   "breaks the proof stage" % _fns)


# Additions from the round-3 strengthening and deepening packages (appended so that the base entries above stay
# readable; (field, text) pairs are appended with a leading space)
_ADD = {
    "C06": [("text", "Third stage (breachwatch): the chain watcher, which owns its own OpenChannel instance loaded from the "
                     "database earlier than the revocations it is asked about, must reproduce every received secret (breach "
                     "recognised, retribution matching the published commitment)."),
            ("technique", "+ chain-watcher (second instance) differential stage")],
    "C07": [("text", "The switch stage also runs the stop-point core and a stratified sample of the C08 single-fault "
                     "enumeration (node-restart-then-link-flap family always included), with the clause: at most one "
                     "settle-or-fail is delivered back to the incoming channel (lnd never logs 'unable to settle/cancel "
                     "incoming HTLC')."),
            ("technique", "+ single-fault stop-point enumeration sample on the real three-hop network")],
    "C08": [("text", "A stop-point enumeration stage runs 6 base scenarios x every hook hit of the forwarder's links "
                     "(message lost before its handler, and points inside handlers: decode, commit, forward, signed, sent) x "
                     "{flap, node restart, restart-then-flap}, and every committed kvdb transaction of the forwarder x node "
                     "restart (stop-the-world backend; predicates only). Thorough runs all ~600 points, quick a fixed core "
                     "plus a seeded stratified sample. Findings C08-F1 (f141912), C08-F2 (c1f1bbb) and C08-F3 (78861d6: "
                     "commitment signature owed after a delivered revocation never sent after reconnect) were found by this "
                     "check and repaired in /repo."),
            ("technique", "+ exhaustive single-fault stop-point enumeration (link quit at every hook hit, stop-the-world "
                          "database backend after every committed transaction) with closing restarts")],
    "C11": [("text", "Also with several sessions alive in one process and their write / flush / release / read calls "
                     "interleaved arbitrarily, each session's stream is exactly its own (C11_sessions_independent; every "
                     "session of a multi-session case is replayed by its own model instance, all 924 merges of two scripted "
                     "sessions per pair kind, seeded interleavings, concurrent actors, -race in thorough)."),
            ("note", "The process-wide buffer pools are not modelled: pool-freedom of the real code is tested by the "
                     "multi-session correspondence and the retained-read aliasing predicate, not proved."),
            ("technique", "+ exhaustive merges of two scripted sessions + seeded/concurrent actors, each session replayed "
                          "by its own model instance")],
    "C15": [("text", "For AMP invoices: a set is settled only when complete (per-set total >= value, per-HTLC "
                     "address/CLTV/total checks, reconstruction matching every member's hash); AmtPaid and AMPState[set] "
                     "(State, AmtPaid, InvoiceKeys) equal the projection of the HTLC map after every update (SQL store, all "
                     "histories: C15_amp_accounting); the decision for a set depends only on that set's HTLCs and the "
                     "invoice terms (C15_amp_sets_independent)."),
            ("note", "AMP: C15_amp_settle_only_complete / _fresh_settle_needs_complete are function-level (any state); "
                     "C15_amp_atomic holds under the stated secrecy hypothesis R_atomic, C15_amp_hash_checks_agree under "
                     "child.Hash = H(child.Preimage) (checked on every oracle point); the frame half of set independence is "
                     "by predicate + differential run only; set-id level 'settled once / not after canceled' and 'AmtPaid = "
                     "settled sets only' are REFUTED by design (witness theorems, reproduced on the real registry); the KV "
                     "store is excluded from the accounting clause by known finding C15-F2."),
            ("technique", "+ AMP: inductive accounting invariant + function-level decision theorems + real "
                          "amp.SeedSharer/ReconstructChildren in the harness + independent re-derivation of AMP children "
                          "in the trace predicate")],
    "C18": [("text", "Also across the sweeper's retries: a retried / re-clustered sweep starts at >= the relay floor "
                     "(C18_retry_start_floor) and, absent a no-tx failure, never below the rate already offered "
                     "(C18_retry_monotone; the exception is the known finding C18-F2 with its Coq witness "
                     "C18_retry_monotone_refuted). Tied by composed histories of the real UtxoSweeper + BudgetAggregator + "
                     "TxPublisher + LinearFeeFunction (128 enumerated failed-first-attempt x retry shapes x 4 backends, plus "
                     "sampled), every BumpRequest model-checked (CPub), starting-rate bookkeeping compared (CSw)."),
            ("note", "UpdateParams/BumpFee RPC, confirmations and third-party spends, the mempool RBF-info path and the "
                     "AuxSweeper are not driven."),
            ("technique", "+ composed sweeper/aggregator/publisher histories with per-request model check")],
}
for _pid, _items in _ADD.items():
    for _field, _txt in _items:
        CLAIMED[_pid][_field] += " " + _txt

_ADD2 = {
    "C10": [("text", "Optional-tail messages (ChannelReestablish shape): C10_optmsg_roundtrip/_fixpoint; failure payloads "
                     "embedding a channel_update: C10_failure_update_roundtrip; default-elided TLV records: "
                     "C10_elided_roundtrip_iff / _canonical / _lossy with the seven elision sites of ChannelUpdate2 / "
                     "ChannelAnnouncement2 translated from the source on every run (C10_gen_elisions_ok: encoder test <=> "
                     "value != the default the decoder fills in). Systematic per-record (1-byte values exhaustively, integer "
                     "boundary sets, BigSize forms), per-fixed-byte and per-field (full Go type domain) sweeps, ~125,000 "
                     "cases quick / 2.6 M thorough, under the deep-value fixpoint predicate decode(encode(decode b)) = "
                     "decode b for all 45 message types incl. the five harness-only ones."),
            ("technique", "+ exhaustive/boundary record, byte and field sweeps under a deep-value fixpoint predicate + "
                          "translated default-elision table with iff-theorem")],
    "C20": [("text", "Also over histories interleaving block connects/spends, re-orgs of funding blocks, "
                     "DeleteChannelEdges +- zombie (strict), node sweeps and restarts on the real started graph.Builder and "
                     "both stores (25 enumerated removal x sweep x update-pattern templates on bbolt and sqlite in every run "
                     "plus a random tail): C20_nodes_have_channels (every stored node has a channel once the last unswept "
                     "removal was followed by a sweep), C20_node_ann_needs_channel, C20_zombie_resurrection_authentic; the "
                     "orphan window is refuted by witness (C20_node_ann_channelless_window_refuted = known findings C20-F2, "
                     "C20-F3). Finding C20-F1 (f8d13ef, makeZombiePubkeys stored node1's key for the lagging edge2 side) was "
                     "confirmed by this check and repaired in /repo."),
            ("note", "pruneZombieChans' timer and syncGraphWithChain's missed-blocks path are not driven; the per-store "
                     "flag sweep_always mirrors KV (sweep on every block) vs SQL (only when the block closed a known "
                     "channel)."),
            ("technique", "+ enumerated graph-maintenance history templates on the real Builder and both stores; "
                          "store-flagged model; refuted-witness theorem for the orphan window")],
    "C01": [("text", "The incremental add/remove-commit-height bookkeeping of lnwallet (evaluateHTLCView / computeView / "
                     "setCommitHeight / compactLogs / restoreStateLogs) is modelled (Channel/View.v) and proved: heights are "
                     "written once; in every schedule a height is set iff the entry lies below the cut of the chain's newest "
                     "commitment (range invariant VInv); balance effects of a committed view are never applied again; "
                     "compaction removes only entries locked in below both tails; computeView over the compacted logs equals "
                     "the cut semantics (C01view_computeView_is_cut), and sign / receive-signature / revoke of the incremental "
                     "machine produce the same messages and commitments as the cut model under the simulation relation Corr "
                     "(C01view_corr_*). Tied per step and per log entry: every entry's presence, identity and four heights "
                     "and the evaluated views of the real channel equal the View model (ViewExec)."),
            ("text", "The incremental machine REFINES the cut model for all disciplined schedules, including reconnects "
                     "(C01view_refinement, C01view_reconnect_refinement: same messages, same four commitments per party, "
                     "same queues and LastWasRevoke flags); ProcessChanSyncMsg of the incremental machine = process_sync "
                     "(C01view_process_sync); a restart in any reachable state rebuilds a party standing for Resync.restore "
                     "(C01view_restore_reachable[_x], C01view_restore_heights); entry shapes (fee add = remove height, adds "
                     "carry no remove heights) proved (C01view_entry_shapes). 32 C01view theorems, all closed."),
            ("note", "View refinement is not proved for reconnects that fail at cut level (ErrSanity) and undisciplined "
                     "schedules (same limits as C03), nor the failure direction 'commit_of = None implies "
                     "fetchCommitmentView fails' (the incremental machine is stepped only when the cut model accepts)."),
            ("technique", "+ incremental-machine model with range invariant over all schedules and per-entry height "
                          "correspondence (ViewExec) + model-free predicate heights_sane")],
    "C02": [("text", "After every reload (crash observation, both restarts of every cut / write-level crash) the logs "
                     "rebuilt by restoreStateLogs - entries, list order and all four commit heights - equal those of the Coq "
                     "model of restoreStateLogs (ViewExec codes 161-176); proved: v_restore is idempotent and a function of "
                     "the channel DB only (C01view_restore_function) and, in every reachable state incl. after reconnects, "
                     "the restored incremental party refines Resync.restore with the range invariant re-established "
                     "(C01view_restore_reachable[_x], C01view_restore_heights). A terminal live-resync probe checks the "
                     "release rule on LIVE channel objects (live_release_rule)."),
            ("technique", "+ per-entry restored-height correspondence against the View model")],
}
for _pid, _items in _ADD2.items():
    for _field, _txt in _items:
        CLAIMED[_pid][_field] += " " + _txt

_ADD3 = {
    "C03": [("text", "The incremental lnwallet machine (Channel/View.v) refines the cut-level reconnect model: "
                     "C01view_reconnect_refinement, C01view_process_sync (ProcessChanSyncMsg = process_sync: same messages "
                     "and flag). A terminal live-resync probe exercises ChanSyncMsg/ProcessChanSyncMsg on live (not reloaded) "
                     "channel objects under the release-rule predicate."),
            ("technique", "+ refinement of the incremental machine to the reconnect model; live-resync probe")],
    "C06": [("text", "Release rule also on LIVE objects: a terminal live-resync probe (live/live, live/reloaded) after a "
                     "directed epilogue (received commit_sig not yet revoked) with predicate live_release_rule (released "
                     "height h requires durable local height > h and h = tail - 1)."),
            ("technique", "+ live-resync probe")],
    "C10": [("text", "Retention / purity predicate over all 45 message types, 25 failure codes and tlv streams: a decoded "
                     "value keeps its deep dump and its re-encoding after arbitrarily many later decodes/encodes in the same "
                     "process, does not alias its input, and earlier encoded bytes stay unchanged (windows of 128 retained "
                     "values, size runs, 8-goroutine stream; -race in thorough)."),
            ("note", "Purity of the real codec (no process-wide state) is tested by the retention predicate, not proved; "
                     "the Coq model is pure by construction."),
            ("technique", "+ retention/aliasing predicate on retained decoded values")],
    "C15": [("text", "Circuit keys range over the full uint64 ChanID domain (boundary classes incl. alias/zero-conf scids "
                     ">= 2^63) and HtlcID in [0, 2^63) in every stream on both stores; predicate C15_resolution_durable: "
                     "every resolution delivered to the link is found durable in a fresh store read (settle => stored "
                     "settled, fail => stored canceled, held => exactly one accepted record, ResolveTime set iff resolved)."),
            ("note", "HtlcID >= 2^63 is outside the domain: the SQL store writes int64(HtlcID) unchecked and then cannot read "
                     "the invoice back, but lnwallet.ReceiveHTLC only accepts the next sequential id, so it is unreachable "
                     "(observation in notes/C15.md, not a finding)."),
            ("technique", "+ full-domain circuit keys + durable-resolution predicate")],
    "C20": [("text", "Channel updates through BOTH entry points (gossiper, Builder.ApplyChannelUpdate), sequentially and "
                     "for concurrent arrivals on one channel direction: C20_apply_update_authentic; "
                     "C20_atomic_updates_keep_max (any list of updates taking the per-channel mutex in any order leaves the "
                     "maximal timestamp and every write was strictly newer) with the non-atomic schedule refuted by witness "
                     "(C20_nonatomic_updates_refuted). Tie: pass-through store wrapper with a write log and a commit-delay "
                     "hook; 24 enumerated two-update interleaving scenarios per backend in every run; -race in thorough."),
            ("note", "Concurrency: N = 2 senders per direction only; the 250 ms arrival wait affects detection only on "
                     "broken trees."),
            ("technique", "+ deterministic interleaving enumeration at the store boundary with a linearisable-spec theorem")],
}
for _pid, _items in _ADD3.items():
    for _field, _txt in _items:
        CLAIMED[_pid][_field] += " " + _txt

_ADD4 = {
    "C14": [("text", "Request independence is PROVED for a multi-request model with the shared height indexes "
                     "(C14_multi_conf_independent, C14_multi_spend_independent, C14_multi_*_reach) and the per-request theorems "
                     "are lifted to every request of a multi-request run (C14_multi_conf_exact, _hint_safe, "
                     "_reorg_before_reconf, spend counterparts; C14_multi_shared_bucket_reorg as non-vacuity). The real "
                     "TxNotifier is tied to that model by whole-history correspondence on collision-forcing multi-request "
                     "histories (seeded `multi`, enumerated `mcoll` family of 588 two-request reorg shapes; up to 4 conf and "
                     "3 spend requests, several clients each)."),
            ("note", "Within one global call the model runs the per-request body in a fixed order (Go's map order is "
                     "random; only per-client event order is observable and compared); client-id freshness is per request in "
                     "the model, global in the code."),
            ("technique", "+ projection/simulation proof of request independence over shared index lists + "
                          "collision-forcing multi-request generator")],
}
for _pid, _items in _ADD4.items():
    for _field, _txt in _items:
        CLAIMED[_pid][_field] += " " + _txt

_ADD5 = {
    "C04": [("text", "Also the breach arbiter's multi-step retribution flow (stage brarflow): after every rebuild (cheater "
                     "advancing HTLCs to the second level, our partial justice confirming, slice compaction, restart from "
                     "the retribution store) every input of every justice variant is a valid spend of the output actually on "
                     "chain and the variants cover exactly the breached outputs still unspent: "
                     "C04_rebuild_covers_unspent_at_current_level, C04_rebuild_witness_follows_current_level, "
                     "C04_rebuild_signs_existing_outputs, C04_justice_variants_partition (any interleaving of chain events, "
                     "consumed spend batches and restarts). Tie: seeded event walks replaying exactRetribution's steps on "
                     "real channels of 7 types + the live BreachArbitrator goroutines; every input executed by btcd's script "
                     "engine (standard and consensus flags) against a simulated chain; ~1,600 builds per run compared with "
                     "the Coq model."),
            ("note", "brarflow: scripts, keys, retribution-store encoding and goroutine plumbing are judged by the engine "
                     "and the predicates, not modelled; spend batches are assumed to have distinct slice indexes. A btcd "
                     "engine error with an empty text (ErrTaprootSigInvalid) used to read as 'accepted' in three harnesses; "
                     "they now use the error code."),
            ("technique", "+ proved interleaving invariant over a ghost chain for the breach arbiter flow; btcd engine as "
                          "oracle against a simulated chain")],
    "C19": [("text", "Route hints and blinded payment paths are generated and modelled (Route/Blinded*.v mirrors "
                     "NewBlindedPaymentPathSet / toRouteHints / newRoute's dummy-hop removal and back-fill as coded): "
                     "C19_blinded_findpath_route_ok, C19_blinded_min_enforced, C19_blinded_intro_paid, "
                     "C19_newroute_strip_dummy, C19_unblind_backfill; four clauses are REFUTED on blinded tails by witness "
                     "theorems = known findings C19-F1..F4 (htlc_maximum of a blinded path not enforced; introduction node's "
                     "inbound discount netted against the aggregated blinded fee; introduction-node-only path carries no "
                     "limits; final blinded hop payload under-estimated), each reproduced on the real findPath/newRoute in "
                     "every run."),
            ("note", "Encrypted data, blinding points and features are opaque; payload sizes of cleartext and blinded "
                     "intermediate hops remain oracle values, the blinded final hop has a size model tied on every row; "
                     "a nil-Features panic in NewBlindedPaymentPathSet is recorded as an observation "
                     "(outside C19's statement)."),
            ("technique", "+ blinded/hint streams checked by a payment-level predicate independent of lnd's derived "
                          "edges + Coq check_bcase + Dijkstra replay with the NUMS target")],
}
for _pid, _items in _ADD5.items():
    for _field, _txt in _items:
        CLAIMED[_pid][_field] += " " + _txt

_ADD6 = {
    "C02": [("text", "Every persisted channel parameter that feeds commitment construction (thaw height, csv delays, dust "
                     "limits, reserves, limits, type bits, scid, balances, key locators, shutdown scripts) is given a "
                     "non-default value per case and must survive every reload (params_survive_reload). Transactions are "
                     "additionally executed under the kvdb RETRY contract (closure run, rolled back, reset, run again) in a "
                     "share of the cases on both backends; finding C02-F3 (7a71987, ClearChannelStatus not retry-safe) was "
                     "found that way and repaired in /repo."),
            ("technique", "+ forced transaction-closure retries + parameter-survival predicate")],
    "C03": [("text", "Channel parameters must survive the reloads of a reconnect (params_survive_reload; non-zero thaw "
                     "heights on lease/frozen types).")],
    "C06": [("text", "Stage 'points': every outgoing slot (open/accept first point, channel_ready whenever sent or re-sent, "
                     "revoke_and_ack fresh or retransmitted, channel_reestablish) carries the index of the sender's chain its "
                     "slot requires (0, 1, (n, n+2), (n-1, n+1), n): slot model with C06_own_points_no_gap, "
                     "C06_own_secrets_no_gap, C06_own_chain_bounded, C06_slot_index; tie per observed event through three "
                     "harnesses (lnwallet, the real peer.loadActiveChannels, real funding flows) against the chain recomputed "
                     "from the producer root in python."),
            ("note", "Slot-index theorems are about the model's index discipline; taproot is not driven in the lnwallet "
                     "points harness; the funding-manager re-send site is reachable only at height 0; a funding harness that "
                     "exits non-zero under load is run a second time before being reported."),
            ("technique", "+ slot->index table of all own-chain call sites with per-event resolution against an "
                          "independently recomputed chain")],
    "C09": [("text", "Also on every path by which a forwarded ADD reaches the decision (first forward; re-forward after a "
                     "node death between fwd-pkg write and circuit commit; link flap in that window; batches) the decision is "
                     "evaluated on the channel policies and the HTLC's own values: path stage on lnd's three-hop fixture "
                     "with every CheckHtlcForward call observed (arguments and answer) and compared with the configured "
                     "policy, a python oracle and the Coq model."),
            ("note", "Path stage: process death is emulated (in-memory batch lost, all nodes restarted from their "
                     "databases); the onion decoder is the fixture's mock."),
            ("technique", "+ enumerated stop points x inbound-fee signs x boundary HTLCs on the real link/switch with "
                          "observed decision arguments")],
    "C12": [("text", "Also on the running arbitrator's event loop: the start-up grace period is measured from the "
                     "arbitrator's start and no link event (contract signals, commitment updates, blocks) moves it "
                     "(C12_loop_grace_reference, C12_loop_deadline, C12_loop_no_spurious; 600 enumerated + 200 seeded "
                     "histories on the real ChannelArbitrator goroutine with a test clock, whole-history correspondence with "
                     "Arb/AttendantModel)."),
            ("note", "Close events are not part of the loop histories (direct cases and C13 cover them); each start is "
                     "followed by the link's first signal at the same instant."),
            ("technique", "+ event-loop histories on the running ChannelArbitrator tied to an attendant model")],
    "C13": [("text", "The mock chain is a UTXO model: spend and confirmation notifications fire only for the exact "
                     "outpoint / txid and pkScript registered and report the real spender and input index; the mock sweeper "
                     "re-signs zero-fee second-level HTLC transactions with wallet inputs and aggregates; every real wait of a "
                     "resolver is compared with the model's per-stage watched-outpoint level after every reload; an outpoint a "
                     "resolver is parked on at quiescence must exist on chain. 23 scenarios incl. taproot two-stage HTLCs."),
            ("note", "Taproot is resolver-level only; the channel type stays non-taproot."),
            ("technique", "+ outpoint-/txid-/script-faithful UTXO chain with a re-signing aggregating sweeper")],
    "C16": [("text", "Both backends hand back every registered attempt (route, records, blinded data) unchanged and admit a "
                     "further shard exactly when it is consistent with the stored in-flight shards (C16_shard_admission: "
                     "sound and complete); enumerated route-shape universe (incl. the hop that is both introduction node and "
                     "final hop) each with a directed multi-shard history; stored = registered checked field by field per "
                     "backend in every answer incl. QueryPayments. Known finding C16-F4 (custom record key >= 2^63 refused "
                     "by SQL only)."),
            ("technique", "+ enumerated route shapes x directed multi-shard history with a field-wise readback predicate")],
    "C17": [("text", "Entry of the legacy negotiation: the four ChanCloser calls with the cachedClosingSigned slot are "
                     "modelled over an arbitrary negotiation core; proved by exhaustive in-Coq exploration that from every "
                     "reachable pre-negotiation state every interleaving of shutdowns (either/both sides), flush reports and "
                     "the first closing_signed (parked or not) reaches the canonical start or its one-delivery successor "
                     "(C17_entry_park_commutes, C17_entry_confluent), hence terminates within n+4 messages on a doubly-signed "
                     "fee (C17_entry_terminates); all 27 orderings x channel types run on real ChanClosers."),
            ("note", "RBF early-event orderings: scripted list plus random interleavings, no commutation theorem; "
                     "C17_entry_terminates is stated for non-taproot."),
            ("technique", "+ exhaustive ordering enumeration of the negotiation entry (in Coq and on the real closers)")],
}
for _pid, _items in _ADD6.items():
    for _field, _txt in _items:
        CLAIMED[_pid][_field] += " " + _txt

_ADD7 = {
    "C07": [("text", "The restart clauses are checked with real channeldb records of every channel-identity kind (regular, "
                     "zero-conf unconfirmed/confirmed/reorged, option-scid-alias, pending, closed): keystones are keyed by "
                     "the id the link uses (ShortChanID(), the alias for zero-conf channels) and the restart must roll back or "
                     "keep exactly those (C07_restart_identity)."),
            ("note", "The switch stage still uses regular channels only (alias channels in the three-hop fixture would "
                     "need the alias manager)."),
            ("technique", "+ channel-identity enumeration over real OpenChannel records with a ground-truth predicate on "
                          "which HTLCs were signed")],
    "C15": [("text", "Enumerated `mixed` stream: ten scripted prefixes bring an invoice of every kind to the richest legal "
                     "mix of HTLC states (canceled + accepted + settled) and then every registry entry point is invoked "
                     "(fresh/partial HTLC, replay of the canceled HTLC, SettleHodlInvoice, CancelInvoice +-force, all "
                     "timers, restart), both stores."),
            ("technique", "+ mixed-state HTLC maps x every entry point, enumerated")],
    "C18": [("text", "For inputs of every kind (unconfirmed parents/CPFP, required outputs/locktimes, six witness weight "
                     "classes, dust values, wallet top-ups), measured on the serialized published transaction "
                     "(GetTransactionWeight; fee = inputs - outputs): C18_cpfp_publisher_fee, C18_fee_with_parent_clamped, "
                     "C18_fee_with_parent_unclamped_refuted; weightEstimator tied directly (CWest)."),
            ("note", "Taproot script-path and HTLC witness types are not signed by the fakes, so those weight classes are "
                     "not generated."),
            ("technique", "+ real-size witnesses and on-transaction fee/rate clauses")],
    "C19": [("text", "BOLT11 route hints and blinded paths enter through lnd's own entry points (newPaymentSession / "
                     "RouteHintsToEdges / ToRouteHints, paymentSession.RequestRoute with only its pathFinder wrapped around "
                     "the real findPath); routes are judged from the user-level hop hints, and the derived edges are tied to "
                     "the Gallina mirror hint_edges (subcheck 14). Known findings C19-F1..F5."),
            ("note", "routerrpc.parseQueryRoutesRequest is not driven (it calls the same conversion functions).")],
}
for _pid, _items in _ADD7.items():
    for _field, _txt in _items:
        CLAIMED[_pid][_field] += " " + _txt

_ADD8 = {
    "C09": [("text", "And the policy a link enforces is, field by field, the advertised one on every path that (re)builds "
                     "it: updatechanpolicy (the real localchans.Manager.UpdatePolicy -> switch -> link; partial updates, "
                     "several channels, rejected schemas; enumerated field x raise/lower x targeting histories) and link "
                     "creation from our own graph edge at start-up/reconnect (the real peer.loadActiveChannels/addLink); "
                     "boundary HTLCs are judged against the ADVERTISED values by the python oracle and the Coq model."),
            ("note", "Link-creation stage scaffolding: an empty ChainArbitrator gets one blank watcher set by reflection; "
                     "the fixture's random channel reserve is replaced by 1000 sat."),
            ("technique", "+ policy-provenance comparison (advertised vs handed vs installed) on the real Manager, "
                          "switch, link and peer")],
}
for _pid, _items in _ADD8.items():
    for _field, _txt in _items:
        CLAIMED[_pid][_field] += " " + _txt

_ADD9 = {
    "C13": [("text", "Second stage (nursery): the real UtxoNursery on the real NurseryStore behind a stop-the-world wrapper, "
                     "stops after every store transaction and after every block x blocks mined while down x notification "
                     "order; every committed store transaction must change the decoded buckets exactly like the Coq store "
                     "model; proved for all histories: PreschoolToKinder never files an output under a height already "
                     "graduated (C13_nursery_pscl_class_after_best) and every kindergarten output whose class the nursery has "
                     "reached has been offered (C13_nursery_pscl_offered). Refuted for late crib promotions "
                     "(C13_nursery_crib_late_registration_refuted = known finding C13-F4)."),
            ("note", "This lnd version does not hand commitment outputs to the nursery; the nursery's terminal outcome is "
                     "removal of the channel from the nursery store."),
            ("technique", "+ nursery-store bucket-placement correspondence and height-graduation invariant")],
}
for _pid, _items in _ADD9.items():
    for _field, _txt in _items:
        CLAIMED[_pid][_field] += " " + _txt

_ADD10 = {
    "C06": [("text", "The channel DBs of the release-rule stage are opened with seeded option modifiers "
                     "(store-final-htlc-resolutions, no-rev-log-amt-data, tombstones, test clock; all 16 combinations).")],
    "C02": [("text", "Channel DBs are opened with seeded option modifiers (store-final-htlc-resolutions, "
                     "no-rev-log-amt-data, tombstones, test clock).")],
    "C11": [("text", "Handshake against an independent oracle: a pure-python BOLT-8 reference (secp256k1 ECDH, HKDF, "
                     "ChaCha20-Poly1305 nonce encoding; self-tested on the BOLT-8 vectors every run) recomputes acts, "
                     "(h, ck, temp key) after every step, final keys and first frames from the four private keys, with each "
                     "side's static key served by a different SingleKeyECDH implementation (PrivKeyECDH / PubKeyECDH / "
                     "harness ECDH) and shared points key-searched to start with a zero byte."),
            ("note", "ECDH, HKDF and AEAD concreteness is tested against the python reference, not proved (the Coq model "
                     "is symbolic in the crypto)."),
            ("technique", "+ independent pure-python BOLT-8 oracle over mixed ECDH implementations")],
    "C14": [("text", "Backend-facing catch-up layer: chainntnfs.HandleMissedBlocks / GetCommonBlockAncestorHeight / "
                     "RewindChain driven through an in-memory ChainConn with intermediate notifications dropped over an "
                     "enumerated family of 474 fork histories; the real catch-up must equal the canonical in-order sequence "
                     "(disconnects to the common ancestor, connects to the new tip) fed to the model."),
            ("note", "Catch-up gaps: backendStoresReorgs = false, a new chain shorter than the notifier's best height "
                     "(error by design), GetClientMissedBlocks (block-epoch clients), the notifier-specific glue after "
                     "HandleMissedBlocks (re-implemented by the driver)."),
            ("technique", "+ catch-up = canonical sequence refinement check on enumerated fork histories")],
}
for _pid, _items in _ADD10.items():
    for _field, _txt in _items:
        CLAIMED[_pid][_field] += " " + _txt
