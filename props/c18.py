"""C18 — sweeps never pay fees beyond their budget and ramp up to it by the deadline."""
from lib.verif import *

THEOREMS = [
    "C18_cap", "C18_monotone", "C18_reaches_ceiling", "C18_floor",
    "C18_budget", "C18_published_trace_ok", "C18_start_clamped",
    "C18_estimated_start_clamped", "C18_float_scalings_monotone", "C18_topup",
    "C18_set_start_max", "C18_retry_start_floor", "C18_retry_monotone",
    "C18_retry_monotone_refuted", "C18_cpfp_publisher_fee", "C18_fee_with_parent_clamped",
    "C18_fee_with_parent_unclamped_refuted",
]
MODULE = "LV.Sweep.Props"
TARGETS = ["theories/Sweep/Props.vo", "theories/Sweep/Exec.vo", "theories/Sweep/Examples.vo",
           "theories/Sweep/GenBridge.vo"]
HARNESS = ["sweep/verif_fee_test.go", "sweep/verif_sweeper_test.go"]
WARM = [{"pkg": "sweep", "files": HARNESS}]
IMPORTS = ("From Coq Require Import List ZArith.\nImport ListNotations.\n"
           "From LV Require Import Sweep.Model Sweep.Exec.\n")



# ---------------------------------------------------------------- Coq terms

def z(n):
    n = int(n)
    return str(n) if n >= 0 else "(%d)" % n


def zopt(x):
    return "None" if x is None else "(Some %s)" % z(x)


def zl(xs):
    return "[" + "; ".join(z(x) for x in (xs or [])) + "]"


def b(x):
    return "true" if x else "false"


def ins_term(ins):
    return "[" + "; ".join("mkInp %d %s %s" % (i, z(v["v"]), zopt(v["r"]))
                           for i, v in enumerate(ins)) + "]"


def otx(t):
    return "(mkO %s %s)" % (zl(t["ins"]), zl(t["outs"]))


def otx_opt(ts):
    return "None" if not ts else "(Some %s)" % otx(ts[0])


def case_term(c):
    k = c["kind"]
    if k == "rate":
        return "CRate %s %s %s %s [%s]" % (
            z(c["start"]), z(c["end"]), z(c["width"]), z(c["delta"]),
            "; ".join("(%s, %s)" % (z(p), z(r)) for p, r in c["obs"]))
    if k == "nspk":
        return "CNspk %s %s %s" % (z(c["budget"]), z(c["size"]), z(c["rate"]))
    if k == "ff":
        i = c["init"]
        ops = []
        for o in c["ops"]:
            if o[0] == "inc":
                ops.append("OInc %s %s %s %s" % (b(o[1]), z(o[2]), z(o[3]), z(o[4])))
            else:
                ops.append("OConf %s %s %s %s %s" % (z(o[1]), b(o[2]), z(o[3]), z(o[4]), z(o[5])))
        return "CFF %s %s %s %s %s %s %s %s %s [%s]" % (
            z(c["maxr"]), z(c["conf"]), z(c["relay"]), zopt(c["ans"]), zopt(c["start"]),
            z(i["err"]), z(i.get("rate", 0)), z(i.get("delta", 0)), z(i.get("width", 0)),
            "; ".join(ops))
    if k == "tx":
        v = (c["verdicts"] or [0])[0]
        has = "tx" in c
        return "CTx %s %s %s %s %s %s %s %s %s %s" % (
            ins_term(c["ins"]), z(c["weight"]), z(c["rate"]), z(c["floor"]), z(c["budget"]),
            z(v), z(c["err"]), b(has), z(c.get("fee", 0)),
            otx(c["tx"]) if has else "(mkO [] [])")
    if k == "set":
        def bl(l):
            return "[" + "; ".join("mkB %s %s %s" % (z(i["v"]), z(i["b"]), b(i["r"])) for i in l) + "]"
        return "CSet %s %s %s %s %s %s %s" % (
            bl(c["ins"]), zl(sorted(c["utxos"] or [])), b(c["need0"]), z(c["err"]),
            bl(c["after"]), b(c["need1"]), z(c["budget"]))
    if k == "pub":
        e0 = c["events"][0]
        # a tx was handed to PublishTransaction (whatever the wallet answered)
        published = bool(e0.get("published"))
        ierr = 0 if published else e0.get("reserr", 0)
        evs = []
        for e in c["events"][1:]:
            evs.append("mkEv %s %s %s %s %s %s %s" % (
                z(e["h"]), zl(e["verdicts"]), otx_opt(e["published"]), b(e["alive"]),
                z(e.get("rate", 0)), z(e.get("pos", 0)), z(e.get("recfee", 0))))
        return "CPub %s %s %s %s %s %s %s %s %s %s %s %s %s %s %s %s [%s]" % (
            ins_term(c["ins"]), z(c["weight"]), z(c["floor"]), z(c["budget"]), z(c["maxrate"]),
            z(c["h0"]), z(c["deadline"]), z(c["relay"]), zopt(c["ans"]), zopt(c["start"]),
            zl(e0["verdicts"]), z(ierr), otx_opt(e0["published"]),
            z(e0.get("rate", 0)), z(e0.get("pos", 0)), z(e0.get("recfee", 0)),
            "; ".join(evs))
    if k == "west":
        return "CWest %s %s %s [%s] %s %s %s %s" % (
            z(c["rate"]), z(c["maxr"]), z(c["weight"]),
            "; ".join("None" if p is None else "(Some (mkPar %s %s %s))" % (z(p[0]), z(p[1]), z(p[2]))
                      for p in c["parents"]),
            z(c["fee"]), z(c["feewp"]), z(c["pfee"]), z(c["pweight"]))
    if k == "sw":
        reqs, fails = sw_terms(c)
        return "CSw [%s] [%s]" % (
            "; ".join("([%s], %s)" % ("; ".join(zopt(x) for x in st), zopt(o)) for st, o in reqs),
            "; ".join("(%s, %s)" % (z(r), zopt(o)) for r, o in fails))
    raise ValueError(k)


def sw_terms(c):
    """(requests, failures) of a composed history for the model comparison:
    per BumpRequest the starting rates stored on its inputs and the request's
    StartingFeeRate; per input whose LAST bump result in a block was TxFailed
    the result's fee rate and the starting rate stored on the input after it."""
    reqs, fails = [], []
    req_ins = {}
    for b in c["blocks"]:
        for q in b["reqs"] or []:
            reqs.append((q["in_starts"], q["start"]))
            req_ins[q["id"]] = q["ins"]
        last = {}
        for r in b["results"] or []:
            for i in req_ins.get(r["id"], []):
                if i >= 0:
                    last[i] = r
        # a later request of the same block overrides the picture: skip those
        later = {}
        for q in b["reqs"] or []:
            for i in q["ins"]:
                later[i] = q["id"]
        stored = {x["i"]: x["start"] for x in b["inputs"] or []}
        for i, r in sorted(last.items()):
            if r["event"] == "Failed" and later.get(i, -1) <= r["id"] and i in stored:
                fails.append((r["rate"], stored[i]))
    return reqs, fails


# ------------------------------------------- predicates on the impl's trace

def go_mulf64_1000_over(a, w):
    """btcutil.Amount(a).MulF64(1000/float64(w)) with IEEE doubles (python
    floats are binary64, round-to-nearest-even: an independent evaluation)."""
    f = float(a) * (1000.0 / float(w))
    return int(f - 0.5) if f < 0 else int(f + 0.5)


def pred_ff(c):
    """Returns the list of failures.  Evaluated on the implementation's
    observations only.  Since lnd commit 1567bc7 (start capped at the ceiling)
    there is no excused input class: any rate above the ceiling and any
    decrease is a violation, whatever start was supplied."""
    fails = []
    i = c["init"]
    if i["err"] != 0:
        return fails
    maxr, start = c["maxr"], i["rate"]
    if start > maxr:
        fails.append("initial rate %d above ceiling %d" % (start, maxr))
    if c["start"] is not None and c["conf"] > 1 and start != min(c["start"], maxr):
        fails.append("supplied start %d, ceiling %d, but initial rate %d" % (c["start"], maxr, start))
    # floor: estimator path, floor applies when floor <= ceiling
    if c["start"] is None and c["conf"] > 1 and c["relay"] <= maxr and start < c["relay"]:
        fails.append("start %d below relay floor %d" % (start, c["relay"]))
    prev = start
    reached = False
    for k, o in enumerate(c["ops"]):
        rate = o[3] if o[0] == "inc" else o[4]
        inc = o[1] if o[0] == "inc" else o[2]
        if rate > maxr:
            fails.append("op %d: rate %d above ceiling %d" % (k, rate, maxr))
        if rate < prev:
            fails.append("op %d: rate decreased %d -> %d" % (k, prev, rate))
        if inc != (rate > prev):
            fails.append("op %d: increased flag %s but %d -> %d" % (k, inc, prev, rate))
        if o[0] == "conf" and o[1] <= 1:
            reached = True
        if reached and rate != maxr:
            fails.append("op %d: conf target <= 1 seen but rate %d != ceiling %d" % (k, rate, maxr))
        prev = rate
    if c["conf"] <= 1 and start != maxr:
        fails.append("conf target <= 1 but starts at %d != ceiling %d" % (start, maxr))
    return fails


def pred_rate(c):
    fails = []
    obs = sorted(c["obs"])
    prev = None
    for p, r in obs:
        if r > c["end"]:
            fails.append("rate(%d)=%d above end %d" % (p, r, c["end"]))
        if p >= c["width"] and r != c["end"]:
            fails.append("rate(%d)=%d != end at p>=width" % (p, r))
        if prev is not None and r < prev[1]:
            fails.append("rate(%d)=%d < rate(%d)=%d" % (p, r, prev[0], prev[1]))
        prev = (p, r)
    return fails


# what lnd's weight estimator adds on top of the serialized size of a fully
# signed input (its size constants are upper bounds): a 73-byte signature slot
# where a low-S DER signature + sighash byte has 72, the 65-byte taproot slot
# for a 64-byte SIGHASH_DEFAULT signature, and the nested-P2WSH sized sigScript
# (35 bytes) it reserves for a nested P2WKH input (23 bytes)
WEIGHT_SLACK = {"WitnessKeyHash": 0, "NestedWitnessKeyHash": 48}


def tx_weight_bound(view, ins, floor):
    """Upper bound of the weight the sweep tx can have, computed from the
    SERIALIZED transaction (blockchain.GetTransactionWeight) plus the known
    per-input slack of the size constants, plus the change output when the tx
    has none (the estimate always reserves one).  Independent of lnd's
    estimator: this is what the fee must have been computed on."""
    if "txw" not in view:
        return None
    w = view["txw"]
    for i in view["ins"]:
        if 0 <= i < len(ins):
            w += WEIGHT_SLACK.get(ins[i].get("wt"), 1)
    nreq = sum(1 for i in view["ins"] if 0 <= i < len(ins) and ins[i]["r"] is not None)
    if len(view["outs"]) == nreq:
        w += 172 if floor == 330 else 124      # p2tr / p2wkh change output
    return w


def check_tx(view, ins, floor, what, rate=None, weight=None):
    """A tx (ins idx list, outs) against the request: all inputs spent once,
    required outputs present, optional change >= dust; and - measured on the
    published transaction itself - the fee it really pays (real input values
    minus outputs) is the fee of the offered rate on the real tx weight, whatever
    attributes (unconfirmed parent, locktime, witness type ...) its inputs have.
    Returns (fails, fee)."""
    fails = []
    n = len(ins)
    if sorted(view["ins"]) != list(range(n)):
        fails.append("%s: spends inputs %s, asked %s" % (what, view["ins"], list(range(n))))
    req = [v["r"] for i in view["ins"] if 0 <= i < n for v in [ins[i]] if v["r"] is not None]
    outs = view["outs"]
    if outs[:len(req)] != req:
        fails.append("%s: required outputs %s not reproduced in %s" % (what, req, outs))
    rest = outs[len(req):]
    if len(rest) > 1:
        fails.append("%s: more than one change output %s" % (what, rest))
    for o in rest:
        if o < floor:
            fails.append("%s: change output %d below dust %d" % (what, o, floor))
    if not outs:
        fails.append("%s: tx without outputs" % what)
    fee = sum(v["v"] for v in ins) - sum(outs)
    if "txfee" in view and view["txfee"] != fee and sorted(view["ins"]) == list(range(n)):
        fails.append("%s: tx pays %d but in-out of the request is %d" % (what, view["txfee"], fee))
    wb = tx_weight_bound(view, ins, floor)
    if wb is not None:
        if weight is not None and weight != wb:
            fails.append("%s: fee computed on weight %d but the serialized tx weighs %d (+slack = %d)"
                         % (what, weight, view["txw"], wb))
        if rate is not None:
            # actual fee vs the fee of the offered rate on the real weight: equal, or
            # larger by a below-dust change that went to the fee
            want = rate * wb // 1000
            extra = fee - want
            if extra < 0 or (rest and extra != 0) or (not rest and extra >= floor):
                fails.append("%s: offered rate %d sat/kw on %d wu is %d sat but the tx really pays %d "
                             "(actual %d sat/kw)" % (what, rate, wb, want, fee,
                                                     fee * 1000 // max(1, view["txw"])))
        locks = sorted({ins[i]["lock"] for i in view["ins"] if 0 <= i < n and ins[i].get("lock") is not None})
        if len(locks) == 1 and view.get("locktime") != locks[0]:
            fails.append("%s: inputs require locktime %d, tx has %s" % (what, locks[0], view.get("locktime")))
    return fails, fee


def pred_tx(c):
    fails = []
    if c["err"] == 0:
        f, fee = check_tx(c["tx"], c["ins"], c["floor"], "accepted tx", c["rate"], c["weight"])
        fails += f
        if fee > c["budget"]:
            fails.append("accepted tx pays fee %d > budget %d" % (fee, c["budget"]))
        if fee != c["fee"]:
            fails.append("reported fee %d != actual in-out %d" % (c["fee"], fee))
        if fee < 0:
            fails.append("negative fee %d" % fee)
    return fails


def pred_west(c):
    """weightEstimator: fee() is the rate on the child's weight whatever the
    parents; feeWithParent() is at least that and, with a max fee rate, at
    most the max rate on the child's weight; parents paying at least the
    sweep's rate (and repeated parent txs) are not counted."""
    fails = []
    rate, maxr, w = c["rate"], c["maxr"], c["weight"]
    if c["fee"] != rate * w // 1000:
        fails.append("fee() %d != rate %d * weight %d / 1000" % (c["fee"], rate, w))
    cap = maxr * w // 1000
    if maxr != 0 and c["feewp"] > cap:
        fails.append("feeWithParent() %d > max fee rate %d * weight %d / 1000" % (c["feewp"], maxr, w))
    if c["feewp"] < min(c["fee"], cap if maxr != 0 else c["fee"]):
        fails.append("feeWithParent() %d below the child's fee %d" % (c["feewp"], c["fee"]))
    seen, pf, pw = set(), 0, 0
    for p in c["parents"]:
        if p is None or p[0] in seen:
            continue
        if p[1] * 1000 // p[2] >= rate:
            continue
        seen.add(p[0])
        pf += p[1]
        pw += p[2]
    if (pf, pw) != (c["pfee"], c["pweight"]):
        fails.append("parents counted (fee %d, weight %d), expected (%d, %d)" % (c["pfee"], c["pweight"], pf, pw))
    return fails


def pred_set(c):
    """BudgetInputSet: the requested inputs stay (as a prefix), wallet top-ups
    carry no budget, Budget() is the sum of the input budgets, and when the set
    no longer needs wallet inputs its budget is covered by spendable value."""
    fails = []
    ins, after = c["ins"], c["after"]
    if after[:len(ins)] != ins:
        fails.append("requested inputs not kept: %s -> %s" % (ins, after))
    for a in after[len(ins):]:
        if a["b"] != 0 or a["r"]:
            fails.append("wallet input with budget/required output: %s" % a)
    if c["budget"] != sum(i["b"] for i in ins):
        fails.append("Budget() %d != sum of input budgets %d" % (c["budget"], sum(i["b"] for i in ins)))
    if not c["need1"]:
        sp = sum(a["v"] for a in after if not a["r"])
        if sp < c["budget"]:
            fails.append("no wallet input needed but spendable %d < budget %d" % (sp, c["budget"]))
    added = sorted(a["v"] for a in after[len(ins):])
    if added != sorted(c["utxos"] or [])[:len(added)]:
        fails.append("wallet utxos not taken smallest-first: %s of %s" % (added, c["utxos"]))
    return fails


def pred_pub(c):
    """Returns the list of failures (no excused input class, see pred_ff).
    Rows come from vPubCase (the TxPublisher driven directly) and from the
    composed sweeper histories ("via": "sweeper": every BumpRequest the real
    UtxoSweeper made).  Every tx handed to PublishTransaction is checked at the
    fee function rate in force at that moment."""
    fails = []
    budget, maxrate, relay = c["budget"], c["maxrate"], c["relay"]
    ceiling = min(go_mulf64_1000_over(budget, c["weight"]), maxrate)
    start_sup = c["start"]
    conf0 = max(0, c["deadline"] - c["h0"])
    # the relay floor binds the estimator path and every caller that supplies a
    # start >= floor; the composed generator only offers None / 0 / >= floor, so
    # whatever the sweeper derives from them must respect the floor
    floor_applies = bool(c.get("floor_applies")) or start_sup is None or start_sup >= relay
    prev_rate = None
    prev_fee = None
    tin = sum(v["v"] for v in c["ins"])
    treq = sum(v["r"] for v in c["ins"] if v["r"] is not None)
    for k, e in enumerate(c["events"]):
        if e.get("reserr") == 7:
            # ErrNotEnoughBudget is only legitimate when a fee the ramp can ask for (at most
            # the ceiling's, or everything when the change would be dust) exceeds the budget
            fc = ceiling * c["weight"] // 1000
            worst = tin - treq if tin - treq - fc < c["floor"] else fc
            if max(fc, worst) <= budget:
                fails.append("event %d: sweep failed with ErrNotEnoughBudget although the fee at the "
                             "ceiling %d sat/kw is %d <= budget %d (never reaches the ceiling)"
                             % (k, ceiling, max(fc, worst), budget))
        for t in (e["published"] or []):
            rate = t.get("rate", e.get("rate") if e.get("alive") else None)
            f, fee = check_tx(t, c["ins"], c["floor"], "event %d published tx" % k, rate, c["weight"])
            fails += f
            if fee > budget:
                fails.append("event %d: published tx pays fee %d > budget %d" % (k, fee, budget))
            wb = tx_weight_bound(t, c["ins"], c["floor"])
            if wb is not None:
                # on the transaction itself: actual fee rate <= MaxFeeRate (one weight unit of
                # rounding; a below-dust change may have been added to the fee)
                nreq = sum(1 for v in c["ins"] if v["r"] is not None)
                slack = 1 + (c["floor"] - 1 if len(t["outs"]) == nreq else 0)
                if fee > maxrate * (wb + 1) // 1000 + slack:
                    fails.append("event %d: published tx really pays %d sat on %d wu = %d sat/kw > MaxFeeRate %d"
                                 % (k, fee, t["txw"], fee * 1000 // max(1, t["txw"]), maxrate))
                if prev_fee is not None and fee < prev_fee:
                    fails.append("event %d: actual fee decreased %d -> %d" % (k, prev_fee, fee))
                prev_fee = fee
            if rate is None:
                continue
            if rate > maxrate:
                fails.append("event %d: published at rate %d > MaxFeeRate %d" % (k, rate, maxrate))
            if rate > ceiling:
                fails.append("event %d: published at rate %d > ceiling %d" % (k, rate, ceiling))
            if prev_rate is not None and rate < prev_rate:
                fails.append("event %d: published rate decreased %d -> %d" % (k, prev_rate, rate))
            prev_rate = rate
            recfee = t.get("recfee", e.get("recfee") if e.get("alive") else None)
            if recfee is not None and recfee != fee:
                fails.append("event %d: recorded fee %s != in-out %d" % (k, recfee, fee))
            if floor_applies and relay <= ceiling:
                if rate < relay:
                    fails.append("event %d: published at rate %d below relay floor %d (ceiling %d)"
                                 % (k, rate, relay, ceiling))
                elif fee < relay * c["weight"] // 1000:
                    fails.append("event %d: published fee %d below relay-floor fee %d"
                                 % (k, fee, relay * c["weight"] // 1000))
        if "rate" in e and "end" in e:
            if e["end"] != ceiling:
                fails.append("event %d: fee function ceiling %d != min(budget/size, MaxFeeRate) = %d"
                             % (k, e["end"], ceiling))
            if e.get("alive") and e["h"] >= c["deadline"] - 1 and e["rate"] != e["end"]:
                fails.append("event %d: height %d >= deadline-1 but rate %d != ceiling %d"
                             % (k, e["h"], e["rate"], e["end"]))
            if k == 0 and e.get("alive") and start_sup is None and relay <= ceiling and conf0 > 1 \
                    and e["rate"] < relay:
                fails.append("initial rate %d below relay floor %d" % (e["rate"], relay))
        if "fstart" in e:
            fs = e["fstart"]
            if floor_applies and relay <= ceiling and fs < relay:
                fails.append("event %d: fee function starts at %d below relay floor %d (ceiling %d)"
                             % (k, fs, relay, ceiling))
            if k == 0 and start_sup is None and conf0 > 1:
                # no explicit start: at least what the estimator says (capped)
                want = None
                if conf0 >= 1008:
                    want = min(relay, ceiling)
                elif c["ans"] is not None and c["ans"] >= relay:
                    want = min(c["ans"], ceiling)
                if want is not None and fs < want:
                    fails.append("no starting rate supplied, estimator says %s, ceiling %d, but the fee "
                                 "function starts at %d" % (c["ans"], ceiling, fs))
    return fails


def pred_sw(c, pubs):
    """Composed history (real UtxoSweeper + aggregator + input set + publisher):
    clauses that span several BumpRequests.  `pubs` = the pub rows of the same
    scenario by request id."""
    fails = []
    sc = c["scenario"]
    offers = sc["offers"]
    hs = [b["h"] for b in c["blocks"]]
    last_res = {}      # input -> last bump result of a request containing it
    last_pub = {}      # input -> rate of the last tx handed to PublishTransaction with it
    last_req = {}      # input -> previous request containing it
    req_ins = {}
    for b in c["blocks"]:
        ev = [("q", q["id"], q) for q in b["reqs"] or []] + [("r", r["id"] + 0.5, r) for r in b["results"] or []]
        for kind, _, x in sorted(ev, key=lambda t: t[1]):
            if kind == "q":
                q = x
                ins = [i for i in q["ins"] if i >= 0]
                req_ins[q["id"]] = ins
                want = sum(offers[i]["budget"] for i in ins)
                if q["budget"] != want:
                    fails.append("request %d: budget %d != budgets attached to its inputs %d"
                                 % (q["id"], q["budget"], want))
                if q["maxrate"] != sc["maxvb"] * 250:
                    fails.append("request %d: MaxFeeRate %d != configured %d"
                                 % (q["id"], q["maxrate"], sc["maxvb"] * 250))
                for i in ins:
                    dl = offers[i]["deadline"]
                    if dl is None:
                        # calculateDefaultDeadline: current height, or the locktime of a
                        # not yet mature input, + NoDeadlineConfTarget
                        h_off = hs[offers[i]["at"]]
                        lk = offers[i].get("lock")
                        dl = (lk if lk is not None and h_off < lk else h_off) + 1008
                    if dl != q["deadline"]:
                        fails.append("request %d: deadline %d but input %d has deadline %d"
                                     % (q["id"], q["deadline"], i, dl))
                    r = last_res.get(i)
                    if r and r["event"] == "Failed" and r["rate"] > 0 and \
                            (q["start"] is None or q["start"] < r["rate"]):
                        fails.append("request %d retries input %d, whose last attempt failed at %d sat/kw, "
                                     "from starting rate %s (offered rate decreases)"
                                     % (q["id"], i, r["rate"], q["start"]))
                # first tx of this request vs the last tx published with the same inputs
                p = pubs.get(q["id"])
                if p:
                    ceiling = min(go_mulf64_1000_over(p["budget"], p["weight"]), p["maxrate"])
                    first = None
                    for e in p["events"]:
                        for t in e["published"] or []:
                            if first is None and "rate" in t:
                                first = t["rate"]
                    if first is not None:
                        for i in ins:
                            if i in last_pub and first < min(last_pub[i], ceiling):
                                # KNOWN finding C18-F2, and only this mechanism: the input's last
                                # bump result is a TxFailed issued before a tx existed
                                # (ErrZeroFeeRateDelta / ErrTxNoOutput, FeeRate 0), the failed request
                                # had been built from a POSITIVE stored rate for this input, and that
                                # failure overwrote it with 0 (so this request restarts from the
                                # estimator).  Any other decrease keeps the generic tag.
                                r = last_res.get(i)
                                pq = last_req.get(i)
                                k = q["ins"].index(i)
                                overwritten = bool(
                                    r and pq and r["id"] == pq["id"]
                                    and r["event"] == "Failed" and r["rate"] == 0 and not r["has_tx"]
                                    and r["err"] in (2, 6)
                                    and (pq["in_starts"][pq["ins"].index(i)] or 0) > 0
                                    and q["in_starts"][k] == 0
                                    and (q["start"] is None or
                                         q["start"] < pq["in_starts"][pq["ins"].index(i)]))
                                tag = "restart-after-no-tx-failure" if overwritten else "rate-decrease-on-retry"
                                fails.append("[%s] request %d publishes input %d at %d sat/kw, below the %d "
                                             "it was last published at (new ceiling %d)"
                                             % (tag, q["id"], i, first, last_pub[i], ceiling))
                    for e in p["events"]:
                        for t in e["published"] or []:
                            if "rate" in t:
                                for i in ins:
                                    last_pub[i] = t["rate"]
                for i in ins:
                    last_req[i] = q
            else:
                for i in req_ins.get(x["id"], []):
                    last_res[i] = x
                if x.get("invalid"):
                    fails.append("publisher sent an invalid BumpResult for request %d" % x["id"])
    return fails


def run(ctx):
    pr = ctx.proof_stage(MODULE, THEOREMS, TARGETS, extra_trusted=[
        "float64 = Flocq binary_float 53 1024 (BinarySingleNaN), mode_NE; Go's float64->int64 "
        "conversion modelled as truncation (exact inside int64, generator stays inside)",
        "estimator answers, relay fee, mempool verdicts, tx weight (real weight estimator) and the "
        "dust limit (real DustLimitForSize) are inputs of the model: theorems hold for any values",
        "TxPublisher goroutines/records bookkeeping are exercised by the harness, not modelled"])
    cases_env = {}
    replay_case = None
    if ctx.replay:
        # re-run exactly the recorded case on the current tree: cases are a
        # function of (seed, tier, case index)
        rp = json.load(open(ctx.replay))
        replay_case = rp.get("detail", {}).get("case", {}).get("case")
        cases_env = {"VERIF_SEED": rp.get("seed", ctx.seed), "VERIF_TIER": rp.get("tier", ctx.tier)}
        ctx.note("replaying case %s of seed %s tier %s" % (replay_case, cases_env["VERIF_SEED"],
                                                            cases_env["VERIF_TIER"]))
    rc, trace, out = run_harness(ctx.uid(), "sweep", HARNESS,
                                 "^TestVerifFee$", env=cases_env, timeout=1500)
    rows = read_jsonl(trace)
    if replay_case is not None:
        rows = [c for c in rows if c.get("case") == replay_case]
    if rc != 0 or not rows:
        ctx.violation("harness_failed", "TestVerifFee", {"log": out[-4000:]},
                      signature="harness", failing_input=False)
        return

    # ---- property predicate on the implementation's own trace ----
    nviol = 0
    pred_fail_idx = set()
    known_rows = set()
    sw_by_case = {c["case"]: c for c in rows if c["kind"] == "sw"}
    pubs_by_case = {}
    for c in rows:
        if c["kind"] == "pub" and c.get("via") == "sweeper":
            pubs_by_case.setdefault(c["case"], {})[c["req"]] = c
    for idx, c in enumerate(rows):
        k = c["kind"]
        if k == "ff":
            fails = pred_ff(c)
            thm = "C18_monotone/C18_cap/C18_reaches_ceiling/C18_floor/C18_start_clamped"
        elif k == "rate":
            fails = pred_rate(c)
            thm = "C18_monotone/C18_cap"
        elif k == "tx":
            fails = pred_tx(c)
            thm = "C18_budget"
        elif k == "pub":
            fails = pred_pub(c)
            thm = "C18_published_trace_ok"
        elif k == "set":
            fails = pred_set(c)
            thm = "C18_topup"
        elif k == "west":
            fails = pred_west(c)
            thm = "C18_cpfp_publisher_fee/C18_fee_with_parent_clamped"
        elif k == "sw":
            fails = pred_sw(c, pubs_by_case.get(c["case"], {}))
            thm = "C18_retry_start_floor/C18_set_start_max"
        else:
            fails = []
        if k == "pub" and c.get("via") == "sweeper":
            thm = "C18_published_trace_ok/C18_retry_start_floor"
        if not fails:
            continue
        pred_fail_idx.add(idx)
        detail = {"case": c, "fails": fails[:8]}
        if k == "pub" and c.get("via") == "sweeper":
            # the failing input is the whole history that led to this request
            detail["history"] = sw_by_case.get(c["case"])
        kname = "%s%s" % (k, "/sweeper" if c.get("via") else "")
        # messages carrying a [tag] have a stable signature of their own (one
        # violation per tag, so that a known finding never hides another failure
        # of the same row); the rest is reported under the first message
        tagged, plain = {}, []
        for m in fails:
            if m.startswith("["):
                tagged.setdefault(m[1:m.index("]")], []).append(m)
            else:
                plain.append(m)
        before = len(ctx.violations)
        all_known = not plain
        if plain and nviol < 4:
            ctx.violation("impl_violates_predicate", thm, detail,
                          signature="sweep kind=%s %s" % (kname, plain[0]))
        for tag, msgs in tagged.items():
            sig = "sweep kind=%s C18 %s" % (kname, tag)
            is_known = any(kf.get("status") == "known" and re.search(kf["match"], sig) for kf in ctx.known)
            all_known = all_known and is_known
            if is_known or nviol < 4:
                ctx.violation("impl_violates_predicate", thm, dict(detail, fails=msgs[:8]), signature=sig)
        if all_known:
            known_rows.add(idx)
        nviol += len(ctx.violations) - before

    # ---- correspondence ----
    terms = [case_term(c) for c in rows]
    ok, bad, logs = coq_mismatches(ctx.uid(), IMPORTS, terms, scope="Z_scope",
                                   shard=max(8, len(terms) // NCPU + 1))
    if not ok:
        ctx.violation("correspondence_mismatch", "Sweep.Exec (model evaluation failed)",
                      {"logs": logs}, signature="model-eval", failing_input=False)
    # composed histories: a predicate failure of any row of the scenario makes
    # the scenario (the "sw" row = the whole history) a concrete failing input
    pred_fail_cases = {rows[i]["case"] for i in pred_fail_idx if rows[i].get("via") or rows[i]["kind"] == "sw"}
    for ci, idxs in bad[:4]:
        c = rows[ci]
        ctx.violation("correspondence_mismatch", "Sweep.Exec.check_case",
                      {"case": c, "disagreeing_observations": idxs},
                      signature="sweep mismatch kind=%s" % c["kind"],
                      failing_input=(ci in pred_fail_idx or
                                     ((c.get("via") or c["kind"] == "sw") and c["case"] in pred_fail_cases)))
    if not pr["ok"] and not ctx.violations:
        ctx.violation("proof_broken", ", ".join(pr["broken"]) or "Sweep build",
                      {"log": pr["log"][-4000:]}, signature="proof", failing_input=False)

    if ctx.thorough:
        ctx.coqchk(["LV.Sweep.Props"])

    # ---- coverage ----
    kinds, ff_init, ops, txerr, pubev, conf_hist, sets = {}, {}, {}, {}, {}, {}, {}

    def bump(d, k):
        d[k] = d.get(k, 0) + 1

    def conf_class(cf):
        return ("<=1" if cf <= 1 else "2" if cf == 2 else "3-20" if cf <= 20 else
                "21-1007" if cf < 1008 else "1008+" if cf < 2 ** 31 else ">=2^31")
    nobs = 0
    nabove = 0
    sw_family, sw_backend, sw_results, sw_req_start, sw_in_start, sw_retry = {}, {}, {}, {}, {}, {}
    sw_first_fail, sw_pubs = {}, {"txs_handed_to_PublishTransaction": 0, "wallet_refused": 0,
                                  "testmempoolaccept_calls": 0}
    errname = {0: "ok", 1: "ErrMaxPosition", 2: "ErrZeroFeeRateDelta", 3: "estimator-error",
               4: "ErrFeePreferenceTooLow", 5: "ErrNotEnoughInputs", 6: "ErrTxNoOutput",
               7: "ErrNotEnoughBudget", 8: "mempool-other", 10: "publish-refused"}
    in_kinds = {}
    for c in rows:
        bump(kinds, c["kind"] + ("/sweeper" if c.get("via") else ""))
        if c["kind"] in ("pub", "tx"):
            for v in c["ins"]:
                bump(in_kinds, v.get("wt", "?"))
                if v.get("parent"):
                    bump(in_kinds, "with-unconfirmed-parent")
                if v.get("lock") is not None:
                    bump(in_kinds, "with-required-locktime")
                if v["r"] is not None:
                    bump(in_kinds, "with-required-output")
                if v["v"] < 330:
                    bump(in_kinds, "value-below-dust")
        if c["kind"] == "sw":
            sc = c["scenario"]
            bump(sw_family, sc["family"])
            bump(sw_backend, ["neutrino(no testmempoolaccept)", "old-btcd(ErrBackendVersion)",
                              "scripted-verdicts", "min-relay-enforcing"][sc["backend"]])
            seen, seen_sets, first = set(), [], True
            for b in c["blocks"]:
                for q in b["reqs"] or []:
                    ins = tuple(sorted(i for i in q["ins"] if i >= 0))
                    bump(sw_req_start, "None" if q["start"] is None else
                         "Some(0)" if q["start"] == 0 else "positive")
                    for st in q["in_starts"]:
                        bump(sw_in_start, "None" if st is None else "Some(0)" if st == 0 else "positive")
                    old = [i for i in ins if i in seen]
                    if old:
                        bump(sw_retry, "retry-same-set" if ins in seen_sets else "retry-reclustered")
                    else:
                        bump(sw_retry, "first-attempt")
                    seen.update(ins)
                    seen_sets.append(ins)
                for r in b["results"] or []:
                    kname = "%s/%s/%s" % (r["event"], errname.get(r["err"], "err%d" % r["err"]),
                                          "rate>0" if r["rate"] > 0 else "rate=0")
                    bump(sw_results, kname)
                    if first and r["event"] != "Published":
                        bump(sw_first_fail, kname)
                    first = False
            nobs += c["nreq"]
        if c["kind"] == "pub" and c.get("via"):
            for e in c["events"]:
                sw_pubs["txs_handed_to_PublishTransaction"] += len(e["published"] or [])
                sw_pubs["wallet_refused"] += sum(1 for t in e["published"] or [] if t.get("puberr"))
                sw_pubs["testmempoolaccept_calls"] += len(e["verdicts"] or [])
        if c["kind"] == "ff" and c["start"] is not None and c["start"] > c["maxr"] and c["conf"] > 1:
            nabove += 1
        if c["kind"] == "pub" and c.get("finding_gen"):
            nabove += 1
        if c["kind"] == "ff":
            bump(ff_init, "err%d" % c["init"]["err"])
            bump(conf_hist, conf_class(c["conf"]))
            for o in c["ops"]:
                e = o[2] if o[0] == "inc" else o[3]
                bump(ops, "%s:%s" % (o[0], "ok" if e == 0 else "err%d" % e))
            nobs += len(c["ops"]) + 1
        elif c["kind"] == "rate":
            nobs += len(c["obs"])
        elif c["kind"] == "tx":
            bump(txerr, "err%d" % c["err"])
            nobs += 1
        elif c["kind"] == "pub":
            for e in c["events"]:
                bump(pubev, e.get("event") or "none")
            nobs += len(c["events"])
        elif c["kind"] == "set":
            bump(sets, "no-need" if not c["need0"] else
                 "err%d" % c["err"] if c["err"] else
                 "satisfied+%d" % (len(c["after"]) - len(c["ins"])) if not c["need1"] else "exhausted")
            nobs += 1
        else:
            nobs += 1
    nontriv = [c for c in rows if (c["kind"] == "ff" and c["init"]["err"] == 0 and len(c["ops"]) > 2)
               or (c["kind"] == "pub" and len(c["events"]) > 2)
               or (c["kind"] == "sw" and c["nreq"] >= 2)
               or (c["kind"] == "tx" and c["err"] in (0, 7))
               or (c["kind"] == "rate") or (c["kind"] == "set" and c["need0"])]
    ctx.cov.update({
        "evaluations": len(rows),
        "observations_compared": nobs,
        "distinct_nontrivial": distinct_count(
            nontriv, lambda c: {k: v for k, v in c.items() if k != "case"}),
        "rule": "non-trivial = fee function built and >2 ops | publisher case with >2 block events | "
                "tx case reaching the budget guard | direct feeRateAtPosition grid | composed sweeper "
                "history with >=2 BumpRequests; distinct by full row",
        "traces_validated_against_impl": len(rows),
        "case_kinds": kinds, "ff_init": ff_init, "ff_ops": ops, "ff_conf_classes": conf_hist,
        "tx_results": txerr, "publisher_events": pubev, "input_set_topups": sets,
        "input_kinds(pub+tx rows)": in_kinds,
        "sweeper_history_families": sw_family, "sweeper_backends": sw_backend,
        "sweeper_bump_results": sw_results, "sweeper_first_result_when_not_published": sw_first_fail,
        "sweeper_request_starting_rate": sw_req_start, "sweeper_input_stored_starting_rate": sw_in_start,
        "sweeper_request_kinds": sw_retry, "sweeper_wallet_calls": sw_pubs,
        "predicate_failures": len(pred_fail_idx - known_rows),
        "rows_hitting_known_findings": len(known_rows),
        "start_above_ceiling_regression_cases": nabove,
        "correspondence_mismatches": len(bad),
        "samples": [rows[0]],
    })
    ctx.assumptions += [
        "float64->int64 conversion of out-of-range values (platform dependent in Go) is outside the "
        "modelled domain: theorems carry explicit range guards, generator stays inside",
        "tx weight is taken from lnd's weight estimator as an input of the model",
    ]
