"""C17 — cooperative close pays each side its exact balance; both sign the same tx;
legacy fee negotiation terminates; RBF cooperative close state machine agrees and
makes progress."""
from lib.verif import *
from props import c17_rbf as RBF

THEOREMS = [
    "C17_same_tx", "C17_signatures_verify", "C17_exact_balances", "C17_fee_payer_guard",
    "C17_conservation",
    "C17_negotiation_terminates", "C17_negotiation_round_bound_log2",
    "C17_taproot_negotiation_terminates", "C17_ratchet_stuck_refuted",
    # RBF cooperative close state machine (Coop/RbfProps.v)
    "C17_rbf_agree_closee", "C17_rbf_agree_closer", "C17_rbf_agree", "C17_rbf_closer_pays",
    "C17_rbf_progress", "C17_rbf_progress_round",
    "C17_rbf_shutdown_exchange", "C17_rbf_shutdown_simultaneous", "C17_rbf_flushed",
    "C17_rbf_sigfield_matches_outputs",
    "C17_rbf_fee_not_monotone", "C17_rbf_sigfield_mismatch_refuted", "C17_rbf_locktime_refuted",
    # entry of the legacy negotiation: every ordering of shutdown / flush / first offer
    "C17_entry_park_commutes", "C17_entry_confluent", "C17_entry_terminates",
]
MODULE = "LV.Coop.Props LV.Coop.RbfProps LV.Coop.EntryProps"
TARGETS = ["theories/Coop/Props.vo", "theories/Coop/Exec.vo", "theories/Coop/Examples.vo",
           "theories/Coop/GenBridge.vo",
           "theories/Coop/RbfProps.vo", "theories/Coop/RbfExec.vo", "theories/Coop/RbfExamples.vo",
           "theories/Coop/EntryProps.vo", "theories/Coop/EntryExec.vo"]
H_WALLET = "lnwallet/verif_coop_test.go"
H_CLOSER = "chancloser/verif_negotiate_test.go"
H_RBF = "chancloser/verif_rbf_test.go"   # shares helpers with H_CLOSER
H_ENTRY = "chancloser/verif_entry_test.go"  # entry orderings; run by TestVerifRbf
WARM = [{"pkg": "lnwallet", "files": [H_WALLET]},
        {"pkg": "lnwallet/chancloser", "files": [H_CLOSER, H_RBF, H_ENTRY]}]
IMPORTS = ("From Coq Require Import List ZArith NArith Bool.\nImport ListNotations.\n"
           "From LV Require Import Coop.Model Coop.Exec.\n")

ANCHOR = 330  # only used by the python predicate; the Go constant is compared with the model's


# ---------------------------------------------------------------- Coq terms

def zs(hexstr):
    return "[" + ";".join(str(x) for x in bytes.fromhex(hexstr)) + "]"


def cz(n):
    n = int(n)
    return "(%d)" % n if n < 0 else str(n)


def cparty(p):
    return {0: "None", 1: "(Some Local)", 2: "(Some Remote)"}[p]


def cdesc(d):
    outs = "[" + "; ".join("(%s, %s)" % (cz(v), zs(s)) for v, s in d["outs"]) + "]"
    return "(mkDesc %s %s %s %s)" % (cz(d["ver"]), cz(d["seq"]), cz(d["lt"]), outs)


def cview(v, closed=None):
    return "(mkView %s %s %s %s %s %s %s %s %s)" % (
        cbool(v["an"]), cbool(v["tap"]), cbool(v["ini"]), cz(v["lm"]), cz(v["rm"]),
        cz(v["cf"]), cz(v["ld"]), cz(v["rd"]), cbool(v["closed"] if closed is None else closed))


def cside(s):
    if s["err"] != 0:
        return "(PErr %d)" % s["err"]
    return "(POk %s %s)" % (cdesc(s["d"]), cz(s["bal"]))


def chan_terms(c):
    """CProp terms of one chan/dance row: both proposals, both completions, and
    the re-proposal after completion."""
    seq = copt(c.get("seq") if c["rbf"] else None, cz)
    lt = copt(c.get("lt") if c["rbf"] else None, cz)
    pa = c["payerA"]
    pb = {0: 0, 1: 2, 2: 1}[pa]
    reqA = "(mkReq %s %s %s %s %s %s %s %s)" % (cz(c["fee"]), zs(c["sA"]), zs(c["sB"]),
                                                cbool(c["opA"]), cbool(c["opB"]), cparty(pa), seq, lt)
    reqB = "(mkReq %s %s %s %s %s %s %s %s)" % (cz(c["fee"]), zs(c["sB"]), zs(c["sA"]),
                                                cbool(c["opB"]), cbool(c["opA"]), cparty(pb), seq, lt)
    out = [("propA", "CProp %s %s %s" % (cview(c["viewA"]), reqA, cside(c["propA"]))),
           ("propB", "CProp %s %s %s" % (cview(c["viewB"]), reqB, cside(c["propB"])))]
    if "compA" in c:
        out.append(("compA", "CProp %s %s %s" % (cview(c["viewA"]), reqA, cside(c["compA"]))))
        # B completes after A: B's own isClosed is still as in viewB
        out.append(("compB", "CProp %s %s %s" % (cview(c["viewB"]), reqB, cside(c["compB"]))))
        out.append(("reA", "CProp %s %s %s" % (cview(c["viewA2"]), reqA, cside(c["reA"]))))
    return out


def row_terms(c):
    k = c["k"]
    if k == "const":
        return [("const", "CConst %s" % cz(c["anchor"]))]
    if k == "bal":
        res = "(Some (%s, %s))" % (cz(c["o"]), cz(c["t"])) if c["ok"] else "None"
        return [("bal", "CBal %s %s %s %s %s %s %s %s" % (
            cbool(c["an"]), cbool(c["ini"]), cz(c["fee"]), cz(c["our"]), cz(c["their"]),
            cz(c["cfee"]), cparty(c["payer"]), res))]
    if k == "tx":
        opts = "(mkOpts %s %s %s)" % (cbool(c["rbf"]), copt(c["seq"], cz), copt(c["lt"], cz))
        return [("tx", "CTx %s %s %s %s %s %s %s %s %s %s" % (
            opts, cz(c["ld"]), cz(c["rd"]), cz(c["our"]), cz(c["their"]), zs(c["os"]), zs(c["ts"]),
            cbool(c["oo"]), cbool(c["to"]), cdesc(c["d"])))]
    if k in ("chan", "dance"):
        return chan_terms(c)
    if k == "range":
        return [("range", "CRange %s %s %s" % (cz(c["l"]), cz(c["r"]), cbool(c["res"])))]
    if k == "ratchet":
        return [("ratchet", "CRatchet %s %s %s" % (cz(c["fee"]), cbool(c["up"]), cz(c["res"])))]
    if k == "compromise":
        return [("compromise", "CCompromise %s %s %s %s" % (
            cz(c["ideal"]), cz(c["last"]), cz(c["remote"]), cz(c["res"])))]
    if k == "neg":
        if c["err"] != 0:
            res = "(NError %d)" % c["err"]
        elif c["finO"] and c["finR"]:
            # (the final echo may still be in flight when the fuel runs out)
            res = "(NAgreed %s)" % cz(c["agreedFee"])
        else:
            res = "NOpen"
        return [("neg", "CNeg %s %s %s %s %s %s %s %s %s %s" % (
            cbool(c["tap"]), cz(c["io"]), cz(c["co"]), cz(c["afford"]), cz(c["ir"]), cz(c["cr"]),
            cz(c["afford"]), cnat(c["fuel"]), "[" + "; ".join(cz(x) for x in c["trace"]) + "]", res))]
    raise ValueError(k)


# ---------------------------------------------------------------- predicates
# Evaluated on the implementation's own trace, independently of the Coq model.

def expected_close(view, fee, payer, own_script, other_script, own_op, other_op, rbf):
    """Property statement in python for one party: (err_class, [(value, script)] as a
    sorted multiset, own balance)."""
    credit = view["cf"] + (2 * ANCHOR if view["an"] else 0)
    own = view["lm"] // 1000 + (credit if view["ini"] else 0)
    oth = view["rm"] // 1000 + (0 if view["ini"] else credit)
    payer_local = (payer == 1) or (payer == 0 and view["ini"])
    if payer_local:
        own -= fee
    else:
        oth -= fee
    if own < 0 or oth < 0:
        return 2, None, None
    outs = []
    if own >= view["ld"]:
        outs.append((0 if (rbf and own_op) else own, own_script))
    if oth >= view["rd"]:
        outs.append((0 if (rbf and other_op) else oth, other_script))
    if not outs:
        return 3, None, None
    return 0, sorted(outs), own


def chan_predicate(c):
    """Returns list of (theorem, message)."""
    f = []
    A, B = c["viewA"], c["viewB"]
    pa = c["payerA"]
    pb = {0: 0, 1: 2, 2: 1}[pa]
    # the state both parties hold is HTLC-free and mirrored (hypothesis of C17_same_tx;
    # for the 'dance' rows it is the result of real state transitions)
    if A["htlcs"] or B["htlcs"]:
        f.append(("C17_same_tx", "pending HTLCs at close"))
    if (A["lm"], A["rm"], A["cf"], A["ld"], A["rd"], A["an"], A["tap"]) != \
            (B["rm"], B["lm"], B["cf"], B["rd"], B["ld"], B["an"], B["tap"]) or A["ini"] == B["ini"]:
        f.append(("C17_same_tx", "views not mirrored: %s vs %s" % (A, B)))
    cap = c["capacity"]
    if c["fundingValue"] != cap:
        f.append(("C17_conservation", "funding output value != capacity"))
    credit = A["cf"] + (2 * ANCHOR if A["an"] else 0)
    if c["k"] == "dance" and A["lm"] + A["rm"] + credit * 1000 != cap * 1000:
        f.append(("C17_conservation", "channel ledger does not add up to capacity"))
    pA, pB = c["propA"], c["propB"]
    eA = expected_close(A, c["fee"], pa, c["sA"], c["sB"], c["opA"], c["opB"], c["rbf"])
    eB = expected_close(B, c["fee"], pb, c["sB"], c["sA"], c["opB"], c["opA"], c["rbf"])
    for side, p, e in (("A", pA, eA), ("B", pB, eB)):
        if p["err"] != e[0]:
            thm = "C17_fee_payer_guard" if 2 in (p["err"], e[0]) else "C17_exact_balances"
            f.append((thm, "%s: error class %d (%s), expected %d" % (side, p["err"], p.get("msg"), e[0])))
            continue
        if p["err"] == 0:
            got = sorted((v, s) for v, s in p["d"]["outs"])
            if got != e[1]:
                f.append(("C17_exact_balances", "%s: outputs %s, expected %s" % (side, got, e[1])))
            if [tuple(o) for o in p["d"]["outs"]] != sorted(
                    (tuple(o) for o in p["d"]["outs"]), key=lambda o: (o[0], bytes.fromhex(o[1]))):
                f.append(("C17_same_tx", "%s: outputs not in BIP69 order" % side))
            if p["bal"] != e[2]:
                f.append(("C17_exact_balances", "%s: returned balance %d, expected %d" % (side, p["bal"], e[2])))
            tot = sum(v for v, _ in p["d"]["outs"])
            if tot + c["fee"] > cap:
                f.append(("C17_conservation", "%s: outputs %d + fee %d > capacity %d" % (side, tot, c["fee"], cap)))
            zeroed = c["rbf"] and (c["opA"] or c["opB"])
            if len(p["d"]["outs"]) == 2 and not zeroed:
                slack = cap - tot - c["fee"]
                whole = A["lm"] % 1000 == 0 and A["rm"] % 1000 == 0
                if not (slack == 0 if whole else slack in (0, 1)):
                    f.append(("C17_conservation", "%s: %d sat unaccounted with nothing trimmed" % (side, slack)))
    if pA["err"] == 0 and pB["err"] == 0:
        if pA["raw"] != pB["raw"]:
            f.append(("C17_same_tx", "proposal transactions differ: %s vs %s" % (pA["raw"], pB["raw"])))
        cA, cB = c["compA"], c["compB"]
        if cA["err"] != 0 or cB["err"] != 0:
            f.append(("C17_same_tx", "completion failed: A=%s B=%s" % (cA.get("msg"), cB.get("msg"))))
        else:
            if not (cA["raw"] == cB["raw"] == pA["raw"]):
                f.append(("C17_same_tx", "completed transactions differ from the proposal"))
            if cA["full"] != cB["full"]:
                f.append(("C17_same_tx", "completed transactions (with witness) differ"))
            if not (c.get("engineA") and c.get("engineB")):
                f.append(("C17_same_tx", "script engine rejects the completed close tx"))
            if c.get("tamperOK"):
                f.append(("C17_same_tx", "signatures do not commit to the outputs"))
            if cA["bal"] != pA["bal"] or cB["bal"] != pB["bal"]:
                f.append(("C17_exact_balances", "completion balance differs from proposal balance"))
            if not (c["closedA"] and c["closedB"]):
                f.append(("C17_same_tx", "channel not marked closed after completion"))
            re = c["reA"]
            if c["rbf"]:
                if re["err"] != 0 or re["raw"] != pA["raw"]:
                    f.append(("C17_same_tx", "RBF re-proposal differs"))
            elif re["err"] != 1:
                f.append(("C17_same_tx", "legacy re-proposal after completion not refused"))
    return f


def pure_predicate(c):
    """bal/tx rows in the no-wrap domain, computed independently of the model."""
    f = []
    if c["k"] == "bal":
        vals = (c["fee"], c["our"], c["their"], c["cfee"])
        if all(0 <= x < 2 ** 60 for x in vals):
            credit = c["cfee"] + (2 * ANCHOR if c["an"] else 0)
            o, t = c["our"] + (credit if c["ini"] else 0), c["their"] + (0 if c["ini"] else credit)
            if (c["payer"] == 1) or (c["payer"] == 0 and c["ini"]):
                o -= c["fee"]
            else:
                t -= c["fee"]
            exp = (False, 0, 0) if (o < 0 or t < 0) else (True, o, t)
            if (c["ok"], c["o"], c["t"]) != exp:
                f.append(("C17_exact_balances", "CoopCloseBalance -> %s, expected %s" % ((c["ok"], c["o"], c["t"]), exp)))
    elif c["k"] == "tx":
        outs = []
        if c["our"] >= c["ld"]:
            outs.append((0 if (c["seq"] is not None and c["oo"]) else c["our"], c["os"]))
        if c["their"] >= c["rd"]:
            outs.append((0 if (c["seq"] is not None and c["to"]) else c["their"], c["ts"]))
        outs.sort(key=lambda o: (o[0], bytes.fromhex(o[1])))
        seq = c["seq"] if c["seq"] is not None else (0xfffffffd if c["rbf"] else 0xffffffff)
        exp = {"ver": 2, "seq": seq, "lt": c["lt"] or 0, "outs": [list(o) for o in outs]}
        if c["d"] != exp:
            f.append(("C17_exact_balances", "CreateCooperativeCloseTx -> %s, expected %s" % (c["d"], exp)))
    return f


def pow_bound(lo, hi):
    """least n with 100 * hi * 1000^n <= 129 * lo * 1091^n (hypothesis of
    C17_negotiation_terminates)"""
    n = 0
    a, b = 100 * hi, 129 * lo
    while a > b:
        a *= 1000
        b *= 1091
        n += 1
    return n


def neg_predicate(c):
    f = []
    lo, hi = min(c["io"], c["ir"]), max(c["io"], c["ir"])
    realistic = (not c["tap"]) and lo >= 100 and hi <= c["maxO"] and hi <= c["afford"]
    agreed = c["err"] == 0 and c["finO"] and c["finR"]
    if agreed:
        fee = c["agreedFee"]
        if c["txO"] != c["txR"] or not c["txO"]:
            f.append(("C17_negotiation_terminates", "closing transactions differ"))
        if not c.get("engine"):
            f.append(("C17_negotiation_terminates", "script engine rejects negotiated close tx"))
        if fee not in c["priorO"] or fee not in c["priorR"]:
            f.append(("C17_negotiation_terminates", "agreed fee %d not signed for by both" % fee))
        if c.get("nOuts") == 2 and c["txFee"] != fee:
            f.append(("C17_negotiation_terminates", "tx pays fee %d, agreed %d" % (c["txFee"], fee)))
        if c["nBroadcastO"] != 1 or c["nBroadcastR"] != 1:
            f.append(("C17_negotiation_terminates", "broadcast count %d/%d" % (c["nBroadcastO"], c["nBroadcastR"])))
        if not (lo <= fee <= hi) and not c["tap"]:
            f.append(("C17_negotiation_terminates", "agreed fee %d outside [%d,%d]" % (fee, lo, hi)))
    if realistic:
        bound = pow_bound(lo, hi) + 4
        if not agreed:
            f.append(("C17_negotiation_terminates", "realistic ideal fees %d/%d did not agree (err=%d %s)"
                      % (c["io"], c["ir"], c["err"], c["msg"])))
        elif len(c["trace"]) > bound:
            f.append(("C17_negotiation_terminates", "%d rounds > bound %d" % (len(c["trace"]), bound)))
    over = [x for x in c["priorO"] if x > c["maxO"] and x != c["io"]]
    if over:
        f.append(("C17_negotiation_terminates", "opener signed for %s above its cap %d" % (over, c["maxO"])))
    if c.get("witness") == "stuck" and not (c["open"] and c["err"] == 0 and len(c["trace"]) == c["fuel"]
                                            and set(c["trace"][2:]) == {1, 5}):
        f.append(("C17_ratchet_stuck_refuted", "witness (ideal 1 / 5 sat) no longer loops on the real code"))
    if c["tap"] and c["io"] <= c["afford"]:
        if not agreed or c["agreedFee"] != c["io"] or len(c["trace"]) > 3:
            f.append(("C17_taproot_negotiation_terminates", "taproot close did not accept the opener's fee"))
    return f


def entry_stage(ctx, erows):
    """Legacy flow, ENTRY orderings: every maximal interleaving of shutdown / flush
    report / first closing_signed, enumerated by the harness, on two real ChanClosers."""
    runs = [c for c in erows if c["k"] == "entry"]
    norders = sum(c["n"] for c in erows if c["k"] == "entry_orders")
    if not runs or norders < 20:
        ctx.violation("harness_failed", "TestVerifRbf/entry orderings",
                      {"orderings": norders, "runs": len(runs)}, signature="harness", failing_input=False)
        return
    nfail = 0
    for c in runs:
        fails = RBF.entry_predicate(c)
        if fails:
            c["_pred_fail"] = True
            nfail += 1
            if nfail <= 3:
                ctx.violation("impl_violates_predicate", fails[0][0],
                              {"ordering": c["order"], "case": c, "fails": fails[:6]},
                              signature="entry %s" % fails[0][1][:70])
    terms, origin = [], []
    for ri, c in enumerate(runs):
        for name, t in RBF.entry_terms(c):
            terms.append(t)
            origin.append((ri, name))
    ok, bad, logs = coq_mismatches(ctx.uid("en"), RBF.ENTRY_IMPORTS, terms,
                                   shard=min(400, max(20, len(terms) // NCPU + 1)), scope="Z_scope",
                                   timeout=3000)
    if not ok:
        ctx.violation("correspondence_mismatch", "Coop.EntryExec (model evaluation failed)",
                      {"logs": logs}, signature="model-eval", failing_input=False)
    for ti, ops in bad[:3]:
        ri, name = origin[ti]
        c = runs[ri]
        i = ops[0] - 1 if ops else 0
        ctx.violation("correspondence_mismatch", "Coop.EntryExec entry/%s" % name,
                      {"ordering": c["order"], "name": c["name"], "dup": c["dup"], "node": name,
                       "call_index": i + 1, "calls": c["calls" + name][:i + 1]},
                      signature="entry mismatch", failing_input=True)
    parked = sum(1 for c in runs if any(call["cache"] is not None for call in c["callsR"]))
    ctx.cov["entry"] = {
        "orderings_enumerated": norders, "runs_two_real_chanclosers": len(runs),
        "runs_with_parked_offer": parked,
        "runs_with_duplicates": sum(1 for c in runs if c["dup"]),
        "evaluations": len(terms), "correspondence_mismatches": len(bad),
        "finished": sum(1 for c in runs if c["finO"] and c["finR"]),
    }
    ctx._entry_counts = (len(terms), len(runs))


def rbf_stage(ctx, rrows):
    """RBF state machine: predicates on the implementation trace + correspondence
    with Coop/RbfModel.v (RbfExec.mismatches)."""
    nfail = 0
    for c in rrows:
        if c["k"] != "rbf":
            continue
        fails = RBF.rbf_predicate(c)
        if fails:
            c["_pred_fail"] = True
            nfail += 1
            if nfail <= 3:
                ctx.violation("impl_violates_predicate", fails[0][0],
                              {"case": {k: c[k] for k in ("name", "ct", "sched", "adversary", "hasty",
                                                          "envHeight", "capacity")},
                               "envA": c["A"]["env"], "envB": c["B"]["env"],
                               "stepsA": c["A"]["steps"], "stepsB": c["B"]["steps"], "fails": fails[:6]},
                              signature="rbf %s" % fails[0][1][:60])
    terms, origin = [], []
    for ri, c in enumerate(rrows):
        for name, t in RBF.row_terms(c):
            terms.append(t)
            origin.append((ri, name))
    ok, bad, logs = coq_mismatches(ctx.uid("rb"), RBF.IMPORTS, terms,
                                   shard=min(400, max(20, len(terms) // NCPU + 1)), scope="Z_scope",
                                   timeout=3000)
    if not ok:
        ctx.violation("correspondence_mismatch", "Coop.RbfExec (model evaluation failed)",
                      {"logs": logs}, signature="model-eval", failing_input=False)
    seen = set()
    for ti, ops in bad:
        ri, name = origin[ti]
        c = rrows[ri]
        key = (c["k"], c.get("name") if c["k"] != "rbf" else "run")
        if key in seen or len(seen) >= 4:
            continue
        seen.add(key)
        detail = {"case": c if c["k"] != "rbf" else {k: c[k] for k in ("name", "ct", "sched", "adversary")}}
        if c["k"] == "rbf":
            n = c[name]
            i = ops[0] - 1 if ops else 0
            detail.update({"node": name, "env": n["env"], "step_index": i + 1,
                           "history": n["steps"][:i + 1]})
        ctx.violation("correspondence_mismatch", "Coop.RbfExec %s/%s" % (c["k"], name), detail,
                      signature="rbf mismatch %s" % c["k"],
                      failing_input=True)
    # coverage
    finals, errs, fields, nsteps, rounds = {}, {}, {}, 0, 0
    def inc(d, k):
        d[k] = d.get(k, 0) + 1
    runs = [c for c in rrows if c["k"] == "rbf"]
    for c in runs:
        for nm in "AB":
            st = c[nm]["steps"]
            nsteps += len(st)
            last = st[-1]["st"] if st else {"s": "Active"}
            key = last["s"]
            if key == "Negotiation":
                key += ":%s/%s" % (last["l"]["k"], last["r"]["k"])
            if key == "Dead":
                inc(errs, "%d/%d" % (last["err"], last["perr"]))
            inc(finals, key)
            for s in st:
                for o in s["outs"]:
                    if o["o"] == "ClosingComplete":
                        rounds += 1
                        inc(fields, RBF.one_field(o["m"]["sigs"]) or "multi")
    ctx.cov["rbf"] = {
        "evaluations": len(terms), "runs_two_real_machines": len(runs),
        "distinct_runs": distinct_count(runs, lambda c: [c["A"]["env"], c["B"]["env"], c["sched"],
                                                         c["adversary"], c["hasty"]]),
        "events_fed": nsteps, "offers(closing_complete)": rounds,
        "closing_complete_fields": fields, "final_states": finals, "error_classes": errs,
        "taproot_runs": sum(1 for c in runs if c["tap"]),
        "tampered_runs": sum(1 for c in runs if c["tampered"]),
        "correspondence_mismatches": len(bad),
    }
    ctx._rbf_counts = (len(terms), len(runs), len(rrows))


def prep_neg(c):
    if c["err"] == 0 and c["finO"] and c["finR"] and c["trace"]:
        c["agreedFee"] = c["trace"][-1]


# ---------------------------------------------------------------- run

def run(ctx):
    if ctx.replay:
        # every case is a deterministic function of (seed, tier): a replay re-runs the
        # recorded seed/tier on the CURRENT tree; the recorded violation reappears iff
        # the tree still has it.
        import json as _json
        rec = _json.load(open(ctx.replay))
        ctx.seed = int(rec.get("seed", ctx.seed))
        ctx.tier = rec.get("tier", ctx.tier)
        os.environ["VERIF_SEED"] = str(ctx.seed)
        os.environ["VERIF_TIER"] = ctx.tier
        ctx.note("replaying %s: seed=%d tier=%s kind=%s name=%s" % (
            ctx.replay, ctx.seed, ctx.tier, rec.get("kind"), rec.get("name")))
    pr = ctx.proof_stage(MODULE, THEOREMS, TARGETS, extra_trusted=[
        "C17_signatures_verify: Section hypothesis verify (pub k) m (sign k m) = true "
        "(functional correctness of the signature scheme; stated in the theorem)",
        "signature schemes, sighash, tx serialisation, btcd txscript engine, MuSig2: not modelled; "
        "exercised on every channel case by the harness (engine verdict, byte equality, tamper check)",
        "input.ScriptIsOpReturn is an input of the model (its answer is recorded by the harness)",
        "model of ReceiveClosingSigned abstracts the channel as 'CreateCloseProposal succeeds iff "
        "fee <= opener balance + credit' (n_afford); tied by the two-real-ChanClosers harness",
        "RBF model: ideal signatures (a signature is the descriptor it is on; CompleteCooperativeClose's "
        "engine run accepts iff both signatures are on the caller's own tx; a MuSig2 partial signature "
        "replayed outside its signing session is recorded by the harness as a signature on nothing); "
        "MuSig2 nonce plumbing, "
        "taproot/regular signature-type checks and the taproot shutdown-nonce check are not modelled "
        "(exercised by the harness on taproot channels)",
        "RBF model: lnwallet.ValidateUpfrontShutdown is an oracle (its answer is recorded per event); "
        "ChanObserver.NoDanglingUpdates is true and FinalBalances constant in every run; the harness "
        "drives the real ProcessEvent methods through a synchronous copy of protofsm's applyEvents "
        "(the goroutine/event-channel plumbing of protofsm.StateMachine is not exercised)",
    ])
    # the two harness packages are built and run concurrently
    from concurrent.futures import ThreadPoolExecutor
    tmo = 1500 if not ctx.thorough else 5000
    with ThreadPoolExecutor(max_workers=3) as ex:
        f1 = ex.submit(run_harness, ctx.uid("w"), "lnwallet", [H_WALLET], "^TestVerifCoop$",
                       None, tmo)
        f2 = ex.submit(run_harness, ctx.uid("n"), "lnwallet/chancloser", [H_CLOSER],
                       "^TestVerifNegotiate$", None, tmo)
        f3 = ex.submit(run_harness, ctx.uid("r"), "lnwallet/chancloser", [H_CLOSER, H_RBF, H_ENTRY],
                       "^TestVerifRbf$", None, tmo)
        rc1, trace1, out1 = f1.result()
        rc2, trace2, out2 = f2.result()
        rc3, trace3, out3 = f3.result()
    rows = read_jsonl(trace1)
    if rc1 != 0 or not rows:
        ctx.violation("harness_failed", "TestVerifCoop", {"log": out1[-4000:]},
                      signature="harness", failing_input=False)
        return
    rows2 = read_jsonl(trace2)
    if rc2 != 0 or not rows2:
        ctx.violation("harness_failed", "TestVerifNegotiate", {"log": out2[-4000:]},
                      signature="harness", failing_input=False)
        return
    rows += rows2
    rrows = read_jsonl(trace3)
    if rc3 != 0 or not rrows:
        ctx.violation("harness_failed", "TestVerifRbf", {"log": out3[-4000:]},
                      signature="harness", failing_input=False)
        return
    rbf_stage(ctx, [c for c in rrows if not c["k"].startswith("entry")])
    entry_stage(ctx, [c for c in rrows if c["k"].startswith("entry")])

    # ---- property predicates on the implementation's trace
    nfail = 0
    pred_evals = 0
    for c in rows:
        fails = []
        if c["k"] in ("chan", "dance"):
            fails = chan_predicate(c)
            pred_evals += 1
        elif c["k"] == "neg":
            prep_neg(c)
            fails = neg_predicate(c)
            pred_evals += 1
        elif c["k"] in ("bal", "tx"):
            fails = pure_predicate(c)
            pred_evals += 1
        if fails:
            c["_pred_fail"] = True
            nfail += 1
            if nfail <= 3:
                ctx.violation("impl_violates_predicate", fails[0][0],
                              {"case": c, "fails": fails},
                              signature="coop %s %s" % (c["k"], fails[0][1][:60]))

    # ---- correspondence
    terms, origin = [], []
    for ri, c in enumerate(rows):
        for name, t in row_terms(c):
            terms.append(t)
            origin.append((ri, name))
    ok, bad, logs = coq_mismatches(ctx.uid(), IMPORTS, terms,
                                   shard=min(1200, max(50, len(terms) // NCPU + 1)), scope="Z_scope",
                                   timeout=3000)
    if not ok:
        ctx.violation("correspondence_mismatch", "Coop.Exec (model evaluation failed)",
                      {"logs": logs}, signature="model-eval", failing_input=False)
    seen = set()
    for ti, _ in bad:
        ri, name = origin[ti]
        c = rows[ri]
        key = (c["k"], name)
        if key in seen or len(seen) >= 4:
            continue
        seen.add(key)
        ctx.violation("correspondence_mismatch", "Coop.Exec.check %s/%s" % (c["k"], name),
                      {"case": c, "term": terms[ti]},
                      signature="coop mismatch %s" % c["k"],
                      failing_input=bool(c.get("_pred_fail")))
    if not pr["ok"] and not ctx.violations:
        ctx.violation("proof_broken", ", ".join(pr["broken"]) or "Coop build",
                      {"log": pr["log"][-4000:]}, signature="proof", failing_input=False)

    # ---- coverage
    kinds, cts, errs, nouts, negres, rounds = {}, {}, {}, {}, {}, {}
    def inc(d, k):
        d[k] = d.get(k, 0) + 1
    for c in rows:
        inc(kinds, c["k"])
        if c["k"] in ("chan", "dance"):
            inc(cts, c["ct"] + ("/rbf" if c["rbf"] else ""))
            inc(errs, "A%d/B%d" % (c["propA"]["err"], c["propB"]["err"]))
            if c["propA"]["err"] == 0:
                inc(nouts, len(c["propA"]["d"]["outs"]))
        if c["k"] == "neg":
            r = ("error%d" % c["err"]) if c["err"] else ("agreed" if c["finO"] and c["finR"] else "open")
            inc(negres, ("taproot-" if c["tap"] else "") + r)
            inc(rounds, min(len(c["trace"]) // 10 * 10, 100))
    nontrivial = [c for c in rows if c["k"] in ("chan", "dance", "neg")]
    rt, rr, rn = getattr(ctx, "_rbf_counts", (0, 0, 0))
    et, er = getattr(ctx, "_entry_counts", (0, 0))
    rt, rn = rt + et, rn + er
    ctx.cov.update({
        "evaluations": len(terms) + rt,
        "distinct_nontrivial": distinct_count(
            nontrivial, lambda c: [c.get(k) for k in ("k", "ct", "viewA", "fee", "rbf", "payerA",
                                                       "io", "ir", "co", "afford", "tap")])
        + ctx.cov.get("rbf", {}).get("distinct_runs", 0),
        "rule": "non-trivial = real channel pair closes (chan/dance) and real two-ChanCloser "
                "negotiations (neg); distinct by channel type, both views, fee, flow, payer / "
                "ideal fees, cap, affordability; plus runs of two real RBF state machines (distinct by "
                "both environments, schedule, tampering); pure-function grid cases counted in evaluations only",
        "traces_validated_against_impl": len(rows) + rn,
        "predicate_evaluations": pred_evals,
        "case_kinds": kinds, "chan_types": cts, "proposal_error_classes": errs,
        "outputs_per_close_tx": nouts, "negotiation_outcomes": negres,
        "negotiation_rounds_hist(bucket10)": rounds,
        "samples": [{k: v for k, v in c.items() if k in ("k", "ct", "fee", "viewA", "rbf", "io", "ir", "trace")}
                    for c in (nontrivial[0], nontrivial[-1])],
        "correspondence_mismatches": len(bad),
    })
    ctx.assumptions += [
        "extra/aux close outputs and custom sort (custom channels) are not modelled nor driven",
        "RBF-coop: every ProcessEvent of rbf_coop_transitions.go is modelled (Coop/RbfModel.v) and two real "
        "machines are run against it; C17_rbf_progress covers any sequence of COMPLETE rounds from either "
        "side (overlapping rounds of the two directions are covered per round by C17_rbf_agree, whose "
        "other-direction state is arbitrary, and by the harness's random interleavings); taproot nonce "
        "handling, aux/custom-channel outputs not modelled",
        "negotiation theorem: n_afford abstraction of the channel; cached-ClosingSigned path of "
        "BeginNegotiation not modelled",
    ]
    if ctx.thorough:
        ctx.coqchk(["LV.Coop.Props", "LV.Coop.RbfProps"])
