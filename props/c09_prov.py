"""C09 helper — the "policy provenance" stage (harness/localchans/verif_policy_prov_test.go).

The REAL localchans.Manager.UpdatePolicy (lncli updatechanpolicy) is driven over three
channels; the gossiper hook persists what is ADVERTISED, the switch hook installs every map
entry in the REAL htlcswitch link of that channel.  Rows:

  kind "prov": per (scenario, step, channel) the previously advertised policy, the operator's
      schema, the negotiated htlc limits, what the gossiper got (= graph afterwards), what the
      switch got, what the link has installed.
  kind "fwd" (cls "prov:<probe>"): boundary HTLCs through the real link's CheckHtlcForward,
      recorded against the ADVERTISED policy of the outgoing channel and the ADVERTISED inbound
      fee of the incoming channel (the call passes the inbound fee the incoming LINK holds).
      These rows go through c09.predicate and the Coq model like every other C09 row.

Judged here (python, from the property text: the decision is taken on the configured /
advertised policy):
  A. the policy installed in the link equals the advertised one, field by field
     (min_htlc, max_htlc, base fee, fee rate, time-lock delta, inbound base, inbound rate),
     after every step, for every channel (also the untargeted ones);
  B. a channel is handed to the switch iff it is handed to the gossiper, with the same values;
  C. the advertised policy is the operator's schema applied to the previous one: fields that
     are set take the new value, "keep" fields (min_htlc nil, max_htlc 0, inbound fee None)
     keep the old one, untargeted channels and rejected schemas change nothing (and a rejected
     schema is reported as a failed update).
"""

FIELDS = ("min", "max", "base", "rate", "delta", "ibase", "irate")


def proj(p):
    d = {k: p[k] for k in FIELDS}
    if not p.get("has_inbound"):
        d["ibase"], d["irate"] = p.get("ibase", 0), p.get("irate", 0)
    return d


def expected(r):
    """(policy the graph must hold after the step, changed?, valid?)"""
    prev, sc = r["prev_advertised"], r["schema"]
    if not r["targeted"]:
        return proj(prev), False, True
    n = proj(prev)
    n["base"], n["rate"], n["delta"] = sc["base"], sc["rate"], sc["delta"]
    if sc.get("has_inbound"):
        n["ibase"], n["irate"] = sc["ibase"], sc["irate"]
    if sc["max"] != 0:
        n["max"] = sc["max"]
    elif not prev.get("max_flag"):
        n["max"] = r["amt_max"]
    elif prev["max"] > r["amt_max"]:
        n["max"] = r["amt_max"]
    if sc.get("min") is not None:
        n["min"] = sc["min"]
    valid = not (n["min"] < r["amt_min"] or n["max"] > r["amt_max"] or n["min"] > n["max"])
    if not valid:
        return proj(prev), False, False
    return n, True, True


def diff(a, b):
    return {k: (a[k], b[k]) for k in FIELDS if a[k] != b[k]}


def judge(r):
    """-> list of (theorem, message, signature-tail)"""
    out = []
    if r.get("err"):
        return [("C09 policy provenance", "UpdatePolicy returned an error: %s" % r["err"], "error")]
    adv, enf = proj(r["advertised"]), proj(r["enforced"])
    d = diff(enf, adv)
    if d:
        out.append(("C09 policy provenance (enforced = advertised)",
                    "after step %d of %s the link of channel %d enforces %s (enforced, advertised)" % (
                        r["step"], r["scenario"], r["chan"],
                        ", ".join("%s=%s" % kv for kv in sorted(d.items()))),
                    "enforced!=advertised " + ",".join(sorted(d))))
    if r["in_map"] != r["in_edges"]:
        out.append(("C09 policy provenance (switch vs gossiper)",
                    "channel %d handed to the %s only" % (r["chan"], "switch" if r["in_map"] else "gossiper"),
                    "map!=edges"))
    elif r["in_map"]:
        d = diff(proj(r["handed"]), adv)
        if d:
            out.append(("C09 policy provenance (switch vs gossiper)",
                        "channel %d: the switch was handed %s (switch, gossiper)" % (
                            r["chan"], ", ".join("%s=%s" % kv for kv in sorted(d.items()))),
                        "handed!=advertised " + ",".join(sorted(d))))
    exp, changed, valid = expected(r)
    d = diff(adv, exp)
    if d:
        out.append(("C09 policy provenance (operator schema)",
                    "channel %d advertises %s (advertised, schema applied to the previous policy)" % (
                        r["chan"], ", ".join("%s=%s" % kv for kv in sorted(d.items()))),
                    "advertised!=schema " + ",".join(sorted(d))))
    if r["targeted"] and valid and not r["in_edges"]:
        out.append(("C09 policy provenance (operator schema)",
                    "targeted channel %d with a valid schema was not updated (%s)" % (r["chan"], r.get("failed")),
                    "not-updated"))
    if (not r["targeted"] or not valid) and (r["in_edges"] or r["in_map"]):
        out.append(("C09 policy provenance (operator schema)",
                    "channel %d (%s) was handed to the gossiper/switch" % (
                        r["chan"], "untargeted" if not r["targeted"] else "schema rejected"),
                    "spurious-update"))
    if r["targeted"] and not valid and not r.get("failed"):
        out.append(("C09 policy provenance (operator schema)",
                    "invalid schema for channel %d not reported as a failed update" % r["chan"],
                    "invalid-not-reported"))
    return out


def scenario_blob(prows, r):
    """Everything needed to replay the scenario of row r."""
    steps = {}
    for x in prows:
        if x["scenario"] == r["scenario"] and x["chan"] == 0:
            steps[x["step"]] = x["schema"]
    name = r["scenario"]
    world = int(name[1:name.index(":")]) if name.startswith("w") and ":" in name else 1
    return {"world": world, "name": name, "steps": [steps[k] for k in sorted(steps)]}


def changed_fields(r):
    prev, adv = proj(r["prev_advertised"]), proj(r["advertised"])
    return [("%s%s" % (k, "+" if adv[k] > prev[k] else "-")) for k in FIELDS if adv[k] != prev[k]]


def coverage(prows, hrows):
    def hist(rows, f):
        h = {}
        for r in rows:
            for k in (f(r) if isinstance(f(r), list) else [f(r)]):
                h[k] = h.get(k, 0) + 1
        return dict(sorted(h.items(), key=lambda kv: str(kv[0])))
    return {
        "scenarios": len({r["scenario"] for r in prows}),
        "update_steps": len({(r["scenario"], r["step"]) for r in prows}),
        "channel_states_compared": len(prows),
        "scenario_families": hist([r for r in prows if r["chan"] == 0 and r["step"] == 0],
                                  lambda r: r["scenario"].split(":", 1)[-1]),
        "advertised_field_changes": hist(prows, lambda r: changed_fields(r) or ["(unchanged)"]),
        "targeting": hist(prows, lambda r: "targeted" if r["targeted"] else "untargeted"),
        "keep_semantics": hist([r for r in prows if r["targeted"]], lambda r: [
            "min " + ("kept (nil)" if r["schema"].get("min") is None else "set"),
            "max " + ("kept (0)" if r["schema"]["max"] == 0 else "set"),
            "inbound " + ("set" if r["schema"].get("has_inbound") else "kept (None)")]),
        "rejected_schemas": sum(1 for r in prows if r["targeted"] and not expected(r)[2]),
        "boundary_htlcs": len(hrows),
        "boundary_htlc_probes": hist(hrows, lambda r: r["probe"]),
        "boundary_htlc_results": hist(hrows, lambda r: r["name"]),
        "inbound_fee_passed_differs_from_advertised": sum(
            1 for r in hrows if (r["passed_ibase"], r["passed_irate"]) != (r["ibase"], r["irate"])),
    }


# ---- link creation from the graph (harness/peer/verif_linkpolicy_test.go) -------------


def judge_linkcreate(r):
    """The policy a link is CREATED with (Brontide.loadActiveChannels -> addLink) is our own
    advertised edge policy, field by field, whichever node of the edge we are; the configured
    default only if we have not advertised one.  -> list of (theorem, message, signature-tail)"""
    if r.get("err"):
        return [("C09 policy provenance (link creation)", "scenario did not complete: %s" % r["err"], "incomplete")]
    want = r["own"] if r["have_own_policy"] else r["default"]
    src = "own advertised policy" if r["have_own_policy"] else "configured default"
    d = diff(proj(r["created"]), proj(want))
    if d:
        rem = proj(r["remote"])
        took = [k for k in d if proj(r["created"])[k] == rem[k]]
        return [("C09 policy provenance (link creation)",
                 "link of %s created with %s (created, %s)%s" % (
                     r["scenario"], ", ".join("%s=%s" % kv for kv in sorted(d.items())), src,
                     "; %s equal the REMOTE peer's policy" % ",".join(took) if took else ""),
                 "created!=advertised " + ",".join(sorted(d)))]
    return []


def coverage_linkcreate(lrows, hrows):
    def hist(rows, f):
        h = {}
        for r in rows:
            h[f(r)] = h.get(f(r), 0) + 1
        return dict(sorted(h.items()))
    return {
        "links_created": len(lrows),
        "by_side": hist(lrows, lambda r: "we are node%d" % r["we_are_node"]),
        "policy_source": hist(lrows, lambda r: ("own edge policy" + (" + inbound fee" if r["own"]["has_inbound"] else ""))
                              if r["have_own_policy"] else "no own policy -> default"),
        "boundary_htlcs": len(hrows),
        "boundary_htlc_probes": hist(hrows, lambda r: r["probe"]),
        "boundary_htlc_results": hist(hrows, lambda r: r["name"]),
    }
