"""C14 — confirmation and spend notifications follow the active chain."""
from lib.verif import *

THEOREMS = [
    "C14_spend_hint_safe", "C14_spend_details_on_chain", "C14_spend_exact",
    "C14_reorg_before_respend",
    "C14_conf_hint_safe", "C14_conf_details_on_chain", "C14_conf_exact", "C14_conf_exact_emit",
    "C14_reorg_before_reconf", "C14_conf_exact_partial_reorg_refuted",
    "C14_conf_zero_client_details_cleared", "C14_spend_zero_client_details_cleared",
    "C14_conf_stale_rescan_ignored", "C14_spend_stale_rescan_ignored",
    # multi-request model (shared height indexes): request independence + lifted theorems
    "C14_multi_conf_independent", "C14_multi_spend_independent",
    "C14_multi_conf_reach", "C14_multi_spend_reach",
    "C14_multi_conf_hint_safe", "C14_multi_conf_exact", "C14_multi_conf_exact_emit",
    "C14_multi_reorg_before_reconf",
    "C14_multi_spend_hint_safe", "C14_multi_spend_exact", "C14_multi_reorg_before_respend",
    "C14_multi_shared_bucket_reorg",
]
MODULE = "LV.Notifier.Props"
TARGETS = ["theories/Notifier/Props.vo", "theories/Notifier/Exec.vo",
           "theories/Notifier/Examples.vo", "theories/Notifier/GenBridge.vo",
           "theories/Notifier/MExec.vo"]
HARNESS = ["chainntnfs/verif_txnotifier_test.go", "chainntnfs/verif_catchup_test.go"]
WARM = [{"pkg": "chainntnfs", "files": HARNESS}]
IMPORTS = ("From Coq Require Import List NArith.\nImport ListNotations.\n"
           "From LV Require Import Notifier.Model Notifier.Exec.\n")

SPENDS = [0, 0, 1, 2]       # tx i spends outpoint SPENDS[i]; a case uses the first ntx txs /
                            # nop outpoints (3 / 2 single-history kinds, 4 / 3 multi-request kinds)


def dims(case):
    return len(case["ch0"]), len(case["sh0"])

BADBID = 999999


# --------------------------------------------------------------------------
# projection of a harness case onto one request -> Coq term


def c_res(ret):
    if ret == "ok":
        return "ROk None"
    if isinstance(ret, list):
        return "(ROk (Some (%s, %s)))" % (cN(ret[0]), cN(ret[1]))
    if isinstance(ret, str) and ret in ("e1", "e2", "e3", "e4"):
        return "(RErr %s)" % cN(int(ret[1]))
    return "(RErr 77%N)"        # unexpected error text: forces a mismatch


def c_optN(x):
    return copt(x, cN)


def c_pair(a):
    return "(%s, %s)" % (cN(a[0] if a[0] >= 0 else BADBID), cN(a[1] if a[1] >= 0 else BADBID))


def conf_events(ev, cids):
    out = []
    for cid in sorted(cids):
        r = ev.get(str(cid))
        if not r:
            continue
        for u in r.get("u", []):
            out.append("(%s, EUpd %s %s)" % (cN(cid), cN(u[0]), cN(u[1])))
        for c in r.get("c", []):
            out.append("(%s, EConf %s %s)" % (cN(cid), cN(c[0]), cN(c[1] if c[1] >= 0 else BADBID)))
        for d in r.get("n", []):
            out.append("(%s, ENeg %s)" % (cN(cid), cN(d if d >= 0 else BADBID)))
        for _ in range(r.get("d", 0)):
            out.append("(%s, EDone)" % cN(cid))
    return clist(out)


def spend_events(ev, cids):
    out = []
    for cid in sorted(cids):
        r = ev.get(str(cid))
        if not r:
            continue
        for s in r.get("s", []):
            out.append("(%s, ESpend %s %s)" % (cN(cid), cN(s[0]), cN(s[1] if s[1] >= 0 else BADBID)))
        for _ in range(r.get("r", 0)):
            out.append("(%s, EReorg)" % cN(cid))
        for _ in range(r.get("d", 0)):
            out.append("(%s, ESDone)" % cN(cid))
    return clist(out)


def project_conf(case, i):
    """-> (coq term, [global op index per projected step]) for conf request i."""
    cids = set()
    steps, idx = [], []
    for k, o in enumerate(case["ops"]):
        op, ret, ev = o["op"], o["ret"], o.get("ev") or {}
        kind = op[0]
        t = None
        if kind == "reg" and op[1] == i:
            if ret == "ok" or isinstance(ret, list):
                cids.add(op[2])
            t = "CReg %s %s %s" % (cN(op[2]), cN(op[3]), cN(op[4]))
        elif kind == "upd" and op[1] == i:
            t = "CUpd %s" % copt(op[2], c_pair)
        elif kind == "cancel" and op[1] == i:
            t = "CCancel %s" % cN(op[2])
        elif kind == "conn":
            t = "CConnect %s %s %s" % (cN(max(op[1], 0)), cN(op[2]), cbool(i in op[3]))
        elif kind == "notify":
            t = "CNotify"
        elif kind == "disc":
            t = "CDisconnect %s" % cN(max(op[1], 0))
        if t is None:
            continue
        steps.append("(%s, %s, %s, %s)" % (t, c_res(ret), conf_events(ev, cids), c_optN(o["ch"][i])))
        idx.append(k)
    term = "TConf %s %s %s %s" % (cN(case["start"]), cN(case["limit"]),
                                  c_optN(case["ch0"][i]), clist(steps))
    return term, idx


def project_spend(case, j):
    cids = set()
    steps, idx = [], []
    for k, o in enumerate(case["ops"]):
        op, ret, ev = o["op"], o["ret"], o.get("ev") or {}
        kind = op[0]
        t = None
        if kind == "sreg" and op[1] == j:
            if ret == "ok" or isinstance(ret, list):
                cids.add(op[2])
            t = "SReg %s %s" % (cN(op[2]), cN(op[3]))
        elif kind == "supd" and op[1] == j:
            t = "SUpd %s" % copt(op[2], c_pair)
        elif kind == "scancel" and op[1] == j:
            t = "SCancel %s" % cN(op[2])
        elif kind == "conn":
            sp = [x for x in op[3] if SPENDS[x] == j]
            t = "SConnect %s %s" % (cN(max(op[1], 0)), copt(sp[0] if sp else None, cN))
        elif kind == "notify":
            t = "SNotify"
        elif kind == "disc":
            t = "SDisconnect %s" % cN(max(op[1], 0))
        if t is None:
            continue
        steps.append("(%s, %s, %s, %s)" % (t, c_res(ret), spend_events(ev, cids), c_optN(o["sh"][j])))
        idx.append(k)
    term = "TSpend %s %s %s %s" % (cN(case["start"]), cN(case["limit"]),
                                   c_optN(case["sh0"][j]), clist(steps))
    return term, idx


# --------------------------------------------------------------------------
# a whole multi-request history -> one Coq term per side (MExec.v)

MIMPORTS = ("From Coq Require Import List NArith.\nImport ListNotations.\n"
            "From LV Require Import Notifier.Model Notifier.MModel Notifier.MExec.\n")
MULTI_KINDS = ("multi", "mcoll", "catchup")
BLOCK_KINDS = ("catchup",)     # steps are BLOCKS of model calls (MExec.TMConfB / TMSpendB)


def m_conf_events(ev, owner):
    out = []
    for cid_s in sorted(ev, key=int):
        cid = int(cid_s)
        side, x = owner.get(cid, ("?", 0))
        if side != "c":
            continue
        r = ev[cid_s]
        def t(e, x=x, cid=cid):
            return "(%s, (%s, %s))" % (cN(x), cN(cid), e)
        for u in r.get("u", []):
            out.append(t("EUpd %s %s" % (cN(u[0]), cN(u[1]))))
        for c in r.get("c", []):
            out.append(t("EConf %s %s" % (cN(c[0]), cN(c[1] if c[1] >= 0 else BADBID))))
        for d in r.get("n", []):
            out.append(t("ENeg %s" % cN(d if d >= 0 else BADBID)))
        for _ in range(r.get("d", 0)):
            out.append(t("EDone"))
    return clist(out)


def m_spend_events(ev, owner):
    out = []
    for cid_s in sorted(ev, key=int):
        cid = int(cid_s)
        side, x = owner.get(cid, ("?", 0))
        if side != "s":
            continue
        r = ev[cid_s]
        def t(e, x=x, cid=cid):
            return "(%s, (%s, %s))" % (cN(x), cN(cid), e)
        for sp in r.get("s", []):
            out.append(t("ESpend %s %s" % (cN(sp[0]), cN(sp[1] if sp[1] >= 0 else BADBID))))
        for _ in range(r.get("r", 0)):
            out.append(t("EReorg"))
        for _ in range(r.get("d", 0)):
            out.append(t("ESDone"))
    return clist(out)


def project_multi(case, side):
    """-> (coq term, [global op index per step]): the WHOLE history of one side (all conf
    requests / all spend requests) for the multi-request model.  A call addressed to the other
    side is skipped unless a client of this side received something during it (then it is kept as
    a model no-op carrying those events, which the model will not reproduce)."""
    conf = side == "conf"
    block = case["kind"] in BLOCK_KINDS
    owner = {}
    steps, idx = [], []
    ntx, nop = dims(case)
    for k, o in enumerate(case["ops"]):
        op, ret, ev = o["op"], o["ret"], o.get("ev") or {}
        kind = op[0]
        okret = ret == "ok" or isinstance(ret, list)
        if kind == "reg" and okret:
            owner[op[2]] = ("c", op[1])
        elif kind == "sreg" and okret:
            owner[op[2]] = ("s", op[1])
        t = None
        if conf:
            if kind == "reg":
                t = "MCReg %s %s %s %s" % (cN(op[1]), cN(op[2]), cN(op[3]), cN(op[4]))
            elif kind == "upd":
                t = "MCUpd %s %s" % (cN(op[1]), copt(op[2], c_pair))
            elif kind == "cancel":
                t = "MCCancel %s %s" % (cN(op[1]), cN(op[2]))
            elif kind == "conn":
                t = "MCConnect %s %s %s" % (cN(max(op[1], 0)), cN(op[2]),
                                            clist([cN(x) for x in op[3]]))
            elif kind == "notify":
                t = "MCNotify"
            elif kind == "disc":
                t = "MCDisconnect %s" % cN(max(op[1], 0))
            elif kind == "rewind":
                t = "; ".join("MCDisconnect %s" % cN(h) for h in op[1])
            evs = m_conf_events(ev, owner)
            res = c_res(ret)
            if t is None:
                if evs == clist([]):
                    continue
                t, res = "MCCancel 999999 999999", "ROk None"
            hn = clist([c_optN(x) for x in o["ch"]])
        else:
            if kind == "sreg":
                t = "MSReg %s %s %s" % (cN(op[1]), cN(op[2]), cN(op[3]))
            elif kind == "supd":
                t = "MSUpd %s %s" % (cN(op[1]), copt(op[2], c_pair))
            elif kind == "scancel":
                t = "MSCancel %s %s" % (cN(op[1]), cN(op[2]))
            elif kind == "conn":
                t = "MSConnect %s %s" % (cN(max(op[1], 0)),
                                         clist(["(%s, %s)" % (cN(SPENDS[x]), cN(x)) for x in op[3]]))
            elif kind == "notify":
                t = "MSNotify"
            elif kind == "disc":
                t = "MSDisconnect %s" % cN(max(op[1], 0))
            elif kind == "rewind":
                t = "; ".join("MSDisconnect %s" % cN(h) for h in op[1])
            evs = m_spend_events(ev, owner)
            res = c_res(ret)
            if t is None:
                if evs == clist([]):
                    continue
                t, res = "MSCancel 999999 999999", "ROk None"
            hn = clist([c_optN(x) for x in o["sh"]])
        steps.append("(%s, %s, %s, %s)" % ("[%s]" % t if block else t, res, evs, hn))
        idx.append(k)
    h0 = clist([c_optN(x) for x in (case["ch0"] if conf else case["sh0"])])
    term = "%s%s %s %s %s %s" % ("TMConf" if conf else "TMSpend", "B" if block else "",
                                 cN(case["start"]),
                               cN(case["limit"]), h0, clist(steps))
    return term, idx


# --------------------------------------------------------------------------
# property predicate on the implementation's own trace (no model involved)


class Req:
    def __init__(self):
        self.tainted = None      # reason the theorem's hypotheses stopped holding
        self.exists = False      # a registration succeeded (set created)
        self.outstanding = 0     # historical dispatches handed out and not yet answered
        self.known = None        # height at which the notifier itself learnt the details (tip /
                                 # accepted rescan answer); later rescan answers are outdated
        self.disp_start = 1      # first height of the historical dispatch handed out when the
                                 # current incarnation of the request was created
        self.tracked = False     # ... and that height is indexed (within the reorg safety limit
                                 # when learnt): the request is dropped at known + limit
        self.clients = {}        # cid -> dict(n=…, status=None|(h,x), live=True)


def predicate(case, stats=None, inherit=None, out=None):
    """Returns list of (theorem, message, op index).  Checks, on the observed
    events alone:
      exact     every Confirmed/Spend names a block/spender of the ACTIVE chain and is
                sent with >= N confirmations; whenever (no NotifyHeight pending, no rescan
                outstanding) a tx has >= N confirmations, the client's latest un-negated
                Confirmed is that block (same for spends);
      reorg     no second Confirmed (Spend) without a NegativeConf (Reorg) in between;
      hint      cached hint <= height at which the tx is confirmed / outpoint spent.
    The 'exact' and 'hint' clauses are only evaluated while the theorem hypotheses hold
    for the request (valid client hints, truthful rescan answers, reorgs within the
    safety limit); 'reorg' is unconditional.

    A rescan answer is judged against the height range the notifier dispatched when the current
    incarnation of the request was created: "not found" for a tx confirmed BELOW that range is
    truthful -- the range came from the notifier's own persisted hint, so the missed
    notification is reported, not excused (op[4], the range the harness had in mind, is
    informational: an answer to an older dispatch is judged the same way).
    Answers arriving after the notifier learnt the details itself (found at tip / an accepted
    earlier answer) are outdated and may say anything: they must be ignored.

    kind == "restart" cases (a fresh TxNotifier on the same hint cache at the final tip of the
    parent history, every request re-registered with hint = cached hint): the cached hints are
    the OUTPUT of the parent run, so neither they nor the client hints excuse anything; the
    per-request taints are inherited from the parent (inherit = (conf taints, spend taints))."""
    restart = case.get("kind") == "restart"
    NTX, NOP = dims(case)
    fails = []
    chain = [(b[0], list(b[1])) for b in case["pre"]]     # chain[h-1] = (bid, txs)
    limit = case["limit"]
    high = len(chain)
    pending = False
    conf = [Req() for _ in range(NTX)]
    spend = [Req() for _ in range(NOP)]
    owner = {}   # cid -> ("c"|"s", index)

    def pos_tx(i):
        for h, (bid, txs) in enumerate(chain, 1):
            if i in txs:
                return (h, bid)
        return None

    def pos_spend(j):
        for h, (bid, txs) in enumerate(chain, 1):
            for x in txs:
                if SPENDS[x] == j:
                    return (h, x)
        return None

    def taint(r, why):
        if r.tainted is None:
            r.tainted = why

    # hints left in the cache by "an earlier run"
    if restart:
        ic, isp = inherit if inherit else ([None] * NTX, [None] * NOP)
        for i in range(NTX):
            conf[i].tainted = ic[i]
        for j in range(NOP):
            spend[j].tainted = isp[j]
    else:
        for i in range(NTX):
            p = pos_tx(i)
            if case["ch0"][i] is not None and p and case["ch0"][i] > p[0]:
                taint(conf[i], "stale initial hint")
        for j in range(NOP):
            p = pos_spend(j)
            if case["sh0"][j] is not None and p and case["sh0"][j] > p[0]:
                taint(spend[j], "stale initial hint")
    prev_ch, prev_sh = case["ch0"], case["sh0"]

    for k, o in enumerate(case["ops"]):
        op, ret, ev = o["op"], o["ret"], o.get("ev") or {}
        kind = op[0]
        cur = len(chain)
        okret = ret == "ok" or isinstance(ret, list)
        if kind == "reg" and okret:
            r = conf[op[1]]
            p = pos_tx(op[1])
            if p and op[4] > p[0] and not restart:
                taint(r, "client hint above confirmation height")
            if not r.exists:
                r.disp_start = 1
            r.exists = True
            r.clients[op[2]] = {"n": op[3], "status": None, "live": True}
            owner[op[2]] = ("c", op[1])
            if isinstance(ret, list):
                r.outstanding += 1
                r.disp_start = ret[0]
        elif kind == "sreg" and okret:
            r = spend[op[1]]
            p = pos_spend(op[1])
            if p and op[3] > p[0] and not restart:
                taint(r, "client hint above spend height")
            if not r.exists:
                r.disp_start = 1
            r.exists = True
            r.clients[op[2]] = {"status": None, "live": True}
            owner[op[2]] = ("s", op[1])
            if isinstance(ret, list):
                r.outstanding += 1
                r.disp_start = ret[0]
        elif kind == "upd" and ret == "ok":
            r = conf[op[1]]
            a = op[2]
            p = pos_tx(op[1])
            st = r.disp_start     # answers to an older dispatch are judged like any other
            if r.known is not None:
                if stats is not None:
                    stats["outdated_rescan_answers"] = stats.get("outdated_rescan_answers", 0) + 1
                    if p and p[0] < cur:
                        stats["outdated_answers_k_blocks_after_inclusion"] = \
                            stats.get("outdated_answers_k_blocks_after_inclusion", 0) + 1
            elif a is None:
                if p is not None and p[0] >= st:
                    taint(r, "rescan answered 'not found' for a confirmed tx")
            elif a[0] <= cur and p != (a[0], a[1]):
                taint(r, "rescan answer not on the active chain")
            elif a[0] > cur and p is not None:
                taint(r, "rescan answered 'above tip' for a confirmed tx")
            elif a[0] <= cur:
                r.known = a[0]
                r.tracked = cur < a[0] + limit
            r.outstanding = 0
        elif kind == "supd" and ret == "ok":
            r = spend[op[1]]
            a = op[2]
            p = pos_spend(op[1])
            st = r.disp_start     # answers to an older dispatch are judged like any other
            if r.known is not None:
                if stats is not None:
                    stats["outdated_rescan_answers"] = stats.get("outdated_rescan_answers", 0) + 1
                    if p and p[0] < cur:
                        stats["outdated_answers_k_blocks_after_inclusion"] = \
                            stats.get("outdated_answers_k_blocks_after_inclusion", 0) + 1
            elif a is None:
                if p is not None and p[0] >= st:
                    taint(r, "rescan answered 'not found' for a spent outpoint")
            elif a[0] <= cur and p != (a[0], a[1]):
                taint(r, "rescan answer not on the active chain")
            elif a[0] > cur and p is not None:
                taint(r, "rescan answered 'above tip' for a spent outpoint")
            elif a[0] <= cur:
                r.known = a[0]
                r.tracked = cur < a[0] + limit
            r.outstanding = 0
        elif kind == "cancel":
            c = conf[op[1]].clients.get(op[2])
            if c:
                c["live"] = False
        elif kind == "scancel":
            c = spend[op[1]].clients.get(op[2])
            if c:
                c["live"] = False
        elif kind == "conn" and ret == "ok":
            # inclusion while nobody watches: hint validity is the environment's business
            for i in op[3]:
                if not conf[i].exists and prev_ch[i] is not None and prev_ch[i] > op[1]:
                    taint(conf[i], "unwatched tx confirmed below its cached hint")
                j = SPENDS[i]
                if not spend[j].exists and prev_sh[j] is not None and prev_sh[j] > op[1]:
                    taint(spend[j], "unwatched outpoint spent below its cached hint")
            for i in op[3]:
                # found at tip: the notifier knows the details from now on
                if conf[i].exists:
                    conf[i].known, conf[i].tracked = op[1], True
                    conf[i].outstanding = 0
                if spend[SPENDS[i]].exists:
                    spend[SPENDS[i]].known, spend[SPENDS[i]].tracked = op[1], True
                    spend[SPENDS[i]].outstanding = 0
            for r in conf + spend:
                # past the reorg safety limit the request is dropped (silently when no
                # client is left to receive Done)
                if r.exists and r.known is not None and r.tracked and r.known + limit == op[1]:
                    for c in r.clients.values():
                        c["live"] = False
                    r.exists = False
                    r.outstanding = 0
                    r.known = None
            chain.append((op[2], list(op[3])))
            high = max(high, len(chain))
            pending = True
        elif kind == "notify":
            pending = False
        elif kind == "disc" and ret == "ok":
            if op[1] + limit <= high:
                for r in conf + spend:
                    taint(r, "reorg beyond the safety limit")
            for r in conf + spend:
                if r.known == op[1]:
                    r.known = None
            chain.pop()
        elif kind == "rewind" and ret == "ok":
            # catch-up layer: the canonical disconnects down to the common ancestor, one call
            for h in op[1]:
                if h + limit <= high:
                    for r in conf + spend:
                        taint(r, "reorg beyond the safety limit")
                for r in conf + spend:
                    if r.known == h:
                        r.known = None
                chain.pop()
        cur = len(chain)

        # ---- events of this op
        for cid_s, rec in ev.items():
            cid = int(cid_s)
            side, x = owner[cid]
            if side == "c":
                r = conf[x]
                c = r.clients[cid]
                for d in rec.get("n", []):
                    c["status"] = None
                confs = rec.get("c", [])
                if len(confs) > 1 or (confs and c["status"] is not None):
                    fails.append(("C14_reorg_before_reconf",
                                  "client %d got Confirmed %s while %s un-negated" %
                                  (cid, confs, c["status"]), k))
                for h, b in confs:
                    c["status"] = (h, b)
                    if r.tainted is None:
                        if pos_tx(x) != (h, b):
                            fails.append(("C14_conf_exact", "client %d Confirmed (%d, block %d) "
                                          "but active chain has tx at %s" % (cid, h, b, pos_tx(x)), k))
                        elif h + c["n"] - 1 > cur:
                            fails.append(("C14_conf_exact", "client %d Confirmed with %d of %d "
                                          "confirmations" % (cid, cur - h + 1, c["n"]), k))
                if rec.get("d"):
                    c["live"] = False
                    c["done"] = True
            else:
                r = spend[x]
                c = r.clients[cid]
                if rec.get("r"):
                    c["status"] = None
                sp = rec.get("s", [])
                if len(sp) > 1 or (sp and c["status"] is not None):
                    fails.append(("C14_reorg_before_respend",
                                  "client %d got Spend %s while %s un-reorged" %
                                  (cid, sp, c["status"]), k))
                for h, t in sp:
                    c["status"] = (h, t)
                    if r.tainted is None and (pos_spend(x) != (h, t) or h > cur):
                        fails.append(("C14_spend_exact", "client %d Spend (%d, tx %d) but active "
                                      "chain has %s" % (cid, h, t, pos_spend(x)), k))
                if rec.get("d"):
                    c["live"] = False
                    c["done"] = True
        for r in conf + spend:
            if any(c.get("done") for c in r.clients.values()):
                # request pruned past the safety limit: set deleted
                for c in r.clients.values():
                    c["live"] = False
                    c.pop("done", None)
                r.exists = False
                r.outstanding = 0
                r.known = None

        # ---- state clauses
        for i, r in enumerate(conf):
            p = pos_tx(i)
            if r.tainted is not None:
                continue
            for cid, c in r.clients.items():
                if not c["live"]:
                    continue
                if c["status"] is not None and c["status"] != p:
                    fails.append(("C14_conf_exact", "client %d believes %s, active chain has %s"
                                  % (cid, c["status"], p), k))
                if (not pending and r.outstanding == 0 and p and p[0] + c["n"] - 1 <= cur
                        and c["status"] != p):
                    fails.append(("C14_conf_exact", "client %d not told: tx at %s has %d >= %d "
                                  "confirmations" % (cid, p, cur - p[0] + 1, c["n"]), k))
                if stats is not None:
                    stats["conf_state_checks"] = stats.get("conf_state_checks", 0) + 1
            if r.exists and o["ch"][i] is not None and p and o["ch"][i] > p[0]:
                fails.append(("C14_conf_hint_safe", "conf hint %d above confirmation height %d of tx %d"
                              % (o["ch"][i], p[0], i), k))
        for j, r in enumerate(spend):
            p = pos_spend(j)
            if r.tainted is not None:
                continue
            for cid, c in r.clients.items():
                if not c["live"]:
                    continue
                if c["status"] is not None and c["status"] != p:
                    fails.append(("C14_spend_exact", "client %d believes %s, active chain has %s"
                                  % (cid, c["status"], p), k))
                if not pending and r.outstanding == 0 and p and c["status"] != p:
                    fails.append(("C14_spend_exact", "client %d not told of spend %s" % (cid, p), k))
                if stats is not None:
                    stats["spend_state_checks"] = stats.get("spend_state_checks", 0) + 1
            if r.exists and o["sh"][j] is not None and p and o["sh"][j] > p[0]:
                fails.append(("C14_spend_hint_safe", "spend hint %d above spend height %d of outpoint %d"
                              % (o["sh"][j], p[0], j), k))
        prev_ch, prev_sh = o["ch"], o["sh"]
    if stats is not None:
        for r in conf + spend:
            key = "tainted:" + (r.tainted or "no")
            stats[key] = stats.get(key, 0) + 1
    if out is not None:
        out["taints"] = ([r.tainted for r in conf], [r.tainted for r in spend])
    return fails


def collision_stats(case):
    """Model-free measurement of how far a history exercises the SHARED height indexes of
    TxNotifier (confsByInitialHeight / ntfnsByConfirmHeight / spendsByHeight buckets are shared by
    all requests with the same inclusion / due / spend height).  Counts per case:
      due_collisions            distinct (due height, set of >= 2 conf requests) with un-notified live
                                clients waiting in the same ntfnsByConfirmHeight bucket
      inclusion_collisions      blocks that confirm >= 2 watched txs (same confsByInitialHeight bucket)
      spend_collisions          blocks that spend >= 2 watched outpoints (same spendsByHeight bucket)
      split_due_reorgs          DisconnectTip calls that remove the block of SOME but not all requests
                                of a shared due bucket (the survivors must still be notified)
      split_due_reached         ... and the chain later reaches that due height with a survivor still
                                in place
      cancel_in_shared_due      CancelConf of a client waiting in a bucket shared with another request
      rescan_into_shared        historical-rescan details accepted at an inclusion height at which
                                another request is already tracked, or putting a client into a due
                                bucket already used by another request"""
    st = dict.fromkeys(["due_collisions", "inclusion_collisions", "spend_collisions",
                        "split_due_reorgs", "split_due_reached", "cancel_in_shared_due",
                        "rescan_into_shared"], 0)
    chain = [(b[0], list(b[1])) for b in case["pre"]]
    clients = {}          # cid -> dict(tx, n, live, told)
    sclients = {}         # cid -> dict(op, live)
    seen_due = set()
    watch = []            # (due height, survivor tx, its position) of split buckets

    def pos(i):
        for h, (bid, txs) in enumerate(chain, 1):
            if i in txs:
                return (h, bid)
        return None

    def buckets():
        cur = len(chain)
        b = {}
        for cid, c in clients.items():
            if not c["live"] or c["told"]:
                continue
            p = pos(c["tx"])
            if p and p[0] + c["n"] - 1 > cur:
                b.setdefault(p[0] + c["n"] - 1, set()).add(c["tx"])
        return b

    for o in case["ops"]:
        op, ret, ev = o["op"], o["ret"], o.get("ev") or {}
        ok = ret == "ok" or isinstance(ret, list)
        kind = op[0]
        if kind == "reg" and ok:
            clients[op[2]] = {"tx": op[1], "n": op[3], "live": True, "told": False}
        elif kind == "sreg" and ok:
            sclients[op[2]] = {"op": op[1], "live": True}
        elif kind == "cancel":
            c = clients.get(op[2])
            if c and c["live"] and not c["told"]:
                p = pos(c["tx"])
                if p and len(buckets().get(p[0] + c["n"] - 1, ())) >= 2:
                    st["cancel_in_shared_due"] += 1
            if c:
                c["live"] = False
        elif kind == "scancel":
            if op[2] in sclients:
                sclients[op[2]]["live"] = False
        elif kind == "upd" and ok and op[2] is not None:
            p = pos(op[1])
            if p == (op[2][0], op[2][1]):
                others = {c["tx"] for c in clients.values() if c["live"] and c["tx"] != op[1]}
                b = buckets()
                if any(pos(x) and pos(x)[0] == p[0] for x in others) or any(
                        len(v) >= 2 and op[1] in v for v in b.values()):
                    st["rescan_into_shared"] += 1
        elif kind == "conn" and ok:
            wtx = {c["tx"] for c in clients.values() if c["live"]}
            wop = {c["op"] for c in sclients.values() if c["live"]}
            if len([i for i in op[3] if i in wtx]) >= 2:
                st["inclusion_collisions"] += 1
            if len({SPENDS[i] for i in op[3] if SPENDS[i] in wop}) >= 2:
                st["spend_collisions"] += 1
            chain.append((op[2], list(op[3])))
        elif kind == "disc" and ok:
            gone = set(chain[-1][1])
            for due, reqs in buckets().items():
                if len(reqs) >= 2 and reqs & gone and reqs - gone:
                    st["split_due_reorgs"] += 1
                    for x in reqs - gone:
                        watch.append((due, x, pos(x)))
            chain.pop()
        elif kind == "rewind" and ok:
            for _ in op[1]:
                chain.pop()
        for cid_s, rec in ev.items():
            c = clients.get(int(cid_s))
            if c is None:
                continue
            if rec.get("n"):
                c["told"] = False
            if rec.get("c"):
                c["told"] = True
            if rec.get("d"):
                c["live"] = False
        for due, reqs in buckets().items():
            if len(reqs) >= 2:
                seen_due.add((due, frozenset(reqs)))
        if kind == "notify":
            keep = []
            for due, x, p in watch:
                if pos(x) != p:
                    continue
                if len(chain) >= due:
                    st["split_due_reached"] += 1
                else:
                    keep.append((due, x, p))
            watch = keep
    st["due_collisions"] = len(seen_due)
    return st


def catchup_predicate(case):
    """Catch-up histories: what every client has been told at the end, judged against the BACKEND's
    final active chain (not against the blocks TxNotifier happened to be handed): an un-negated
    Confirmed / un-reorged Spend names the block / spender of that chain, a tx with >= N
    confirmations (a spent outpoint) on it has been announced, cached hints are not above the
    confirmation / spend height.  Every rescan of these histories was answered truthfully."""
    ops = case["ops"]
    cur = ops[-1]["cur"]
    chain = [(b[0], list(b[1])) for b in case["final"]][:cur]
    fails = []
    if len(case["final"]) != cur:
        fails.append(("C14_conf_exact", "notifier ends at height %d, backend tip is %d"
                      % (cur, len(case["final"])), len(ops) - 1))

    def pos_tx(i):
        for h, (bid, txs) in enumerate(chain, 1):
            if i in txs:
                return (h, bid)
        return None

    def pos_spend(j):
        for h, (bid, txs) in enumerate(chain, 1):
            for x in txs:
                if SPENDS[x] == j:
                    return (h, x)
        return None

    cl = {}
    for o in ops:
        op, ret, ev = o["op"], o["ret"], o.get("ev") or {}
        ok = ret == "ok" or isinstance(ret, list)
        if op[0] == "reg" and ok:
            cl[op[2]] = {"side": "c", "x": op[1], "n": op[3], "st": None, "live": True}
        elif op[0] == "sreg" and ok:
            cl[op[2]] = {"side": "s", "x": op[1], "n": 1, "st": None, "live": True}
        elif op[0] in ("cancel", "scancel") and op[2] in cl:
            cl[op[2]]["live"] = False
        for cid_s, rec in ev.items():
            c = cl.get(int(cid_s))
            if c is None:
                continue
            if rec.get("n") or rec.get("r"):
                c["st"] = None
            for h, b in rec.get("c", []) + rec.get("s", []):
                c["st"] = (h, b)
            if rec.get("d"):
                c["live"] = False
    k = len(ops) - 1
    done = {(c["side"], c["x"]) for c in cl.values() if not c["live"]}
    for cid, c in sorted(cl.items()):
        if not c["live"]:
            continue
        if c["side"] == "c":
            p = pos_tx(c["x"])
            if c["st"] is not None and c["st"] != p:
                fails.append(("C14_conf_exact", "after the catch-up client %d believes %s, active "
                              "chain has tx %d at %s" % (cid, c["st"], c["x"], p), k))
            elif p and p[0] + c["n"] - 1 <= cur and c["st"] != p:
                fails.append(("C14_conf_exact", "after the catch-up client %d not told: tx %d at %s "
                              "has %d >= %d confirmations" % (cid, c["x"], p, cur - p[0] + 1, c["n"]), k))
        else:
            p = pos_spend(c["x"])
            if c["st"] != p:
                fails.append(("C14_spend_exact", "after the catch-up client %d believes %s, active "
                              "chain has outpoint %d spent at %s" % (cid, c["st"], c["x"], p), k))
    for i, hnt in enumerate(ops[-1]["ch"]):
        p = pos_tx(i)
        if hnt is not None and p and hnt > p[0] and ("c", i) not in done:
            fails.append(("C14_conf_hint_safe", "after the catch-up conf hint %d above confirmation "
                          "height %d of tx %d" % (hnt, p[0], i), k))
    for j, hnt in enumerate(ops[-1]["sh"]):
        p = pos_spend(j)
        if hnt is not None and p and hnt > p[0] and ("s", j) not in done:
            fails.append(("C14_spend_hint_safe", "after the catch-up spend hint %d above spend "
                          "height %d of outpoint %d" % (hnt, p[0], j), k))
    return fails


def partial_reorg_witness(case):
    """Replay of C14_conf_exact_partial_reorg_refuted on the implementation trace: returns the
    op index after which some client holds an un-negated Confirmed(h, b) while the tx at (h, b)
    on the active chain has fewer than its NumConfirmations confirmations, or None."""
    cur = len(case["pre"])
    clients = {}
    for k, o in enumerate(case["ops"]):
        op, ret, ev = o["op"], o["ret"], o.get("ev") or {}
        ok = ret == "ok" or isinstance(ret, list)
        if op[0] == "reg" and ok:
            clients[op[2]] = {"n": op[3], "status": None}
        elif op[0] == "conn" and ok:
            cur += 1
        elif op[0] == "disc" and ok:
            cur -= 1
        for cid_s, rec in ev.items():
            c = clients.get(int(cid_s))
            if c is None:
                continue
            if rec.get("n"):
                c["status"] = None
            for h, b in rec.get("c", []):
                c["status"] = (h, b)
        for c in clients.values():
            if c["status"] is not None and cur < c["status"][0] + c["n"] - 1 and cur >= c["status"][0]:
                return k
    return None


# --------------------------------------------------------------------------


def run(ctx):
    pr = ctx.proof_stage(MODULE, THEOREMS, TARGETS, extra_trusted=[
        "request independence is PROVED for the multi-request model (MModel.v: map request -> "
        "per-request state + the shared height indexes confsByInitialHeight / "
        "ntfnsByConfirmHeight / spendsByHeight with single-entry insert/delete, bucket iteration "
        "and whole-bucket deletion): C14_multi_conf_independent / C14_multi_spend_independent; the "
        "per-request theorems are lifted to every request of a multi-request run (C14_multi_*). "
        "That the REAL TxNotifier behaves like the multi-request model is established by "
        "correspondence on multi-request histories with forced bucket collisions (MExec.v), not "
        "proved; within a global call the model runs the per-request body request by request "
        "(Go iterates the maps in random order; only the per-client order is observable)",
        "theorem hypotheses (environment): client height hints not above the actual "
        "confirmation/spend height, historical-rescan answers truthful about the active chain "
        "at delivery whenever the notifier still lacks the details (outdated answers are "
        "unconstrained; no condition on registered clients since the repair af6371e), ConnectTip followed by NotifyHeight, reorgs shallower than "
        "reorgSafetyLimit below the highest tip seen, at most one inclusion of a txid / one "
        "spend of an outpoint on the active chain"])
    env = {}
    rc, trace, out = run_harness(ctx.uid(), "chainntnfs", HARNESS,
                                 "^TestVerifTxNotifier$", env=env, timeout=1500)
    try:
        rows = sorted(read_jsonl(trace), key=lambda c: c["ci"])
    except ValueError:           # truncated trace: the test binary died
        rows, rc = [], rc or 1
    for c in rows:                       # Go encodes empty slices as null
        c["ops"] = c.get("ops") or []
        c["pre"] = c.get("pre") or []
    if rc != 0 or not rows:
        ctx.violation("harness_failed", "TestVerifTxNotifier", {"log": out[-4000:]},
                      signature="harness", failing_input=False)
        return
    # implementation-side predicate
    stats = {}
    nfail = 0
    seen = set()
    taints = {}
    for c in rows:
        if c["kind"] != "restart":
            o = {}
            predicate(c, None, out=o)
            taints[c["ci"]] = o["taints"]

    def pred(c, st=None):
        f = predicate(c, st, inherit=taints.get(c["ci"] - 2000000))
        if c["kind"] == "catchup":
            f = catchup_predicate(c) + f
        return f

    for c in rows:
        f = pred(c, stats)
        if f:
            thm, msg, k = f[0]
            sig = "%s: %s" % (thm, msg.split(" (")[0][:60])
            if (thm, c["kind"]) in seen and nfail >= 3:
                continue
            seen.add((thm, c["kind"]))
            nfail += 1
            if nfail <= 4:
                ctx.violation("impl_violates_predicate", thm,
                              {"case": {**c, "ops": c["ops"][:k + 1]}, "fails": f[:5]},
                              signature="txnotifier %s" % sig)
    # correspondence
    terms, back = [], []
    mterms, mback = [], []
    kind_of = {c["ci"]: c["kind"] for c in rows}

    def base_kind(c):
        return kind_of.get(c["ci"] - 2000000) if c["kind"] == "restart" else c["kind"]

    skipped_per_request = {}
    for ri, c in enumerate(rows):
        if base_kind(c) in MULTI_KINDS:
            # multi-request histories: the whole history against the multi-request model (shared
            # height indexes); by MProps.C14_multi_*_independent this subsumes the per-request runs
            for side in ("conf", "spend"):
                t, idx = project_multi(c, side)
                mterms.append(t)
                mback.append((ri, side, "all", idx))
            # catch-up histories contain `rewind` BLOCK steps (one observed call = a list of
            # model calls; intermediate hints / event boundaries are not observable), which the
            # per-request checker Exec.check_case cannot express: they are covered by the
            # multi-request block checker (MExec.TMConfB / TMSpendB) + catchup_predicate only
            if base_kind(c) in BLOCK_KINDS:
                skipped_per_request["block-step kind (covered by MExec block steps)"] = \
                    skipped_per_request.get("block-step kind (covered by MExec block steps)", 0) + 1
                continue
            if not ctx.thorough:
                skipped_per_request["multi-request kind, quick tier (subsumed by MExec)"] = \
                    skipped_per_request.get("multi-request kind, quick tier (subsumed by MExec)", 0) + 1
                continue
        # enumerated histories (and their restart observation) only touch T0 / outpoint 0
        enum = base_kind(c) == "enum"
        NTX, NOP = dims(c)
        for i in range(1 if enum else NTX):
            t, idx = project_conf(c, i)
            terms.append(t)
            back.append((ri, "conf", i, idx))
        for j in range(1 if enum else NOP):
            t, idx = project_spend(c, j)
            terms.append(t)
            back.append((ri, "spend", j, idx))
    from concurrent.futures import ThreadPoolExecutor
    with ThreadPoolExecutor(max_workers=2) as ex:
        f1 = ex.submit(coq_mismatches, ctx.uid(), IMPORTS, terms,
                       shard=max(40, len(terms) // NCPU + 1))
        f2 = ex.submit(coq_mismatches, ctx.uid() + "m", MIMPORTS, mterms, mism="mmismatches",
                       shard=max(20, len(mterms) // NCPU + 1))
        ok, bad, logs = f1.result()
        mok, mbad, mlogs = f2.result()
    if not ok or not mok:
        ctx.violation("correspondence_mismatch", "Notifier.Exec (model evaluation failed)",
                      {"logs": logs + mlogs}, signature="model-eval", failing_input=False)
    shown = set()
    for (ti, opsidx), bk, what in ([(b, back, "Notifier.Exec.check_case") for b in bad[:3]] +
                                   [(b, mback, "Notifier.MExec.mcheck_case") for b in mbad]):
        ri, side, x, idx = bk[ti]
        c = rows[ri]
        sig = "txnotifier mismatch %s%s" % ("multi-request " if bk is mback else "", side)
        if bk is mback:
            if (sig, c["kind"]) in shown:
                continue
            shown.add((sig, c["kind"]))
        g = [idx[s] for s in opsidx if s < len(idx)]
        ctx.violation("correspondence_mismatch", what,
                      {"request": [side, x], "first_disagreeing_op_index": g[:1],
                       "disagreeing_ops": [c["ops"][s] for s in g[:3]],
                       "case": {**c, "ops": c["ops"][:(g[0] + 1) if g else None]}},
                      signature=sig,
                      failing_input=bool(pred(c)))
    bad = bad + mbad
    if not pr["ok"] and not ctx.violations:
        ctx.violation("proof_broken", ", ".join(pr["broken"]) or "Notifier build",
                      {"log": pr["log"][-4000:]}, signature="proof", failing_input=False)
    if ctx.thorough and pr["ok"]:
        ctx.coqchk(["LV.Notifier.Props"])
    # coverage
    opk, kinds, modes, evk = {}, {}, {}, {}
    nops = 0
    depth_hist = {}
    for c in rows:
        kinds[c["kind"]] = kinds.get(c["kind"], 0) + 1
        nops += len(c["ops"])
        run_d = 0
        for o in c["ops"]:
            k = o["op"][0] + ("" if o["ret"] == "ok" or isinstance(o["ret"], list)
                              else ":" + str(o["ret"])[:2])
            if o["op"][0] in ("reg", "sreg") and isinstance(o["ret"], list):
                k += ":rescan"
            opk[k] = opk.get(k, 0) + 1
            if o["op"][0] in ("upd", "supd"):
                m = o["op"][3] + (":found" if o["op"][2] else ":none")
                modes[m] = modes.get(m, 0) + 1
            if o["op"][0] == "disc" and o["ret"] == "ok":
                run_d += 1
            elif o["op"][0] == "conn":
                if run_d:
                    depth_hist[run_d] = depth_hist.get(run_d, 0) + 1
                run_d = 0
            for rec in (o.get("ev") or {}).values():
                for ch in rec:
                    evk[ch] = evk.get(ch, 0) + 1
    coll, coll_cases = {}, {}
    for c in rows:
        cs = collision_stats(c)
        d = coll.setdefault(c["kind"], {})
        for k, v in cs.items():
            d[k] = d.get(k, 0) + v
            if v:
                coll_cases[k] = coll_cases.get(k, 0) + 1
    clients_per_req = {}
    for c in rows:
        if c["kind"] not in MULTI_KINDS:
            continue
        per = {}
        for o in c["ops"]:
            if o["op"][0] in ("reg", "sreg") and (o["ret"] == "ok" or isinstance(o["ret"], list)):
                per[(o["op"][0], o["op"][1])] = per.get((o["op"][0], o["op"][1]), 0) + 1
        for v in per.values():
            clients_per_req[min(v, 5)] = clients_per_req.get(min(v, 5), 0) + 1
    cu_depth, cu_lead, cu_events = {}, {}, {"rewinds_with_reorg_notice": 0, "rewinds": 0}
    for c in rows:
        if c["kind"] != "catchup":
            continue
        for o in c["ops"]:
            if o["op"][0] == "rewind":
                d, lead = len(o["op"][1]), o["op"][2] - o["op"][3]
                cu_depth[d] = cu_depth.get(d, 0) + 1
                cu_lead[lead] = cu_lead.get(lead, 0) + 1
                cu_events["rewinds"] += 1
                if any(r.get("n") or r.get("r") for r in (o.get("ev") or {}).values()):
                    cu_events["rewinds_with_reorg_notice"] += 1
    ctx.cov.update({
        "catchup_fork_depth_hist": cu_depth,
        "catchup_notified_height_minus_best_hist": cu_lead,
        "catchup_rewinds": cu_events,
        "shared_index_collisions_by_kind": coll,
        "cases_with_collision": coll_cases,
        "multi_request_clients_per_request_hist(5=5+)": clients_per_req,
        "evaluations": len(terms) + len(mterms),
        "evaluations_per_request_model": len(terms),
        "cases_not_projected_per_request": skipped_per_request,
        "evaluations_multi_request_model": len(mterms),
        "distinct_nontrivial": distinct_count([c for c in rows if len(c["ops"]) > 5],
                                              lambda c: [o["op"] for o in c["ops"]]),
        "rule": "one harness case = one chain history over 3 txs (T0/T1 conflicting spends of "
                "outpoint 0, T2 spends outpoint 1; multi-request kinds 'multi' (seeded) and 'mcoll' "
                "(enumerated collision family): 4 txs / 3 outpoints, several clients per request, "
                "numConfs chosen so that due heights of different requests coincide) driven through "
                "the real TxNotifier + bbolt "
                "HeightHintCache; evaluations = per-request projections checked against the "
                "per-request model (5 per case) + for multi-request kinds the WHOLE history checked "
                "against the multi-request model with the shared height indexes (2 per case: conf "
                "side, spend side); kind 'catchup' (enumerated: fork depth 0-3 x new-branch length x "
                "which block of the new chain the notifier hears about x position of the watched tx "
                "on the old / new branch): the backend-facing catch-up layer "
                "chainntnfs.HandleMissedBlocks / GetCommonBlockAncestorHeight / RewindChain driven "
                "through an in-memory ChainConn with all intermediate notifications dropped; the trace "
                "records the CANONICAL in-order sequence (one block-step of DisconnectTips down to the "
                "common ancestor, then ConnectTip+NotifyHeight up to the notified block) paired with "
                "what the real code did, the model is fed that canonical sequence (MExec block steps) "
                "and the final client state is judged against the backend's final active chain; "
                "non-trivial = more than 5 ops, distinct by full op list; "
                "every history is followed by a 'restart' case: fresh TxNotifier on the same hint "
                "cache at the final tip, every request re-registered with hint = cached hint, "
                "rescan served truthfully (client must be notified iff confirmed/spent)",
        "traces_validated_against_impl": len(rows),
        "ops_total": nops, "case_kinds": kinds, "op_kinds": opk, "rescan_answer_modes": modes,
        "event_channels": evk, "reorg_depth_hist": depth_hist,
        "limits": {str(l): sum(1 for c in rows if c["limit"] == l)
                   for l in sorted({c["limit"] for c in rows})},
        "predicate": stats,
        "samples": [[o["op"] for o in rows[0]["ops"][:8]]],
        "correspondence_mismatches": len(bad),
        "partial_reorg_witness_on_impl": [
            {"case": c["ci"], "after_op": k} for c in rows if c["kind"] == "directed"
            for k in [partial_reorg_witness(c)] if k is not None][:4],
    })
    ctx.assumptions += [
        "every clause of C14 is a theorem about the model (spend and confirmation side); the "
        "persistent form of 'Confirmed => the tx still has >= N confirmations' is refuted "
        "(C14_conf_exact_partial_reorg_refuted: no NegativeConf on a partial reorg, pinned by "
        "lnd's TestTxNotifierReorgPartialConfirmation) and holds at emission time only "
        "(C14_conf_exact_emit); see notes/C14.md",
        "the multi-request model (MModel.v) is tied to the real TxNotifier by correspondence on "
        "histories with up to 4 conf / 3 spend requests and colliding index buckets; for calls of "
        "single-history kinds the per-request projections are compared (justified for the model by "
        "C14_multi_*_independent)",
        "harness drains every client channel after every call, so the notifier's own "
        "channel-draining code paths (stale Confirmed/Updates/Reorg removal) are not observed",
        "script-based (ZeroHash / ZeroOutPoint) requests, includeBlock and TearDown are not modelled",
    ]
