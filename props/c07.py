"""C07 — the switch forwards each HTLC at most once and relays at most one response."""
import json
import os

from lib.verif import *

THEOREMS = [
    "C07_add_once", "C07_adds_returned_are_decided", "C07_one_response_per_run",
    "C07_restart_exact", "C07_restart_gap_refuted", "C07_rollback", "C07_discipline_invariant",
    "C07_restart_identity",
]
MODULE = "LV.Circuit.Props"
TARGETS = ["theories/Circuit/Props.vo", "theories/Circuit/Exec.vo", "theories/Circuit/Examples.vo"]
HARNESS = ["htlcswitch/verif_circuit_test.go", "htlcswitch/verif_circuit_ident_test.go"]
WARM = [{"pkg": "htlcswitch", "files": HARNESS}]
IMPORTS = ("From stdpp Require Import gmap.\n"
           "From LV Require Import Circuit.Model Circuit.Identity Circuit.Exec.\n")


# ---- Coq term printers ------------------------------------------------------

def ck(k):
    return "(%d, %d)" % (k[0], k[1])


def cview(v):
    return "(%s, %s, %s, %d)" % (ck(v[0:2]), copt(v[2], ck), cbool(v[3]), v[4])


def crec(r):
    return "(ChanRec %d %s %s %d %s %s %d)" % (r[0], cbool(r[1]), cbool(r[2]), r[3], cbool(r[4]),
                                             copt(r[5], lambda x: "%d" % x), r[6])


def crc(rc):
    if "records" in rc:
        # channel-identity cases: the model derives the restart configuration from the channel
        # RECORDS (Circuit/Identity.v), cr_short being the id the live link uses
        return "(rc_of_records %s %s %s)" % (
            clist(["(%s, %s)" % (crec(c[0]), cbool(c[1])) for c in rc["records"]["closed"]]),
            clist([ck(k) for k in rc["resmsg"]]),
            clist([crec(a) for a in rc["records"]["active"]]))
    return "(RConf %s %s %s)" % (
        clist(["(%d, %s)" % (c[0], cbool(c[1])) for c in rc["closed"]]),
        clist([ck(k) for k in rc["resmsg"]]),
        clist(["(%d, %s, %s, %d)" % (a[0], cbool(a[1]), copt(a[2], lambda x: "%d" % x), a[3])
               for a in rc["active"]]))


def cinput(i):
    if i[0] == "call":
        t, kind = i[1], i[2]
        if kind == "commit":
            c = "CCommit %s" % clist(["(%s, %d)" % (ck(x[0:2]), x[2]) for x in i[3]])
        elif kind == "open":
            c = "COpen %s" % clist(["(%s, %s)" % (ck(x[0:2]), ck(x[2:4])) for x in i[3]])
        elif kind == "trim":
            c = "CTrim %d %d" % (i[3], i[4])
        elif kind == "close":
            c = "CClose %s" % ck(i[3:5])
        elif kind == "fail":
            c = "CFail %s" % ck(i[3:5])
        elif kind == "delete":
            c = "CDelete %s" % clist([ck(x) for x in i[3]])
        else:
            raise ValueError(kind)
        return "ICall %d (%s)" % (t, c)
    if i[0] == "disk":
        return "IDisk %d %s" % (i[1], cbool(i[2]))
    if i[0] == "mem":
        return "IMem %d" % i[1]
    if i[0] == "restart":
        return "IRestart %s" % crc(i[1])
    raise ValueError(i[0])


def cobs(o):
    if o[0] == "yield":
        return "BYield"
    if o[0] == "commit":
        return "BCommit %s %s %s %s" % (clist([ck(k) for k in o[1]]), clist([ck(k) for k in o[2]]),
                                        clist([ck(k) for k in o[3]]), cbool(o[4]))
    if o[0] == "err":
        return "BErr %d" % o[1]
    if o[0] == "circ":
        return "BCirc %s" % cview(o[1])
    if o[0] == "restarted":
        return "BRestarted"
    raise ValueError(o[0])


def csnap(s):
    def ent(l):
        return clist(["(%s, %s)" % (ck(e[0]), cview(e[1])) for e in l])
    return "(%d, %d, %s, %s)" % (s["np"], s["no"], ent(s["p"]), ent(s["o"]))


def case_term(c):
    steps = clist(["(%s, %s, %s)" % (cinput(s["in"]), cobs(s["out"]), csnap(s["snap"]))
                   for s in c["steps"]])
    return "((%s : list key), (%s : list tstep))%%N" % (clist([ck(k) for k in c["univ"]]), steps)


# ---- property predicate on the implementation's own trace ----------------------

EMPTY = {"np": 0, "no": 0, "p": [], "o": []}
nrestart_checked = [0]
nrestart_contig = [0]
nrestart_gap = [0]
nrestart_trimming = [0]
nfailed_delete_wf = [0]
nfailed_delete_notwf = [0]
witness_seen = {}
ndisc_states = [0]
ndisc_cases = [0]
ident_stats = {"kinds": {}, "shapes": {}, "channel_state_at_restart": {},
               "uncommitted_keystones_required_rolled_back": {}, "committed_keystones_required_open": {},
               "replayed_adds_required_failed_back": 0, "replayed_adds_required_dropped": 0,
               "keystones_of_closed_or_closing_channels_left_to_the_purge_rule": 0}


def kt(k):
    return (k[0], k[1])


def pend_keys(snap):
    return {kt(e[0]) for e in snap["p"]}


def snap_wf(snap):
    """every pending circuit that claims an outgoing key is the circuit opened under it"""
    op = {kt(e[0]): e[1] for e in snap["o"]}
    for e in snap["p"]:
        v = e[1]
        if v[2] is not None:
            o = op.get(kt(v[2]))
            if o is None or kt(o[0:2]) != kt(v[0:2]):
                return False
    return True


def snap_coherent(snap):
    """observable part of Spec.mem_coherent: pending / opened / Outgoing agree"""
    pv = {kt(e[0]): e[1] for e in snap["p"]}
    ov = {kt(e[0]): e[1] for e in snap["o"]}
    for k, v in pv.items():
        if kt(v[0:2]) != k:
            return "pending[%s] holds circuit %s" % (k, v)
        if v[2] is not None:
            o = ov.get(kt(v[2]))
            if o is None or kt(o[0:2]) != k:
                return "circuit %s claims keystone %s which is not opened for it" % (k, v[2])
    for ok, v in ov.items():
        p = pv.get(kt(v[0:2]))
        if p is None or p[2] is None or kt(p[2]) != ok:
            return "opened[%s] -> %s is not the keystone of a pending circuit" % (ok, v[0:2])
    if snap["np"] != len(snap["p"]) or snap["no"] != len(snap["o"]):
        return "NumPending/NumOpen disagree with the lookups"
    return None


def single_ks(snap):
    """no incoming key is claimed by two keystones (the link opens a circuit once)"""
    ins = [kt(e[1][0:2]) for e in snap["o"]]
    return len(ins) == len(set(ins)) and all(e[1][2] == e[0] for e in snap["o"])


def restart_sets(pre, rc):
    """Purge rule of cleanClosedChannels on the implementation's own pre-restart
    observation (valid when memory == disk, see caller): durable circuits and the
    live keystones (= cm.opened after restoreMemState)."""
    closed = {c[0] for c in rc["closed"] if not c[1] and c[0] != 0}
    resmsg = {kt(k) for k in rc["resmsg"]}
    ks = {kt(e[0]): kt(e[1][0:2]) for e in pre["o"]}          # out -> in
    pays = {kt(e[0]): e[1][4] for e in pre["p"]}
    purge_ks = {o for o, i in ks.items()
                if i[0] in closed or (o[0] in closed and o not in resmsg)}
    purge_in = {k for k in pays if k[0] in closed} | {ks[o] for o in purge_ks}
    pend = {k: p for k, p in pays.items() if k not in purge_in}
    live = {o: i for o, i in ks.items() if o not in purge_ks and i in pend}
    return pend, live


def act_starts(rc):
    """(channel, NextLocalHtlcIndex) pairs trimAllOpenCircuits trims with"""
    out = []
    for scid, ispending, tip, ridx in rc["active"]:
        if ispending or scid == 0:
            continue
        out.append((scid, tip if tip is not None else ridx))
    return out


def contiguous_on_disk(live, rc):
    """Hypothesis of C07_restart_exact (Spec.contiguous_on_disk): the live keystones of
    an active channel at or above its NextLocalHtlcIndex form one block starting there."""
    for scid, start in act_starts(rc):
        ids = sorted(o[1] for o in live if o[0] == scid and o[1] >= start)
        if ids != list(range(start, start + len(ids))):
            return False
    return True


def expected_after_restart(pre, rc):
    """Set-level restart specification.  Returns (pend, opened, outs, contiguous).
    When the contiguity hypothesis holds `opened` is the closed form of
    C07_restart_exact (live keystones strictly below NextLocalHtlcIndex); otherwise
    the scan rule of TrimOpenCircuits (contiguous run from start, entry by entry)."""
    pend, live = restart_sets(pre, rc)
    contig = contiguous_on_disk(live, rc)
    if contig:
        starts = act_starts(rc)
        opened = {o: i for o, i in live.items()
                  if not any(o[0] == c and o[1] >= st for c, st in starts)}
    else:
        opened = dict(live)
        for scid, i in act_starts(rc):
            while (scid, i) in opened:
                del opened[(scid, i)]
                i += 1
    trimmed_in = {i for o, i in live.items() if o not in opened}
    outs = {}
    for o, i in opened.items():
        if i in trimmed_in:
            continue          # Outgoing is nil as soon as one keystone of the circuit was trimmed
        if i not in outs or o > outs[i]:
            outs[i] = o
    return pend, opened, outs, contig


def ident_predicate(case):
    """Channel-identity cases: the restart clause of the property read DIRECTLY against the
    harness's own bookkeeping (which outgoing HTLC of which real channel was signed into a
    commitment), independent of the model and of the restart configuration: on an open channel
    of ANY identity kind a committed outgoing HTLC keeps its circuit open under the id the link
    uses and the replayed incoming ADD is dropped; an outgoing HTLC that never reached a
    commitment is rolled back to half-open and the replayed ADD is FAILED back (not lost)."""
    fails = []
    st = case["steps"]
    rs = st[case["restart_step"]]
    n = case["restart_step"]
    opened = {kt(e[0]): kt(e[1][0:2]) for e in rs["snap"]["o"]}
    pend = {kt(e[0]): e[1] for e in rs["snap"]["p"]}
    rp = st[case["replay_step"]]["out"] if case["replay_step"] > n else None
    drops = {kt(x) for x in rp[2]} if rp and rp[0] == "commit" else set()
    rfails = {kt(x) for x in rp[3]} if rp and rp[0] == "commit" else set()
    cstate = {0: "open", 1: "close-pending", 2: "fully-closed"}
    links = set()
    for ch in case["chans"]:
        kind = ch["kind"]
        ident_stats["kinds"][kind] = ident_stats["kinds"].get(kind, 0) + 1
        sh = "locked%d/signed%d/unsigned%d" % tuple(ch["shape"])
        ident_stats["shapes"][sh] = ident_stats["shapes"].get(sh, 0) + 1
        cs = cstate[ch["closed"]] if kind != "funding-pending" else "funding-pending"
        ident_stats["channel_state_at_restart"][cs] = ident_stats["channel_state_at_restart"].get(cs, 0) + 1
        links.add(ch["link"])
        what = "%s channel (link id %d, alias %d, confirmed scid %d)" % (kind, ch["link"], ch["alias"],
                                                                      ch["confirmed"])
        for h in ch["htlcs"]:
            i, o = kt(h["in"]), kt(h["out"])
            if h["answered"]:
                if o in opened or i in pend:
                    fails.append(("C07_restart_exact", "step %d: circuit %s -> %s of a %s was answered and "
                                  "deleted before the restart but is back" % (n, i, o, what)))
                continue
            if ch["closed"] != 0:
                # close summary written: purge rule / nothing at all while the close is pending;
                # covered by the set-level restart specification of predicate()
                ident_stats["keystones_of_closed_or_closing_channels_left_to_the_purge_rule"] += 1
                continue
            if h["committed"]:
                d = ident_stats["committed_keystones_required_open"]
                d[kind] = d.get(kind, 0) + 1
                if opened.get(o) != i or i not in pend or pend[i][2] is None or kt(pend[i][2]) != o:
                    fails.append(("C07_restart_exact", "step %d: outgoing HTLC %s of a %s reached a commitment "
                                  "but its circuit %s is not open under the link's id after the restart"
                                  % (n, o, what, i)))
                elif rp is not None:
                    ident_stats["replayed_adds_required_dropped"] += 1
                    if i not in drops or i in rfails:
                        fails.append(("C07_restart_exact", "step %d: replayed ADD %s (outgoing HTLC %s of a %s is "
                                      "committed) was not dropped" % (case["replay_step"], i, o, what)))
            else:
                d = ident_stats["uncommitted_keystones_required_rolled_back"]
                d[kind] = d.get(kind, 0) + 1
                if o in opened or i not in pend or pend[i][2] is not None:
                    fails.append(("C07_restart_exact", "step %d: outgoing HTLC %s of a %s never reached a commitment "
                                  "but its circuit %s is still open after the restart (not rolled back to "
                                  "half-open)" % (n, o, what, i)))
                if rp is not None:
                    ident_stats["replayed_adds_required_failed_back"] += 1
                    if i not in rfails:
                        fails.append(("C07_restart_exact", "step %d: replayed ADD %s was %s instead of failed back "
                                      "although its outgoing HTLC %s on a %s never reached a commitment: the "
                                      "incoming HTLC gets no response"
                                      % (case["replay_step"], i, "dropped" if i in drops else "not answered",
                                         o, what)))
    for o in opened:
        if o[0] not in links:
            fails.append(("C07_restart_exact", "step %d: keystone %s is open under an id no link uses" % (n, o)))
    return fails


def predicate(case):
    """Returns list of (theorem, message).  Model-independent: only the
    implementation's returned values and lookups are used."""
    fails = []
    if case["mode"] == "ident":
        fails += ident_predicate(case)
    seq = case["mode"] in ("seq", "exh", "ident") or (case["mode"] == "wit" and case.get("name") != "delete_races_commit")
    responded, addev = set(), {}
    calls = {}            # thread -> dict(kind, args, pre snapshot, removed keys, adds)
    prev = EMPTY
    mem_is_disk = True    # no failed trim transaction since the last restart, no call in flight
    # protocol-clean: no incoming key was ever given a second keystone and no batch reused an
    # outgoing key (the link opens a circuit once, with a fresh htlc index); otherwise stray
    # keystones can exist on disk that the pre-restart memory does not show
    clean = True
    # link/switch call discipline (Spec.call_disciplined / DisciplineProofs.seq_disciplined), evaluated
    # on the implementation's own observations; while a single-thread history is disciplined
    # the invariant of C07_discipline_invariant must hold in every state
    disc = seq
    for n, st in enumerate(case["steps"]):
        i, o, snap = st["in"], st["out"], st["snap"]
        if disc and i[0] == "call":
            pvd = {kt(e[0]): e[1] for e in prev["p"]}
            if i[2] == "open":
                ins_ = [kt(x[0:2]) for x in i[3]]
                outs__ = [kt(x[2:4]) for x in i[3]]
                if (len(set(ins_)) != len(ins_) or len(set(outs__)) != len(outs__)
                        or any(k not in pvd or pvd[k][2] is not None for k in ins_)):
                    disc = False
            elif i[2] == "delete":
                if any(kt(k) in pvd and kt(k) not in responded for k in i[3]):
                    disc = False
        if disc and i[0] == "restart" and not (mem_is_disk and not calls):
            disc = False
        if i[0] == "call":
            t, kind = i[1], i[2]
            info = {"kind": kind, "pre": prev, "in": i, "step": n}
            if kind == "commit":
                seen, adds = set(), []
                for x in i[3]:
                    k = kt(x)
                    if k not in pend_keys(prev) and k not in seen:
                        adds.append(k)
                    seen.add(k)
                info["adds"] = adds
                # decision table on the implementation's own observation: a pending circuit
                # restored from disk whose keystone is gone must be FAILED back, any other
                # pending circuit dropped, an unknown one added
                if o[0] == "commit":
                    got = {"drop": [kt(x) for x in o[2]], "fail": [kt(x) for x in o[3]]}
                    pv = {kt(e[0]): e[1] for e in prev["p"]}
                    for k in dict.fromkeys(kt(x) for x in i[3]):
                        if k in pv and not (o[4]):
                            want = "fail" if (pv[k][3] and pv[k][2] is None) else "drop"
                            other = "drop" if want == "fail" else "fail"
                            if k not in got[want] or k in got[other]:
                                fails.append(("C07_restart_exact",
                                              "step %d: re-forward of pending %s (loaded=%s, keystone=%s) "
                                              "was not answered with %s" % (n, k, pv[k][3], pv[k][2], want)))
            if kind == "delete":
                rem = [kt(k) for k in i[3] if kt(k) in pend_keys(prev)]
                info["removed"] = rem
                info["removed_responded"] = [k for k in rem if k in responded]
                for k in rem:
                    responded.discard(k)
                    addev.setdefault(k, []).append((n, "clear"))
            if kind == "open":
                ins = [kt(x[0:2]) for x in i[3]]
                outs_ = [kt(x[2:4]) for x in i[3]]
                have = {kt(e[1][0:2]) for e in prev["o"]}
                if len(set(ins)) != len(ins) or len(set(outs_)) != len(outs_) or have & set(ins):
                    clean = False
            if kind in ("close", "fail") and o[0] == "circ":
                k = kt(o[1][0:2])
                if k in responded:
                    fails.append(("C07_one_response_per_run",
                                  "step %d: second successful settle/fail for incoming %s "
                                  "without delete or restart in between" % (n, k)))
                responded.add(k)
                if kind == "fail" and k != kt(i[3:5]):
                    fails.append(("C07_one_response_per_run", "step %d: FailCircuit returned circuit %s" % (n, k)))
            if o[0] == "yield":
                calls[t] = info
            elif kind == "commit" and o[0] == "commit" and o[1]:
                fails.append(("C07_add_once", "step %d: Adds returned without a durable write" % n))
        elif i[0] == "disk":
            info = calls.get(i[1])
            if info is not None:
                info["ok"] = i[2]
                if info["kind"] == "trim" and not i[2]:
                    mem_is_disk = False
        elif i[0] == "mem":
            info = calls.pop(i[1], None)
            if info is not None:
                if info["kind"] == "commit":
                    if o[0] == "commit" and not o[4]:
                        # the Add decision is taken in the call's memory phase
                        for k in (kt(x) for x in o[1]):
                            addev.setdefault(k, []).append((info["step"], "add"))
                        if seq and [kt(x) for x in o[1]] != info["adds"]:
                            fails.append(("C07_add_once", "step %d: Adds %s differ from the keys that "
                                          "were not pending %s" % (n, o[1], info["adds"])))
                    else:
                        for k in info["adds"]:
                            addev.setdefault(k, []).append((n, "clear"))
                            responded.discard(k)
                        if o[0] == "commit" and o[1]:
                            fails.append(("C07_rollback", "step %d: failed commit still returned Adds" % n))
                if info["kind"] == "delete" and info.get("ok") is False and seq:
                    # the rollback restores the closing marks as well: the circuits are still
                    # answered (a further settle/fail must be refused)
                    responded.update(info.get("removed_responded", []))
                # rollback: a failed transaction leaves every observable as before the call
                if seq and info.get("ok") is False and info["kind"] == "delete":
                    # hypothesis wf_out of C07_rollback's DeleteCircuits clause, checked on the
                    # implementation's own state before the call
                    if snap_wf(info["pre"]):
                        nfailed_delete_wf[0] += 1
                    else:
                        nfailed_delete_notwf[0] += 1
                if seq and info.get("ok") is False and info["kind"] == "trim":
                    # TrimOpenCircuits has no rollback (C07_rollback, last clause): the call
                    # reports the error and the keystones stay trimmed in memory
                    if o != ["err", 4]:
                        fails.append(("C07_rollback", "step %d: failed trim returned %s" % (n, o)))
                if seq and info.get("ok") is False and info["kind"] in ("commit", "open", "delete"):
                    if (info["kind"] != "delete" or snap_wf(info["pre"])) and snap != info["pre"]:
                        fails.append(("C07_rollback",
                                      "steps %d-%d: observables differ after a failed %s transaction"
                                      % (info["step"], n, info["kind"])))
        elif i[0] == "restart":
            rc = i[1]
            if seq and clean and mem_is_disk and not calls and single_ks(prev) and snap_wf(prev):
                nrestart_checked[0] += 1
                pend, opened, outs, contig = expected_after_restart(prev, rc)
                if contig:
                    nrestart_contig[0] += 1
                    if len(opened) < len(restart_sets(prev, rc)[1]):
                        nrestart_trimming[0] += 1
                else:
                    nrestart_gap[0] += 1
                gotp = {kt(e[0]): e[1] for e in snap["p"]}
                goto = {kt(e[0]): e[1] for e in snap["o"]}
                if set(gotp) != set(pend):
                    fails.append(("C07_restart_exact", "step %d: pending after restart %s, durable %s"
                                  % (n, sorted(gotp), sorted(pend))))
                elif set(goto) != set(opened):
                    fails.append(("C07_restart_exact", "step %d: opened after restart %s, expected %s"
                                  % (n, sorted(goto), sorted(opened))))
                else:
                    for k, v in gotp.items():
                        want_out = outs.get(k)
                        got_out = kt(v[2]) if v[2] is not None else None
                        if not v[3] or v[4] != pend[k] or kt(v[0:2]) != k or got_out != want_out:
                            fails.append(("C07_restart_exact", "step %d: circuit %s restored as %s "
                                          "(expected out %s, loaded, amount %s)" % (n, k, v, want_out, pend[k])))
                    for o_, v in goto.items():
                        if kt(v[0:2]) != opened[o_]:
                            fails.append(("C07_restart_exact", "step %d: keystone %s -> %s, expected %s"
                                          % (n, o_, v, opened[o_])))
            if snap["np"] != len(snap["p"]) or snap["no"] != len(snap["o"]):
                fails.append(("C07_restart_exact", "step %d: NumPending/NumOpen disagree with lookups" % n))
            if any(not e[1][3] for e in snap["p"]):
                fails.append(("C07_restart_exact", "step %d: restored circuit not marked LoadedFromDisk" % n))
            # second restart with an empty configuration must change nothing
            if prev is not EMPTY and n > 0 and case["steps"][n - 1]["in"][0] == "restart" \
                    and not rc["closed"] and not rc["active"] and clean and single_ks(prev) and snap != prev:
                fails.append(("C07_restart_exact", "step %d: a second restart changed the state: memory "
                              "after restart was not what is on disk" % n))
            responded.clear()
            for k in addev:
                addev[k].append((n, "clear"))
            calls.clear()
            mem_is_disk = True
        if disc and not calls:
            why = snap_coherent(snap)
            ndisc_states[0] += 1
            if why:
                fails.append(("C07_discipline_invariant", "step %d: disciplined history reached an "
                              "incoherent circuit map: %s" % (n, why)))
                disc = False
        prev = snap
    if disc:
        ndisc_cases[0] += 1
    for k, evs in addev.items():
        last = None
        for tm, what in sorted(evs):
            if what == "add" and last == "add":
                fails.append(("C07_add_once", "commit at step %d: %s handed out in Adds twice without an "
                              "intervening delete/rollback/restart" % (tm, k)))
            last = what
    return fails


def witness_report(rows):
    """Do the scripted hazard histories (Examples.v / RestartProofs.v witnesses) still
    manifest on the real circuitMap?  Informational: the correspondence run already
    compares every step of them with the model."""
    rep = {}
    for c in rows:
        if c.get("mode") != "wit":
            continue
        st = c["steps"]
        last = st[-1]
        name = c["name"]
        try:
            if name == "gap":
                r = [x for x in st if x["in"][0] == "restart"][0]
                ok = any(kt(e[0]) == (2, 2) for e in r["snap"]["o"])
            elif name == "failed_trim":
                cm = [x for x in st if x["in"][0] == "call" and x["in"][2] == "commit"][-1]["out"]
                ok = ([1, 2] in cm[3] and [1, 1] in cm[2] and last["out"][0] == "circ"
                      and last["out"][1][0:2] == [1, 2])
            elif name == "delete_races_commit":
                rets = [x["out"] for x in st if x["in"][0] == "mem" and x["out"][0] == "commit"]
                ok = len(rets) == 2 and all(r[1] == [[1, 0]] and not r[4] for r in rets)
            elif name == "dup_out_in_batch":
                ok = last["out"] == ["err", 1] and any(kt(e[0]) == (1, 1) and e[1][2] == [2, 0]
                                                       for e in last["snap"]["p"])
            elif name == "double_keystone":
                ok = last["snap"]["np"] == 0 and any(kt(e[0]) == (2, 0) for e in last["snap"]["o"])
            elif name == "trim_no_rollback":
                ok = last["out"] == ["err", 4] and last["snap"]["no"] == 0
            elif name == "delete_rollback":
                pre = [x for x in st if x["in"][0] == "call" and x["in"][2] == "delete"][0]
                before = st[st.index(pre) - 1]["snap"]
                after = [x for x in st if x["in"][0] == "mem" and x["out"] == ["err", 4]][0]["snap"]
                ok = last["out"] == ["err", 3] and before == after
            else:
                ok = None
        except Exception as e:  # noqa
            ok = "unreadable: %s" % e
        rep[name] = "manifests" if ok is True else ("does NOT manifest" if ok is False else str(ok))
    return rep


def hist(rows):
    ops, outs, modes, fails = {}, {}, {}, 0
    for c in rows:
        modes[c["mode"]] = modes.get(c["mode"], 0) + 1
        for s in c["steps"]:
            i, o = s["in"], s["out"]
            key = i[0] if i[0] != "call" else "call:" + i[2]
            ops[key] = ops.get(key, 0) + 1
            if i[0] == "disk" and not i[1 + 1]:
                fails += 1
            ok = o[0] if o[0] != "err" else "err:%d" % o[1]
            if i[0] == "call":
                kk = i[2] + "->" + ok
                outs[kk] = outs.get(kk, 0) + 1
    return ops, outs, modes, fails


def run_cases(ctx, suffix, env, timeout=1500, race=False):
    e = {"TMPDIR": pick_tmp()}
    e.update(env or {})
    rc, trace, out = run_harness(ctx.uid(suffix), "htlcswitch", HARNESS, "^TestVerifCircuit$",
                                 env=e, timeout=timeout, race=race)
    rows = read_jsonl(trace)
    if rc != 0 or not rows:
        ctx.violation("harness_failed", "TestVerifCircuit" + suffix, {"log": out[-4000:]},
                      signature="harness", failing_input=False)
        return None
    return rows


def pick_tmp():
    # bbolt fsyncs every transaction: keep the scratch databases on a RAM disk
    # when there is one (never /tmp).
    for d in ("/dev/shm", "/var/tmp"):
        if os.path.isdir(d) and os.access(d, os.W_OK):
            p = os.path.join(d, "verif-c07")
            os.makedirs(p, exist_ok=True)
            return p
    return "/var/tmp"


def judge(ctx, rows, suffix, label):
    """predicate + correspondence on a batch of cases; returns #mismatches"""
    nfail = 0
    for c in rows:
        f = predicate(c)
        if f:
            nfail += 1
            if nfail <= 3:
                ctx.violation("impl_violates_predicate", f[0][0],
                              {"case": c, "fails": [m for _, m in f], "batch": label},
                              signature="circuit %s %s" % (f[0][0], f[0][1]))
    terms = [case_term(c) for c in rows]
    ok, bad, logs = coq_mismatches(ctx.uid(suffix), IMPORTS, terms,
                                   shard=max(4, len(terms) // NCPU + 1))
    if not ok:
        ctx.violation("correspondence_mismatch", "Circuit.Exec (model evaluation failed)",
                      {"logs": logs, "batch": label}, signature="model-eval", failing_input=False)
    for ci, idx in bad[:3]:
        c = rows[ci]
        first = idx[0]
        ctx.violation("correspondence_mismatch", "Circuit.Exec.check_case",
                      {"case_index": c["case"], "mode": c["mode"], "batch": label,
                       "first_disagreeing_step": first,
                       "inputs_up_to_there": [s["in"] for s in c["steps"][:first + 1]],
                       "implementation_output": c["steps"][first]["out"],
                       "implementation_state": c["steps"][first]["snap"],
                       "all_disagreeing_steps": idx, "case": c},
                      signature="circuit mismatch at %s" % json.dumps(c["steps"][first]["in"][:3]),
                      failing_input=True)
    return len(bad), nfail


def run(ctx):
    pr = ctx.proof_stage(MODULE, THEOREMS, TARGETS, extra_trusted=[
        "kvdb: one kvdb.Update/Batch = one atomic, durable step (bbolt is exercised, not modelled)",
        "PaymentCircuit Encode/Decode and the error-encrypter re-extraction are exercised by the "
        "harness (restored circuits are compared field by field) but not modelled",
        "link discipline hypotheses carried by the theorems (notes/C07.md, call-site argument): "
        "contiguous_on_disk (C07_restart_exact; refuted without it: C07_restart_gap_refuted), "
        "single_keystone (last clause of C07_restart_exact), wf_out (DeleteCircuits clause of "
        "C07_rollback); each is evaluated on the implementation's own state by the python predicate"])
    env = {}
    if ctx.replay:
        try:
            rp = json.load(open(ctx.replay))
            env["VERIF_SEED"] = rp.get("seed", ctx.seed)
            ci = rp.get("detail", {}).get("case_index", rp.get("detail", {}).get("case", {}).get("case"))
            if ci is not None:
                env["VERIF_C07_ONLY"] = ci
        except Exception as e:  # noqa
            ctx.note("replay file unreadable: %s" % e)
    rows = run_cases(ctx, "", env)
    if rows is None:
        return
    nbad, nfail = judge(ctx, rows, "", "seeded")
    allrows = list(rows)

    if ctx.thorough and not ctx.replay:
        # exhaustive small universe (2 in x 2 out keys): all op sequences of depth 3 + a strided
        # slice of depth 4, every sequence closed by a restart; and the -race run
        for depth, stride, name in ((3, 1, "exh3"), (4, 7, "exh4")):
            r2 = run_cases(ctx, "_" + name, {"VERIF_C07_EXH": depth, "VERIF_C07_EXH_STRIDE": stride},
                           timeout=2400)
            if r2 is None:
                return
            b2, f2 = judge(ctx, r2, "_" + name, name)
            nbad += b2
            nfail += f2
            allrows += r2
        r3 = run_cases(ctx, "_race", {"VERIF_CASES": 300}, timeout=2400, race=True)
        if r3 is not None:
            f3 = sum(1 for c in r3 if predicate(c))
            ctx.cov["race_cases"] = len(r3)
            if f3:
                ctx.violation("impl_violates_predicate", "C07 (-race run)", {"n": f3},
                              signature="circuit race-run predicate")
        okc, outc = ctx.coqchk(["LV.Circuit.Props"])
        if not okc:
            ctx.violation("proof_broken", "coqchk LV.Circuit.Props", {"log": outc[-3000:]},
                          signature="coqchk", failing_input=False)

    if not pr["ok"] and not ctx.violations:
        # directed search: more cases, then give up with no-failing-input-found
        r4 = run_cases(ctx, "_search", {"VERIF_CASES": 1500, "VERIF_SEED": ctx.seed + 1000})
        if r4 is not None:
            judge(ctx, r4, "_search", "directed-search")
        if not ctx.violations:
            ctx.violation("proof_broken", ", ".join(pr["broken"]) or "Circuit build",
                          {"log": pr["log"][-4000:]}, signature="proof", failing_input=False)

    # switch stage: the at-most-once clauses on the RUNNING switch (three-hop fixture with restarts,
    # disconnects in the middle of a forwarding batch, forwards bounced by the outgoing link); the
    # harness and the predicate live in props/c08.py, coverage is nested under cov["switch_stage"]
    if not ctx.replay and not os.environ.get("VERIF_C07_NO_SWITCH_STAGE"):
        from props import c08 as _c08
        _c08.run_switch_stage(ctx)

    ops, outs, modes, dfails = hist(allrows)
    nsteps = sum(len(c["steps"]) for c in allrows)
    ctx.cov.update({
        "evaluations": len(allrows),
        "distinct_nontrivial": distinct_count([c for c in allrows if len(c["steps"]) > 8],
                                              lambda c: [s["in"] for s in c["steps"]]),
        "rule": "seeded phase-step schedules over 4 channels x 6 htlc ids (1 thread = atomic calls, "
                "2-3 threads = interleaved memory/disk/memory phases, injected transaction failures, "
                "restarts with closed/active/resolution-message configurations); non-trivial = more "
                "than 8 steps; distinct by full input list",
        "traces_validated_against_impl": len(allrows),
        "steps_total": nsteps, "case_modes": modes, "input_kinds": ops, "call_outcomes": outs,
        "injected_tx_failures": dfails,
        "samples": [[s["in"] for s in allrows[0]["steps"][:8]]],
        "correspondence_mismatches": nbad, "predicate_failures": nfail,
        "restarts_checked_against_set_level_spec": nrestart_checked[0],
        "restarts_where_contiguity_hypothesis_holds": nrestart_contig[0],
        "restarts_where_contiguity_holds_and_keystones_are_rolled_back": nrestart_trimming[0],
        "restarts_with_a_gap_checked_against_scan_rule": nrestart_gap[0],
        "failed_deletes_with_wf_out_hypothesis": nfailed_delete_wf[0],
        "failed_deletes_without_wf_out": nfailed_delete_notwf[0],
        "witness_histories_on_real_code": witness_report(allrows),
        "states_of_disciplined_prefixes_checked_coherent": ndisc_states[0],
        "histories_disciplined_to_the_end": ndisc_cases[0],
        "channel_identity_cases": dict(ident_stats, what=(
            "mode 'ident': real lnwallet channels over real channeldb records of every identity kind "
            "(regular, zero-conf unconfirmed / confirmed / confirmed after the keystones / re-confirmed "
            "after a reorg, option-scid-alias channel type, scid-alias feature only, anchors zero-conf, "
            "funding-pending) x HTLC shapes (locked-in / signed / keystone only), optional real "
            "CloseChannel (pending or full) with resolution messages; keystones keyed by the live "
            "link's ShortChanID; NewCircuitMap over the real FetchAllOpenChannels/FetchClosedChannels; "
            "replay of the incoming forwarding package; link start trim; second restart; counts are "
            "per channel / per keystone checked by the model-independent truth predicate")),
    })
    ctx.assumptions += [
        "atomicity/durability of a kvdb transaction (bbolt) is assumed, not proved",
        "Go map iteration order in DeleteCircuits' rollback is modelled as list order; it is only "
        "observable when two removed circuits claim the same outgoing key (harness never fails such a delete)",
        "HtlcID wrap at 2^64 in TrimOpenCircuits' scan is outside the model (N, no wrap)",
    ]
